(* C06 - Response manipulation is exact: hidden fields never leak, shape as configured.
   Only theorem statements, each closed by an exact lemma, and Print Assumptions. *)
Require Import Verif.Common.Base Verif.Common.Json.
Require Import Verif.Model.C06 Verif.Spec.C06 Verif.Proof.C06 Verif.Proof.C06_d Verif.Proof.C06_e Verif.Proof.C06_f Verif.Proof.C06_g Verif.Proof.C06_h Verif.Proof.C06_i Verif.Proof.C06_j Verif.Proof.C06_k.
Require Import Coq.Sorting.Permutation.

(* ALLOW LIST = exactly the projection onto the listed dot-paths.  For every prefix-free
   list, every well-formed document (a Go map has no duplicate keys) and every path p:
   at or below a listed path the output holds the document's value unchanged (absent if
   absent); anywhere else p is present iff some listed path strictly below p exists in the
   document, and then it is an object.  (allow_exact_at, Spec/C06.v) *)
Theorem C06_allow_exact : forall L d,
  nonempty_paths L -> prefix_free L -> wfj (JObj d) = true ->
  forall p, p <> [] ->
  allow_exact_at L (JObj d) (JObj (allow_filter (build_allow L) d)) p.
Proof. exact allow_exact. Qed.
Print Assumptions C06_allow_exact.

(* the same, for the filter stage as configured (lists of dotted strings) *)
Theorem C06_allow_exact_cfg : forall c t,
  allow c <> [] -> prefix_free (map split_dot (allow c)) -> wfj (JObj t) = true ->
  exists f, filter_stage c t = Ok f /\
    forall p, p <> [] -> allow_exact_at (map split_dot (allow c)) (JObj t) (JObj f) p.
Proof. exact allow_exact_cfg. Qed.
Print Assumptions C06_allow_exact_cfg.

(* why allow lists must be prefix-free: with ["a"; "a.b"] the dictionary built by
   buildDictPath keeps only a.b, so the listed path "a" does not keep its whole subtree *)
Theorem C06_allow_not_prefix_free_refuted :
  exists L d p, nonempty_paths L /\ wfj (JObj d) = true /\ p <> [] /\ ~ prefix_free L /\
    ~ allow_exact_at L (JObj d) (JObj (allow_filter (build_allow L) d)) p.
Proof.
  exists [["a"]; ["a"; "b"]], [("a", JObj [("b", JNum "1"); ("c", JNum "2")])], ["a"; "c"].
  split; [intros l [<-|[<-|[]]]; discriminate|].
  split; [reflexivity|]. split; [discriminate|]. split.
  - intros H. specialize (H ["a"] ["a"; "b"] (or_introl eq_refl) (or_intror (or_introl eq_refl)) eq_refl).
    discriminate.
  - intros [Hc _]. specialize (Hc eq_refl). vm_compute in Hc. discriminate.
Qed.
Print Assumptions C06_allow_not_prefix_free_refuted.

(* ====== ALLOW LISTS THAT ARE NOT PREFIX-FREE: exact semantics, for every list ======
   the dictionary newAllowlistingFilter builds from ANY list has exactly the paths of the
   effective list as leaves (effective, Spec/C06.v: a path discards the earlier paths it is
   comparable with) *)
Theorem C06_allow_leaves_any : forall L, nonempty_paths L ->
  forall l, leaf_of (build_allow L) l = true <-> In l (effective L).
Proof. exact build_allow_leaves_any. Qed.
Print Assumptions C06_allow_leaves_any.

Theorem C06_effective_prefix_free : forall L, prefix_free (effective L).
Proof. exact effective_prefix_free. Qed.
Print Assumptions C06_effective_prefix_free.

(* ... so for EVERY allow list the filter is exactly the projection onto its effective list *)
Theorem C06_allow_exact_any : forall L d,
  nonempty_paths L -> wfj (JObj d) = true ->
  forall p, p <> [] ->
  allow_exact_at (effective L) (JObj d) (JObj (allow_filter (build_allow L) d)) p.
Proof. exact allow_exact_any. Qed.
Print Assumptions C06_allow_exact_any.

Theorem C06_allow_exact_cfg_any : forall c t,
  allow c <> [] -> wfj (JObj t) = true ->
  exists f, filter_stage c t = Ok f /\
    forall p, p <> [] ->
    allow_exact_at (effective (map split_dot (allow c))) (JObj t) (JObj f) p.
Proof. exact allow_exact_cfg_any. Qed.
Print Assumptions C06_allow_exact_cfg_any.

(* a prefix-free list is its own effective list: C06_allow_exact is the special case *)
Theorem C06_effective_of_prefix_free : forall L, nonempty_paths L -> prefix_free L ->
  forall l, In l (effective L) <-> In l L.
Proof. exact effective_of_prefix_free. Qed.
Print Assumptions C06_effective_of_prefix_free.

Theorem C06_model_meets_oracle_allow_any : forall L d,
  nonempty_paths L -> wfj (JObj d) = true ->
  allow_ok (effective L) d (allow_filter (build_allow L) d) = true.
Proof. exact allow_ok_model_any. Qed.
Print Assumptions C06_model_meets_oracle_allow_any.

(* and why order independence needs the prefix-free hypothesis: the same paths in another
   order give another output *)
Theorem C06_allow_not_prefix_free_order_matters :
  exists L L' d, (forall l, In l L <-> In l L') /\
    allow_filter (build_allow L) d <> allow_filter (build_allow L') d.
Proof. exact allow_not_prefix_free_order_matters. Qed.
Print Assumptions C06_allow_not_prefix_free_order_matters.

(* WHICH FORMATTER (NewEntityFormatter / newFlatmapFormatter): the flatmap formatter replaces the
   manipulation of C06 exactly when the value under the proxy namespace of extra_config is an
   object whose "flatmap_filter" is a list holding some object with a string "type"; every
   other shape (absent, wrong type, empty list, unusable entries) leaves it in place *)
Theorem C06_flatmap_selection : forall ns, uses_flatmap ns = true <->
  exists e vs m t, ns = Some (JObj e) /\ lookup "flatmap_filter" e = Some (JArr vs) /\
                   In (JObj m) vs /\ lookup "type" m = Some (JStr t).
Proof. exact uses_flatmap_iff. Qed.
Print Assumptions C06_flatmap_selection.

(* DENY LIST = exactly the document minus the subtrees at the listed paths: at or below a
   listed path nothing is left; elsewhere absent stays absent, non-objects are unchanged,
   objects stay objects (possibly emptied).  No hypothesis on the list. *)
Theorem C06_deny_exact : forall L d,
  nonempty_paths L -> wfj (JObj d) = true ->
  forall p, deny_exact_at L (JObj d) (JObj (deny_filter (build_deny L) d)) p.
Proof. exact deny_exact. Qed.
Print Assumptions C06_deny_exact.

Theorem C06_deny_exact_cfg : forall c t,
  allow c = [] -> wfj (JObj t) = true ->
  exists f, filter_stage c t = Ok f /\
    forall p, deny_exact_at (map split_dot (deny c)) (JObj t) (JObj f) p.
Proof. exact deny_exact_cfg. Qed.
Print Assumptions C06_deny_exact_cfg.

(* manipulation never panics, whatever the payload and the configuration: the deny tree
   never holds anything but nil and maps, so recDelete's unchecked assertion cannot fail *)
Theorem C06_never_panics : forall c d, format c d <> Panic.
Proof. exact never_panics. Qed.
Print Assumptions C06_never_panics.

(* TARGET: the object at the target path, an empty object if absent or not an object *)
Theorem C06_target : forall c d, target_stage c d = target_spec c d.
Proof. exact target_stage_spec. Qed.
Print Assumptions C06_target.

(* ORDER: target; filter; mapping; group *)
Theorem C06_pipeline_order : forall c d,
  exists f, filter_stage c (target_spec c d) = Ok f /\
            format c d = Ok (group_spec c (mapping_stage c f)).
Proof. exact pipeline_order. Qed.
Print Assumptions C06_pipeline_order.

Theorem C06_group : forall c d f,
  format c d = Ok f ->
  if str_eqb (group c) "" then True else exists inner, f = [(group c, JObj inner)].
Proof. exact group_wraps. Qed.
Print Assumptions C06_group.

(* COLLECTIONS arrive under "collection" *)
Theorem C06_collection : forall c l,
  respond c true (JArr l) = Some (format c [("collection", JArr l)]).
Proof. exact collection_presented. Qed.
Print Assumptions C06_collection.

(* the split of dotted strings never yields an empty path *)
Theorem C06_paths_nonempty : forall L, nonempty_paths (map split_dot L).
Proof. exact split_paths_nonempty. Qed.
Print Assumptions C06_paths_nonempty.


(* NO LEAK, allow list: a non-object value reachable in the output sits at or below a listed
   path and is the document's value at that very path *)
Theorem C06_no_leak_allow : forall L d,
  nonempty_paths L -> prefix_free L -> wfj (JObj d) = true ->
  forall p x, get_path (JObj (allow_filter (build_allow L) d)) p = Some x -> is_obj x = false ->
  covered L p = true /\ get_path (JObj d) p = Some x.
Proof. exact no_leak_allow. Qed.
Print Assumptions C06_no_leak_allow.

(* NO LEAK, deny list: nothing at or below a listed path is reachable in the output, and what
   is reachable is the document's (non-object values unchanged) *)
Theorem C06_no_leak_deny : forall L d,
  nonempty_paths L -> wfj (JObj d) = true ->
  forall p x, get_path (JObj (deny_filter (build_deny L) d)) p = Some x ->
  covered L p = false /\
  exists y, get_path (JObj d) p = Some y /\ (is_obj x = false -> y = x).
Proof. exact no_leak_deny. Qed.
Print Assumptions C06_no_leak_deny.

(* NO VALUE IS ALTERED: every non-object value (scalars, arrays) reachable in the output of
   the whole pipeline - any target, allow/deny list, mapping (overlapping or not), group - is
   a value of the input document *)
Theorem C06_values_untouched : forall c d out,
  wfj (JObj d) = true -> format c d = Ok out ->
  forall p x, get_path (JObj out) p = Some x -> is_obj x = false ->
  exists p', get_path (JObj d) p' = Some x.
Proof. exact values_untouched. Qed.
Print Assumptions C06_values_untouched.

(* MAPPING = the rename of the top-level fields, key by key (renamed_at, Spec/C06.v), for
   every mapping whose names do not overlap *)
Theorem C06_mapping : forall mp f, names_distinct mp ->
  forall k', renamed_at mp f (apply_mapping mp f) k'.
Proof. exact mapping_renames. Qed.
Print Assumptions C06_mapping.

(* ... and it does not depend on the order in which Go ranges over the mapping *)
Theorem C06_mapping_order_independent : forall mp mp' f,
  Permutation mp mp' -> names_distinct mp ->
  forall k', lookup k' (apply_mapping mp f) = lookup k' (apply_mapping mp' f).
Proof. exact mapping_order_independent. Qed.
Print Assumptions C06_mapping_order_independent.

(* outside the quantifier: two sources renamed to one destination give an outcome that
   depends on the iteration order of the Go map *)
Theorem C06_mapping_collision_refuted :
  exists mp mp' f, Permutation mp mp' /\ ~ names_distinct mp /\
    lookup "c" (apply_mapping mp f) <> lookup "c" (apply_mapping mp' f).
Proof. exact mapping_collision_refuted. Qed.
Print Assumptions C06_mapping_collision_refuted.

(* ORDER INDEPENDENCE, whole pipeline: two documents that are the same as nested maps (agree:
   same paths, objects facing objects, other values equal as maps - i.e. any object at any
   depth outside arrays listed in another order) and two configurations that differ only in the
   order of the allow list, the deny list and the mapping (same_cfg) give outputs that are the
   same as nested maps; neither run panics *)
Theorem C06_order_independent : forall c c' d d',
  same_cfg c c' -> names_distinct (sanitize (mapping c)) ->
  (allow c = [] \/ prefix_free (map split_dot (allow c))) ->
  wfj (JObj d) = true -> wfj (JObj d') = true -> agree (JObj d) (JObj d') ->
  exists o o', format c d = Ok o /\ format c' d' = Ok o' /\ agree (JObj o) (JObj o').
Proof. exact order_independent. Qed.
Print Assumptions C06_order_independent.

(* the same for the two recursive filters alone (lists given as paths) *)
Theorem C06_order_independent_deny : forall L L' d d',
  nonempty_paths L -> nonempty_paths L' -> same_elements L L' ->
  wfj (JObj d) = true -> wfj (JObj d') = true -> agree (JObj d) (JObj d') ->
  agree (JObj (deny_filter (build_deny L) d)) (JObj (deny_filter (build_deny L') d')).
Proof. exact deny_order_independent. Qed.
Print Assumptions C06_order_independent_deny.

Theorem C06_order_independent_allow : forall L L' d d',
  nonempty_paths L -> nonempty_paths L' -> same_elements L L' -> prefix_free L ->
  wfj (JObj d) = true -> wfj (JObj d') = true -> agree (JObj d) (JObj d') ->
  agree (JObj (allow_filter (build_allow L) d)) (JObj (allow_filter (build_allow L') d')).
Proof. exact allow_order_independent. Qed.
Print Assumptions C06_order_independent_allow.

(* ORACLE <-> MODEL: the model's filter output passes the boolean oracle, for every input *)
Theorem C06_model_meets_oracle_allow : forall L d,
  nonempty_paths L -> prefix_free L -> wfj (JObj d) = true ->
  allow_ok L d (allow_filter (build_allow L) d) = true.
Proof. exact allow_ok_model. Qed.
Print Assumptions C06_model_meets_oracle_allow.

Theorem C06_model_meets_oracle_deny : forall L d,
  nonempty_paths L -> wfj (JObj d) = true ->
  deny_ok L d (deny_filter (build_deny L) d) = true.
Proof. exact deny_ok_model. Qed.
Print Assumptions C06_model_meets_oracle_deny.

(* the oracle's closed form of the rename is what the model's mapping loop computes *)
Theorem C06_rename_lookup_model : forall mp f, names_distinct mp ->
  forall k', lookup k' (apply_mapping mp f) = rename_lookup mp f k'.
Proof. exact rename_lookup_model. Qed.
Print Assumptions C06_rename_lookup_model.

(* ORACLE <-> MODEL, whole configuration: the three runs the oracle looks at (target only,
   target + filter, everything) are, on the model, exactly the stages the oracle checks:
   the target as specified, a filter output that passes filter_ok, then group (mapping f)
   with ungroup inverting the group and the mapping agreeing with rename_lookup key by key
   (spec_b additionally compares values with json_eqb, reflexive on well-formed values) *)
Theorem C06_model_stages : forall c d,
  wfj (JObj d) = true ->
  exists f,
    format {| target := target c; allow := []; deny := []; mapping := []; group := "" |} d
      = Ok (target_spec c d) /\
    format {| target := target c; allow := allow c; deny := deny c; mapping := []; group := "" |} d
      = Ok f /\
    filter_ok c (target_spec c d) f = true /\
    format c d = Ok (group_stage c (mapping_stage c f)) /\
    ungroup c (group_stage c (mapping_stage c f)) = Some (mapping_stage c f) /\
    (names_distinct (sanitize (mapping c)) -> forall k',
       lookup k' (mapping_stage c f) = rename_lookup (sanitize (mapping c)) f k').
Proof. exact stages_model. Qed.
Print Assumptions C06_model_stages.

(* the output of the filter stage is again a well-formed document (no duplicate keys) *)
Theorem C06_filter_preserves_wf : forall c t f,
  wfj (JObj t) = true -> filter_stage c t = Ok f -> wfj (JObj f) = true.
Proof. exact filter_stage_wf. Qed.
Print Assumptions C06_filter_preserves_wf.

(* ORACLE <-> MODEL, the boolean oracle itself: for every well-formed document and EVERY
   configuration (allow lists that are not prefix-free included), the model's three observations
   (target only, target + filter, whole configuration) pass spec_b *)
Theorem C06_model_meets_oracle : forall c d,
  wfj (JObj d) = true ->
  spec_b c d
    (obs_of (format {| target := target c; allow := []; deny := []; mapping := []; group := "" |} d))
    (obs_of (format {| target := target c; allow := allow c; deny := deny c; mapping := []; group := "" |} d))
    (obs_of (format c d)) = true.
Proof. exact spec_b_model. Qed.
Print Assumptions C06_model_meets_oracle.

(* ORACLE SOUND: an observed output that passes the oracle on its finite probe set satisfies
   the path-level statement at EVERY path (values compared as maps) *)
Theorem C06_oracle_sound_allow : forall L d out, allow_ok L d out = true ->
  forall p, p <> [] -> allow_obs_at L (JObj d) (JObj out) p.
Proof. exact allow_ok_sound. Qed.
Print Assumptions C06_oracle_sound_allow.

Theorem C06_oracle_sound_deny : forall L d out, deny_ok L d out = true ->
  forall p, p <> [] -> deny_obs_at L (JObj d) (JObj out) p.
Proof. exact deny_ok_sound. Qed.
Print Assumptions C06_oracle_sound_deny.

Theorem C06_prefix_free_b_reflects : forall L, prefix_free_b L = true <-> prefix_free L.
Proof. intros L. split; [apply prefix_free_b_sound|apply prefix_free_b_complete]. Qed.
Print Assumptions C06_prefix_free_b_reflects.

Theorem C06_names_distinct_b_reflects : forall mp, names_distinct_b mp = true <-> names_distinct mp.
Proof. intros mp. split; [apply names_distinct_b_sound|apply names_distinct_b_complete]. Qed.
Print Assumptions C06_names_distinct_b_reflects.

(* ====== END TO END: several backends, each decoded and formatted with ITS OWN configuration,
   united by the parallel merge (Verif.Model.C01 at json values) in arrival order, rendered ====== *)

(* what the client document holds under a top-level key: the member of that name of the last
   answer (in arrival order) whose formatted output has it - for every number of backends and
   every arrival order (the list IS the arrival order) *)
Theorem C06_end_to_end_exact : forall arrived doc,
  (forall b, In b arrived -> wfj (b_payload b) = true) ->
  client_doc arrived = Some doc -> forall k, lookup k doc = last_with k (outs arrived).
Proof. exact e2e_exact. Qed.
Print Assumptions C06_end_to_end_exact.

(* NO LEAK AT THE CLIENT: every value reachable in the client document at k::p is, for some
   backend that answered, the value at k::p of format cfg_i (decoded payload_i) - so, by
   C06_allow_exact / C06_deny_exact / C06_values_untouched applied to that backend, inside
   its allow list / outside its deny list and unaltered; with p = [] : every top-level key of
   the client document is a top-level key of some backend's formatted output (group names and
   mapping destinations included) *)
Theorem C06_no_leak_end_to_end : forall arrived doc,
  (forall b, In b arrived -> wfj (b_payload b) = true) ->
  client_doc arrived = Some doc ->
  forall k p v, get_path (JObj doc) (k :: p) = Some v ->
  exists b d m, In b arrived /\
    decode (b_coll b) (b_payload b) = Some d /\ format (b_cfg b) d = Ok m /\
    get_path (JObj m) (k :: p) = Some v.
Proof. exact no_leak_end_to_end. Qed.
Print Assumptions C06_no_leak_end_to_end.

(* the client document does not depend on the arrival order when the formatted outputs have
   disjoint top-level keys *)
Theorem C06_end_to_end_order_independent : forall arrived arrived' doc,
  Permutation arrived arrived' ->
  (forall b, In b arrived -> wfj (b_payload b) = true) ->
  disjoint_keys (outs arrived) ->
  client_doc arrived = Some doc ->
  exists doc', client_doc arrived' = Some doc' /\ forall k, lookup k doc = lookup k doc'.
Proof. exact e2e_order_independent. Qed.
Print Assumptions C06_end_to_end_order_independent.

(* the boolean no-leak form used on observed client bodies: sound, and true of the model *)
Theorem C06_end_to_end_oracle_sound : forall os doc, noleak_e2e_b os doc = true ->
  forall k x, In (k, x) doc -> exists m y, In m os /\ lookup k m = Some y /\ json_eqb x y = true.
Proof. exact noleak_e2e_b_sound. Qed.
Print Assumptions C06_end_to_end_oracle_sound.

Theorem C06_end_to_end_model_meets_oracle : forall arrived doc,
  (forall b, In b arrived -> wfj (b_payload b) = true) ->
  client_doc arrived = Some doc ->
  noleak_e2e_b (outs arrived) doc = true /\ all_delivered_b (outs arrived) doc = true.
Proof. exact e2e_model_meets_oracle. Qed.
Print Assumptions C06_end_to_end_model_meets_oracle.

(* the whole formatted output of a backend is again a well-formed document *)
Theorem C06_format_preserves_wf : forall c d m,
  wfj (JObj d) = true -> format c d = Ok m -> wfj (JObj m) = true.
Proof. exact format_wf. Qed.
Print Assumptions C06_format_preserves_wf.

(* non-vacuity *)
Example C06_ex_prefix_free : prefix_free_b (map split_dot ["a.b"; "a.d"; "c"; "c"]) = true.
Proof. vm_compute. reflexivity. Qed.
Example C06_ex_allow :
  format {| target := ""; allow := ["a.b"; "e.x"]; deny := []; mapping := []; group := "" |}
         [("a", JObj [("b", JNum "1"); ("c", JNum "2")]); ("d", JNum "3"); ("e", JObj [("y", JNull)])]
  = Ok [("a", JObj [("b", JNum "1")])].
Proof. vm_compute. reflexivity. Qed.
Example C06_ex_deny_keeps_emptied_object :
  format {| target := ""; allow := []; deny := ["a.b"]; mapping := []; group := "" |}
         [("a", JObj [("b", JNum "1")]); ("d", JArr [JObj [("b", JNull)]])]
  = Ok [("a", JObj []); ("d", JArr [JObj [("b", JNull)]])].
Proof. vm_compute. reflexivity. Qed.
Example C06_ex_all_together :
  format {| target := "a"; allow := ["b"; "d"]; deny := ["b"]; mapping := [("d", "D.x")]; group := "g" |}
         [("a", JObj [("b", JBool true); ("c", JNum "42"); ("d", JStr "tupu")]); ("z", JNull)]
  = Ok [("g", JObj [("D", JStr "tupu"); ("b", JBool true)])].
Proof. vm_compute. reflexivity. Qed.
Example C06_ex_target_into_scalar_then_group :
  format {| target := "a.b"; allow := []; deny := []; mapping := []; group := "g" |}
         [("a", JObj [("b", JNum "1")])] = Ok [("g", JObj [])].
Proof. vm_compute. reflexivity. Qed.
Example C06_ex_names_distinct : names_distinct_b (sanitize [("a", "x.y"); ("b", "z")]) = true.
Proof. vm_compute. reflexivity. Qed.
Example C06_ex_mapping_dest_overwrites_field :
  format {| target := ""; allow := []; deny := []; mapping := [("a", "c")]; group := "" |}
         [("a", JNum "1"); ("c", JNum "2")] = Ok [("c", JNum "1")].
Proof. vm_compute. reflexivity. Qed.
Example C06_ex_agree_permuted :
  json_eqb (JObj [("a", JObj [("x", JNum "1"); ("y", JNull)]); ("b", JNum "2")])
           (JObj [("b", JNum "2"); ("a", JObj [("y", JNull); ("x", JNum "1")])]) = true.
Proof. vm_compute. reflexivity. Qed.
Example C06_ex_end_to_end :
  client_doc
    [ {| b_cfg := {| target := ""; allow := ["id"; "name"]; deny := []; mapping := []; group := "user" |};
         b_coll := false;
         b_payload := JObj [("id", JNum "7"); ("name", JStr "n"); ("secret", JStr "s")] |};
      {| b_cfg := {| target := ""; allow := []; deny := ["collection"]; mapping := []; group := "" |};
         b_coll := false; b_payload := JStr "not an object" |};
      {| b_cfg := {| target := ""; allow := []; deny := []; mapping := [("collection", "orders")]; group := "" |};
         b_coll := true; b_payload := JArr [JNum "1"] |} ]
  = Some [("orders", JArr [JNum "1"]); ("user", JObj [("id", JNum "7"); ("name", JStr "n")])].
Proof. vm_compute. reflexivity. Qed.
Example C06_ex_end_to_end_overlap_last_wins :
  option_map (lookup "a")
    (client_doc [ {| b_cfg := {| target := ""; allow := []; deny := []; mapping := []; group := "" |};
                     b_coll := false; b_payload := JObj [("a", JNum "1")] |};
                  {| b_cfg := {| target := ""; allow := []; deny := []; mapping := []; group := "" |};
                     b_coll := false; b_payload := JObj [("a", JNum "2")] |} ])
  = Some (Some (JNum "2")).
Proof. vm_compute. reflexivity. Qed.
Example C06_ex_effective :
  effective (map split_dot ["a"; "a.b"; "c.d"; "c"; "e"; "e"]) = [["a"; "b"]; ["c"]; ["e"]].
Proof. vm_compute. reflexivity. Qed.
Example C06_ex_flatmap_not_selected :
  uses_flatmap (Some (JObj [("flatmap_filter", JArr [JStr "del"; JObj [("args", JArr [JStr "a"])]])])) = false.
Proof. vm_compute. reflexivity. Qed.
Example C06_ex_flatmap_selected :
  uses_flatmap (Some (JObj [("flatmap_filter", JArr [JObj [("type", JStr "del"); ("args", JArr [JStr "a"])]])])) = true.
Proof. vm_compute. reflexivity. Qed.
