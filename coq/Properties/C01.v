(* C01 - Parallel merge returns exactly the union of the backends that answered.
   Only theorem statements, each closed by an exact lemma, and Print Assumptions. *)
Require Import Verif.Common.Base Verif.Common.Json Verif.Common.Fanout.
Require Import Verif.Model.C01 Verif.Spec.C01.
Require Import Verif.Proof.C01 Verif.Proof.C01_oracle Verif.Proof.C01_sched.
From Coq Require Import Permutation.

(* For every number of backends >= 2, every outcome of every backend, every overlap of
   field names, every type of values, and EVERY order in which the backends' messages reach
   the merging goroutine: the response holds exactly the union of the fields of the backends
   that answered, each with a value one of them returned; it is flagged complete iff every
   backend answered a complete non-null payload; the error holds exactly one entry per
   backend that failed / returned nothing / was cancelled and is nil when there is none;
   the response is nil only when no backend answered. *)
Theorem C01_merge_spec : forall (V : Type) (outs : list (outcome V)) (arrivals : list (msg V)),
  Permutation arrivals (map msg_of outs) -> 2 <= List.length outs ->
  merge_spec eq outs (merge_run (List.length outs) arrivals).
Proof. exact merge_spec_all_orders. Qed.
Print Assumptions C01_merge_spec.

(* ... and the model returns nil whenever no backend answered (the converse, which the
   property does not ask for) *)
Theorem C01_nil_iff_none_answered : forall (V : Type) (outs : list (outcome V)) (arrivals : list (msg V)),
  Permutation arrivals (map msg_of outs) ->
  (fst (merge_run (List.length outs) arrivals) = None <-> forall o, In o outs -> is_payload o = false).
Proof. exact nil_iff_none_answered. Qed.
Print Assumptions C01_nil_iff_none_answered.

(* the error entries are, in order, the failures in the order in which they reached the
   merging goroutine (the property only asks for the multiset; this is what the code does) *)
Theorem C01_errors_in_arrival_order : forall (V : Type) (n : nat) (arrivals : list (msg V)),
  snd (merge_run n arrivals) = merge_error (failures_of V arrivals).
Proof. exact errors_in_arrival_order. Qed.
Print Assumptions C01_errors_in_arrival_order.

(* nil vs empty Data (the property is silent): the Data map of the response is nil exactly
   when a single backend answered and the Data of its payload was nil *)
Theorem C01_data_nil_iff : forall (V : Type) (n : nat) (arrivals : list (msg V)) (x : resp V),
  fst (merge_run n arrivals) = Some x ->
  (data x = None <-> exists p, payloads_of V arrivals = [p] /\ data p = None).
Proof. exact data_nil_iff. Qed.
Print Assumptions C01_data_nil_iff.

(* One level below the outcomes: requestPart, from what each backend proxy RETURNED -
   (response, error), either or both possibly nil - and from how the final select of its
   goroutine went (a payload may lose against the cancelled context).  The property holds
   for the effective outcomes: an error wins over a response returned with it, (nil, nil) is
   one errNullResult entry, a payload that lost the select counts as a cancelled backend. *)
Theorem C01_merge_spec_from_returns : forall (V : Type)
    (ocs : list (outcome V * option ekind)) (arrivals : list (msg V)),
  Permutation arrivals (map (fun oc => request_part (return_of (fst oc)) (snd oc)) ocs) ->
  2 <= List.length ocs ->
  merge_spec eq (map (fun oc => effective (fst oc) (snd oc)) ocs) (merge_run (List.length ocs) arrivals).
Proof. exact merge_spec_from_returns. Qed.
Print Assumptions C01_merge_spec_from_returns.

(* requestPart delivers what a worker of the goroutine model delivers (LSend / LSendC) *)
Theorem C01_request_part_worker : forall (V : Type) (ce : ekind) (ret : backend_return V) (choice : option ekind),
  let own := request_part ret None in
  request_part ret choice = own \/
  (choice = Some ce -> request_part ret choice = MF ce /\ route V own = ChP).
Proof. exact request_part_worker. Qed.
Print Assumptions C01_request_part_worker.

(* The goroutine layer (Common/Fanout.v instantiated: one goroutine per backend, `parts` and
   `failed` of capacity n, exactly n receives): whatever the interleaving of backend
   returns, sends, receives and the cancellation of the context, when parallelMerge returns
   it has dequeued exactly one message per backend - the backend's own result, or the
   context error [ce] in place of a payload when the context was cancelled first - and what
   it returns satisfies the property for those outcomes. *)
Theorem C01_every_schedule : forall (V : Type) (ce : ekind) (n : nat)
    (sched : list (label (msg V))) (s : st (msg V)),
  2 <= n -> pm_run V ce n (init _ n) sched = Some s -> fin _ s = true ->
  exists outs : list (outcome V),
    List.length outs = n /\
    Forall2 (fun w o => exists r, w = Sent r (msg_of o) /\
               (msg_of o = r \/ (msg_of o = MF ce /\ route V r = ChP))) (ws _ s) outs /\
    Permutation (got _ s) (map msg_of outs) /\
    merge_spec eq outs (pm_result V s).
Proof. exact every_schedule. Qed.
Print Assumptions C01_every_schedule.

(* no goroutine ever blocks on its send: both channels have one slot per backend *)
Theorem C01_no_blocked_sender : forall (V : Type) (ce : ekind) (n : nat)
    (sched : list (label (msg V))) (s : st (msg V)) (i : nat) (m : msg V),
  pm_run V ce n (init _ n) sched = Some s -> nth_error (ws _ s) i = Some (Ret m) ->
  pm_step V ce n s (LSend i) <> None.
Proof. exact no_blocked_sender_pm. Qed.
Print Assumptions C01_no_blocked_sender.

(* A cancellation of the caller / an expiry of the deadline (LTimeout) that happens once
   every goroutine has delivered its message cannot influence the response: whatever the
   rest of the schedule, the same schedule without those events runs too, dequeues the same
   messages in the same order and returns the same (response, error).  In particular the
   completeness flag depends on what the backends did, never on the state of the context
   at the end of the collection. *)
Theorem C01_timeout_after_sends_irrelevant : forall (V : Type) (ce : ekind) (n : nat)
    (s : st (msg V)) (ls : list (label (msg V))) (s' : st (msg V)),
  all_sent V s -> pm_run V ce n s ls = Some s' ->
  exists s'', pm_run V ce n s (filter (not_timeout V) ls) = Some s'' /\
    got _ s'' = got _ s' /\ ws _ s'' = ws _ s' /\ fin _ s'' = fin _ s' /\
    pm_result V s'' = pm_result V s'.
Proof. exact timeout_after_sends_irrelevant. Qed.
Print Assumptions C01_timeout_after_sends_irrelevant.

(* ... which a smaller capacity would not guarantee *)
Theorem C01_smaller_capacity_blocks : forall (V : Type) (ce e1 e2 : ekind),
  exists sched s,
    run (msg V) 1 (route V) (MF ce) (never_early V) false (init _ 2) sched = Some s /\
    nth_error (ws _ s) 1 = Some (Ret (MF e2)) /\
    step (msg V) 1 (route V) (MF ce) (never_early V) false s (LSend 1) = None.
Proof. exact blocked_with_smaller_cap. Qed.
Print Assumptions C01_smaller_capacity_blocks.

(* The boolean oracle evaluated on the implementation's observations is the property:
   sound (what it accepts satisfies merge_spec) ... *)
Theorem C01_oracle_sound : forall (V : Type) (R : V -> V -> Prop) (veqb : V -> V -> bool)
    (outs : list (outcome V)) (res : result V),
  (forall a b, veqb a b = true -> R a b) ->
  spec_b veqb outs res = true -> merge_spec R outs res.
Proof. exact spec_b_sound. Qed.
Print Assumptions C01_oracle_sound.

(* ... and complete (it rejects nothing that satisfies merge_spec: no false alarm) *)
Theorem C01_oracle_complete : forall (V : Type) (R : V -> V -> Prop) (veqb : V -> V -> bool)
    (outs : list (outcome V)) (res : result V),
  (forall a b, R a b -> veqb a b = true) ->
  merge_spec R outs res -> spec_b veqb outs res = true.
Proof. exact spec_b_complete. Qed.
Print Assumptions C01_oracle_complete.

(* the executable model satisfies the oracle for every input and every arrival order *)
Theorem C01_model_meets_oracle : forall (V : Type) (veqb : V -> V -> bool)
    (outs : list (outcome V)) (arrivals : list (msg V)),
  (forall d k v, In d (payload_maps outs) -> In (k, v) d -> veqb v v = true) ->
  Permutation arrivals (map msg_of outs) -> 2 <= List.length outs ->
  spec_b veqb outs (merge_run (List.length outs) arrivals) = true.
Proof. exact model_meets_oracle. Qed.
Print Assumptions C01_model_meets_oracle.

(* ... also for the case kind CRace (what the backends returned + how each select went) *)
Theorem C01_model_meets_oracle_from_returns : forall (V : Type) (veqb : V -> V -> bool)
    (ocs : list (outcome V * option ekind)) (arrivals : list (msg V)),
  let effs := map (fun oc => effective (fst oc) (snd oc)) ocs in
  (forall d k v, In d (payload_maps effs) -> In (k, v) d -> veqb v v = true) ->
  Permutation arrivals (map (fun oc => request_part (return_of (fst oc)) (snd oc)) ocs) ->
  2 <= List.length ocs ->
  spec_b veqb effs (merge_run (List.length ocs) arrivals) = true.
Proof. exact model_meets_oracle_from_returns. Qed.
Print Assumptions C01_model_meets_oracle_from_returns.

(* the hypothesis 2 <= number of backends is needed *)
Theorem C01_single_backend_refuted :
  exists (outs : list (outcome nat)) (arrivals : list (msg nat)),
    List.length outs = 1%nat /\ Permutation arrivals (map msg_of outs) /\
    ~ merge_spec eq outs (merge_run (List.length outs) arrivals).
Proof. exact single_backend_refuted. Qed.
Print Assumptions C01_single_backend_refuted.

(* ---- non-vacuity: concrete inputs in the order-sensitive branches ---- *)
Definition P (c : bool) (d : option obj) : msg json := MP {| data := d; complete := c |}.
Definition data_is_nil (res : result json) : bool :=
  match fst res with Some x => match data x with None => true | Some _ => false end | None => false end.

(* three backends with overlapping fields, arrival order 2,0,1 *)
Example C01_ex_overlap :
  merge_run 3 [P true (Some [("c", JNum "3"); ("a", JNum "3")]);
               P true (Some [("a", JNum "1"); ("b", JNum "1")]);
               P true (Some [("b", JNum "2"); ("c", JNum "2")])]
  = (Some {| data := Some [("c", JNum "2"); ("b", JNum "2"); ("a", JNum "1")]; complete := true |}, None).
Proof. vm_compute. reflexivity. Qed.

(* an error seen before the first payload only lands in errs; Result clears the flag *)
Example C01_ex_error_first :
  merge_run 2 [MF (EBackend "x"); P true (Some [("a", JNum "1")])]
  = (Some {| data := Some [("a", JNum "1")]; complete := false |}, Some [EBackend "x"]).
Proof. vm_compute. reflexivity. Qed.

(* a null-data payload first: the accumulator keeps a response with a nil map *)
Example C01_ex_null_first :
  merge_run 2 [P true None; MF ENull]
  = (Some {| data := None; complete := false |}, Some [ENull]) /\
  merge_run 2 [P true None; P true (Some [("a", JNum "1")])]
  = (Some {| data := Some [("a", JNum "1")]; complete := false |}, None).
Proof. split; vm_compute; reflexivity. Qed.

Example C01_ex_none_answered :
  @merge_run json 3 [MF ECancelled; MF ENull; MF (EBackend "x")] = (None, Some [ECancelled; ENull; EBackend "x"]).
Proof. vm_compute. reflexivity. Qed.

(* the hypotheses of C01_merge_spec and C01_model_meets_oracle are satisfiable *)
Example C01_ex_hyps :
  let outs := [OPayload true (Some [("a", JNum "1")]); OErr (EBackend "x"); OCancelled false] in
  Permutation [MF ECancelled; P true (Some [("a", JNum "1")]); MF (EBackend "x")] (map msg_of outs) /\
  2 <= List.length outs /\
  spec_b json_eqb outs (merge_run 3 [MF ECancelled; P true (Some [("a", JNum "1")]); MF (EBackend "x")]) = true.
Proof.
  split; [|split; [simpl; lia|vm_compute; reflexivity]].
  simpl. unfold P. eapply perm_trans; [apply perm_swap|]. apply perm_skip. apply perm_swap.
Qed.

(* a complete schedule exists (hypotheses of C01_every_schedule): backend 1 fails, the
   context is cancelled, backend 0's payload is dropped for the context error *)
Example C01_ex_schedule :
  exists s,
    pm_run json ECancelled 2 (init _ 2)
      [LReturn 1 (MF (EBackend "x")); LSend 1; LRecv ChF; LTimeout;
       LReturn 0 (P true (Some [("a", JNum "1")])); LSendC 0; LRecv ChF; LFinish] = Some s /\
    fin _ s = true /\
    pm_result json s = (None, Some [EBackend "x"; ECancelled]).
Proof. eexists. split; [vm_compute; reflexivity|]. split; vm_compute; reflexivity. Qed.

(* a backend that fails but hands a response over with its error counts as failed: one
   entry, its fields are not merged, the others are *)
Example C01_ex_error_with_response :
  let outs := [OErrWith (EBackend "boom") false (Some [("partial", JBool true)]);
               OPayload true (Some [("b", JNum "1")])] in
  merge_run 2 (map msg_of outs)
  = (Some {| data := Some [("b", JNum "1")]; complete := false |}, Some [EBackend "boom"]) /\
  spec_b json_eqb outs (merge_run 2 (map msg_of outs)) = true.
Proof. split; vm_compute; reflexivity. Qed.

(* the deadline fires after both backends have sent, before the last receive: complete *)
Example C01_ex_late_timeout :
  exists s0 s,
    pm_run json EDeadline 2 (init _ 2)
      [LReturn 0 (P true (Some [("a", JNum "1")])); LReturn 1 (P true (Some [("b", JNum "2")]));
       LSend 0; LSend 1; LRecv ChP] = Some s0 /\
    all_sent json s0 /\
    pm_run json EDeadline 2 s0 [LTimeout; LRecv ChP; LFinish] = Some s /\
    fin _ s = true /\
    pm_result json s = (Some {| data := Some [("b", JNum "2"); ("a", JNum "1")]; complete := true |}, None).
Proof.
  eexists. eexists. split; [vm_compute; reflexivity|]. split; [vm_compute; reflexivity|].
  split; [vm_compute; reflexivity|]. split; vm_compute; reflexivity.
Qed.

(* a payload that loses the select against the cancelled context: one ctx error entry, its
   fields absent, the response incomplete; with the other choice it is merged *)
Example C01_ex_race :
  let a := OPayload true (Some [("m0", JNum "0")]) in
  let b := OPayload true (Some [("m1", JNum "1")]) in
  merge_run 2 (map (fun oc => request_part (return_of (fst oc)) (snd oc)) [(a, None); (b, Some ECancelled)])
  = (Some {| data := Some [("m0", JNum "0")]; complete := false |}, Some [ECancelled]) /\
  merge_run 2 (map (fun oc => request_part (return_of (fst oc)) (snd oc)) [(a, None); (b, None)])
  = (Some {| data := Some [("m1", JNum "1"); ("m0", JNum "0")]; complete := true |}, None).
Proof. split; vm_compute; reflexivity. Qed.

(* nil Data survives only a lone null payload *)
Example C01_ex_data_nil :
  data_is_nil (merge_run 2 [P true None; MF ENull]) = true /\
  data_is_nil (merge_run 2 [P true None; P false None]) = false.
Proof. split; vm_compute; reflexivity. Qed.
