(* C04 - Every backend call is bounded by the endpoint timeout; nothing outlives it.
   Only theorem statements, each closed by an exact lemma, and Print Assumptions.
   The factors are parameters of the model (F); lura_factors = 85/100, 75/100 is the
   instantiation pinned by the regenerated source facts (Generated/Facts_timeouts.v). *)
Require Import Verif.Common.Base Verif.Common.Ctx Verif.Common.Fanout.
Require Import Verif.Model.C04 Verif.Spec.C04 Verif.Proof.C04.
Open Scope Z_scope.

(* Go's 85*T/100 and 75*T/100 on nanoseconds never exceed T *)
Theorem C04_factor_bounds : forall T, 0 <= T ->
  0 <= reduced 75 100 T /\ reduced 75 100 T <= reduced 85 100 T /\ reduced 85 100 T <= T.
Proof. exact lura_factor_bounds. Qed.
Print Assumptions C04_factor_bounds.

(* every backend call of a routed request (gin, mux), whatever the endpoint shape, the
   concurrent_calls of its backends and the moments the contexts were derived: its context has
   a deadline, and that deadline is no later than the arrival in the handler + the endpoint
   timeout *)
Theorem C04_deadline : forall F c clk i j, routed c = true ->
  exists x, deadline (ctx_call F c clk i j) = Some x /\ x <= clk SRouter + c_T c.
Proof. exact deadline_router. Qed.
Print Assumptions C04_deadline.

(* the router handler derives that context BEFORE it builds the proxy request (clk SRouter <= the
   moment the request builder is entered): the deadline is no later than that moment + T, so the
   time a (custom, possibly slow) RequestBuilder / ParamExtractor takes is counted against the
   endpoint timeout *)
Theorem C04_builder_time_counted : forall F c clk i j rb_in,
  routed c = true -> clk SRouter <= rb_in ->
  exists x, deadline (ctx_call F c clk i j) = Some x /\ x <= rb_in + c_T c.
Proof. exact builder_time_counted. Qed.
Print Assumptions C04_builder_time_counted.

(* merging endpoints: no later than the start of the merge + 85 % of the endpoint timeout *)
Theorem C04_deadline_merge : forall c clk i j, multi c = true ->
  exists x, deadline (ctx_call lura_factors c clk i j) = Some x /\
            x <= clk SMerge + Z.quot (85 * c_T c) 100.
Proof. exact (deadline_merge lura_factors). Qed.
Print Assumptions C04_deadline_merge.

(* concurrent calls: no later than the start of the concurrent stage + 75 % *)
Theorem C04_deadline_concurrent : forall c clk i j, concurrent c i = true ->
  exists x, deadline (ctx_call lura_factors c clk i j) = Some x /\
            x <= clk (SConc i) + Z.quot (75 * c_T c) 100.
Proof. exact (deadline_concurrent lura_factors). Qed.
Print Assumptions C04_deadline_concurrent.

(* a deadline of the context handed in (the request context under mux; at proxy level the
   context of the caller) is never exceeded either *)
Theorem C04_deadline_parent : forall F c clk i j p, parent_bound c = Some p ->
  exists x, deadline (ctx_call F c clk i j) = Some x /\ x <= p.
Proof. exact deadline_parent. Qed.
Print Assumptions C04_deadline_parent.

(* END TO END.  The contexts of the model are exactly the chains of derivations that the router
   handler factories and defaultFactory (New / newMulti / newStack) wire up - router handler,
   merge, part, concurrent stage, attempt, each present or not - on top of the context handed in
   (under gin: on top of a context without deadline), and their depth is the number of stages *)
Theorem C04_factory_nesting : forall F c clk i j,
  ctx_call F c clk i j = build (base_ctx c) (stages F c clk i j) /\
  List.length (ctx_call F c clk i j) = (List.length (base_ctx c) + depth c i)%nat.
Proof. intros. split; [apply ctx_call_build|apply nesting_depth]. Qed.
Print Assumptions C04_factory_nesting.

(* ... and for every nesting the factory can build the deadline of a backend call is EXACTLY the
   minimum of the deadlines of the frames above it: the context handed in (not under gin), the
   router's arrival + T, the merge's start + 85 %, the concurrent stage's start + 75 %; it has no
   deadline iff none of these frames exists *)
Theorem C04_leaf_deadline_is_min : forall F c clk i j,
  deadline (ctx_call F c clk i j) = lmin (frame_deadlines F c clk i).
Proof. exact leaf_deadline_is_min. Qed.
Print Assumptions C04_leaf_deadline_is_min.

(* the same for ANY chain of WithTimeout / WithCancel derivations, of any length and order (also
   nestings no factory builds today): the deadline is the running minimum along the chain *)
Theorem C04_any_nesting_deadline : forall st base,
  deadline (build base st) = min_dl (deadline base) st.
Proof. exact build_deadline. Qed.
Print Assumptions C04_any_nesting_deadline.

(* ... and calling the cancel function of the outermost derivation ends every derived context
   of the chain, intermediate frames and leaf alike, whatever is nested inside it *)
Theorem C04_any_nesting_cancel : forall base s st cs now,
  In (stage_tok s) cs -> chain_done cs now base (s :: st) = true.
Proof. exact outermost_cancel_ends_chain. Qed.
Print Assumptions C04_any_nesting_cancel.

(* once the pipeline has returned, on whichever return paths, not only the context a backend
   was called with but every context derived on the way to it (the WithTimeout frames of the
   router handler, the merge and the concurrent stage included) is done *)
Theorem C04_chain_cancelled_after_return : forall F c clk p called now i j,
  derived c i = true -> In i called ->
  chain_done (cancelled_at_return c p called) now (base_ctx c) (stages F c clk i j) = true.
Proof. exact chain_done_after_return. Qed.
Print Assumptions C04_chain_cancelled_after_return.

(* once the pipeline has returned - on whichever return paths - every context it derived for a
   backend call is done, at any time, ... *)
Theorem C04_cancelled_after_return : forall F c clk p called now i j,
  derived c i = true -> In i called ->
  done (cancelled_at_return c p called) now (ctx_call F c clk i j) = true.
Proof. exact cancelled_after_return. Qed.
Print Assumptions C04_cancelled_after_return.

(* ... and remains so *)
Theorem C04_stays_done : forall F c clk cs cs' now now' i j,
  incl cs cs' -> now <= now' ->
  done cs now (ctx_call F c clk i j) = true -> done cs' now' (ctx_call F c clk i j) = true.
Proof. exact stays_done. Qed.
Print Assumptions C04_stays_done.

(* before its deadline a call's context is alive whatever has been cancelled on behalf of the
   OTHER backends (their parts, concurrent stages, attempts) - in particular while nothing
   has been cancelled at all: a backend that hangs or fails does not end its siblings early,
   so the client still gets what they produce *)
Theorem C04_sibling_unaffected : forall F c clk i j now cs,
  (j < 8)%nat -> (forall t, In t cs -> foreign i t) ->
  (forall x, deadline (ctx_call F c clk i j) = Some x -> now < x) ->
  done cs now (ctx_call F c clk i j) = false.
Proof. exact sibling_unaffected. Qed.
Print Assumptions C04_sibling_unaffected.

(* at its deadline it is done without anybody cancelling: a backend that honours its context
   (proxy/http.go:76-80) holds the pipeline up no longer than that *)
Theorem C04_done_at_deadline : forall F c clk now i j x,
  deadline (ctx_call F c clk i j) = Some x -> x <= now -> done [] now (ctx_call F c clk i j) = true.
Proof. exact done_at_deadline. Qed.
Print Assumptions C04_done_at_deadline.

(* parallel and single-backend endpoints: a backend whose answer arrives is in what the
   client certainly receives, whatever the other backends do (hang, fail, answer late) *)
Theorem C04_answered_is_delivered : forall c i,
  multi c && c_seq c = false -> (i < nbackends c)%nat ->
  delivers_now (nth i (c_backends c) []) = true -> In i (must_keys c).
Proof. exact answered_is_delivered. Qed.
Print Assumptions C04_answered_is_delivered.

(* the same for a backend (one attempt) that answers at 80 % of the endpoint timeout - within every
   deadline the pipeline derives for it, but after the 75 % at which a hanging sibling with
   concurrent calls reports its own DeadlineExceeded: its data still reaches the client, provided
   the context handed in does not end before 85 % of the timeout *)
Theorem C04_mid_answer_is_delivered : forall c i,
  multi c && c_seq c = false -> (i < nbackends c)%nat ->
  nth i (c_backends c) [] = [Mid] -> parent_after c (reduced 85 100 (c_T c)) = true ->
  In i (must_keys c).
Proof. exact mid_answer_is_delivered. Qed.
Print Assumptions C04_mid_answer_is_delivered.

(* an endpoint built through proxy.NewShadowFactory with a shadow backend: whatever its
   shadow_timeout (shorter or longer than the endpoint timeout, or none at all), every regular
   backend call runs under exactly the same context, hence the same deadline; what the client
   certainly receives and what the oracle demands are the same too *)
Theorem C04_shadow_timeout_irrelevant : forall F c s clk i j slack o,
  ctx_call F (with_shadow c s) clk i j = ctx_call F c clk i j /\
  deadline (ctx_call F (with_shadow c s) clk i j) = deadline (ctx_call F c clk i j) /\
  must_keys (with_shadow c s) = must_keys c /\
  spec_b F (with_shadow c s) slack o = spec_b F c slack o.
Proof. intros. repeat split. Qed.
Print Assumptions C04_shadow_timeout_irrelevant.

(* ... and the end of the shadow pipe's detached context (cancelled when the shadow call is over,
   or expired at the shadow timeout) does not end a regular call before its own deadline *)
Theorem C04_shadow_end_harmless : forall F c clk i j now,
  (j < 8)%nat -> (forall x, deadline (ctx_call F c clk i j) = Some x -> now < x) ->
  done [tok_shadow] now (ctx_call F c clk i j) = false.
Proof. exact shadow_cancel_harmless. Qed.
Print Assumptions C04_shadow_end_harmless.

(* the observed deadline is compared with the model at the earliest and the latest possible
   moments of derivation: sound because the deadline is monotone in those moments *)
Theorem C04_deadline_monotone : forall F c clk clk' i j,
  0 <= c_T c -> (forall s, clk s <= clk' s) ->
  match deadline (ctx_call F c clk i j), deadline (ctx_call F c clk' i j) with
  | Some x, Some y => x <= y
  | None, None => True
  | _, _ => False
  end.
Proof. exact deadline_monotone. Qed.
Print Assumptions C04_deadline_monotone.

(* goroutines.  Fanout transition system with as many channel slots as workers (the capacities
   len(next) / ConcurrentCalls are regenerated source facts): for every number of workers,
   every routing of results to the two channels, every early-return rule of the collector
   (parallelMerge: none; concurrent middleware: first complete answer, idle iterations on
   ctx.Done()) and EVERY schedule: a worker that holds a result can always send it ... *)
Theorem C04_no_blocked_worker : forall (msg : Type) route cancel_msg can_finish allow_idle n ls s i m,
  run msg n route cancel_msg can_finish allow_idle (init msg n) ls = Some s ->
  nth_error (ws msg s) i = Some (Ret m) ->
  step msg n route cancel_msg can_finish allow_idle s (LSend i) <> None.
Proof. exact worker_never_blocked. Qed.
Print Assumptions C04_no_blocked_worker.

(* ... and once the collector has returned the context is cancelled, every continuation has
   at most 2n further steps, and while a worker has not terminated some step is enabled - under
   the assumption, built into the step relation, that a running backend returns once its
   context is done.  Hence every maximal continuation ends with all workers terminated. *)
Theorem C04_workers_terminate : forall (msg : Type) route cancel_msg can_finish allow_idle n (any : msg) ls s,
  run msg n route cancel_msg can_finish allow_idle (init msg n) ls = Some s -> fin msg s = true ->
  cancelled msg s = true /\
  forall ls' s', run msg n route cancel_msg can_finish allow_idle s ls' = Some s' ->
    (List.length ls' + remaining msg (ws msg s') <= 2 * n)%nat /\
    (remaining msg (ws msg s') <> O ->
     exists l, step msg n route cancel_msg can_finish allow_idle s' l <> None).
Proof. exact workers_terminate. Qed.
Print Assumptions C04_workers_terminate.

(* the boolean oracle evaluated on every generated case is exactly the property *)
Theorem C04_oracle_is_spec : forall F c slack o, spec_b F c slack o = true <-> Spec F c slack o.
Proof. exact spec_b_iff. Qed.
Print Assumptions C04_oracle_is_spec.

(* oracle <-> model: the observation the model predicts - every attempt of every called backend
   invoked (at [inv], after all derivations) under the model's context and sampled against the
   cancel functions of the return paths taken, the response returned no later than the latest
   deadline + slack and carrying what the model says is certain - passes the oracle, for every
   configuration, clock, path choice and set of called backends *)
Theorem C04_model_meets_oracle : forall F c clk p called now inv ret keys slack,
  (forall s, 0 <= clk s <= inv) ->
  (forall d, max_dl (model_calls F c clk p called now inv) = Some d -> ret <= d + slack) ->
  (forall i, In i (must_keys c) -> In i keys) ->
  spec_b F c slack (model_obs F c clk p called now inv ret keys) = true.
Proof. exact model_meets_oracle. Qed.
Print Assumptions C04_model_meets_oracle.

(* per call: the model's deadline exists where the oracle demands one and passes its bound *)
Theorem C04_model_deadline_meets_oracle : forall F c clk i j first firsti,
  0 <= clk SRouter <= first -> 0 <= clk SMerge <= first -> 0 <= clk (SConc i) <= firsti ->
  (needs_deadline c i = true -> exists x, deadline (ctx_call F c clk i j) = Some x) /\
  (forall x, deadline (ctx_call F c clk i j) = Some x -> bound_b F c first firsti i x = true).
Proof. exact model_deadline_meets_oracle. Qed.
Print Assumptions C04_model_deadline_meets_oracle.

(* ---- non-vacuity ---- *)
Definition ex_cfg : config :=
  {| c_level := LMux; c_seq := false; c_T := 1000; c_parent := Some 5000; c_http := false;
     c_backends := [[Answer]; [Hang; Late]; [Fail]]; c_shadow := None |}.
Definition ex_clk : clock := fun s => match s with SRouter => 1 | SMerge => 2 | SConc _ => 3 end.

(* mux, three backends, the second with two concurrent attempts: 1+1000, 2+850, 3+750 *)
Example C04_ex_deadlines :
  map (fun i => deadline (ctx_call lura_factors ex_cfg ex_clk i 0)) [0; 1; 2]%nat
  = [Some 852; Some 753; Some 852].
Proof. vm_compute. reflexivity. Qed.

(* Go's truncation: 85*7/100 = 5, 75*7/100 = 5, 85*1/100 = 0 *)
Example C04_ex_truncation : (reduced 85 100 7, reduced 75 100 7, reduced 85 100 1) = (5, 5, 0).
Proof. vm_compute. reflexivity. Qed.

(* hypotheses of C04_sibling_unaffected are satisfiable: cancelling everything of backend 1
   leaves backend 0 alive at time 800 < 852, and it is done at 852 *)
Example C04_ex_sibling :
  done [tok_part 1; tok_conc 1; tok_att 1 0; tok_att 1 1] 800 (ctx_call lura_factors ex_cfg ex_clk 0 0) = false /\
  done [] 852 (ctx_call lura_factors ex_cfg ex_clk 0 0) = true /\
  done (cancelled_at_return ex_cfg {| router_err_path := false; seq_first_err_path := false; conc_early_path := fun _ => false |} [0; 1; 2]%nat)
       0 (ctx_call lura_factors ex_cfg ex_clk 1 1) = true.
Proof. vm_compute. auto. Qed.

(* what is certain about the example: backend 0's data arrives, backend 1 holds the return up *)
Example C04_ex_must : must_keys ex_cfg = [0%nat] /\ must_wait ex_cfg = [1%nat] /\ wf_config ex_cfg = true.
Proof. vm_compute. auto. Qed.

(* an observation that satisfies the oracle, and one that does not (the attempts of backend 1
   report a deadline beyond arrival + endpoint timeout, as when their context is derived from
   context.Background()) *)
Definition ex_obs (dl1 : Z) : obs :=
  {| o_calls := [ {| k_be := 0; k_inv := 10; k_dl := Some 852; k_done_after := true; k_depth := None; k_chain_done := true |};
                  {| k_be := 1; k_inv := 11; k_dl := Some dl1; k_done_after := true; k_depth := None; k_chain_done := true |};
                  {| k_be := 1; k_inv := 12; k_dl := Some dl1; k_done_after := true; k_depth := None; k_chain_done := true |};
                  {| k_be := 2; k_inv := 10; k_dl := Some 852; k_done_after := true; k_depth := None; k_chain_done := true |} ];
     o_returned := true; o_ret := 860; o_keys := [0%nat]; o_leaked := 0; o_released := false; o_rb := Some 5; o_tainted := false |}.
Example C04_ex_oracle :
  spec_b lura_factors ex_cfg 100 (ex_obs 753) = true /\ spec_b lura_factors ex_cfg 100 (ex_obs 1100) = false.
Proof. vm_compute. auto. Qed.

(* the hypotheses of C04_model_meets_oracle are satisfiable *)
Example C04_ex_model_obs :
  spec_b lura_factors ex_cfg 100
    (model_obs lura_factors ex_cfg ex_clk
       {| router_err_path := false; seq_first_err_path := false; conc_early_path := fun _ => false |}
       [0; 1; 2]%nat 860 10 860 [0%nat]) = true.
Proof. vm_compute. reflexivity. Qed.

(* a Mid backend next to a sibling whose concurrent stage (75 %) gives up first: still certain *)
Example C04_ex_mid :
  must_keys {| c_level := LProxy; c_seq := false; c_T := 1000; c_parent := None; c_http := false;
               c_backends := [[Mid]; [Hang; Hang]]; c_shadow := None |} = [0%nat] /\
  must_keys {| c_level := LMux; c_seq := false; c_T := 1000; c_parent := Some 500; c_http := false;
               c_backends := [[Mid]; [Hang; Hang]]; c_shadow := None |} = [].
Proof. vm_compute. auto. Qed.

(* a 400 ms endpoint with a 3 s / 50 ms shadow backend: merge deadline 340 ms either way *)
Example C04_ex_shadow :
  map (fun s => deadline (ctx_call lura_factors
         {| c_level := LProxy; c_seq := false; c_T := 400000000; c_parent := None; c_http := false;
            c_backends := [[Answer]; [Hang]]; c_shadow := s |} (fun _ => 0) 1 0))
      [None; Some 3000000000; Some 50000000]
  = [Some 340000000; Some 340000000; Some 340000000].
Proof. vm_compute. reflexivity. Qed.

(* the frames of the example: parent 5000, router 1+1000, merge 2+850, stage 3+750; depth 5 for the
   concurrent backend (router, merge, part, stage, attempt), 3 for the others *)
Example C04_ex_frames :
  frame_deadlines lura_factors ex_cfg ex_clk 1 = [5000; 1001; 852; 753] /\
  lmin (frame_deadlines lura_factors ex_cfg ex_clk 1) = Some 753 /\
  map (depth ex_cfg) [0; 1; 2]%nat = [3; 5; 3]%nat /\
  List.length (ctx_call lura_factors ex_cfg ex_clk 1 0) = 6%nat.
Proof. vm_compute. auto. Qed.

(* an intermediate frame that is NOT cancelled is seen: with nothing cancelled the chain of the
   example is not done before its deadlines, with the router's cancel it is *)
Example C04_ex_chain :
  chain_done [] 0 (base_ctx ex_cfg) (stages lura_factors ex_cfg ex_clk 1 0) = false /\
  chain_done [tok_att 1 0] 0 (base_ctx ex_cfg) (stages lura_factors ex_cfg ex_clk 1 0) = false /\
  chain_done [tok_router] 0 (base_ctx ex_cfg) (stages lura_factors ex_cfg ex_clk 1 0) = true.
Proof. vm_compute. auto. Qed.
