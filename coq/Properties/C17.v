(* C17 - Configuration initialisation is total and yields a consistent service.
   Only theorem statements, each closed by an exact lemma, and Print Assumptions.
   clean_host (config.URI.SafeCleanHost) and to_lower (strings.ToLower) are arbitrary
   functions: every theorem holds whatever they return. *)
Require Import Verif.Common.Base Verif.Common.Json.
Require Import Verif.Model.C17 Verif.Spec.C17 Verif.Proof.C17 Verif.Proof.C17_b.

(* Init never panics - for EVERY configuration, well-typed or not - and on a well-typed
   configuration that Init accepts, building the default stack of any of its endpoints
   does not panic either, whatever files are readable at that moment (all modelled indexing / slicing / assertion sites). *)
Theorem C17_total : forall clean_host to_lower s, well_typed s ->
  (forall site, init clean_host to_lower s <> Panic site) /\
  (forall c, init clean_host to_lower s = Ok c ->
     forall readable e, In e (s_endpoints c) -> forall site, factory_new readable e <> FPanic site).
Proof. exact total. Qed.
Print Assumptions C17_total.

(* the same for the pipe AgentStarter.Start builds for every async agent of the configuration *)
Theorem C17_total_agents : forall clean_host to_lower s, well_typed s ->
  forall c, init clean_host to_lower s = Ok c ->
    forall readable a, In a (s_agents c) -> forall site, agent_factory_new readable a <> FPanic site.
Proof. exact total_agents. Qed.
Print Assumptions C17_total_agents.

Theorem C17_init_never_panics : forall clean_host to_lower s site,
  init clean_host to_lower s <> Panic site.
Proof. exact init_no_panic. Qed.
Print Assumptions C17_init_never_panics.

(* unsupported version, invalid host, endpoint without backends, reserved or malformed path,
   no-op output with several backends, undeclared backend parameter: always an error *)
Theorem C17_rejects : forall clean_host to_lower s,
  must_reject clean_host s -> exists e, init clean_host to_lower s = Err e.
Proof. exact rejects. Qed.
Print Assumptions C17_rejects.

(* after a successful Init of a well-typed configuration, every endpoint and backend carries
   usable values: method, positive timeout, concurrency >= 1, a decoder (the no-op decoder
   when the endpoint's output encoding is no-op; to_lower "no-op" = "no-op" is the only thing
   assumed of strings.ToLower), sanitised and
   non-empty hosts, canonical header names, url keys that are all resolvable *)
Theorem C17_post : forall clean_host to_lower, to_lower noop = noop -> forall s c,
  well_typed s -> init clean_host to_lower s = Ok c ->
  Forall2 (post_endpoint clean_host s) (s_endpoints s) (s_endpoints c).
Proof. exact post. Qed.
Print Assumptions C17_post.

(* async agents after a successful Init: positive consumer timeout, at least one worker, a
   health interval of at least a second; every backend has a method, the consumer timeout, a
   decoder, sanitised non-empty hosts *)
Theorem C17_post_agents : forall clean_host to_lower s c,
  well_typed s -> init clean_host to_lower s = Ok c ->
  Forall2 (post_agent clean_host) (s_agents s) (s_agents c).
Proof. exact post_agents. Qed.
Print Assumptions C17_post_agents.

(* header names: the result of canonicalisation is a fixed point of it *)
Theorem C17_canonical_idempotent : forall h, canon_header (canon_header h) = canon_header h.
Proof. exact canon_header_canonical. Qed.
Print Assumptions C17_canonical_idempotent.

(* the repaired graphql.New: no string value reaches an index or slice out of range *)
Theorem C17_graphql_new_total : forall vars site, gql_new vars <> FPanic site.
Proof. intros vars site. exact (graphql_mw_no_panic (fun _ => false) [(ns_graphql, JObj [("variables", JObj vars)])] site). Qed.
Print Assumptions C17_graphql_new_total.

(* the boolean oracles decide the Props *)
Theorem C17_well_typed_decided : forall s, well_typed_b s = true <-> well_typed s.
Proof. exact well_typed_iff. Qed.
Print Assumptions C17_well_typed_decided.

Theorem C17_must_reject_decided : forall clean_host s, must_reject_b clean_host s = true <-> must_reject clean_host s.
Proof. exact must_reject_iff. Qed.
Print Assumptions C17_must_reject_decided.

(* soundness and completeness of spec_b w.r.t. the property of an observation *)
Theorem C17_oracle_decides_spec : forall tbl s o, spec_b tbl s o = true <-> Spec tbl s o.
Proof. exact spec_b_iff. Qed.
Print Assumptions C17_oracle_decides_spec.

(* the executable model satisfies the oracle on every well-typed (indeed every) configuration *)
Theorem C17_model_meets_oracle : forall tbl readable to_lower s, to_lower noop = noop ->
  spec_b tbl s (obs_of readable (init (tbl_fun tbl) to_lower s)) = true.
Proof. intros. apply spec_b_iff. apply model_spec. assumption. Qed.
Print Assumptions C17_model_meets_oracle.

(* "reserved or malformed path", without the scanner: the path does not start with a slash,
   or some suffix of it starts with a star followed by a non-newline byte, or with
   /__debug, /__echo or /__health running to the end of the path *)
Theorem C17_invalid_path_characterised : forall s,
  invalid_path s = true <->
  (exists a r, s = String a r /\ is_c c_slash a = false) \/
  (s <> EmptyString /\ exists pre rest, s = (pre ++ rest)%string /\ (star_at rest = true \/ reserved_at rest = true)).
Proof. exact invalid_path_iff. Qed.
Print Assumptions C17_invalid_path_characterised.

(* ------------------------------------------------------------------------------------ *)
(* non-vacuity *)

Definition ex_backend (url : string) (hosts : list string) (extra : obj) : backend :=
  {| b_host := hosts; b_nosan := false; b_method := ""; b_url := url; b_enc := ""; b_coll := false;
     b_sd := ""; b_hdrs := ["x-a"]; b_allow := ["a.b"]; b_mapping := [("a", "b.c")]; b_extra := extra;
     b_keys := []; b_dec := DNil; b_timeout := 0; b_cc := 0 |}.
Definition ex_endpoint (path enc : string) (bs : list backend) : endpoint :=
  {| e_path := path; e_method := ""; e_backends := bs; e_cc := 0; e_timeout := 0; e_cache := 0;
     e_enc := enc; e_hdrs := ["content-type"]; e_extra := [] |}.
Definition ex_svc (v : Z) (es : list endpoint) : svc :=
  {| s_version := v; s_bad_addr := false; s_host := []; s_timeout := 0; s_cache := 0; s_enc := "";
     s_norest := false; s_endpoints := es; s_agents := [] |}.
Definition ex_agent_svc (hosts : list string) (bs : list backend) : svc :=
  {| s_version := 3; s_bad_addr := false; s_host := hosts; s_timeout := 0; s_cache := 0; s_enc := "";
     s_norest := false; s_endpoints := [];
     s_agents := [ {| a_name := ""; a_timeout := 0; a_workers := 0; a_health := 5; a_backends := bs; a_extra := [] |} ] |}.
Definition ex_clean (h : string) : option string := if str_eqb h "h h" then None else Some ("http://" ++ h)%string.
Definition ex_gql (v : string) : obj := [(ns_graphql, JObj [("type", JStr "query"); ("variables", JObj [("a", JStr v)])])].

(* the hypotheses are satisfiable, and an accepted configuration exists *)
Example C17_ex_well_typed :
  well_typed_b (ex_svc 3 [ex_endpoint "/a/{id}" "" [ex_backend "/b/{id}/{resp0_x}" ["h"] (ex_gql "{}")]]) = true.
Proof. vm_compute. reflexivity. Qed.
Example C17_ex_accepted :
  obs_of (fun _ => false) (init ex_clean (fun x => x) (ex_svc 3 [ex_endpoint "/a/{id}" "" [ex_backend "/b/{id}/{resp0_x}" ["h"] (ex_gql "{}")]]))
  = OOk [ {| oe_method := "GET"; oe_timeout := 2000000000; oe_cc := 1; oe_hdrs := ["Content-Type"];
             oe_backends := [ {| ob_host := ["http://h"]; ob_method := "GET"; ob_url := "/b/{{.Id}}/{{.Resp0_x}}";
                                 ob_keys := ["Id"; "Resp0_x"]; ob_dec := DJson; ob_timeout := 2000000000;
                                 ob_cc := 1; ob_hdrs := ["X-A"] |} ];
             oe_factory := KOk |} ] [].
Proof. vm_compute. reflexivity. Qed.
(* an async agent: defaults applied, pipe built; and rejected for an invalid host *)
Example C17_ex_agent_accepted :
  obs_of (fun _ => false) (init ex_clean (fun x => x) (ex_agent_svc ["s"] [ex_backend "/q" [] []; ex_backend "x" ["h"] []]))
  = OOk [] [ {| oa_timeout := 2000000000; oa_workers := 1; oa_health := 1000000000;
                oa_backends := [ {| ob_host := ["http://s"]; ob_method := "GET"; ob_url := "/q"; ob_keys := [];
                                    ob_dec := DJson; ob_timeout := 2000000000; ob_cc := 0; ob_hdrs := ["x-a"] |};
                                 {| ob_host := ["http://h"]; ob_method := "GET"; ob_url := "x"; ob_keys := [];
                                    ob_dec := DJson; ob_timeout := 2000000000; ob_cc := 0; ob_hdrs := ["x-a"] |} ];
                oa_factory := KOk |} ].
Proof. vm_compute. reflexivity. Qed.
Example C17_ex_agent_well_typed : well_typed_b (ex_agent_svc ["s"] [ex_backend "/q" [] []]) = true.
Proof. vm_compute. reflexivity. Qed.
Example C17_ex_agent_host : init ex_clean (fun x => x) (ex_agent_svc [] [ex_backend "/q" ["h h"] []]) = Err EHost.
Proof. vm_compute. reflexivity. Qed.
Example C17_ex_agent_must_reject : must_reject_b ex_clean (ex_agent_svc [] [ex_backend "/q" ["h h"] []]) = true.
Proof. vm_compute. reflexivity. Qed.
(* each rejected class is inhabited and rejected *)
Example C17_ex_version : init ex_clean (fun x => x) (ex_svc 2 []) = Err EVersion.
Proof. vm_compute. reflexivity. Qed.
Example C17_ex_no_backends : init ex_clean (fun x => x) (ex_svc 3 [ex_endpoint "/a" "" []]) = Err ENoBackends.
Proof. vm_compute. reflexivity. Qed.
Example C17_ex_reserved : init ex_clean (fun x => x) (ex_svc 3 [ex_endpoint "/__debug/x" "" [ex_backend "/b" ["h"] []]]) = Err EPath.
Proof. vm_compute. reflexivity. Qed.
Example C17_ex_host : init ex_clean (fun x => x) (ex_svc 3 [ex_endpoint "/a" "" [ex_backend "/b" ["h h"] []]]) = Err EHost.
Proof. vm_compute. reflexivity. Qed.
Example C17_ex_noop : init ex_clean (fun x => x) (ex_svc 3 [ex_endpoint "/a" "no-op" [ex_backend "/b" ["h"] []; ex_backend "/c" ["h"] []]]) = Err ENoop.
Proof. vm_compute. reflexivity. Qed.
(* a no-op endpoint imposes the no-op decoder on a backend that names another encoding *)
Example C17_ex_noop_decoder :
  obs_of (fun _ => false) (init ex_clean (fun x => x)
    (ex_svc 3 [ex_endpoint "/a" "no-op" [ {| b_host := ["h"]; b_nosan := false; b_method := ""; b_url := "/b"; b_enc := "json";
       b_coll := true; b_sd := ""; b_hdrs := []; b_allow := []; b_mapping := []; b_extra := [];
       b_keys := []; b_dec := DNil; b_timeout := 0; b_cc := 0 |} ]]))
  = OOk [ {| oe_method := "GET"; oe_timeout := 2000000000; oe_cc := 1; oe_hdrs := ["Content-Type"];
             oe_backends := [ {| ob_host := ["http://h"]; ob_method := "GET"; ob_url := "/b"; ob_keys := [];
                                 ob_dec := DNoop; ob_timeout := 2000000000; ob_cc := 1; ob_hdrs := [] |} ];
             oe_factory := KOk |} ] [].
Proof. vm_compute. reflexivity. Qed.
Example C17_ex_undeclared : init ex_clean (fun x => x) (ex_svc 3 [ex_endpoint "/a/{id}" "" [ex_backend "/b/{other}" ["h"] []]]) = Err EUndefinedParam.
Proof. vm_compute. reflexivity. Qed.
Example C17_ex_ambiguous : init ex_clean (fun x => x) (ex_svc 3 [ex_endpoint "/{id}/{Id}" "" [ex_backend "/b" ["h"] []]]) = Err EAmbiguous.
Proof. vm_compute. reflexivity. Qed.
Example C17_ex_must_reject : must_reject_b ex_clean (ex_svc 3 [ex_endpoint "/a/{id}" "" [ex_backend "/b/{other}" ["h"] []]]) = true.
Proof. vm_compute. reflexivity. Qed.
(* the panic sites are reachable outside the quantifier: the hypotheses of C17_total are needed *)
Example C17_ex_dns_no_host :
  factory_new (fun _ => false) (ex_endpoint "/a" "" [ {| b_host := []; b_nosan := false; b_method := "GET"; b_url := "/b"; b_enc := "";
     b_coll := false; b_sd := "dns"; b_hdrs := []; b_allow := []; b_mapping := []; b_extra := [];
     b_keys := []; b_dec := DJson; b_timeout := 1; b_cc := 1 |} ]) = FPanic "dnssrv/subscriber.go:46 cfg.Host[0]".
Proof. vm_compute. reflexivity. Qed.
(* a GraphQL section whose query_path cannot be read is skipped (no stage), a readable one is used *)
Example C17_ex_query_path_unreadable :
  gql_options (fun _ => false) [(ns_graphql, JObj [("query_path", JStr "/missing"); ("variables", JObj [("a", JStr "")])])] = None.
Proof. vm_compute. reflexivity. Qed.
Example C17_ex_query_path_readable :
  gql_options (fun _ => true) [(ns_graphql, JObj [("query_path", JStr "/q.graphql"); ("variables", JObj [("a", JStr "")])])]
  = Some [("a", JStr "")].
Proof. vm_compute. reflexivity. Qed.
Example C17_ex_combiner_not_string :
  merge_new [(ns_proxy, JObj [("combiner", JNum "5")])] = FPanic "merging.go:438 v.(string)".
Proof. vm_compute. reflexivity. Qed.
