(* C02 - Sequential merge calls backends in order and stops at the first failure.
   Only theorem statements, each closed by an exact lemma, and Print Assumptions. *)
Require Import Verif.Common.Base Verif.Common.Json.
Require Import Verif.Model.C02 Verif.Spec.C02 Verif.Proof.C02.

(* bes: the N backends (url pattern, replacement table) with their scripted outcomes.
   The stubs' enter/exit log is enter 0, exit 0, ..., enter k-1, exit k-1 where k counts the
   backends up to and including the first one that fails, returns nothing or returns an
   incomplete answer (k = N when there is none): in order, never overlapping, nothing after
   the first non-successful backend.  Every N, every position and kind, every configuration. *)
Theorem C02_prefix : forall bes ps0,
  map shape (fst (seq_run_cfg bes ps0)) =
  flat_map (fun i => [(i, true); (i, false)]) (seq 0 (n_called (map snd bes))).
Proof. exact model_calls_spec. Qed.
Print Assumptions C02_prefix.

(* what the caller receives (N >= 2; with one backend the merger is not installed):
   first backend fails -> its own error and no response; otherwise a response whose data
   has exactly the keys of the answers obtained, every value one of those offered, flagged
   complete iff all N backends answered completely with data, and the error is the failure
   of the backend the loop stopped at (merge error with that single entry) or nil *)
Theorem C02_result : forall bes ps0,
  2 <= List.length bes ->
  result_spec eq (map snd bes) (snd (seq_run_cfg bes ps0)).
Proof. exact model_result_spec. Qed.
Print Assumptions C02_result.

(* propagation: whenever backend i is called and every placeholder of its pattern refers to
   an earlier response (index < i) at a path that exists there and holds a scalar (string,
   boolean, JSON number), and every endpoint parameter it uses is present, the path the
   backend is called with is the pattern with every placeholder replaced by the text of the
   referenced value - nothing else changed, no placeholder left.  Hypotheses: distinct
   placeholders have distinct destination keys (holds when path segments contain no '.',
   decided by dests_distinct_b, see C02_dests_distinct_reflect), no key contains a brace, no
   literal/propagated value/endpoint parameter contains '{', endpoint parameters used in
   the pattern are not named Resp... (tmpl_clean).  A missing intermediate segment makes
   [fill] undefined, so the shallower-object quirk is outside the statement. *)
Theorem C02_propagation : forall ts outs ps0,
  dests_distinct ts -> dests_clean_b ts = true ->
  forall i path t s,
    In (i, path) (call_paths (fst (seq_run ts outs ps0))) -> nth_error ts i = Some t ->
    tmpl_clean outs ps0 i t = true ->
    fill outs ps0 i t = Some s -> path = s.
Proof. exact model_propagation_spec. Qed.
Print Assumptions C02_propagation.

Theorem C02_dests_distinct_reflect : forall ts, dests_distinct_b ts = true <-> dests_distinct ts.
Proof. exact dests_distinct_reflect. Qed.
Print Assumptions C02_dests_distinct_reflect.

(* Request.GeneratePath (textual ReplaceAll per parameter, any map order) on a pattern that
   comes from a template = the template with every placeholder whose key is in the
   parameter table replaced by its value *)
Theorem C02_generate_path_template : forall t ps,
  forallb seg_keys_clean t = true ->
  (forall k v, In (k, v) ps -> no_brace k = true /\ (has_key t k -> no_open v = true)) ->
  generate_path (render t) ps = cat (map (seg_subst ps) t).
Proof. exact generate_path_template. Qed.
Print Assumptions C02_generate_path_template.

(* the result theorem for the template-level entry point used by the correspondence run *)
Theorem C02_result_run : forall ts outs ps0,
  List.length ts = List.length outs -> 2 <= List.length outs ->
  result_spec eq outs (snd (seq_run ts outs ps0)).
Proof. exact model_result_spec_ts. Qed.
Print Assumptions C02_result_run.

(* soundness of the boolean oracle evaluated on the implementation's observations *)
Theorem C02_oracle_sound : forall ts outs ps0 o,
  spec_b ts outs ps0 o = true -> spec json_same ts outs ps0 o.
Proof. exact spec_b_sound. Qed.
Print Assumptions C02_oracle_sound.

(* the executable model satisfies the boolean oracle that is applied to the
   implementation's observations, for every input with N >= 2 whose documents have no
   duplicate keys (ties spec_b to the model: a correct implementation is never flagged) *)
Theorem C02_model_meets_oracle : forall ts outs ps0,
  List.length ts = List.length outs -> 2 <= List.length outs -> Forall wf_out outs ->
  spec_b ts outs ps0 (seq_run ts outs ps0) = true.
Proof. exact model_meets_oracle. Qed.
Print Assumptions C02_model_meets_oracle.

(* distinct placeholders have distinct destination keys and no key has a brace, for every
   configuration whose path segments are non-empty lists of strings without '.', '{', '}'
   (all that the grammar [a-zA-Z0-9_-] of the configuration can express): the two global
   hypotheses of C02_propagation are discharged syntactically *)
Theorem C02_dests_distinct_simple : forall ts,
  holes_simple ts = true -> dests_distinct ts /\ dests_clean_b ts = true.
Proof. intros ts H. split; [apply holes_simple_distinct|apply holes_simple_clean]; exact H. Qed.
Print Assumptions C02_dests_distinct_simple.

Theorem C02_dest_key_injective : forall j p j' p',
  path_simple p = true -> path_simple p' = true -> dest_key j p = dest_key j' p' -> j = j' /\ p = p'.
Proof. exact dest_key_inj. Qed.
Print Assumptions C02_dest_key_injective.

(* C02_propagation with the syntactic hypothesis only *)
Theorem C02_propagation_syntactic : forall ts outs ps0,
  holes_simple ts = true ->
  forall i path t s,
    In (i, path) (call_paths (fst (seq_run ts outs ps0))) -> nth_error ts i = Some t ->
    tmpl_clean outs ps0 i t = true ->
    fill outs ps0 i t = Some s -> path = s.
Proof. exact model_propagation_syntactic. Qed.
Print Assumptions C02_propagation_syntactic.

(* the exact path of EVERY call, whatever the placeholders refer to: each placeholder is
   replaced by param_of (lookup_src ...) of the referenced response when the index is
   earlier and the (quirky) lookup finds something - scalars as their text, arrays joined by
   commas, anything else with %v - and is otherwise left as it is (or takes the value of an
   endpoint parameter that happens to be named like its key) *)
Theorem C02_path_exact : forall ts outs ps0,
  dests_distinct ts -> dests_clean_b ts = true ->
  forall i path t,
    In (i, path) (call_paths (fst (seq_run ts outs ps0))) -> nth_error ts i = Some t ->
    tmpl_clean_q outs ps0 i t = true ->
    path = cat (map (seg_text_q outs ps0 i) t).
Proof. exact model_path_exact. Qed.
Print Assumptions C02_path_exact.

(* the quirk outside the property's hypothesis: the path is pre ++ k :: rest, the segments
   pre lead through objects to the object m, and k is missing in m (or is not an object)
   although it is not the last segment.  Then what is substituted is the value of the LAST
   segment looked up in m (the object reached so far), formatted by param_of (a scalar as its
   text); when m has no such key the placeholder is left (up to a same-named endpoint
   parameter) *)
Theorem C02_missing_intermediate_quirk : forall ts outs ps0,
  dests_distinct ts -> dests_clean_b ts = true ->
  forall i path t j r pre k rest m,
    In (i, path) (call_paths (fst (seq_run ts outs ps0))) -> nth_error ts i = Some t ->
    tmpl_clean_q outs ps0 i t = true ->
    In (Hole j (pre ++ k :: rest)) t -> (j < i)%nat -> nth_error outs j = Some (OResp r) ->
    get_path (JObj (data_or_empty r)) pre = Some (JObj m) ->
    rest <> [] -> (forall m', lookup k m <> Some (JObj m')) ->
    path = cat (map (seg_text_q outs ps0 i) t) /\
    seg_text_q outs ps0 i (Hole j (pre ++ k :: rest)) =
      match lookup (last rest k) m with
      | Some v => param_of v
      | None => match lookup (dest_key j (pre ++ k :: rest)) ps0 with
                | Some v => v
                | None => ph (dest_key j (pre ++ k :: rest))
                end
      end.
Proof. exact model_missing_intermediate_quirk. Qed.
Print Assumptions C02_missing_intermediate_quirk.

(* the lookup itself: quirk and plain case *)
Theorem C02_lookup_src_quirk : forall pre d m k rest,
  get_path (JObj d) pre = Some (JObj m) -> rest <> [] ->
  (forall m', lookup k m <> Some (JObj m')) ->
  lookup_src d (pre ++ k :: rest) = lookup (last rest k) m.
Proof. exact lookup_src_quirk. Qed.
Print Assumptions C02_lookup_src_quirk.

Theorem C02_lookup_src_plain : forall pre d m k,
  get_path (JObj d) pre = Some (JObj m) -> lookup_src d (pre ++ [k]) = lookup k m.
Proof. exact lookup_src_plain. Qed.
Print Assumptions C02_lookup_src_plain.

(* backends behind the real HTTP proxy: a reply whose status is not 200/201 is a
   non-successful step in every status mode - an error (default, return_error_code) or, with
   return_error_details, a response that carries error_<name> and is not complete *)
Theorem C02_http_non2xx_not_successful : forall m r,
  ok_status (h_code r) = false ->
  ok_out (http_outcome m r) = false /\ full_out (http_outcome m r) = false.
Proof. exact http_non2xx_stops. Qed.
Print Assumptions C02_http_non2xx_not_successful.

(* ... so the chain stops there: with successful backends before it, exactly those and the
   failing one are entered (in order, no overlap), whatever follows, every status, every mode *)
Theorem C02_http_failure_stops_chain : forall ts pre m r rest ps0,
  ok_status (h_code r) = false ->
  forallb (fun x => ok_out (http_outcome (fst x) (snd x))) pre = true ->
  List.length ts = List.length (pre ++ (m, r) :: rest) ->
  map shape (fst (seq_run_http ts (pre ++ (m, r) :: rest) ps0)) = expected_shapes (S (List.length pre)).
Proof. exact http_failure_stops_chain. Qed.
Print Assumptions C02_http_failure_stops_chain.

(* the caller's context is cancelled (or its deadline passes) while backend k = |pre| is
   working, after k successful backends.  The merger takes from backend k either its answer
   or the context error (o), and every later backend returns the context error e at once.
   Then exactly backends 0..k are entered - plus backend k+1 when the answer of k was still
   taken and was complete - in order, without overlap, never one more; and whatever the
   caller receives is not flagged complete *)
Theorem C02_cancel_mid_chain : forall ts pre o e rest ps0,
  forallb ok_out pre = true ->
  List.length ts = List.length (pre ++ o :: OErr e :: rest) ->
  let run := seq_run ts (pre ++ o :: OErr e :: rest) ps0 in
  map shape (fst run) = expected_shapes (if ok_out o then S (S (List.length pre)) else S (List.length pre)) /\
  (forall x, fst (snd run) = Some x -> complete x = false).
Proof. exact cancel_mid_chain. Qed.
Print Assumptions C02_cancel_mid_chain.

(* arrays as propagated values: an array of scalars becomes its elements' texts joined by
   commas (the empty array the empty string); with C02_path_exact this is the text in the
   path.  null becomes <nil>; nested arrays / objects print as Go's %v (fmt_v) *)
Theorem C02_array_value_text : forall l,
  Forall (fun v => scalar_text v <> None) l ->
  param_of (JArr l) = join "," (map (fun v => match scalar_text v with Some s => s | None => "" end) l).
Proof. exact param_of_scalar_array. Qed.
Print Assumptions C02_array_value_text.

(* the model also satisfies the oracle on the HTTP case kind (CSeqH) *)
Theorem C02_model_meets_oracle_http : forall ts hs ps0,
  List.length ts = List.length hs -> 2 <= List.length hs ->
  Forall (fun x => match h_decoded (snd x) with Some d => wfj (JObj d) = true | None => True end) hs ->
  spec_b ts (map (fun x => http_outcome (fst x) (snd x)) hs) ps0 (seq_run_http ts hs ps0) = true.
Proof. exact model_meets_oracle_http. Qed.
Print Assumptions C02_model_meets_oracle_http.

(* sequential_propagated_params: the loop extended with the extra table entries (and
   reporting request.Params per backend, compared with the real code in case kind CSeqP)
   is the verified loop when no parameter is propagated *)
Theorem C02_propagated_params_conservative : forall ts outs ps0,
  (let '(e, _, r) := seq_run_x ts [] outs ps0 in (e, r)) = seq_run ts outs ps0.
Proof. exact seq_run_x_nil. Qed.
Print Assumptions C02_propagated_params_conservative.

(* ---- non-vacuity ---- *)
Definition ex_ts : list tmpl :=
  [[Lit "/b0"]; [Lit "/b1"]; [Lit "/b2/"; Hole 0 ["id"]; Lit "/"; Hole 1 ["o"; "k"]]].
Definition ex_outs : list outcome :=
  [OResp {| data := Some [("id", JNum "1")]; complete := true |};
   OResp {| data := Some [("id", JNum "7"); ("o", JObj [("k", JStr "x y")])]; complete := true |};
   OResp {| data := Some [("z", JBool true)]; complete := true |}].

Example C02_ex_all_called :
  seq_run ex_ts ex_outs [] =
  ([ECall 0 "/b0"; ERet 0; ECall 1 "/b1"; ERet 1; ECall 2 "/b2/1/x y"; ERet 2],
   (Some {| data := Some [("z", JBool true); ("o", JObj [("k", JStr "x y")]); ("id", JNum "7")]; complete := true |}, RNone)).
Proof. vm_compute. reflexivity. Qed.

Example C02_ex_stops_at_incomplete :
  seq_run ex_ts [nth 0 ex_outs OEmpty; OResp {| data := Some [("p", JNull)]; complete := false |}; nth 2 ex_outs OEmpty] [] =
  ([ECall 0 "/b0"; ERet 0; ECall 1 "/b1"; ERet 1],
   (Some {| data := Some [("p", JNull); ("id", JNum "1")]; complete := false |}, RNone)).
Proof. vm_compute. reflexivity. Qed.

Example C02_ex_first_fails :
  seq_run ex_ts [OErr (EBackend "e0"); nth 1 ex_outs OEmpty; nth 2 ex_outs OEmpty] [] =
  ([ECall 0 "/b0"; ERet 0], (None, RRaw (EBackend "e0"))).
Proof. vm_compute. reflexivity. Qed.

Example C02_ex_second_returns_nothing :
  snd (seq_run ex_ts [nth 0 ex_outs OEmpty; OEmpty; nth 2 ex_outs OEmpty] []) =
  (Some {| data := Some [("id", JNum "1")]; complete := false |}, RMerge [ENull]).
Proof. vm_compute. reflexivity. Qed.

(* the quirk kept outside the hypothesis "the referenced path exists": a missing
   intermediate segment makes the loop look the last key up in the shallower object *)
Example C02_ex_shallower_object :
  lookup_src [("a", JObj [("c", JStr "shallow")])] ["a"; "b"; "c"] = Some (JStr "shallow") /\
  get_path (JObj [("a", JObj [("c", JStr "shallow")])]) ["a"; "b"; "c"] = None.
Proof. vm_compute. split; reflexivity. Qed.

(* the defect repaired by fixes/C02-seq-parts-alias.diff: with parts[0] aliased to the
   accumulator, backend 2 is called with the id of response 1 where it refers to response 0;
   the oracle rejects that run and accepts the repaired one *)
Example C02_unrepaired_refuted :
  fst (seq_run_aliased ex_ts ex_outs []) =
    [ECall 0 "/b0"; ERet 0; ECall 1 "/b1"; ERet 1; ECall 2 "/b2/7/x y"; ERet 2] /\
  spec_b ex_ts ex_outs [] (seq_run_aliased ex_ts ex_outs []) = false /\
  spec_b ex_ts ex_outs [] (seq_run ex_ts ex_outs []) = true.
Proof. vm_compute. repeat split; reflexivity. Qed.

(* the hypotheses of C02_propagation are satisfiable and the conclusion is not vacuous *)
Example C02_ex_propagation_applies :
  dests_distinct_b ex_ts = true /\ dests_clean_b ex_ts = true /\
  tmpl_clean ex_outs [] 2 (nth 2 ex_ts []) = true /\
  fill ex_outs [] 2 (nth 2 ex_ts []) = Some "/b2/1/x y" /\
  In (2, "/b2/1/x y") (call_paths (fst (seq_run ex_ts ex_outs []))).
Proof. vm_compute. repeat split; auto. Qed.

Example C02_ex_wf_inputs : Forall wf_out ex_outs /\ List.length ex_ts = List.length ex_outs.
Proof. split; [repeat constructor|reflexivity]. Qed.

(* the syntactic hypothesis holds of the example, and the quirk theorem is not vacuous *)
Example C02_ex_holes_simple : holes_simple ex_ts = true.
Proof. vm_compute. reflexivity. Qed.

Definition exq_ts : list tmpl := [[Lit "/b0"]; [Lit "/b1/"; Hole 0 ["a"; "b"; "c"]; Lit "/"; Hole 0 ["a"; "x"; "nope"]]].
Definition exq_outs : list outcome :=
  [OResp {| data := Some [("a", JObj [("c", JStr "shallow")])]; complete := true |};
   OResp {| data := Some []; complete := true |}].
Example C02_ex_quirk :
  holes_simple exq_ts = true /\ tmpl_clean_q exq_outs [] 1 (nth 1 exq_ts []) = true /\
  get_path (JObj [("a", JObj [("c", JStr "shallow")])]) ["a"] = Some (JObj [("c", JStr "shallow")]) /\
  lookup "b" [("c", JStr "shallow")] = None /\
  fst (seq_run exq_ts exq_outs []) =
    [ECall 0 "/b0"; ERet 0; ECall 1 "/b1/shallow/{{.Resp0_a.x.nope}}"; ERet 1].
Proof. vm_compute. repeat split; reflexivity. Qed.

Example C02_ex_http_404_details :
  seq_run_http [[Lit "/b0"]; [Lit "/b1"]; [Lit "/b2"]]
    [(HDefault, {| h_code := 200; h_body := "{}"; h_enc := ""; h_decoded := Some [("a", JNum "1")] |});
     (HDetails "n1", {| h_code := 404; h_body := "gone"; h_enc := "text/plain"; h_decoded := None |});
     (HDefault, {| h_code := 200; h_body := "{}"; h_enc := ""; h_decoded := Some [("c", JNum "3")] |})] [] =
  ([ECall 0 "/b0"; ERet 0; ECall 1 "/b1"; ERet 1],
   (Some {| data := Some [("error_n1", JObj [("http_status_code", JNum "404"); ("http_body", JStr "gone");
                                             ("http_body_encoding", JStr "text/plain")]); ("a", JNum "1")];
            complete := false |}, RNone)).
Proof. vm_compute. reflexivity. Qed.

Example C02_ex_values_text :
  param_of (JArr [JStr "a"; JNum "2"; JBool true]) = "a,2,true" /\ param_of (JArr []) = "" /\
  param_of JNull = "<nil>" /\ param_of (JArr [JNull; JArr [JNum "1"; JNum "2"]]) = "<nil>,[1 2]" /\
  param_of (JObj [("a", JNum "1"); ("k", JStr "v")]) = "map[a:1 k:v]".
Proof. vm_compute. repeat split; reflexivity. Qed.

(* both resolutions of the cancellation race *)
Example C02_ex_cancel :
  let ok d := OResp {| data := Some d; complete := true |} in
  let ts := [[Lit "/b0"]; [Lit "/b1"]; [Lit "/b2"]] in
  fst (seq_run ts [ok [("a", JNum "1")]; OErr (EOther "context canceled"); OErr (EOther "context canceled")] []) =
    [ECall 0 "/b0"; ERet 0; ECall 1 "/b1"; ERet 1] /\
  seq_run ts [ok [("a", JNum "1")]; ok [("b", JNum "2")]; OErr (EOther "context canceled")] [] =
    ([ECall 0 "/b0"; ERet 0; ECall 1 "/b1"; ERet 1; ECall 2 "/b2"; ERet 2],
     (Some {| data := Some [("b", JNum "2"); ("a", JNum "1")]; complete := false |}, RMerge [EOther "context canceled"])).
Proof. vm_compute. split; reflexivity. Qed.

Example C02_ex_propagated_params :
  seq_run_x [[Lit "/b0"]; [Lit "/b1"]; [Lit "/b2/"; Hole 0 ["a"]]] [(0, ["l"]); (1, ["o"; "k"]); (7, ["x"])]
    [OResp {| data := Some [("a", JStr "A"); ("l", JArr [JNum "1"; JNull])]; complete := true |};
     OResp {| data := Some [("o", JObj [("k", JBool true)])]; complete := true |};
     OResp {| data := Some []; complete := true |}] [("Id", "7")] =
  ([ECall 0 "/b0"; ERet 0; ECall 1 "/b1"; ERet 1; ECall 2 "/b2/A"; ERet 2],
   [(0, [("Id", "7")]); (1, [("Resp0_l", "1,<nil>"); ("Id", "7")]);
    (2, [("Resp1_o.k", "true"); ("Resp0_l", "1,<nil>"); ("Resp0_a", "A"); ("Id", "7")])],
   (Some {| data := Some [("o", JObj [("k", JBool true)]); ("a", JStr "A"); ("l", JArr [JNum "1"; JNull])];
            complete := true |}, RNone)).
Proof. vm_compute. reflexivity. Qed.
