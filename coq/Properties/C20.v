(* C20 - Process-wide registries and helpers are safe under concurrent use; back-off bounds.
   Only theorem statements, each closed by an exact lemma, and Print Assumptions. *)
Require Import Verif.Common.Base Verif.Common.LockEv.
Require Import Verif.Model.C20 Verif.Spec.C20 Verif.Proof.C20.
Require Import Verif.Proof.C20_race Verif.Proof.C20_lin Verif.Proof.C20_ns Verif.Proof.C20_hist Verif.Proof.C20_nsgen Verif.Proof.C20_live Verif.Proof.C20_mhist.
Open Scope Z_scope.

(* ---- back-off: attempts 0..30, durations in ns on int64 ---- *)

(* no int64 overflow: the wrapped machine values are the mathematical ones *)
Theorem C20_backoff_no_overflow : forall s i, 0 <= i <= 30 ->
  backoff s i = match s with SDefault => second | SLinear => i * second | SExponential => 2 ^ i * second end.
Proof. exact backoff_no_overflow. Qed.
Print Assumptions C20_backoff_no_overflow.

Theorem C20_backoff_nonneg : forall s i, 0 <= i <= 30 -> 0 <= backoff s i.
Proof. exact backoff_nonneg. Qed.
Print Assumptions C20_backoff_nonneg.

Theorem C20_backoff_monotone : forall s i j, 0 <= i -> i <= j -> j <= 30 -> backoff s i <= backoff s j.
Proof. exact backoff_monotone. Qed.
Print Assumptions C20_backoff_monotone.

(* the jittered variants, for every value r the random source can return (0 <= r < the argument
   of Intn): positive, and within one third plus 1ms of the nominal delay *)
Theorem C20_jitter : forall s i r, 0 <= i <= 30 -> 0 <= r < intn_arg s i ->
  0 < jbackoff s i r /\ Z.abs (jbackoff s i r - nominal s i) <= nominal s i / 3 + millisecond.
Proof. exact jitter_thm. Qed.
Print Assumptions C20_jitter.

Theorem C20_jitter_no_overflow : forall s i r, 0 <= i <= 30 -> 0 <= r < intn_arg s i ->
  let ms := jarg s i * 1000 in
  jbackoff s i r = (if ms + (r - (ms / 3 + 1)) <=? 0 then 1 else ms + (r - (ms / 3 + 1))) * millisecond.
Proof. exact jitter_no_overflow. Qed.
Print Assumptions C20_jitter_no_overflow.

(* Intn never panics on these attempts (its argument is positive) *)
Theorem C20_intn_defined : forall s i, 0 <= i <= 30 ->
  intn_arg s i = 2 * (jarg s i * 1000 / 3 + 1) /\ 0 < intn_arg s i.
Proof. exact intn_arg_exact. Qed.
Print Assumptions C20_intn_defined.

(* the boolean oracles applied to the implementation's observations mean what they should,
   and the model passes them on every input *)
Theorem C20_oracle_sound_jitter : forall nom d, jit_spec_b nom d = true <-> JitSpec nom d.
Proof. exact jit_spec_b_iff. Qed.
Print Assumptions C20_oracle_sound_jitter.

Theorem C20_oracle_sound_backoff : forall from obs, back_spec_b from obs = true ->
  (forall d, In d (in_dom_obs from obs) -> 0 <= d) /\
  (forall a b x y, nth_error (in_dom_obs from obs) a = Some x -> nth_error (in_dom_obs from obs) b = Some y ->
                   (a <= b)%nat -> x <= y).
Proof. exact back_spec_b_sound. Qed.
Print Assumptions C20_oracle_sound_backoff.

Theorem C20_model_meets_oracle : forall s i r, 0 <= i <= 30 -> 0 <= r < intn_arg s i ->
  jit_spec_b (nominal s i) (jbackoff s i r) = true.
Proof. exact model_meets_jit_oracle. Qed.
Print Assumptions C20_model_meets_oracle.

Theorem C20_model_meets_oracle_backoff : forall s from n,
  back_spec_b from (map (backoff s) (zseq from n)) = true.
Proof. exact model_meets_back_oracle. Qed.
Print Assumptions C20_model_meets_oracle_backoff.

(* non-vacuity / boundary witnesses *)
Example C20_ex_exp30 : backoff SExponential 30 = 1073741824000000000.
Proof. vm_compute. reflexivity. Qed.
(* attempt 34 would overflow int64: the bound 30 of the statement is inside the safe range *)
Example C20_ex_exp34_wraps : backoff SExponential 34 < 0.
Proof. vm_compute. reflexivity. Qed.
Example C20_ex_jitter0 : jbackoff JLinear 0 0 = millisecond /\ jbackoff JLinear 0 1 = millisecond.
Proof. vm_compute. auto. Qed.
Example C20_ex_jitter_extremes :
  jbackoff JLinear 3 0 = 1999 * millisecond /\ jbackoff JLinear 3 2001 = 4000 * millisecond /\ intn_arg JLinear 3 = 2002.
Proof. vm_compute. auto. Qed.

Close Scope Z_scope.

(* ---- registries and helpers under concurrent use ----
   The machine of Model/C20.v: any number of threads, each executing any list of operations whose
   bodies are event lists as regenerated from the sources (Common/LockEv.v); a schedule is any list
   of thread numbers.  wf_progs m: every body passes LockEv.disciplined (the check re-proved on the
   regenerated facts on every run) and names the one lock m. *)

(* data-race freedom: in every reachable state no two threads stand before conflicting accesses
   (a write and any other access to one object), and no object was ever destroyed by a racy write *)
Theorem C20_registry_race_free :
  forall (D X : Type) (m : string) (progs : list (list (@op D X))) (dat : string -> option D) sched s,
    wf_progs m progs -> (forall o, dat o <> None) ->
    run (init progs dat) sched = Some s -> no_race s /\ clean s.
Proof. intros D X. exact (@registry_race_free D X). Qed.
Print Assumptions C20_registry_race_free.

(* every completed lookup (a body that reads the object and calls nothing) returned the
   observation of the object's contents at a point of the execution at which that very operation
   was in flight: after its invocation, before its return.  With o_rd = "the value under key k"
   this is: every lookup returns the previous or the newly registered value, never a torn one. *)
Theorem C20_lookup_atomic :
  forall (D X : Type) (m : string) (progs : list (list (@op D X))) (dat : string -> option D) sched s t th i o r,
    wf_progs m progs -> (forall ob, dat ob <> None) ->
    run (init progs dat) sched = Some s ->
    nth_error (s_threads s) t = Some th -> nth_error (t_log th) i = Some (o, r) ->
    lookup_body (o_body o) = true ->
    lin_point (init progs dat) sched t i o r.
Proof. intros D X. exact (@lookup_atomic D X). Qed.
Print Assumptions C20_lookup_atomic.

(* ... and the contents of an object change only in single steps of an operation that is in flight
   (thread t stands before its write, or before a call of a self-locking method), to exactly what
   that operation writes: registrations take effect atomically, between invocation and return *)
Theorem C20_contents_by_registrations :
  forall (D X : Type) (m : string) (progs : list (list (@op D X))) (dat : string -> option D) sched s t s',
    wf_progs m progs -> (forall o, dat o <> None) ->
    run (init progs dat) sched = Some s -> step s t = Some s' ->
    s_data s' = s_data s \/ written_by s t s'.
Proof. intros D X. exact (@contents_by_registrations D X). Qed.
Print Assumptions C20_contents_by_registrations.

(* a disciplined path never acquires a lock (read or write) while it holds one: a goroutine never
   blocks on a lock it holds itself; in particular no recursive read lock, which sync.RWMutex turns
   into a deadlock as soon as a writer arrives between the two acquisitions *)
Theorem C20_disciplined_no_nested_lock : forall l pre e post h,
  disciplined l = true -> l = pre ++ e :: post -> lev_run HNone pre = Some h -> is_acquire e = true ->
  h = HNone.
Proof. exact disciplined_no_nested_lock. Qed.
Print Assumptions C20_disciplined_no_nested_lock.

(* no deadlock: any number of threads, disciplined operations on one lock, every schedule - in
   every reachable state in which some thread has not finished, some thread has an enabled step *)
Theorem C20_no_deadlock :
  forall (D X : Type) (m : string) (progs : list (list (@op D X))) (dat : string -> option D) sched s,
    wf_progs m progs -> (forall o, dat o <> None) ->
    run (init progs dat) sched = Some s -> finished s = false ->
    exists t s', step s t = Some s'.
Proof. intros D X. exact (@no_deadlock D X). Qed.
Print Assumptions C20_no_deadlock.

(* documented witness about the event list of Namespaced.Register BEFORE the repair (two
   self-locking calls outside any critical section): it fails the discipline, and there is an
   execution of two first registrations in one namespace that loses one of them *)
Theorem C20_namespaced_lost_update_refuted :
  disciplined ns_register_old = false /\
  exists sched s,
    run (init (ns_progs ns_register_old) ns_dat) sched = Some s /\ finished s = true /\
    s_data s "data" = Some [("ns", [("b", 2%Z)])] /\ ns_both (s_data s "data") = false.
Proof. exact ns_lost_update_old. Qed.
Print Assumptions C20_namespaced_lost_update_refuted.

(* the repaired event list, two goroutines, ALL 2^12 schedules (a complete execution has exactly
   12 steps): every complete execution keeps both registrations; complete executions exist *)
Theorem C20_namespaced_two_goroutines_no_lost_update :
  disciplined ns_register_new = true /\
  forallb (complete_ok ns_register_new) (all_scheds 2 12) = true /\
  existsb (completes ns_register_new) (all_scheds 2 12) = true.
Proof. exact ns_no_lost_update_new. Qed.
Print Assumptions C20_namespaced_two_goroutines_no_lost_update.

(* the general statement: ANY number of goroutines, each performing any sequence of
   Namespaced.Register / AddNamespace / Get operations (ns_op), every operation executing an
   arbitrary event list that is disciplined on the one lock m (wf_progs) and has the check-then-act
   shape on the outer register obj (cta_ok: every mutating call under the WRITE lock, after a
   lookup made in the same critical section), EVERY schedule, every reachable state s: a
   completed Register whose result says that it stored its name (ns_stored: the two results the
   real control flow can end with) has its name present in its namespace.  Proved by an invariant:
   a thread that missed the namespace under the write lock knows it is still missing, so every
   store fills an existing namespace or creates a missing one - the compound operation is atomic *)
Theorem C20_namespaced_no_lost_registration :
  forall (m obj : string) progs (dat : string -> option nsmap) sched s t th ns name v body r,
    wf_progs m progs -> ns_prog_ok obj progs -> (forall o, dat o <> None) ->
    run (init progs dat) sched = Some s ->
    nth_error (s_threads s) t = Some th -> In (ns_op (KReg ns name v) body, r) (t_log th) -> ns_stored r ->
    ns_present s obj ns name.
Proof. exact ns_no_lost. Qed.
Print Assumptions C20_namespaced_no_lost_registration.

(* ... and no step of any operation (AddNamespace included) ever removes a name that is present:
   a namespace that has registrations is never replaced or emptied *)
Theorem C20_namespaced_monotone :
  forall (m obj : string) progs (dat : string -> option nsmap) sched s t s' ns name,
    wf_progs m progs -> ns_prog_ok obj progs -> (forall o, dat o <> None) ->
    run (init progs dat) sched = Some s -> step s t = Some s' ->
    ns_present s obj ns name -> ns_present s' obj ns name.
Proof. exact ns_monotone. Qed.
Print Assumptions C20_namespaced_monotone.

(* bridge to the regenerated obligations (Generated/Facts_locks_*.v: all_paths_disciplined,
   all_paths_one_lock): a path that passes them is a well-formed body of the theorems above *)
Theorem C20_facts_bridge : forall (D X : Type) (m : string) (o : @op D X),
  disciplined (o_body o) = true -> one_lock m (o_body o) = true -> wf_op m o.
Proof. intros D X m o H1 H2. split; [exact H1|rewrite <- one_lock_locks_named; exact H2]. Qed.
Print Assumptions C20_facts_bridge.

(* documented witness about an unlocked write (the shared *rand.Rand of backoff.jitter before the
   repair): undisciplined, and two goroutines reach a racing state in which the write destroys
   the object *)
Theorem C20_backoff_shared_rng_refuted :
  disciplined unlocked_body = false /\
  exists s, run (init rng_progs (fun _ => Some [])) [0; 1] = Some s /\
            racy s 0 ("random", true) = true /\
            exists s', step s 0 = Some s' /\ s_data s' "random" = None.
Proof. exact unlocked_write_races. Qed.
Print Assumptions C20_backoff_shared_rng_refuted.

(* soundness of the oracle over recorded histories (tickets taken before the call and after its
   return from one global counter): in a history it accepts, every lookup yielded the initial
   value or the value of a registration invoked before the lookup returned, and that value had not
   been superseded by a later, completed registration before the lookup was invoked; "absent" only
   while no registration of the key had returned *)
Theorem C20_oracle_sound_history : forall init evs, hist_ok init evs = true ->
  forall k res inv ret, In (RGet k res, inv, ret) evs -> ValidRead init (writes_of evs) k res inv ret.
Proof. exact hist_ok_sound. Qed.
Print Assumptions C20_oracle_sound_history.

Theorem C20_oracle_history_reflects : forall init ws k res inv ret,
  valid_read init ws k res inv ret = true <-> ValidRead init ws k res inv ret.
Proof. exact valid_read_iff. Qed.
Print Assumptions C20_oracle_history_reflects.

(* the sequential registry model meets the history oracle, for every initial contents and every
   sequence of register / get / clone operations: the history the model produces (operation j on the
   tickets 2j+1, 2j+2, lookup results and snapshots as computed by seq_run) passes hist_ok, and its
   final contents pass final_ok - so a CSeq case whose observation agrees with the model can never
   fail the property oracle (no false alarm from the oracle on sequential use) *)
Theorem C20_model_meets_oracle_history : forall init ops,
  hist_ok init (seq_hist 0 (fst (seq_run init ops))) = true /\
  final_ok init (seq_hist 0 (fst (seq_run init ops))) (snd (seq_run init ops)) = true.
Proof. exact seq_model_meets_history_oracle. Qed.
Print Assumptions C20_model_meets_oracle_history.

(* THE MACHINE'S OWN HISTORIES MEET THE ORACLE.  Any number of threads, any registry program kp
   (register / get / clone operations, each executing an arbitrary event list that is disciplined
   on the one lock m, reads and writes only the object obj, lookups and snapshots not writing),
   every schedule: once every operation has returned, the history recorded by the ghost observer
   (Model/C20.v part e: step numbers as invocation and return times, lookups and snapshots with
   what the object held at the step of their read) passes the history oracle hist_ok - the
   check applied to the histories recorded from the real registries; every recorded event has its
   return time; and the final contents are those of the sequential model run over the recorded
   operations in the order of their accesses (a linearisation). *)
Theorem C20_machine_history_meets_oracle :
  forall (m obj : string) (init0 : rmap) kp (dat : string -> option rmap) sched s g,
    kprogs_ok m obj kp -> dat obj = Some init0 -> (forall o, dat o <> None) ->
    irun kp obj (init (map (map gop) kp) dat) ghost0 sched = Some (s, g) -> finished s = true ->
    hist_ok init0 (hist_of g) = true /\
    (forall e, In e (gh_ents g) -> exists r, ge_ret e = Some r) /\
    s_data s obj = Some (snd (seq_run init0 (map ge_op (gh_ents g)))).
Proof. intros m obj init0 kp dat sched s g Hk. exact (machine_history_ok m obj init0 kp Hk dat sched s g). Qed.
Print Assumptions C20_machine_history_meets_oracle.

(* the recorded events are the machine's own results: what a completed lookup / snapshot returned
   (its entry in the thread's log; RNone only for a body that never read) is what one of the
   recorded events of that very operation observed *)
Theorem C20_machine_results_recorded :
  forall (m obj : string) (init0 : rmap) kp (dat : string -> option rmap) sched s g t th kpt i o r x,
    kprogs_ok m obj kp -> dat obj = Some init0 -> (forall ob, dat ob <> None) ->
    irun kp obj (init (map (map gop) kp) dat) ghost0 sched = Some (s, g) ->
    nth_error (s_threads s) t = Some th -> nth_error kp t = Some kpt ->
    nth_error (t_log th) i = Some (o, r) -> nth_error kpt i = Some x -> (forall k v, fst x <> GReg k v) ->
    res_tied g t i r.
Proof.
  intros m obj init0 kp dat sched s g t th kpt i o r x Hk.
  exact (machine_results_recorded m obj init0 kp Hk dat sched s g t th kpt i o r x).
Qed.
Print Assumptions C20_machine_results_recorded.

(* the observer is a ghost: it exists for every execution and never changes one *)
Theorem C20_observer_is_ghost : forall kp obj sched s g,
  (forall s', run s sched = Some s' -> exists g', irun kp obj s g sched = Some (s', g')) /\
  (forall s' g', irun kp obj s g sched = Some (s', g') -> run s sched = Some s').
Proof. intros kp obj sched s g. split; [intros s'; apply run_irun|intros s' g'; apply irun_run]. Qed.
Print Assumptions C20_observer_is_ghost.

(* re-timing: a list of operations whose sequential timing passes the Prop-level oracle passes it
   under any timing whose real-time precedence (A returned before B was invoked) is respected by the
   list order *)
Theorem C20_history_retiming : forall (init : rmap) (L : list hev),
  (forall p q a b, nth_error L p = Some a -> nth_error L q = Some b -> (snd a <= snd (fst b))%Z -> (p < q)%nat) ->
  Forall (chkP init (writes_of (seq_hist 0 (map (fun e : hev => fst (fst e)) L)))) (seq_hist 0 (map (fun e : hev => fst (fst e)) L)) ->
  Forall (chkP init (writes_of L)) L.
Proof. exact retime. Qed.
Print Assumptions C20_history_retiming.

(* from the regenerated obligations, through LockEv.owner_one_lock_method (name-free: the lock is
   whatever the method's owner uses), to the hypothesis wf_op of every theorem above *)
Theorem C20_facts_bridge_owner : forall (D X : Type) ms x,
  all_paths_disciplined ms = true -> all_paths_owner_one_lock ms = true ->
  In x ms -> is_init (fst x) = false ->
  exists m, forall (o : @op D X), In (o_body o) (snd x) -> wf_op m o.
Proof. intros D X. exact (@facts_bridge_owner D X). Qed.
Print Assumptions C20_facts_bridge_owner.

(* the hypotheses are met by the event lists of register.Untyped *)
Example C20_ex_untyped_wf : forall k v,
  wf_op "mutex" (reg_op untyped_register_body k v) /\
  wf_op "mutex" (get_op untyped_get_body k) /\
  wf_op "mutex" (clone_op untyped_get_body) /\
  lookup_body untyped_get_body = true.
Proof. exact untyped_bodies_wf. Qed.
(* ... and by the event lists of the render registers, the DNS subscriber and backoff.jitter as
   regenerated from the sources today (each object is guarded by one lock) *)
Example C20_ex_sources_wf :
  forallb (fun l => disciplined l && locks_named "mutex" l)
    [ [LLock "mutex"; LWrite "renderRegister"; LUnlock "mutex"];
      [LRLock "mutex"; LRead "renderRegister"; LRUnlock "mutex"];
      [LRLock "mutex"; LRead "cache"; LRUnlock "mutex"];
      [LLock "mutex"; LWrite "cache"; LWrite "cache"; LUnlock "mutex"];
      [LRLock "mutex"; LRead "data"; LRUnlock "mutex"];
      [LLock "mutex"; LWrite "data"; LUnlock "mutex"];
      ns_register_new ] = true /\
  (let l := [LLock "randomMu"; LWrite "random"; LUnlock "randomMu"] in disciplined l && locks_named "randomMu" l) = true /\
  lookup_body [LRLock "mutex"; LRead "renderRegister"; LRUnlock "mutex"] = true.
Proof. vm_compute. auto. Qed.
(* both outcomes of a lookup racing with a registration are reachable; a reader cannot enter while
   the writer holds the lock *)
Example C20_ex_new_value :
  option_map (fun s => log_results s 1) (run (init ex_progs ex_dat) [0; 1; 0; 0; 0; 1; 1; 1; 1; 0]) =
  Some [RVal (OKey (Some 7%Z))].
Proof. exact ex_new_value. Qed.
Example C20_ex_previous_value :
  option_map (fun s => log_results s 1) (run (init ex_progs ex_dat) [0; 1; 1; 1; 1; 1; 0; 0; 0; 0]) =
  Some [RVal (OKey (Some 1%Z))].
Proof. exact ex_previous_value. Qed.
Example C20_ex_reader_blocked : run (init ex_progs ex_dat) [0; 1; 0; 1] = None.
Proof. exact ex_reader_blocked. Qed.
(* the old sweep does find the loss: the bounded checker is not vacuous *)
Example C20_ex_old_sweep_finds_loss : forallb (complete_ok ns_register_old) (all_scheds 2 8) = false.
Proof. exact ns_old_sweep_finds_loss. Qed.

(* the paths of Namespaced.Register / AddNamespace / Get as regenerated today meet every
   hypothesis of the general theorem (and LockEv.calls_atomic) *)
Example C20_ex_ns_paths_today :
  forallb (fun l => disciplined l && locks_named "mutex" l && cta_ok "data" l && calls_atomic l) ns_paths_today = true.
Proof. vm_compute. reflexivity. Qed.

(* non-vacuity of the general theorem: three goroutines (Register a, AddNamespace + Register b,
   Register c) on one new namespace, one interleaved schedule: all complete, the results are
   "stored" (one created the namespace, two found it) and the three names are there *)
Definition ex_ns3 : list (list (@op nsmap nres)) :=
  let pa := [LLock "mutex"; LSafeCall "data" "Get"; LUnlock "mutex"] in
  let pb := [LLock "mutex"; LSafeCall "data" "Get"; LSafeCall "data" "Register"; LUnlock "mutex"] in
  [ [ns_op (KReg "ns" "a" 1%Z) pb]; [ns_op (KAdd "ns") pb; ns_op (KReg "ns" "b" 2%Z) pa]; [ns_op (KReg "ns" "c" 3%Z) pb] ].
Definition ex_ns3_sched : list nat :=
  [0; 1; 2; 0; 0; 0; 0; 0; 1; 1; 1; 1; 1; 1; 2; 2; 2; 2; 2; 1; 1; 1; 1].
Example C20_ex_ns3 :
  match run (init ex_ns3 (fun _ => Some [])) ex_ns3_sched with
  | Some s => (finished s, s_data s "data",
               map (fun th => map snd (t_log th)) (s_threads s))
  | None => (false, None, [])
  end =
  (true, Some [("ns", [("b", 2%Z); ("c", 3%Z); ("a", 1%Z)])],
   [[RVal NStored]; [RVal NFoundT; RVal NFoundT]; [RVal NFoundT]]).
Proof. vm_compute. reflexivity. Qed.

(* why cta_ok (and LockEv.calls_atomic, which the regenerated lock paths are re-proved against)
   ask for the WRITE lock: a compound operation under a READ lock passes LockEv.disciplined and
   one_lock, fails calls_atomic and cta_ok, and loses a registration *)
Definition rlock_body : list lev := [LRLock "mutex"; LSafeCall "data" "Get"; LSafeCall "data" "Register"; LRUnlock "mutex"].
Example C20_ex_calls_atomic_rlock :
  (disciplined rlock_body && one_lock "mutex" rlock_body, calls_atomic rlock_body, cta_ok "data" rlock_body) = (true, false, false) /\
  option_map (fun s => (finished s, s_data s "data"))
    (run (init [[ns_op (KReg "ns" "a" 1%Z) rlock_body]; [ns_op (KReg "ns" "b" 2%Z) rlock_body]] (fun _ => Some []))
         [0; 1; 0; 1; 0; 1; 0; 1; 0; 1; 0; 1]) =
  Some (true, Some [("ns", [("b", 2%Z)])]).
Proof. split; vm_compute; reflexivity. Qed.

(* a lookup that read-locks around a nested read-locked lookup (getRender holding the lock around
   getWithFallback) is not disciplined: the regenerated path fails the obligation *)
Example C20_ex_recursive_rlock_refuted :
  disciplined [LRLock "mutex"; LRLock "mutex"; LRead "renderRegister"; LRUnlock "mutex"; LRUnlock "mutex"] = false.
Proof. vm_compute. reflexivity. Qed.

(* non-vacuity of the machine-history theorem: a registration and a lookup of the same key under
   the event lists of register.Untyped; the recorded history of one interleaving (the lookup
   waits for the writer's lock and returns the newly registered value) *)
Definition ex_kp : list (list (gkind * list lev)) :=
  [[(GReg "json" 7%Z, untyped_register_body)]; [(GGet "json", untyped_get_body)]].
Example C20_ex_machine_history :
  kind_body_ok "data" (GReg "json" 7%Z, untyped_register_body) && kind_body_ok "data" (GGet "json", untyped_get_body) = true /\
  option_map (fun sg => (finished (fst sg), hist_of (snd sg)))
    (irun ex_kp "data" (init (map (map gop) ex_kp) ex_dat) ghost0 [0; 1; 0; 0; 0; 1; 1; 1; 1; 0]) =
  Some (true, [(RReg "json" 7%Z, 1%Z, 10%Z); (RGet "json" (Some 7%Z), 2%Z, 9%Z)]) /\
  hist_ok [("json", 1%Z)] [(RReg "json" 7%Z, 1%Z, 10%Z); (RGet "json" (Some 7%Z), 2%Z, 9%Z)] = true.
Proof. repeat split; vm_compute; reflexivity. Qed.
