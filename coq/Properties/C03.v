(* C03 - Parallel backends see isolated requests; processing is data-race free.
   Only theorem statements, each closed by an exact lemma, and Print Assumptions. *)
Require Import Verif.Common.Base Verif.Common.Heap.
Require Import Verif.Model.C03 Verif.Spec.C03 Verif.Proof.C03 Verif.Proof.C03_rf Verif.Proof.C03_iso Verif.Proof.C03_scope Verif.Proof.C03_lines.

(* The fork tree of EVERY endpoint configuration (any number of backends, any filter lists,
   GraphQL options, methods, concurrent_calls) and EVERY client request in the scope of the
   statement passes the structural race checker: no goroutine performs an access that
   conflicts with an access of a goroutine it is not ordered with.  in_scope excludes only
   what the statement excludes: a body shared by shallow clones (no backend with a method
   other than GET/HEAD, so the body is not replicated) that TWO OR MORE pipelines consume.
   A client body handed to one plain backend next to GraphQL query siblings is in scope: the
   query stage replaces the Body field of its own struct and never reads or closes the
   reader it was handed. *)
Theorem C03_all_configs : forall cfg q, in_scope cfg q = true -> race_free_b cfg q = true.
Proof. exact all_configs. Qed.
Print Assumptions C03_all_configs.

(* H1 on the model of the default stack: when the checker accepts, then under EVERY
   interleaving of all the goroutines every goroutine reads - and will read - exactly what
   the schedule-free semantics says *)
Theorem C03_noninterference : forall cfg q sched s t,
  race_free_b cfg q = true ->
  run obj_eqb (init (endpoint_prog cfg q) (init_heap q)) sched = Some s ->
  In t (pool s) ->
  In (tid t, (log t ++ exp_log obj_eqb (rem t) (shadow t))%list)
     (seq_logs obj_eqb (endpoint_prog cfg q) (init_heap q)).
Proof. exact noninterference. Qed.
Print Assumptions C03_noninterference.

(* both together: for every configuration and request in scope and every interleaving, a
   pipeline that has run to its end has read - in particular its http proxy stage was
   handed: method, URL with query string, headers, body - what the schedule-free semantics
   predicts for that goroutine, whatever the siblings did in between *)
Theorem C03_every_interleaving : forall cfg q sched s t,
  in_scope cfg q = true ->
  run obj_eqb (init (endpoint_prog cfg q) (init_heap q)) sched = Some s ->
  In t (pool s) -> rem t = [] ->
  In (tid t, log t) (seq_logs obj_eqb (endpoint_prog cfg q) (init_heap q)).
Proof. intros cfg q sched s t H. exact (finished_log cfg q sched s t (all_configs cfg q H)). Qed.
Print Assumptions C03_every_interleaving.

(* and at every moment the heap holds, for every object a live goroutine may still touch,
   the value that goroutine's own history predicts *)
Theorem C03_heap_agrees : forall cfg q sched s t o,
  in_scope cfg q = true ->
  run obj_eqb (init (endpoint_prog cfg q) (init_heap q)) sched = Some s ->
  In t (pool s) -> In o (objs_of (rem t)) -> hp s o = shadow t o.
Proof.
  intros cfg q sched s t o H. apply (H1_heap_agrees obj val obj_eqb obj_eqb_spec). exact (all_configs cfg q H).
Qed.
Print Assumptions C03_heap_agrees.

(* the shape of the concurrent middleware BEFORE commit f5f9a56 (seeded patch
   C04-revert-concurrent-own-copy: the last attempt runs on the caller's request itself) is
   race free as well, for every configuration and request in scope - joins are ignored by
   the checker, so this covers attempts that outlive the stage.  Within C03 (parallel fan-out,
   concurrent calls) that patch is therefore NOT a violation: the caller's request is touched
   again only by a sequential merge, which is outside this property (C02/C04 own it). *)
Theorem C03_last_attempt_on_callers_request_race_free : forall cfg q,
  in_scope_basic cfg q = true -> race_free obj_eqb (endpoint_prog_gen true cfg q) = true.
Proof. exact (all_configs_gen true). Qed.
Print Assumptions C03_last_attempt_on_callers_request_race_free.

(* the excluded class is really excluded by the code, not by the model: a POST endpoint whose
   two backends are both configured with method GET shares one body reader *)
Theorem C03_shared_body_outside_scope : exists cfg q, in_scope cfg q = false /\ race_free_b cfg q = false.
Proof.
  exists [ {| b_method := "GET"; b_hdrs := []; b_qs := []; b_cc := 1; b_host := "http://h0"; b_path := "/a"; b_gql := None |};
           {| b_method := "GET"; b_hdrs := []; b_qs := []; b_cc := 1; b_host := "http://h1"; b_path := "/b"; b_gql := None |} ],
         {| q_method := "POST"; q_hdr := []; q_qry := []; q_par := []; q_body := Some "x" |}.
  vm_compute. split; reflexivity.
Qed.
Print Assumptions C03_shared_body_outside_scope.

(* the boolean oracle evaluated on the observations implies the property *)
Theorem C03_oracle_sound : forall obs race, spec_b obs race = true -> Spec obs race.
Proof. exact spec_b_sound. Qed.
Print Assumptions C03_oracle_sound.

(* Value level.  In the schedule-free semantics every attempt of every backend is handed -
   method, URL with query string, headers, body - exactly what the backend is handed when it
   is the endpoint's only backend: EVERY configuration (any number of backends, filters,
   GraphQL options, methods, concurrent_calls), EVERY client request. *)
Theorem C03_isolated : forall cfg q, model_isolated_b cfg q = true.
Proof. exact isolated. Qed.
Print Assumptions C03_isolated.

(* "whatever its siblings are configured to do": what a backend is handed depends on its own
   configuration and the client request only - the same backend at any position of any two
   endpoint configurations is handed the same *)
Theorem C03_siblings_irrelevant : forall cfg cfg' q k k' b s s',
  nth_error cfg k = Some b -> nth_error cfg' k' = Some b ->
  In s (sent_seq cfg q k) -> In s' (sent_seq cfg' q k') -> s = s'.
Proof.
  intros cfg cfg' q k k' b s s' H H' Hs Hs'.
  rewrite (sent_independent cfg q k b s H Hs), (sent_independent cfg' q k' b s' H' Hs'). reflexivity.
Qed.
Print Assumptions C03_siblings_irrelevant.

(* The full statement, "whatever the interleaving": for every configuration and request in
   scope, under EVERY interleaving of all goroutines, the goroutine of every attempt of every
   backend that has run to its end was handed exactly what the backend is handed as the
   endpoint's only backend.  (tid t in leaf_tids: the goroutine that ends in backend k's http
   proxy - the branch itself, or one of its concurrent attempts.) *)
Theorem C03_isolated_every_interleaving : forall cfg q sched s t k b alone,
  in_scope cfg q = true ->
  run obj_eqb (init (endpoint_prog cfg q) (init_heap q)) sched = Some s ->
  In t (pool s) -> rem t = [] ->
  nth_error cfg k = Some b -> In (tid t) (leaf_tids (List.length cfg) k b) ->
  In alone (sent_seq (solo cfg k) q 0) ->
  sent_of_log (log t) = alone.
Proof. exact all_configs_every_interleaving. Qed.
Print Assumptions C03_isolated_every_interleaving.

(* the executable model satisfies the boolean oracle: its own observations (what every
   backend is handed in the fan-out and alone) pass spec_b, for every input *)
Theorem C03_model_meets_oracle : forall cfg q, spec_b (model_obs cfg q) false = true.
Proof. exact model_meets_oracle. Qed.
Print Assumptions C03_model_meets_oracle.

(* The access summaries of Request.Clone, CloneRequest (with CloneRequestHeaders/Params), the
   header and query-string filters and the request builder are SOUND with respect to their
   line-level models (Model/C03.v: events on struct field slots, map headers, map entries,
   value-slice backing arrays, readers): every event is covered by a summary access to the
   object its location belongs to, a write by a write. *)
Theorem C03_summary_sound_clone : forall s c, covers (clone_lines s c) (fst (shallow_clone c s)).
Proof. exact clone_covered. Qed.
Print Assumptions C03_summary_sound_clone.
Theorem C03_summary_sound_clonerequest : forall own st ss so s,
  covers (clonerequest_lines own st ss so s) (fst (fst (deep_clone own st ss so s))).
Proof. exact clonerequest_covered. Qed.
Print Assumptions C03_summary_sound_clonerequest.
Theorem C03_summary_sound_filters : forall own st f n allow s,
  covers (filter_lines own st f n allow s) (fst (filter_stage own st f allow s)).
Proof. exact filter_covered. Qed.
Print Assumptions C03_summary_sound_filters.
Theorem C03_summary_sound_builder : forall b s, covers (builder_lines s) (fst (rb_stage b s)).
Proof. exact builder_covered. Qed.
Print Assumptions C03_summary_sound_builder.
(* what soundness buys: when the summaries of two pipelines do not conflict, no two of their
   line-level events touch the same memory location with a write among them *)
Theorem C03_no_location_conflict : forall f1 f2 c1 c2,
  covers f1 c1 -> covers f2 c2 -> no_conflict obj_eqb c1 c2 = true ->
  forall e1 e2, In e1 f1 -> In e2 f2 -> floc e1 = floc e2 -> is_fw e1 = false /\ is_fw e2 = false.
Proof. exact covered_no_conflict. Qed.
Print Assumptions C03_no_location_conflict.

(* Not a theorem (kept for the record): C03_race_free_classification :
   race_free_b cfg q = true <-> in_scope cfg q = true.  The "if" direction is C03_all_configs;
   "only if" fails for backends whose pipeline stops before touching the body, e.g. two
   GraphQL query backends whose extractor fails. *)

(* non-vacuity: concrete inputs *)
Definition ex_plain := {| b_method := "GET"; b_hdrs := ["X-A"]; b_qs := []; b_cc := 1; b_host := "http://h0"; b_path := "/p"; b_gql := None |}.
Definition ex_gql := {| b_method := "GET"; b_hdrs := []; b_qs := ["x"]; b_cc := 2; b_host := "http://h1"; b_path := "/g";
                        b_gql := Some {| g_get := true; g_kind := GQuery; g_out := Some ("", [("query", ["{q}"])]) |} |}.
Definition ex_post := {| b_method := "POST"; b_hdrs := []; b_qs := []; b_cc := 2; b_host := "http://h2"; b_path := "/w"; b_gql := None |}.
Definition ex_req := {| q_method := "GET"; q_hdr := [("X-A", ["1"]); ("X-B", ["2"])]; q_qry := [("x", ["1"]); ("y", ["2"])]; q_par := []; q_body := None |}.
Definition ex_req_body := {| q_method := "POST"; q_hdr := [("X-A", ["1"])]; q_qry := []; q_par := []; q_body := Some "BODY" |}.

Example C03_ex_in_scope : in_scope [ex_plain; ex_gql] ex_req = true /\ in_scope [ex_plain; ex_post] ex_req_body = true.
Proof. vm_compute. split; reflexivity. Qed.
(* the plain sibling of a GraphQL-GET backend is sent neither Content-Length/Content-Type nor
   the GraphQL query parameters *)
Example C03_ex_plain_next_to_graphql :
  sent_seq [ex_plain; ex_gql] ex_req 0 =
  [Some {| s_method := "GET"; s_url := "http://h0/p"; s_query := [("x", ["1"]); ("y", ["2"])];
           s_hdr := [("X-A", ["1"])]; s_body := "" |}].
Proof. vm_compute. reflexivity. Qed.
Example C03_ex_model_isolated :
  model_isolated_b [ex_plain; ex_gql; ex_plain] ex_req = true /\
  model_isolated_b [ex_plain; ex_post; ex_gql] ex_req_body = true.
Proof. vm_compute. split; reflexivity. Qed.
(* both concurrent attempts of the POST backend get the whole body *)
Example C03_ex_body_replicated :
  map (option_map s_body) (sent_seq [ex_plain; ex_post] ex_req_body 1) = [Some "BODY"; Some "BODY"].
Proof. vm_compute. reflexivity. Qed.

(* granularity: the value slices of the client's header entries are an object of their own
   (FVals), shared by shallow clones and by every header map built from them.  A pipeline
   that wrote into them in place (instead of assigning a fresh slice, as the GraphQL
   middleware does) would conflict with its sibling's http proxy, which reads them: *)
Example C03_ex_value_slice_write_is_a_conflict :
  race_free obj_eqb [Fork [Acc (Wr (orig FVals) (VMap [("Content-Length", ["117"])]))];
                     Fork (map Acc (http_stage (init_pst ex_req)))] = false.
Proof. vm_compute. reflexivity. Qed.
(* on the model of the code as it is every backend's pipeline only READS them (or owns a
   CloneRequest copy) *)
Example C03_ex_two_graphql_post_siblings :
  let g := fun p body => {| b_method := "GET"; b_hdrs := []; b_qs := []; b_cc := 1; b_host := "http://h"; b_path := p;
                            b_gql := Some {| g_get := false; g_kind := GQuery; g_out := Some (body, []) |} |} in
  let q := {| q_method := "GET"; q_hdr := [("Content-Length", ["0"])]; q_qry := []; q_par := []; q_body := None |} in
  race_free_b [g "/a" "short"; g "/b" "a longer body"] q = true /\
  map (option_map s_hdr) (sent_seq [g "/a" "short"; g "/b" "a longer body"] q 0) =
    [Some [("Content-Type", ["application/json"]); ("Content-Length", ["5"])]].
Proof. vm_compute. split; reflexivity. Qed.

(* a client body in an all-GET fan-out: one plain backend next to GraphQL query siblings.  No
   replication (in_scope_basic is false), in scope all the same: only the plain pipeline
   touches the shared reader, and it is handed the whole body *)
Definition ex_gql_post := {| b_method := "GET"; b_hdrs := []; b_qs := []; b_cc := 1; b_host := "http://h3"; b_path := "/gp";
                            b_gql := Some {| g_get := false; g_kind := GQuery; g_out := Some ("{op}", []) |} |}.
Definition ex_req_get_body := {| q_method := "GET"; q_hdr := []; q_qry := []; q_par := []; q_body := Some "BODY" |}.
Example C03_ex_shared_body_one_reader :
  in_scope_basic [ex_gql_post; ex_plain; ex_gql_post] ex_req_get_body = false /\
  in_scope [ex_gql_post; ex_plain; ex_gql_post] ex_req_get_body = true /\
  race_free_b [ex_gql_post; ex_plain; ex_gql_post] ex_req_get_body = true /\
  map (option_map s_body) (sent_seq [ex_gql_post; ex_plain; ex_gql_post] ex_req_get_body 1) = [Some "BODY"] /\
  map (option_map s_body) (sent_seq [ex_gql_post; ex_plain; ex_gql_post] ex_req_get_body 0) = [Some "{op}"].
Proof. vm_compute. repeat split; reflexivity. Qed.
(* a stage that CLOSED the reader it was handed (state VClosed: later reads fail) before
   replacing it would conflict with the plain sibling that forwards that reader *)
Example C03_ex_close_of_shared_body_is_a_conflict :
  race_free obj_eqb [Fork [Acc (Wr (orig FBody) VClosed)];
                     Fork (map Acc (http_stage (init_pst ex_req_get_body)))] = false.
Proof. vm_compute. reflexivity. Qed.

(* the line-level model of CloneRequest on a request with one header and a body: 36 events *)
Example C03_ex_clonerequest_lines :
  List.length (clonerequest_lines (WAt 0 0) SConc (SConcSrc 0) WEnd (init_pst ex_req_body)) = 36 /\
  existsb (fun e => match e with FW (LElems (Ob (WAt 0 0) SConc FVals) "X-A") => true | _ => false end)
          (clonerequest_lines (WAt 0 0) SConc (SConcSrc 0) WEnd (init_pst ex_req_body)) = true.
Proof. vm_compute. split; reflexivity. Qed.
