(* C05 - Concurrent calls: the first complete answer wins, copies are identical.
   Only theorem statements, each closed by an exact lemma, and Print Assumptions. *)
Require Import Verif.Common.Base.
From Coq Require Import Permutation.
Require Import Verif.Common.Fanout.
Require Import Verif.Model.C05 Verif.Spec.C05 Verif.Proof.C05 Verif.Proof.C05_sched Verif.Proof.C05_budget Verif.Proof.C05_growth Verif.Proof.C05_real.

(* For every n and every sequence of at most n select outcomes (any mix of complete,
   incomplete, failed; any order): if some dequeued response is complete, the middleware
   returns the FIRST complete one and no error. *)
Theorem C05_first_complete : forall n evs,
  List.length evs <= n -> complete_in evs ->
  exists pre r post,
    evs = (pre ++ Res r :: post)%list /\
    (forall x, In (Res x) pre -> r_complete x = false) /\
    r_complete r = true /\ In (Res r) evs /\
    middleware n evs = (Some r, None).
Proof. exact first_complete. Qed.
Print Assumptions C05_first_complete.

(* No complete response among the outcomes: the result is (last response, last error), each
   of them one that was dequeued (the response an incomplete one), and it is not (nil, nil)
   as soon as one message was dequeued. *)
Theorem C05_otherwise : forall n evs,
  List.length evs <= n -> ~ complete_in evs ->
  middleware n evs = (last_resp evs None, last_err evs None) /\
  (forall r, last_resp evs None = Some r -> In (Res r) evs /\ r_complete r = false) /\
  (forall e, last_err evs None = Some e -> In (Fail e) evs) /\
  ((exists e, In e evs /\ e <> ParentDone) -> middleware n evs <> (None, None)).
Proof. exact otherwise. Qed.
Print Assumptions C05_otherwise.

(* The statement of the property, for every multiset of outcomes and EVERY arrival order of
   it, parent context alive (no ParentDone iteration), at least one attempt. *)
Theorem C05_all_orders : forall n prod evs,
  Permutation prod evs -> List.length evs <= n -> ~ In ParentDone evs -> evs <> [] ->
  Spec prod (middleware n evs).
Proof. exact all_orders. Qed.
Print Assumptions C05_all_orders.

(* the boolean oracle evaluated on the implementation's observations is the statement *)
Theorem C05_oracle_is_spec : forall prod o, spec_b prod o = true <-> Spec prod o.
Proof. exact spec_b_iff. Qed.
Print Assumptions C05_oracle_is_spec.

(* parent context done at arbitrary iterations (outside the quantifier): still nothing is
   fabricated and a complete response never comes with an error *)
Theorem C05_parent_done_refines : forall n evs, SpecParent evs (middleware n evs).
Proof. exact parent_done_refines. Qed.
Print Assumptions C05_parent_done_refines.

(* with the parent context done the caller can be left with (nil, nil): the hypothesis
   "no ParentDone" of C05_all_orders cannot be dropped *)
Theorem C05_parent_done_nil_nil_refuted :
  exists n kinds order k, 2 <= n /\ List.length kinds = n /\
    run_scenario n kinds order (Some k) = (None, None).
Proof. exists 2, [KIncomplete; KComplete], [0; 1], 0. repeat split; auto. Qed.
Print Assumptions C05_parent_done_nil_nil_refuted.

(* "the same request is issued N times": every one of the n attempts (n successive
   CloneRequest copies, each call re-buffering the caller's request) is handed the request with
   the same method, URL, path, query, params, headers and the FULL body *)
Theorem C05_bodies : forall n r,
  spawn n r = repeat r n /\
  List.length (spawn n r) = n /\
  forall k s, nth_error (spawn n r) k = Some s ->
    s = r /\ q_body s = q_body r /\ q_method s = q_method r /\ q_path s = q_path r /\
    q_params s = q_params r /\ q_headers s = q_headers r /\ q_query s = q_query r /\ q_url s = q_url r.
Proof. intros n r. split; [apply spawn_repeat|apply bodies]. Qed.
Print Assumptions C05_bodies.

Theorem C05_requests_oracle_is_spec : forall n req seen,
  requests_b n req seen = true <-> SameRequests n req seen.
Proof. exact requests_b_iff. Qed.
Print Assumptions C05_requests_oracle_is_spec.

(* the executable model satisfies the oracles on every input: every N >= 1, every outcome
   vector over the five kinds, every arrival order of its non-silent attempts *)
Theorem C05_model_meets_oracle : forall n kinds order,
  wf_scenario n kinds order ->
  spec_b (produced kinds) (run_scenario n kinds order None) = true.
Proof. exact model_meets_oracle. Qed.
Print Assumptions C05_model_meets_oracle.

Theorem C05_model_meets_parent_oracle : forall n kinds order k,
  spec_parent_b (produced kinds) (run_scenario n kinds order (Some k)) = true.
Proof. exact model_meets_parent_oracle. Qed.
Print Assumptions C05_model_meets_parent_oracle.

Theorem C05_model_requests_meet_oracle : forall n req, requests_b n req (spawn n req) = true.
Proof. exact model_requests_meet_oracle. Qed.
Print Assumptions C05_model_requests_meet_oracle.

(* ---- schedule layer (Common/Fanout.v): n attempts as workers, two channels of capacity
   n, the collector; cerr = the error of the budget context ---- *)

(* parent alive, n >= 1, ANY interleaving after which the collector has returned: the
   statement holds between what the attempts delivered and what the caller receives *)
Theorem C05_every_schedule : forall n cerr ls s,
  1 <= n ->
  sys_run n cerr false (init msg n) ls = Some s -> fin msg s = true ->
  Spec (map ev_of (delivered msg (ws msg s))) (outcome (got msg s)).
Proof. exact every_schedule. Qed.
Print Assumptions C05_every_schedule.

Theorem C05_every_schedule_parent : forall n cerr idle ls s,
  sys_run n cerr idle (init msg n) ls = Some s ->
  SpecParent (map ev_of (delivered msg (ws msg s))) (outcome (got msg s)).
Proof. exact every_schedule_parent. Qed.
Print Assumptions C05_every_schedule_parent.

(* what an attempt delivers is its own result, or - only instead of a response - the
   error of the budget context *)
Theorem C05_attempt_messages : forall n cerr idle ls s i r d,
  sys_run n cerr idle (init msg n) ls = Some s ->
  nth_error (ws msg s) i = Some (Sent r d) ->
  d = r \/ (d = MFail cerr /\ exists x, r = MRes x).
Proof. exact attempt_messages. Qed.
Print Assumptions C05_attempt_messages.

(* capacity n: an attempt holding its result is never blocked *)
Theorem C05_no_blocked_attempt : forall n cerr idle ls s i m,
  sys_run n cerr idle (init msg n) ls = Some s ->
  nth_error (ws msg s) i = Some (Ret m) ->
  sys_step n cerr idle s (LSend i) <> None.
Proof. exact no_blocked_attempt. Qed.
Print Assumptions C05_no_blocked_attempt.

(* after the collector has returned the budget context is cancelled, at most 2n steps
   remain, and an attempt that has not delivered its message always has an enabled step *)
Theorem C05_attempts_terminate : forall n cerr idle ls s,
  sys_run n cerr idle (init msg n) ls = Some s -> fin msg s = true ->
  cancelled msg s = true /\
  (forall ls' s', sys_run n cerr idle s ls' = Some s' ->
     List.length ls' + remaining msg (ws msg s') <= remaining msg (ws msg s) /\
     remaining msg (ws msg s) <= 2 * n) /\
  (forall i, i < n -> (forall r d, nth_error (ws msg s) i <> Some (Sent r d)) ->
     exists l, sys_step n cerr idle s l <> None).
Proof. exact attempts_terminate. Qed.
Print Assumptions C05_attempts_terminate.

(* "if at least one attempt yields a complete response before the time budget expires":
   in EVERY interleaving without a budget timeout (parent alive), once the collector has
   returned, an attempt whose backend call returned a complete response - whether or not
   it has delivered it - implies that the caller received a complete response that an
   attempt delivered, and no error *)
Theorem C05_complete_before_budget : forall n cerr ls s i r,
  ~ In LTimeout ls ->
  sys_run n cerr false (init msg n) ls = Some s -> fin msg s = true ->
  (nth_error (ws msg s) i = Some (Ret (MRes r)) \/
   exists d, nth_error (ws msg s) i = Some (Sent (MRes r) d)) ->
  r_complete r = true ->
  exists r', outcome (got msg s) = (Some r', None) /\ r_complete r' = true /\
             In (MRes r') (delivered msg (ws msg s)).
Proof. exact complete_before_budget. Qed.
Print Assumptions C05_complete_before_budget.

(* ---- growth round ---- *)

(* processConcurrentCall (budget context alive): whatever the backend call returns, exactly one
   message, never an idle iteration; an error wins over a response returned with it, (nil, nil)
   becomes errNullResult, a response alone is delivered as it is; the worker message of the
   schedule layer is the same thing *)
Theorem C05_one_message_per_call : forall res,
  process_call res <> ParentDone /\
  (forall e, snd res = Some e -> process_call res = Fail e) /\
  (res = (None, None) -> process_call res = Fail ENull) /\
  (forall r, res = (Some r, None) -> process_call res = Res r) /\
  ev_of (msg_of_call res) = process_call res.
Proof. exact process_call_cases. Qed.
Print Assumptions C05_one_message_per_call.

Theorem C05_response_delivered_iff : forall res r,
  process_call res = Res r <-> res = (Some r, None).
Proof. exact process_call_res. Qed.
Print Assumptions C05_response_delivered_iff.

(* WHICH answer: for every n, every outcome vector (all seven kinds) and every arrival order,
   the caller receives the response of the FIRST slot in arrival order whose backend call
   returned a complete response without an error, and no error *)
Theorem C05_which_complete : forall n kinds order i,
  List.length (arrivals kinds order) <= n ->
  first_complete_slot kinds order = Some i ->
  run_scenario n kinds order None = (Some (slot_resp i true), None).
Proof. exact which_complete. Qed.
Print Assumptions C05_which_complete.

(* ... and when no slot does: the last response and the last error in arrival order (the
   silent attempts' DeadlineExceeded last) *)
Theorem C05_which_otherwise : forall n kinds order,
  List.length (events kinds order) <= n ->
  first_complete_slot kinds order = None ->
  run_scenario n kinds order None =
  (last_resp (events kinds order) None, last_err (events kinds order) None).
Proof. exact which_otherwise. Qed.
Print Assumptions C05_which_otherwise.

(* Parent context done during collection, EXACTLY: iterations consumed by ctx.Done() only use
   up iterations.  With w = the messages dequeued within the first n iterations, the result
   is the first complete response of w and no error, otherwise (last response of w, last
   error of w) - (nil, nil) exactly when w has neither. *)
Theorem C05_parent_done_exact : forall n evs,
  let w := strip (firstn n evs) in
  middleware n evs = middleware (List.length w) w /\
  (complete_in w ->
     exists pre r post, w = (pre ++ Res r :: post)%list /\
       (forall x, In (Res x) pre -> r_complete x = false) /\ r_complete r = true /\
       middleware n evs = (Some r, None)) /\
  (~ complete_in w -> middleware n evs = (last_resp w None, last_err w None)).
Proof. exact parent_done_exact. Qed.
Print Assumptions C05_parent_done_exact.

(* the harness scenario "parent cancelled after k dequeued messages": the result is the one
   of the first k arrivals alone *)
Theorem C05_scenario_parent_exact : forall n kinds order k,
  let w := firstn n (firstn k (arrivals kinds order)) in
  run_scenario n kinds order (Some k) = middleware (List.length w) w.
Proof. exact scenario_parent_exact. Qed.
Print Assumptions C05_scenario_parent_exact.

(* schedule layer, parent context alive or not, ANY interleaving after which the collector
   has returned: either the last dequeued message is the only complete response and it is
   returned without error, or all n iterations were used and the result is (last response,
   last error) of what was dequeued *)
Theorem C05_every_schedule_exact : forall n cerr idle ls s,
  sys_run n cerr idle (init msg n) ls = Some s -> fin msg s = true ->
  (can_finish (got msg s) = true ->
     exists pre r, got msg s = (pre ++ [MRes r])%list /\ can_finish pre = false /\
                   r_complete r = true /\ outcome (got msg s) = (Some r, None)) /\
  (can_finish (got msg s) = false ->
     iters msg s = n /\ List.length (got msg s) <= n /\
     outcome (got msg s) =
       (last_resp (map ev_of (got msg s)) None, last_err (map ev_of (got msg s)) None)).
Proof. exact every_schedule_exact. Qed.
Print Assumptions C05_every_schedule_exact.

(* the caller's own request after the n CloneRequest calls is what it was (the body reader
   re-buffered with the full bytes) *)
Theorem C05_caller_request_unchanged : forall n r, caller_after n r = r.
Proof. exact caller_after_same. Qed.
Print Assumptions C05_caller_request_unchanged.

(* the oracle on the runs whose arrival order is not imposed (case kind CFree) *)
Theorem C05_model_meets_oracle_free : forall n kinds,
  List.length kinds = n -> 1 <= n ->
  spec_b (produced kinds) (run_scenario n kinds (nonsilent_slots kinds) None) = true.
Proof. exact model_meets_oracle_free. Qed.
Print Assumptions C05_model_meets_oracle_free.

(* the list-level theorems and the schedule layer speak about the same runs: every arrival
   list the collector can consume (at most n messages, no complete response before the last
   one, all n of them or ending with a complete one) is the dequeue sequence of a schedule of
   the transition system after which the collector has returned, with the same result *)
Theorem C05_arrival_list_realizable : forall n cerr idle ms,
  List.length ms <= n ->
  (forall pre m post, ms = (pre ++ m :: post)%list -> can_finish pre = false) ->
  (List.length ms = n \/ can_finish ms = true) ->
  exists ls s, sys_run n cerr idle (init msg n) ls = Some s /\ fin msg s = true /\
               got msg s = ms /\ outcome (got msg s) = middleware n (map ev_of ms).
Proof. exact arrival_list_realizable. Qed.
Print Assumptions C05_arrival_list_realizable.

(* ---- non-vacuity ---- *)
Example C05_ex_wf : wf_scenario 3 [KIncomplete; KSilent; KComplete] [2; 0].
Proof.
  repeat split; auto. change (nonsilent_slots [KIncomplete; KSilent; KComplete]) with [0; 2].
  apply perm_swap.
Qed.
Example C05_ex_complete_wins :
  run_scenario 3 [KIncomplete; KError; KComplete] [1; 0; 2] None = (Some (slot_resp 2 true), None).
Proof. vm_compute. reflexivity. Qed.
Example C05_ex_mixed :
  run_scenario 3 [KIncomplete; KError; KEmpty] [1; 0; 2] None = (Some (slot_resp 0 false), Some ENull).
Proof. vm_compute. reflexivity. Qed.
Example C05_ex_budget :
  run_scenario 2 [KSilent; KSilent] [] None = (None, Some EDeadline).
Proof. vm_compute. reflexivity. Qed.
Example C05_ex_spec_rejects_last_wins :
  spec_b (produced [KComplete; KIncomplete]) (Some (slot_resp 1 false), None) = false.
Proof. vm_compute. reflexivity. Qed.
Example C05_ex_spec_rejects_error_with_complete :
  spec_b (produced [KError; KComplete]) (Some (slot_resp 1 true), Some (EAttempt 0)) = false.
Proof. vm_compute. reflexivity. Qed.
(* a schedule in which the collector returns an incomplete response and an error *)
Example C05_ex_schedule :
  exists s, sys_run 2 ECanceled false (init msg 2)
              [LReturn 0 (MRes (slot_resp 0 false)); LReturn 1 (MFail (EAttempt 1));
               LSend 1; LSend 0; LRecv ChF; LRecv ChP; LFinish] = Some s /\
            fin msg s = true /\
            outcome (got msg s) = (Some (slot_resp 0 false), Some (EAttempt 1)).
Proof. eexists. vm_compute. repeat split. Qed.
(* ... and one in which it returns early while an attempt is still running *)
Example C05_ex_schedule_early :
  exists s, sys_run 2 ECanceled false (init msg 2)
              [LReturn 1 (MRes (slot_resp 1 true)); LSend 1; LRecv ChP; LFinish] = Some s /\
            fin msg s = true /\ nth_error (ws msg s) 0 = Some Running /\
            outcome (got msg s) = (Some (slot_resp 1 true), None).
Proof. eexists. vm_compute. repeat split. Qed.
(* after a budget timeout a complete response can be lost: the hypothesis of
   C05_complete_before_budget cannot be dropped *)
Example C05_ex_after_budget_lost :
  exists s, sys_run 2 EDeadline false (init msg 2)
              [LReturn 0 (MFail (EAttempt 0)); LSend 0; LRecv ChF; LTimeout;
               LReturn 1 (MRes (slot_resp 1 true)); LSendC 1; LRecv ChF; LFinish] = Some s /\
            fin msg s = true /\
            nth_error (ws msg s) 1 = Some (Sent (MRes (slot_resp 1 true)) (MFail EDeadline)) /\
            outcome (got msg s) = (None, Some EDeadline).
Proof. eexists. vm_compute. repeat split. Qed.
(* an attempt answering (incomplete response, error) together is one failure message; a
   sibling's complete answer still wins, and the oracle rejects (partial, error) then *)
Example C05_ex_response_with_error :
  run_scenario 2 [KIncompleteErr; KComplete] [0; 1] None = (Some (slot_resp 1 true), None) /\
  run_scenario 2 [KCompleteErr; KError] [0; 1] None = (None, Some (EAttempt 1)) /\
  spec_b (produced [KIncompleteErr; KComplete]) (Some (slot_resp 0 false), Some (EAttempt 0)) = false.
Proof. vm_compute. repeat split. Qed.
Example C05_ex_which :
  first_complete_slot [KCompleteErr; KComplete; KIncomplete; KComplete] [2; 0; 3; 1] = Some 3 /\
  run_scenario 4 [KCompleteErr; KComplete; KIncomplete; KComplete] [2; 0; 3; 1] None
    = (Some (slot_resp 3 true), None).
Proof. vm_compute. split; reflexivity. Qed.
Example C05_ex_parent_exact :
  run_scenario 3 [KError; KIncomplete; KComplete] [0; 1; 2] (Some 2) = (Some (slot_resp 1 false), Some (EAttempt 0)) /\
  strip (firstn 3 (events_parent 3 [KError; KIncomplete; KComplete] [0; 1; 2] 2))
    = [Fail (EAttempt 0); Res (slot_resp 1 false)].
Proof. vm_compute. split; reflexivity. Qed.
