(* C08 - Only allow-listed client headers and query params reach a backend.
   Only theorem statements, each closed by an exact lemma, and Print Assumptions.

   Reading guide (definitions in Model/C08.v and Spec/C08.v):
     outgoing c r        what the backend's HTTPRequestExecutor is handed for configuration c
                         (adapter, the four lists as written in the file, the static query of
                         url_pattern) and client request r (header lines in any case, query pairs)
     sent_h o h / sent_q o k   the values the backend sees under header h / parameter k ([] = none)
     client_h r h        the values the client sent under any spelling of header h, in order
     client_q r k        the values the client sent for parameter k, in order
     ep_hl c / be_hl c   endpoint / backend header lists after config.Init (canonical names;
                         the endpoint list defaults to [Content-Type])
     allowed_ep_* / allowed_be_*   "listed in the endpoint's list (or '*' is listed)" /
                         "the backend declares no list, or lists it" ('*' is a plain name there)
     own h               h is X-Forwarded-For, X-Forwarded-Host, X-Forwarded-Via or User-Agent
     overwritten h       h is one of the first three (the gateway always writes them itself)   *)
Require Import Verif.Common.Base.
Require Import Verif.Model.C08 Verif.Spec.C08 Verif.Proof.C08.

(* ---- headers ---- *)

(* every header the backend sees is one of the gateway's own four, or is allowed by the
   endpoint list and by the backend list and carries exactly the client's values;
   every adapter, all lists (any case, duplicates, wildcard, empty), all requests *)
Theorem C08_headers_sound : forall c r h,
  sent_h (outgoing c r) h <> [] ->
  own h \/ (allowed_ep_h c h /\ allowed_be_h c h /\ sent_h (outgoing c r) h = client_h r h).
Proof. exact headers_sound_model. Qed.
Print Assumptions C08_headers_sound.

(* every allowed header the client sent is forwarded, values and their order unchanged *)
Theorem C08_headers_complete : forall c r h,
  allowed_ep_h c h -> allowed_be_h c h -> ~ overwritten (canon h) -> client_h r h <> [] ->
  sent_h (outgoing c r) (canon h) = client_h r h.
Proof. exact headers_complete_model. Qed.
Print Assumptions C08_headers_complete.

(* a backend that declares input_headers sees nothing outside it, the gateway's own included *)
Theorem C08_backend_list_bounds_all : forall c r h,
  be_hl c <> [] -> sent_h (outgoing c r) h <> [] -> In h (be_hl c).
Proof. exact backend_list_bounds_all. Qed.
Print Assumptions C08_backend_list_bounds_all.

(* ---- query string ---- *)

(* under every key: the values written in url_pattern, then either nothing or - only for a key
   allowed by both lists - exactly the client's values *)
Theorem C08_query_sound : forall c r k,
  exists fwd, sent_q (outgoing c r) k = (static_q c k ++ fwd)%list /\
    (fwd = [] \/ (allowed_ep_q c k /\ allowed_be_q c k /\ fwd = client_q r k)).
Proof. exact query_sound_model. Qed.
Print Assumptions C08_query_sound.

Theorem C08_query_complete : forall c r k,
  allowed_ep_q c k -> allowed_be_q c k ->
  sent_q (outgoing c r) k = (static_q c k ++ client_q r k)%list.
Proof. exact query_complete_model. Qed.
Print Assumptions C08_query_complete.

(* both directions at once, with the decision written as a boolean *)
Theorem C08_query_exact : forall c r k,
  sent_q (outgoing c r) k =
  (static_q c k ++ (if allowed_ep_qb c k && allowed_be_qb c k then client_q r k else []))%list.
Proof. exact query_exact_model. Qed.
Print Assumptions C08_query_exact.

(* the static query of url_pattern is kept *)
Theorem C08_static_query_kept : forall c r k,
  exists rest, sent_q (outgoing c r) k = (static_q c k ++ rest)%list.
Proof. exact static_query_kept. Qed.
Print Assumptions C08_static_query_kept.

(* ---- the whole statement ---- *)
Theorem C08_spec_holds : forall c r, C08_spec c r (outgoing c r).
Proof. exact spec_model. Qed.
Print Assumptions C08_spec_holds.

(* ---- adapters ---- *)

(* gin's NewRequest and the mux family's NewRequestBuilder build the same request *)
Theorem C08_builders_agree : forall headersToSend queryString r,
  gin_new_request headersToSend queryString r = mux_new_request headersToSend queryString r.
Proof. exact builders_agree. Qed.
Print Assumptions C08_builders_agree.

Theorem C08_adapter_independent : forall a b eph epq beh beq st r,
  outgoing {| c_adapter := a; c_ep_headers := eph; c_ep_query := epq; c_be_headers := beh; c_be_query := beq; c_static := st |} r =
  outgoing {| c_adapter := b; c_ep_headers := eph; c_ep_query := epq; c_be_headers := beh; c_be_query := beq; c_static := st |} r.
Proof. exact adapter_independent. Qed.
Print Assumptions C08_adapter_independent.

(* ---- corner lemmas: duplicates, wildcard, defaults, canonicalisation ---- *)

(* the backend filter depends on which names a list contains, not on duplicates or order
   (the "nothing to filter" shortcut included) *)
Theorem C08_duplicates_irrelevant : forall l l' (m : hmap) h,
  is_nil l = is_nil l' -> (forall x, str_mem x l = str_mem x l') ->
  getl h (be_filter l m) = getl h (be_filter l' m).
Proof. exact be_filter_membership. Qed.
Print Assumptions C08_duplicates_irrelevant.

Theorem C08_filter_exact : forall l (m : hmap) h,
  getl h (be_filter l m) = if is_nil l then getl h m else if str_mem h l then getl h m else [].
Proof. exact getl_be_filter. Qed.
Print Assumptions C08_filter_exact.

Theorem C08_wildcard_forwards_all : forall c r h,
  In star (ep_hl c) -> be_hl c = [] -> ~ own (canon h) ->
  sent_h (outgoing c r) (canon h) = client_h r h.
Proof. exact wildcard_forwards_all. Qed.
Print Assumptions C08_wildcard_forwards_all.

Theorem C08_no_query_list_no_query : forall c r k,
  c_ep_query c = [] -> sent_q (outgoing c r) k = static_q c k.
Proof. exact no_query_list_no_query. Qed.
Print Assumptions C08_no_query_list_no_query.

Theorem C08_default_list_content_type_only : forall c r h,
  c_ep_headers c = [] -> sent_h (outgoing c r) h <> [] -> ~ own h -> h = "Content-Type".
Proof. exact default_list_content_type_only. Qed.
Print Assumptions C08_default_list_content_type_only.

(* CanonicalMIMEHeaderKey (as modelled) is idempotent: the names config.Init produces are
   the names net/http produces *)
Theorem C08_canon_idempotent : forall s, canon (canon s) = canon s.
Proof. exact canon_idem. Qed.
Print Assumptions C08_canon_idempotent.

(* ---- the oracle ---- *)

(* the boolean oracle evaluated on the implementation's observations decides the Prop ... *)
Theorem C08_oracle_decides : forall c r o,
  spec_b c r o = true <-> headers_sound c r o /\ headers_complete c r o /\ query_exact c r o.
Proof. exact spec_b_iff. Qed.
Print Assumptions C08_oracle_decides.

Theorem C08_oracle_sound : forall c r o, spec_b c r o = true -> C08_spec c r o.
Proof. exact spec_b_sound. Qed.
Print Assumptions C08_oracle_sound.

(* ... and the model passes it on every input *)
Theorem C08_model_meets_oracle : forall c r, spec_b c r (outgoing c r) = true.
Proof. exact model_meets_oracle. Qed.
Print Assumptions C08_model_meets_oracle.

(* ---- what the two repaired defects were (why the stack order and the counting rule are
        obligations) ---- *)

(* with the URL rendered before the query-string filter (stack order before the repair) the
   sound direction fails *)
Theorem C08_render_before_filter_refuted :
  exists c r, ~ query_sound c r (outgoing_with (exec_order old_newStack_names) c r).
Proof. exact render_before_filter_refuted. Qed.
Print Assumptions C08_render_before_filter_refuted.

(* a shortcut that counts list entries (duplicates twice) lets an unlisted header through *)
Theorem C08_count_entries_shortcut_refuted :
  exists l m h, ~ In h l /\ getl h (be_filter_count_entries l m) <> [] /\ getl h (be_filter l m) = [].
Proof. exact count_entries_shortcut_refuted. Qed.
Print Assumptions C08_count_entries_shortcut_refuted.

(* ---- non-vacuity ---- *)

Definition ex_cfg : config :=
  {| c_adapter := Chi; c_ep_headers := ["*"]; c_ep_query := ["x"; "y"];
     c_be_headers := ["x-a"; "X-A"]; c_be_query := ["x"; "x"]; c_static := [("s", "1"); ("x", "0")] |}.
Definition ex_req : request :=
  {| r_lines := [("x-A", "1"); ("Cookie", "session=secret"); ("X-a", "2")];
     r_query := [("x", "1"); ("y", "2"); ("x", "")]; r_host := "gw"; r_ip := "192.0.2.7"; r_ua := "KrakenD" |}.

(* the section-8 input: duplicate backend list, a listed header next to a cookie *)
Example C08_ex_duplicate_list :
  outgoing ex_cfg ex_req =
  {| o_headers := [("X-A", ["1"; "2"])];
     o_query := [("x", ["0"; "1"; ""]); ("s", ["1"])] |}.
Proof. vm_compute. reflexivity. Qed.

(* hypotheses of the complete direction are satisfiable, and the conclusion is not trivial *)
Example C08_ex_complete_hyps :
  allowed_ep_h ex_cfg "x-a" /\ allowed_be_h ex_cfg "X-A" /\ ~ overwritten (canon "x-a") /\
  client_h ex_req "x-a" = ["1"; "2"] /\ canon "x-a" = "X-A".
Proof.
  repeat split.
  - left. vm_compute. left. reflexivity.
  - right. vm_compute. left. reflexivity.
  - vm_compute. intros [H|[H|H]]; discriminate.
Qed.

(* the sound direction has a non-own instance: X-A is seen, and it is not one of the four *)
Example C08_ex_sound_hyps :
  sent_h (outgoing ex_cfg ex_req) "X-A" <> [] /\ ~ own "X-A".
Proof. split; [vm_compute; discriminate|]. intros [[H|[H|H]]|H]; discriminate. Qed.

(* gateway-owned names: client User-Agent forwarded -> X-Forwarded-Via added; otherwise the
   gateway's User-Agent *)
Example C08_ex_gateway_headers :
  o_headers (outgoing {| c_adapter := Gin; c_ep_headers := ["user-agent"]; c_ep_query := []; c_be_headers := [];
                         c_be_query := []; c_static := [] |}
                      {| r_lines := [("USER-AGENT", "curl/8"); ("X-Forwarded-For", "6.6.6.6")]; r_query := [("a", "1")];
                         r_host := "gw"; r_ip := "192.0.2.7"; r_ua := "KrakenD" |}) =
  [("X-Forwarded-Via", ["KrakenD"]); ("X-Forwarded-Host", ["gw"]); ("X-Forwarded-For", ["192.0.2.7"]); ("User-Agent", ["curl/8"])].
Proof. vm_compute. reflexivity. Qed.

Example C08_ex_canon :
  canon "x-forwarded-FOR" = "X-Forwarded-For" /\ canon "not a token" = "not a token" /\ canon "*" = "*".
Proof. repeat split. Qed.
