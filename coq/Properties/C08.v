(* C08 - Only allow-listed client headers and query params reach a backend.
   Only theorem statements, each closed by an exact lemma, and Print Assumptions.

   Reading guide (definitions in Model/C08.v and Spec/C08.v):
     outgoing c r        what the backend's HTTPRequestExecutor is handed for configuration c
                         (adapter, the four lists as written in the file, the static query of
                         url_pattern) and client request r (header lines in any case, query pairs)
     sent_h o h / sent_q o k   the values the backend sees under header h / parameter k ([] = none)
     client_h r h        the values the client sent under any spelling of header h, in order
     client_q r k        the values the client sent for parameter k, in order
     ep_hl c / be_hl c   endpoint / backend header lists after config.Init (canonical names;
                         the endpoint list defaults to [Content-Type])
     allowed_ep_* / allowed_be_*   "listed in the endpoint's list (or '*' is listed)" /
                         "the backend declares no list, or lists it" ('*' is a plain name there)
     own h               h is X-Forwarded-For, X-Forwarded-Host, X-Forwarded-Via or User-Agent
     overwritten h       h is one of the first three (the gateway always writes them itself)   *)
Require Import Verif.Common.Base.
Require Import Verif.Model.C08 Verif.Spec.C08 Verif.Proof.C08.

(* ---- headers ---- *)

(* every header the backend sees is one of the gateway's own four carrying the value the gateway
   gives it (own_ok: X-Forwarded-For = the client address the router determined, X-Forwarded-Host =
   the Host addressed, User-Agent / X-Forwarded-Via = the gateway's agent string), or is allowed by the
   endpoint list and by the backend list and carries exactly the client's values;
   every adapter, all lists (any case, duplicates, wildcard, empty), all requests *)
Theorem C08_headers_sound : forall c r h,
  sent_h (outgoing c r) h <> [] ->
  own_ok r h (sent_h (outgoing c r) h) \/
  (allowed_ep_h c h /\ allowed_be_h c h /\ sent_h (outgoing c r) h = client_h r h).
Proof. exact headers_sound_model. Qed.
Print Assumptions C08_headers_sound.

(* every allowed header the client sent is forwarded, values and their order unchanged *)
Theorem C08_headers_complete : forall c r h,
  allowed_ep_h c h -> allowed_be_h c h -> ~ overwritten (canon h) -> client_h r h <> [] ->
  sent_h (outgoing c r) (canon h) = client_h r h.
Proof. exact headers_complete_model. Qed.
Print Assumptions C08_headers_complete.

(* a backend that declares input_headers sees nothing outside it, the gateway's own included *)
Theorem C08_backend_list_bounds_all : forall c r h,
  be_hl c <> [] -> sent_h (outgoing c r) h <> [] -> In h (be_hl c).
Proof. exact backend_list_bounds_all. Qed.
Print Assumptions C08_backend_list_bounds_all.

(* ---- query string ---- *)

(* under every key: the values written in url_pattern, then either nothing or - only for a key
   allowed by both lists - exactly the client's values *)
Theorem C08_query_sound : forall c r k,
  exists fwd, sent_q (outgoing c r) k = (static_q c k ++ fwd)%list /\
    (fwd = [] \/ (allowed_ep_q c k /\ allowed_be_q c k /\ fwd = client_q r k)).
Proof. exact query_sound_model. Qed.
Print Assumptions C08_query_sound.

Theorem C08_query_complete : forall c r k,
  allowed_ep_q c k -> allowed_be_q c k ->
  sent_q (outgoing c r) k = (static_q c k ++ client_q r k)%list.
Proof. exact query_complete_model. Qed.
Print Assumptions C08_query_complete.

(* both directions at once, with the decision written as a boolean *)
Theorem C08_query_exact : forall c r k,
  sent_q (outgoing c r) k =
  (static_q c k ++ (if allowed_ep_qb c k && allowed_be_qb c k then client_q r k else []))%list.
Proof. exact query_exact_model. Qed.
Print Assumptions C08_query_exact.

(* the static query of url_pattern is kept *)
Theorem C08_static_query_kept : forall c r k,
  exists rest, sent_q (outgoing c r) k = (static_q c k ++ rest)%list.
Proof. exact static_query_kept. Qed.
Print Assumptions C08_static_query_kept.

(* ---- the whole statement ---- *)
Theorem C08_spec_holds : forall c r, C08_spec c r (outgoing c r).
Proof. exact spec_model. Qed.
Print Assumptions C08_spec_holds.

(* ---- adapters ---- *)

(* gin's NewRequest and the mux family's NewRequestBuilder build the same request *)
Theorem C08_builders_agree : forall headersToSend queryString r,
  gin_new_request headersToSend queryString r = mux_new_request headersToSend queryString r.
Proof. exact builders_agree. Qed.
Print Assumptions C08_builders_agree.

Theorem C08_adapter_independent : forall a b eph epq beh beq st r,
  outgoing {| c_adapter := a; c_ep_headers := eph; c_ep_query := epq; c_be_headers := beh; c_be_query := beq; c_static := st |} r =
  outgoing {| c_adapter := b; c_ep_headers := eph; c_ep_query := epq; c_be_headers := beh; c_be_query := beq; c_static := st |} r.
Proof. exact adapter_independent. Qed.
Print Assumptions C08_adapter_independent.

(* ---- corner lemmas: duplicates, wildcard, defaults, canonicalisation ---- *)

(* the backend filter depends on which names a list contains, not on duplicates or order
   (the "nothing to filter" shortcut included) *)
Theorem C08_duplicates_irrelevant : forall l l' (m : hmap) h,
  is_nil l = is_nil l' -> (forall x, str_mem x l = str_mem x l') ->
  getl h (be_filter l m) = getl h (be_filter l' m).
Proof. exact be_filter_membership. Qed.
Print Assumptions C08_duplicates_irrelevant.

Theorem C08_filter_exact : forall l (m : hmap) h,
  getl h (be_filter l m) = if is_nil l then getl h m else if str_mem h l then getl h m else [].
Proof. exact getl_be_filter. Qed.
Print Assumptions C08_filter_exact.

Theorem C08_wildcard_forwards_all : forall c r h,
  In star (ep_hl c) -> be_hl c = [] -> ~ own (canon h) ->
  sent_h (outgoing c r) (canon h) = client_h r h.
Proof. exact wildcard_forwards_all. Qed.
Print Assumptions C08_wildcard_forwards_all.

Theorem C08_no_query_list_no_query : forall c r k,
  c_ep_query c = [] -> sent_q (outgoing c r) k = static_q c k.
Proof. exact no_query_list_no_query. Qed.
Print Assumptions C08_no_query_list_no_query.

Theorem C08_default_list_content_type_only : forall c r h,
  c_ep_headers c = [] -> sent_h (outgoing c r) h <> [] -> ~ own h -> h = "Content-Type".
Proof. exact default_list_content_type_only. Qed.
Print Assumptions C08_default_list_content_type_only.

(* CanonicalMIMEHeaderKey (as modelled) is idempotent: the names config.Init produces are
   the names net/http produces *)
Theorem C08_canon_idempotent : forall s, canon (canon s) = canon s.
Proof. exact canon_idem. Qed.
Print Assumptions C08_canon_idempotent.

(* ---- wire level of the query string: url.QueryEscape / Values.Encode / url.ParseQuery as
        modelled byte by byte (Model/C08.v), validated against net/url on every run ---- *)

(* every byte string comes back from its escaping *)
Theorem C08_escape_roundtrip : forall s, query_unescape (query_escape s) = Some s.
Proof. exact unescape_escape. Qed.
Print Assumptions C08_escape_roundtrip.

(* encode then parse gives the same pairs in the same order - any bytes in names and values,
   repeated names, empty names, empty values; hence the same multimap with the order of the
   values of every key preserved *)
Theorem C08_parse_encode_roundtrip : forall ps, parse_query (encode_pairs ps) = ps.
Proof. exact parse_encode_pairs. Qed.
Print Assumptions C08_parse_encode_roundtrip.

Theorem C08_parse_distributes : forall a b,
  parse_query (a ++ String amp b) = (parse_query a ++ parse_query b)%list.
Proof. exact parse_query_amp. Qed.
Print Assumptions C08_parse_distributes.

(* the RawQuery written by the load balancer parses to the pairs of the url_pattern text followed
   by the pairs of the Query map: nothing injected, nothing lost, for every text and every map *)
Theorem C08_wire_render : forall sraw q,
  parse_query (render_raw sraw q) = (parse_query sraw ++ flatten q)%list.
Proof. exact parse_render_raw. Qed.
Print Assumptions C08_wire_render.

(* the pair-level model is the wire-level model read through ParseQuery *)
Theorem C08_wire_refines_pairs : forall c sraw r,
  parse_query sraw = c_static c ->
  group (parse_query (outgoing_raw c sraw r)) = o_query (outgoing c r).
Proof. exact wire_refines_pairs. Qed.
Print Assumptions C08_wire_refines_pairs.

(* C08's query statement at the wire, no hypothesis: under every key a backend that parses its
   RawQuery reads the values written in url_pattern followed by the client's values when both
   lists allow the key, and by nothing otherwise *)
Theorem C08_wire_query_exact : forall c sraw r k,
  getl k (group (parse_query (outgoing_raw c sraw r))) =
  (vals_of k (parse_query sraw) ++
   (if allowed_ep_qb c k && allowed_be_qb c k then client_q r k else []))%list.
Proof. exact wire_query_exact. Qed.
Print Assumptions C08_wire_query_exact.

(* the order in which the keys of the Query map are written (Values.Encode sorts them, Go maps
   have none) cannot be observed by a backend that parses and groups *)
Theorem C08_key_order_irrelevant : forall sraw (m m' : hmap) k,
  NoDup (keys m) -> NoDup (keys m') -> (forall x, getl x m = getl x m') ->
  getl k (group (parse_query (render_raw sraw m))) = getl k (group (parse_query (render_raw sraw m'))).
Proof. exact key_order_irrelevant. Qed.
Print Assumptions C08_key_order_irrelevant.

(* a client's value under a gateway-owned name reaches the backend only through the lists: a
   header seen under such a name that is not allowed carries the gateway's value *)
Theorem C08_gateway_values : forall c r h,
  own h -> sent_h (outgoing c r) h <> [] -> ~ (allowed_ep_h c h /\ allowed_be_h c h) ->
  own_value r h = Some (sent_h (outgoing c r) h).
Proof. exact gateway_values. Qed.
Print Assumptions C08_gateway_values.

(* a malformed piece of the client's query text (bad escape, semicolon) is dropped alone: the
   other parameters parse as without it, so (C08_wire_query_exact) they are forwarded as without it *)
Theorem C08_malformed_piece_ignored : forall a junk,
  parse_query junk = [] ->
  parse_query (a ++ String amp junk) = parse_query a /\ parse_query (junk ++ String amp a) = parse_query a.
Proof. exact malformed_piece_ignored. Qed.
Print Assumptions C08_malformed_piece_ignored.

(* ---- GraphQL backends (the stage between the filters and the rendering) ---- *)

(* the allow lists bind a GraphQL backend as they bind a plain one; besides the gateway's four
   headers it sees only the stage's own Content-Type and Content-Length *)
Theorem C08_gql_headers_sound : forall g c r h,
  sent_h (outgoing_gql g c r) h <> [] ->
  own_ok r h (sent_h (outgoing_gql g c r) h) \/ gql_own_hb g h = true \/
  (allowed_ep_h c h /\ allowed_be_h c h /\ sent_h (outgoing_gql g c r) h = client_h r h).
Proof. exact gql_headers_sound_model. Qed.
Print Assumptions C08_gql_headers_sound.

Theorem C08_gql_headers_complete : forall g c r h,
  allowed_ep_h c h -> allowed_be_h c h -> ~ overwritten (canon h) -> gql_own_hb g (canon h) = false ->
  client_h r h <> [] -> sent_h (outgoing_gql g c r) (canon h) = client_h r h.
Proof. exact gql_headers_complete_model. Qed.
Print Assumptions C08_gql_headers_complete.

(* the stage's two headers carry its own values whatever the client sent and the lists say
   (they are written after the backend filter) *)
Theorem C08_gql_own_headers : forall g c r, gql_own_headers g (outgoing_gql g c r).
Proof. exact gql_own_headers_model. Qed.
Print Assumptions C08_gql_own_headers.

(* query: with the GET transport the three GraphQL parameters carry the operation's values - a
   client query / operationName / variables never reaches the backend, allowed or not; every
   other key, and every key with the POST transport, is as for a plain backend *)
Theorem C08_gql_query_exact : forall g c r,
  NoDup (keys (gql_opq g)) -> (forall k, mem k (gql_opq g) = true -> str_mem k gql_keys = true) ->
  forall k, sent_q (outgoing_gql g c r) k =
    (static_q c k ++ (if gql_own_qb g k then getl k (gql_opq g) else fwd_q c r k))%list.
Proof. exact gql_query_exact_model. Qed.
Print Assumptions C08_gql_query_exact.

(* a plain backend is the GNone instance, and the stage sits where newStack_names puts it *)
Theorem C08_gql_none_is_plain : forall c r, outgoing_gql GNone c r = outgoing c r.
Proof. exact outgoing_gql_none. Qed.
Print Assumptions C08_gql_none_is_plain.

Theorem C08_gql_stage_position :
  map (fun n => (n, stage_of n)) (firstn 4 (skipn 2 (rev newStack_names))) =
  [("NewFilterQueryStringsMiddleware", SFilterQuery); ("NewFilterHeadersMiddleware", SFilterHeaders);
   ("NewGraphQLMiddleware", SNeutral); ("NewLoadBalancedMiddlewareWithSubscriberAndLogger", SRender)].
Proof. exact gql_stage_position. Qed.
Print Assumptions C08_gql_stage_position.

Theorem C08_gql_model_meets_oracle : forall g c r,
  NoDup (keys (gql_opq g)) -> (forall k, mem k (gql_opq g) = true -> str_mem k gql_keys = true) ->
  spec_gql_b g c r (outgoing_gql g c r) = true.
Proof. exact gql_model_meets_oracle. Qed.
Print Assumptions C08_gql_model_meets_oracle.

(* ---- the oracle ---- *)

(* the boolean oracle evaluated on the implementation's observations decides the Prop ... *)
Theorem C08_oracle_decides : forall c r o,
  spec_b c r o = true <-> headers_sound c r o /\ headers_complete c r o /\ query_exact c r o.
Proof. exact spec_b_iff. Qed.
Print Assumptions C08_oracle_decides.

Theorem C08_oracle_sound : forall c r o, spec_b c r o = true -> C08_spec c r o.
Proof. exact spec_b_sound. Qed.
Print Assumptions C08_oracle_sound.

(* ... and the model passes it on every input *)
Theorem C08_model_meets_oracle : forall c r, spec_b c r (outgoing c r) = true.
Proof. exact model_meets_oracle. Qed.
Print Assumptions C08_model_meets_oracle.

(* ---- what the two repaired defects were (why the stack order and the counting rule are
        obligations) ---- *)

(* with the URL rendered before the query-string filter (stack order before the repair) the
   sound direction fails *)
Theorem C08_render_before_filter_refuted :
  exists c r, ~ query_sound c r (outgoing_with (exec_order old_newStack_names) c r).
Proof. exact render_before_filter_refuted. Qed.
Print Assumptions C08_render_before_filter_refuted.

(* a shortcut that counts list entries (duplicates twice) lets an unlisted header through *)
Theorem C08_count_entries_shortcut_refuted :
  exists l m h, ~ In h l /\ getl h (be_filter_count_entries l m) <> [] /\ getl h (be_filter l m) = [].
Proof. exact count_entries_shortcut_refuted. Qed.
Print Assumptions C08_count_entries_shortcut_refuted.

(* ---- non-vacuity ---- *)

Definition ex_cfg : config :=
  {| c_adapter := Chi; c_ep_headers := ["*"]; c_ep_query := ["x"; "y"];
     c_be_headers := ["x-a"; "X-A"]; c_be_query := ["x"; "x"]; c_static := [("s", "1"); ("x", "0")] |}.
Definition ex_req : request :=
  {| r_lines := [("x-A", "1"); ("Cookie", "session=secret"); ("X-a", "2")];
     r_query := [("x", "1"); ("y", "2"); ("x", "")]; r_host := "gw"; r_ip := "192.0.2.7"; r_ua := "KrakenD" |}.

(* the section-8 input: duplicate backend list, a listed header next to a cookie *)
Example C08_ex_duplicate_list :
  outgoing ex_cfg ex_req =
  {| o_headers := [("X-A", ["1"; "2"])];
     o_query := [("x", ["0"; "1"; ""]); ("s", ["1"])] |}.
Proof. vm_compute. reflexivity. Qed.

(* hypotheses of the complete direction are satisfiable, and the conclusion is not trivial *)
Example C08_ex_complete_hyps :
  allowed_ep_h ex_cfg "x-a" /\ allowed_be_h ex_cfg "X-A" /\ ~ overwritten (canon "x-a") /\
  client_h ex_req "x-a" = ["1"; "2"] /\ canon "x-a" = "X-A".
Proof.
  repeat split.
  - left. vm_compute. left. reflexivity.
  - right. vm_compute. left. reflexivity.
  - vm_compute. intros [H|[H|H]]; discriminate.
Qed.

(* the sound direction has a non-own instance: X-A is seen, and it is not one of the four *)
Example C08_ex_sound_hyps :
  sent_h (outgoing ex_cfg ex_req) "X-A" <> [] /\ ~ own "X-A".
Proof. split; [vm_compute; discriminate|]. intros [[H|[H|H]]|H]; discriminate. Qed.

(* gateway-owned names: client User-Agent forwarded -> X-Forwarded-Via added; otherwise the
   gateway's User-Agent *)
Example C08_ex_gateway_headers :
  o_headers (outgoing {| c_adapter := Gin; c_ep_headers := ["user-agent"]; c_ep_query := []; c_be_headers := [];
                         c_be_query := []; c_static := [] |}
                      {| r_lines := [("USER-AGENT", "curl/8"); ("X-Forwarded-For", "6.6.6.6")]; r_query := [("a", "1")];
                         r_host := "gw"; r_ip := "192.0.2.7"; r_ua := "KrakenD" |}) =
  [("X-Forwarded-Via", ["KrakenD"]); ("X-Forwarded-Host", ["gw"]); ("X-Forwarded-For", ["192.0.2.7"]); ("User-Agent", ["curl/8"])].
Proof. vm_compute. reflexivity. Qed.

Example C08_ex_canon :
  canon "x-forwarded-FOR" = "X-Forwarded-For" /\ canon "not a token" = "not a token" /\ canon "*" = "*".
Proof. repeat split. Qed.

(* wire level: reserved bytes, an empty name, repeated names; a malformed client text *)
Example C08_ex_wire :
  outgoing_raw ex_cfg "s=1&x=0" ex_req = "s=1&x=0&x=1&x=" /\
  encode_pairs [("k&=", "a b"); ("", "%"); ("k&=", "")] = "k%26%3D=a+b&=%25&k%26%3D=" /\
  parse_query "a=1&&b=x+y&c&=v&d=1;e=2&k=%zz&z=%3d" = [("a", "1"); ("b", "x y"); ("c", ""); ("", "v"); ("z", "=")].
Proof. repeat split; vm_compute; reflexivity. Qed.

(* the two maps of C08_key_order_irrelevant can differ *)
Example C08_ex_key_order :
  render_raw "" [("a", ["1"]); ("b", ["2"])] <> render_raw "" [("b", ["2"]); ("a", ["1"])].
Proof. vm_compute. discriminate. Qed.

(* GraphQL, GET transport: the client's query/variables are dropped although both lists allow
   them; a is forwarded; the hypotheses of C08_gql_query_exact hold of this operation *)
Example C08_ex_gql_get :
  let g := GGet [("query", ["{hero}"]); ("operationName", ["Hero"])] in
  let c := {| c_adapter := Mux; c_ep_headers := ["*"]; c_ep_query := ["*"]; c_be_headers := ["x-a"];
              c_be_query := ["a"; "query"; "variables"]; c_static := [] |} in
  let r := {| r_lines := [("X-A", "1"); ("Content-Type", "text/plain")];
              r_query := [("a", "1"); ("query", "{evil}"); ("variables", "{}")]; r_host := "gw"; r_ip := "i"; r_ua := "K" |} in
  outgoing_gql g c r =
  {| o_headers := [("Content-Type", ["application/json"]); ("Content-Length", ["0"]); ("X-A", ["1"])];
     o_query := [("a", ["1"]); ("query", ["{hero}"]); ("operationName", ["Hero"])] |} /\
  NoDup (keys (gql_opq g)) /\ (forall k, mem k (gql_opq g) = true -> str_mem k gql_keys = true).
Proof.
  cbv zeta. split; [vm_compute; reflexivity|split].
  - repeat constructor; simpl; intuition discriminate.
  - intros k. unfold mem, gql_opq. simpl.
    destruct (str_eqb k "query") eqn:E1; [apply str_eqb_eq in E1; subst; reflexivity|].
    destruct (str_eqb k "operationName") eqn:E2; [apply str_eqb_eq in E2; subst; reflexivity|discriminate].
Qed.

(* the client's X-Forwarded-Host is not listed: the backend gets the Host addressed, and the
   malformed pieces of this kind parse to nothing *)
Example C08_ex_gateway_value_and_junk :
  sent_h (outgoing {| c_adapter := Gin; c_ep_headers := ["X-A"]; c_ep_query := []; c_be_headers := [];
                      c_be_query := []; c_static := [] |}
                   {| r_lines := [("X-Forwarded-Host", "evil.example"); ("X-A", "1")]; r_query := [];
                      r_host := "gw"; r_ip := "192.0.2.7"; r_ua := "KrakenD" |}) XFH = ["gw"] /\
  parse_query "b=%ZZ" = [] /\ parse_query "zz=1;y=2" = [] /\ parse_query "%" = [].
Proof. repeat split. Qed.
