(* C18 - Static data and modifier plugins apply exactly when and in the order configured.
   Only theorem statements, each closed by an exact lemma, and Print Assumptions. *)
Require Import Verif.Common.Base Verif.Common.Json.
Require Import Verif.Model.C18 Verif.Spec.C18 Verif.Proof.C18 Verif.Proof.C18_b Verif.Proof.C18_c.
Require Import Sorted.

(* ---------------- static data ---------------- *)

(* For every static data set d, every strategy name, every inner outcome (r, e): when the
   strategy holds the result is a response whose every field is the static value if the
   static data has that name (overriding) and the inner outcome's field otherwise, with the
   inner completeness flag and the inner error; when it does not hold the inner outcome
   is passed through untouched. *)
Theorem C18_static_exact : forall d name r e,
  (holds name r e ->
     exists m, static_apply (Some (d, name)) r e =
               ORet (Some {| r_data := Some m; r_complete := complete_of r |}) e /\
               forall k, lookup k m = expected_field d r k) /\
  (~ holds name r e -> static_apply (Some (d, name)) r e = ORet r e).
Proof. exact static_exact. Qed.
Print Assumptions C18_static_exact.

(* what "holds" means for each of the five names, and for any other name (= always) *)
Theorem C18_strategy_table : forall r e,
  (holds "always" r e <-> True) /\
  (holds "success" r e <-> e = ENone) /\
  (holds "errored" r e <-> e <> ENone) /\
  (holds "complete" r e <-> e = ENone /\ complete_resp r) /\
  (holds "incomplete" r e <-> (r = None \/ exists x, r = Some x /\ r_complete x = false)) /\
  (forall n, n <> "success" -> n <> "errored" -> n <> "complete" -> n <> "incomplete" -> holds n r e).
Proof. exact holds_table. Qed.
Print Assumptions C18_strategy_table.

(* the code's predicate decides exactly that *)
Theorem C18_strategy_match : forall name r e, strategy_match name r e = true <-> holds name r e.
Proof. exact strategy_match_holds. Qed.
Print Assumptions C18_strategy_match.

(* anything that is not a static configuration adds nothing *)
Theorem C18_static_unconfigured : forall s r e,
  (forall d st, s <> ShOk d st) -> static_apply (static_cfg s) r e = ORet r e.
Proof. exact static_unconfigured. Qed.
Print Assumptions C18_static_unconfigured.

(* ---------------- modifiers ---------------- *)

(* For every registry, every configuration shape and every inner computation: the
   middleware meets plugin_spec (Spec/C18.v): request modifiers in configured order up to
   the first failure; the inner proxy is called iff none failed; response modifiers in
   configured order after an inner call that returned a response and no error, up to the
   first failure; a failure's error is the result, without response; an inner error, and
   an inner call returning neither response nor error, are handed up as they are without
   any response modifier.  plugin_spec has a clause for every inner outcome (total). *)
Theorem C18_order : forall lv R s inner,
  plugin_spec eq lv (configured_req R (shape_names s)) (configured_resp R (shape_names s))
              inner (plugin_mw lv R s inner).
Proof. exact plugin_mw_spec. Qed.
Print Assumptions C18_order.

(* the lookup loop selects exactly the configured entries registered for the direction *)
Theorem C18_lookup_exact : forall R l,
  resolve R 0 l = (configured_req R l, configured_resp R l).
Proof. exact resolve_configured. Qed.
Print Assumptions C18_lookup_exact.

(* both lists keep the configured order (strictly increasing configured positions) and
   contain exactly the entries selected for the direction *)
Theorem C18_configured_order : forall want R l,
  StronglySorted lt (map fst (configured want R l)) /\
  forall p b, In (p, b) (configured want R l) <->
              exists c, nth_error l p = Some (c, b) /\ selected want R (p, (c, b)) = true.
Proof. intros want R l. split; [apply configured_sorted|intros p b; apply configured_in]. Qed.
Print Assumptions C18_configured_order.

(* what `runs l called failed` means: the invoked positions are a prefix of the list; if
   nothing failed all were invoked and none fails; if position p failed it is the first
   failing modifier of the list and the last one invoked *)
Theorem C18_runs_meaning : forall l c f, runs l c f ->
  (exists rest, map fst l = (c ++ rest)%list) /\
  (f = None -> c = map fst l /\ Forall notfail l) /\
  (forall p, f = Some p ->
     exists pre post, l = (pre ++ (p, BFail) :: post)%list /\ Forall notfail pre /\
                      c = (map fst pre ++ [p])%list).
Proof. exact runs_meaning. Qed.
Print Assumptions C18_runs_meaning.

(* `runs` determines the invoked list and the failure *)
Theorem C18_runs_deterministic : forall l c f, runs l c f -> c = called l /\ f = failed l.
Proof. exact runs_fun. Qed.
Print Assumptions C18_runs_deterministic.

(* explicit forms.  (1) the first failing request modifier aborts the call: the log holds
   the request modifiers up to it and nothing else - no backend, no response modifier *)
Theorem C18_request_abort : forall lv R s inner pre p post,
  configured_req R (shape_names s) = (pre ++ (p, BFail) :: post)%list -> Forall notfail pre ->
  plugin_mw lv R s inner = (map (EvReq lv) (map fst pre ++ [p]), ORet None (EMod lv p)).
Proof. exact req_abort_explicit. Qed.
Print Assumptions C18_request_abort.

(* (2) an inner error is handed up as it is, after all request modifiers *)
Theorem C18_inner_error : forall lv R s li r e,
  Forall notfail (configured_req R (shape_names s)) -> e <> ENone ->
  plugin_mw lv R s (li, ORet r e) =
  ((map (EvReq lv) (map fst (configured_req R (shape_names s))) ++ li)%list, ORet r e).
Proof. exact inner_error_explicit. Qed.
Print Assumptions C18_inner_error.

(* (2b) an inner call returning neither response nor error (nil, nil) is handed up as it
   is: no response modifier is invoked, nothing panics *)
Theorem C18_no_response : forall lv R s li,
  Forall notfail (configured_req R (shape_names s)) ->
  plugin_mw lv R s (li, ORet None ENone) =
  ((map (EvReq lv) (map fst (configured_req R (shape_names s))) ++ li)%list, ORet None ENone).
Proof. exact no_response_explicit. Qed.
Print Assumptions C18_no_response.

(* the specification determines log and result completely (with C18_order: exactly one
   outcome is allowed for every configuration and every inner computation) *)
Theorem C18_order_deterministic : forall lv rq rs inner out,
  plugin_spec eq lv rq rs inner out -> out = plugin_run lv rq rs inner.
Proof. exact plugin_spec_fun. Qed.
Print Assumptions C18_order_deterministic.

(* no panic is ever introduced by a modifier layer *)
Theorem C18_never_panics : forall lv R s li r e,
  snd (plugin_mw lv R s (li, ORet r e)) <> OPanic.
Proof. exact plugin_mw_no_panic. Qed.
Print Assumptions C18_never_panics.

(* (3) the first failing response modifier aborts: later response modifiers do not run *)
Theorem C18_response_abort : forall lv R s li x pre p post,
  Forall notfail (configured_req R (shape_names s)) ->
  configured_resp R (shape_names s) = (pre ++ (p, BFail) :: post)%list -> Forall notfail pre ->
  plugin_mw lv R s (li, ORet (Some x) ENone) =
  ((map (EvReq lv) (map fst (configured_req R (shape_names s))) ++ li ++
    map (EvResp lv) (map fst pre ++ [p]))%list, ORet None (EMod lv p)).
Proof. exact resp_abort_explicit. Qed.
Print Assumptions C18_response_abort.

(* (4) nothing fails: all request modifiers, the inner call, all response modifiers *)
Theorem C18_all_run : forall lv R s li x,
  Forall notfail (configured_req R (shape_names s)) ->
  Forall notfail (configured_resp R (shape_names s)) ->
  plugin_mw lv R s (li, ORet (Some x) ENone) =
  ((map (EvReq lv) (map fst (configured_req R (shape_names s))) ++ li ++
    map (EvResp lv) (map fst (configured_resp R (shape_names s))))%list, ORet (Some x) ENone).
Proof. exact all_ok_explicit. Qed.
Print Assumptions C18_all_run.

(* "exactly when": a static field the inner outcome does not already carry with that value
   is in the result iff the strategy holds *)
Theorem C18_static_iff : forall d name r e k v,
  lookup k d = Some v -> lookup k (data_of r) <> Some v ->
  ((exists x m, static_apply (Some (d, name)) r e = ORet (Some x) e /\
                r_data x = Some m /\ lookup k m = Some v) <-> holds name r e).
Proof. exact static_iff. Qed.
Print Assumptions C18_static_iff.

(* ---------------- position in the stack ---------------- *)

(* the stack of DefaultFactory for one backend is static around endpoint modifiers around
   backend modifiers around the backend, and meets stack_spec *)
Theorem C18_stack_position : forall ss R pe pb r e,
  wf_sshape ss -> wf_resp r -> stack_spec ss R pe pb r e (endpoint_stack ss R pe pb r e).
Proof. exact stack_model_meets_spec. Qed.
Print Assumptions C18_stack_position.

Theorem C18_stack_all_run : forall ss R pe pb x,
  Forall notfail (configured_req R (shape_names pe)) -> Forall notfail (configured_resp R (shape_names pe)) ->
  Forall notfail (configured_req R (shape_names pb)) -> Forall notfail (configured_resp R (shape_names pb)) ->
  endpoint_stack ss R pe pb (Some x) ENone =
  ((map (EvReq LEndpoint) (map fst (configured_req R (shape_names pe))) ++
    (map (EvReq LBackend) (map fst (configured_req R (shape_names pb))) ++ [EvBackend] ++
     map (EvResp LBackend) (map fst (configured_resp R (shape_names pb)))) ++
    map (EvResp LEndpoint) (map fst (configured_resp R (shape_names pe))))%list,
   static_apply (static_cfg ss) (Some x) ENone).
Proof. exact stack_all_ok. Qed.
Print Assumptions C18_stack_all_run.

(* the static strategy is decided on the outcome of the modifier layers: a failing endpoint
   request modifier gives (no response, its error) to the static middleware, and nothing
   below runs *)
Theorem C18_stack_endpoint_abort : forall ss R pe pb r e pre p post,
  configured_req R (shape_names pe) = (pre ++ (p, BFail) :: post)%list -> Forall notfail pre ->
  endpoint_stack ss R pe pb r e =
  (map (EvReq LEndpoint) (map fst pre ++ [p]), static_apply (static_cfg ss) None (EMod LEndpoint p)).
Proof. exact stack_endpoint_req_abort. Qed.
Print Assumptions C18_stack_endpoint_abort.

Theorem C18_stack_backend_resp_abort : forall ss R pe pb x pre p post,
  Forall notfail (configured_req R (shape_names pe)) -> Forall notfail (configured_req R (shape_names pb)) ->
  configured_resp R (shape_names pb) = (pre ++ (p, BFail) :: post)%list -> Forall notfail pre ->
  endpoint_stack ss R pe pb (Some x) ENone =
  ((map (EvReq LEndpoint) (map fst (configured_req R (shape_names pe))) ++
    (map (EvReq LBackend) (map fst (configured_req R (shape_names pb))) ++ [EvBackend] ++
     map (EvResp LBackend) (map fst pre ++ [p])))%list,
   static_apply (static_cfg ss) None (EMod LBackend p)).
Proof. exact stack_backend_resp_abort. Qed.
Print Assumptions C18_stack_backend_resp_abort.

(* ---------------- oracles ---------------- *)

(* soundness of the boolean oracles w.r.t. the Prop forms *)
Theorem C18_static_oracle_sound : forall d name r e out,
  static_spec_b d name r e out = true -> static_spec_obs d name r e out.
Proof. exact static_spec_b_sound. Qed.
Print Assumptions C18_static_oracle_sound.

Theorem C18_plugin_oracle_sound : forall lv rq rs inner obs,
  plugin_spec_b lv rq rs inner obs = true -> plugin_spec obs_eq lv rq rs inner obs.
Proof. exact plugin_spec_b_sound. Qed.
Print Assumptions C18_plugin_oracle_sound.

Theorem C18_stack_oracle_sound : forall ss R pe pb r e obs,
  stack_spec_b ss R pe pb r e obs = true -> stack_spec ss R pe pb r e obs.
Proof. exact stack_spec_b_sound. Qed.
Print Assumptions C18_stack_oracle_sound.

(* the executable model satisfies the oracles, for every well-formed input (no duplicate
   keys at any depth in the static data and in the inner response's data) *)
Theorem C18_model_meets_oracle : forall ss R pe pb lv s r e,
  wf_sshape ss -> wf_resp r ->
  static_case_spec_b (static_cfg ss) r e (static_apply (static_cfg ss) r e) = true /\
  plugin_case_spec_b lv R s (backend_call r e) (plugin_mw lv R s (backend_call r e)) = true /\
  stack_spec_b ss R pe pb r e (endpoint_stack ss R pe pb r e) = true.
Proof.
  intros ss R pe pb lv s r e Hs Hr. split; [|split].
  - apply static_model_meets_oracle; [destruct ss; simpl; auto|exact Hr].
  - apply plugin_model_meets_oracle. exact Hr.
  - apply stack_model_meets_oracle; assumption.
Qed.
Print Assumptions C18_model_meets_oracle.

(* ---------------- values handed from modifier to modifier ---------------- *)

(* the loop of executeRequest/ResponseModifiers on values, for every list and initial value:
   the invoked modifiers are those of the order model, the i-th of them sees the initial
   value as changed, one after the other, by the modifiers before it (`steps`: a modifying
   one appends its tag, a stripping one empties the value, a non-wrapper result and an
   unchanged wrapper hand the previous value on), and the value left after the loop is
   `steps` over the whole list - none if one failed *)
Theorem C18_threading : forall lv l v,
  thread lv l v = (seen_decl lv l v, out_decl lv l v) /\
  map fst (fst (thread lv l v)) = called l.
Proof. intros lv l v. split; [apply thread_decl|apply thread_called]. Qed.
Print Assumptions C18_threading.

(* the value seen at configured index i, explicitly *)
Theorem C18_seen_at : forall lv l v i p b,
  Forall notfail (firstn i l) -> nth_error l i = Some (p, b) ->
  nth_error (seen_decl lv l v) i = Some (p, steps lv (firstn i l) v).
Proof. exact seen_at. Qed.
Print Assumptions C18_seen_at.

(* one middleware on values is the declarative layer: the backend side is called with the
   value left by the request modifiers, the response modifiers start from the inner
   response's value, the caller gets the value they leave *)
Theorem C18_values_layer : forall lv R s inner v,
  plugin_vmw lv R s inner v =
  vlayer_decl lv (configured_req R (shape_names s)) (configured_resp R (shape_names s)) inner v.
Proof. exact plugin_vmw_decl. Qed.
Print Assumptions C18_values_layer.

(* the whole stack when nothing fails: the backend receives the client's value as changed by
   the endpoint's then the backend's request modifiers; the caller receives the backend's
   value as changed by the backend's then the endpoint's response modifiers *)
Theorem C18_values_stack : forall R pe pb v t0,
  Forall notfail (configured_req R (shape_names pe)) -> Forall notfail (configured_resp R (shape_names pe)) ->
  Forall notfail (configured_req R (shape_names pb)) -> Forall notfail (configured_resp R (shape_names pb)) ->
  vstack R pe pb (Some t0) v =
  ((vreq LEndpoint (seen_decl LEndpoint (configured_req R (shape_names pe)) v) ++
    (vreq LBackend (seen_decl LBackend (configured_req R (shape_names pb)) (steps LEndpoint (configured_req R (shape_names pe)) v)) ++
     [VBackend (steps LBackend (configured_req R (shape_names pb)) (steps LEndpoint (configured_req R (shape_names pe)) v))] ++
     vresp LBackend (seen_decl LBackend (configured_resp R (shape_names pb)) t0)) ++
    vresp LEndpoint (seen_decl LEndpoint (configured_resp R (shape_names pe)) (steps LBackend (configured_resp R (shape_names pb)) t0)))%list,
   VRet (steps LEndpoint (configured_resp R (shape_names pe)) (steps LBackend (configured_resp R (shape_names pb)) t0))).
Proof. exact vstack_all_ok. Qed.
Print Assumptions C18_values_stack.

(* without a stripping modifier the value only grows: the initial value followed by the tags
   of the modifying modifiers, in configured order *)
Theorem C18_steps_tags : forall lv l v,
  Forall (fun m => strips (snd m) = false) l -> steps lv l v = (v ++ tags lv l)%list.
Proof. exact steps_tags. Qed.
Print Assumptions C18_steps_tags.

(* a modifier that strips the value (nil headers / params) is not undone: whatever the
   client sent and the earlier modifiers added is gone for everything after it *)
Theorem C18_strip_not_undone : forall lv pre p post v,
  steps lv (pre ++ (p, BStrip) :: post) v = steps lv post [].
Proof. exact steps_strip. Qed.
Print Assumptions C18_strip_not_undone.

(* the factory applies both middlewares whatever the endpoint's output encoding is *)
Theorem C18_stack_any_encoding : forall enc ss R pe pb r e t0 v,
  factory_stack enc ss R pe pb r e = endpoint_stack ss R pe pb r e /\
  factory_vstack enc R pe pb t0 v = vstack R pe pb t0 v.
Proof. intros. split; reflexivity. Qed.
Print Assumptions C18_stack_any_encoding.

(* forgetting the values of a run gives exactly the call log of the order model (so
   C18_order and its corollaries speak about the same run) *)
Theorem C18_values_refine_order : forall lv rq rs inner v li ri x,
  inner (steps lv rq v) = (li, ri) ->
  map erase (fst (plugin_vrun lv rq rs inner v)) =
  fst (plugin_run lv rq rs (map erase li,
                            match ri with VRet _ => ORet (Some x) ENone | VNone => ORet None ENone end)).
Proof. exact vrun_refines_order. Qed.
Print Assumptions C18_values_refine_order.

(* oracle of the value cases: sound (it pins the observation to the declarative stack)
   and met by the model, for every input *)
Theorem C18_values_oracle : forall R pe pb v0 t0,
  (forall obs, thread_spec_b R pe pb v0 t0 obs = true -> obs = vstack_decl R pe pb t0 v0) /\
  thread_spec_b R pe pb v0 t0 (vstack R pe pb t0 v0) = true.
Proof. intros. split; [intros obs; apply thread_spec_b_sound|apply thread_model_meets_oracle]. Qed.
Print Assumptions C18_values_oracle.

(* ---------------- non-vacuity ---------------- *)
Definition exR : registry := [("rq0", RReq); ("rq1", RReq); ("rs0", RResp); ("rs1", RResp); ("bo0", RBoth)].
Definition exResp : option resp := Some {| r_data := Some [("a", JNum "1")]; r_complete := true |}.

(* configured [rs1 rq1 rs0 rq0] runs rq1 rq0 BACKEND rs1 rs0 *)
Example C18_ex_order :
  plugin_mw LEndpoint exR (PNames [(CStr "rs1", BOk); (CStr "rq1", BOk); (CStr "rs0", BOk); (CStr "rq0", BOk)])
            (backend_call exResp ENone)
  = ([EvReq LEndpoint 1; EvReq LEndpoint 3; EvBackend; EvResp LEndpoint 0; EvResp LEndpoint 2], ORet exResp ENone).
Proof. vm_compute. reflexivity. Qed.

(* a failing request modifier stops before the backend *)
Example C18_ex_req_fail :
  plugin_mw LBackend exR (PNames [(CStr "rq0", BOk); (CStr "rq1", BFail); (CStr "rq0", BOk); (CStr "rs0", BOk)])
            (backend_call exResp ENone)
  = ([EvReq LBackend 0; EvReq LBackend 1], ORet None (EMod LBackend 1)).
Proof. vm_compute. reflexivity. Qed.

(* hypotheses of C18_request_abort / C18_response_abort are satisfiable *)
Example C18_ex_abort_hyp :
  configured_req exR [(CStr "rq0", BOk); (CStr "un", BFail); (CStr "rq1", BFail); (CStr "rq0", BOk)]
  = ([(0, BOk)] ++ (2, BFail) :: [(3, BOk)])%list /\ Forall notfail [(0, BOk)].
Proof. split; [vm_compute; reflexivity|]. repeat constructor; discriminate. Qed.

(* a name registered for both directions is a request modifier only; unknown names,
   non-strings and nil factories are skipped *)
Example C18_ex_lookup :
  resolve exR 0 [(CStr "bo0", BOk); (CStr "nope", BOk); (CNotString, BOk); (CStr "rs0", BNilFactory); (CStr "rs1", BIgnored)]
  = ([(0, BOk)], [(4, BIgnored)]).
Proof. vm_compute. reflexivity. Qed.

(* each strategy has an inner outcome where it holds and one where it does not *)
Example C18_ex_strategies :
  holds "success" exResp ENone /\ ~ holds "success" exResp (EInner "x") /\
  holds "errored" None (EInner "x") /\ ~ holds "errored" None ENone /\
  holds "complete" exResp ENone /\ ~ holds "complete" None ENone /\
  holds "incomplete" None ENone /\ ~ holds "incomplete" exResp ENone /\
  holds "anything else" None (EInner "x").
Proof.
  assert (Y : forall n r e, holds_b n r e = true -> holds n r e) by (intros; apply holds_b_holds; assumption).
  assert (N : forall n r e, holds_b n r e = false -> ~ holds n r e)
    by (intros n r e H H1; apply holds_b_holds in H1; congruence).
  split; [apply Y; reflexivity|]. split; [apply N; reflexivity|].
  split; [apply Y; reflexivity|]. split; [apply N; reflexivity|].
  split; [apply Y; reflexivity|]. split; [apply N; reflexivity|].
  split; [apply Y; reflexivity|]. split; [apply N; reflexivity|].
  apply Y; reflexivity.
Qed.

(* static data overriding a field and keeping the others *)
Example C18_ex_static :
  static_apply (static_cfg (ShOk [("a", JStr "s")] (VStr "complete")))
               (Some {| r_data := Some [("a", JNum "1"); ("b", JNull)]; r_complete := true |}) ENone
  = ORet (Some {| r_data := Some [("a", JStr "s"); ("b", JNull)]; r_complete := true |}) ENone.
Proof. vm_compute. reflexivity. Qed.

(* the stack: a failing endpoint response modifier makes an "errored" static apply *)
Example C18_ex_stack :
  endpoint_stack (ShOk [("s", JBool true)] (VStr "errored")) exR
                 (PNames [(CStr "rs0", BFail)]) (PNames [(CStr "rq0", BOk)]) exResp ENone
  = ([EvReq LBackend 0; EvBackend; EvResp LEndpoint 0],
     ORet (Some {| r_data := Some [("s", JBool true)]; r_complete := false |}) (EMod LEndpoint 0)).
Proof. vm_compute. reflexivity. Qed.

(* response modifiers around an inner call that returns neither response nor error: the
   empty outcome is handed through, request modifiers ran, no response modifier runs
   (before the repair 155bef8 the nil response was dereferenced: panic) *)
Example C18_ex_nil_response :
  plugin_mw LEndpoint exR (PNames [(CStr "rs0", BOk); (CStr "rq0", BOk); (CStr "rs1", BFail)]) (backend_call None ENone)
  = ([EvReq LEndpoint 1; EvBackend], ORet None ENone).
Proof. vm_compute. reflexivity. Qed.

(* ... and in the stack the static strategy then sees (no response, no error) *)
Example C18_ex_nil_response_stack :
  endpoint_stack (ShOk [("s", JBool true)] (VStr "incomplete")) exR
                 (PNames [(CStr "rs0", BOk)]) (PNames [(CStr "rs1", BOk)]) None ENone
  = ([EvBackend], ORet (Some {| r_data := Some [("s", JBool true)]; r_complete := false |}) ENone).
Proof. vm_compute. reflexivity. Qed.

(* values: rq0 modifies, rq1 hands its input on, a non-wrapper result is skipped, rs0/rs1 modify *)
Example C18_ex_values :
  vstack exR (PNames [(CStr "rs1", BModify); (CStr "rq0", BModify); (CStr "rq1", BIgnored); (CStr "rs0", BModify)])
         (PNames [(CStr "rq1", BModify); (CStr "rs0", BOk)]) (Some [(LBackend, 99)]) [(LEndpoint, 77)]
  = ([VReq LEndpoint 1 [(LEndpoint, 77)]; VReq LEndpoint 2 [(LEndpoint, 77); (LEndpoint, 1)];
      VReq LBackend 0 [(LEndpoint, 77); (LEndpoint, 1)];
      VBackend [(LEndpoint, 77); (LEndpoint, 1); (LBackend, 0)];
      VResp LBackend 1 [(LBackend, 99)];
      VResp LEndpoint 0 [(LBackend, 99)]; VResp LEndpoint 3 [(LBackend, 99); (LEndpoint, 0)]],
     VRet [(LBackend, 99); (LEndpoint, 0); (LEndpoint, 3)]).
Proof. vm_compute. reflexivity. Qed.

(* a stripping request modifier: the backend gets none of the client's value *)
Example C18_ex_strip :
  vstack exR (PNames [(CStr "rq0", BModify); (CStr "rq1", BStrip)]) PNoNamespace (Some []) [(LEndpoint, 77)]
  = ([VReq LEndpoint 0 [(LEndpoint, 77)]; VReq LEndpoint 1 [(LEndpoint, 77); (LEndpoint, 0)]; VBackend []], VRet []).
Proof. vm_compute. reflexivity. Qed.
