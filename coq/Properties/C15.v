(* C15 - DNS SRV discovery honours priority and weight and never loses hosts.
   Only theorem statements, each closed by an exact lemma, and Print Assumptions.
   Model: Model/C15.v (resolve / compact / normalize / gcd of sd/dnssrv/subscriber.go, the cache
   with update and Hosts over slices with identities).  wf_rs / wf_ws: weights are uint16
   values; nothing is assumed about the number of records, priorities, ports or targets. *)
Require Import Verif.Common.Base Verif.Common.LockEv.
Require Import Verif.Model.C15 Verif.Spec.C15.
Require Import Verif.Proof.C15 Verif.Proof.C15_hist Verif.Proof.C15_locks Verif.Proof.C15_complete.
Require Import Verif.Proof.C15_sort Verif.Proof.C15_nonempty Verif.Proof.C15_shuffle.
From Coq Require Import Sorted.
From Coq Require Import Permutation.
Open Scope Z_scope.

(* ---- the list derived from one answer ---- *)

(* only targets of the lowest priority value: every entry is the formatted form of a record
   whose priority is minimal among all records - for every record set, any weights *)
Theorem C15_lowest_priority_only : forall scheme rs h,
  In h (resolve scheme rs) ->
  exists a, In a rs /\ h = host_of scheme a /\ forall b, In b rs -> prio a <= prio b.
Proof. exact lowest_priority_only. Qed.
Print Assumptions C15_lowest_priority_only.

(* the group the code keeps after its sort is exactly the set of lowest-priority records *)
Theorem C15_priority_group : forall rs,
  Permutation (low_group (sort_srv rs)) (low rs).
Proof. exact low_group_perm. Qed.
Print Assumptions C15_priority_group.

(* never more often than a heavier target: position by position, all weight vectors *)
Theorem C15_monotone : forall ws i j wi wj ti tj,
  wf_ws ws ->
  nth_error ws i = Some wi -> nth_error ws j = Some wj ->
  nth_error (compact ws) i = Some ti -> nth_error (compact ws) j = Some tj ->
  wi <= wj -> ti <= tj.
Proof. exact compact_monotone. Qed.
Print Assumptions C15_monotone.

(* in proportion: one common positive divisor d with times * d = quota for every position,
   where quota ws w = w when sum ws <= max(100, len ws) and floor(w * max(100, len ws) / sum ws)
   otherwise; and the total is bounded *)
Theorem C15_proportional : forall ws,
  wf_ws ws ->
  exists d, 0 < d /\
    Forall2 (fun w t => t * d = quota ws w) ws (compact ws) /\
    sumZ (compact ws) <= Z.max 100 (Z.of_nat (List.length ws)).
Proof. exact compact_meets_spec. Qed.
Print Assumptions C15_proportional.

(* ... and that divisor is the gcd of the quotas (gcd compaction; 1 when the gcd is 0 or 1) *)
Theorem C15_compact_divisor : forall ws,
  wf_ws ws ->
  compact ws = map (fun w => quota ws w / compact_div ws) ws /\
  forall w, In w ws -> (compact_div ws | quota ws w).
Proof. exact compact_div_spec. Qed.
Print Assumptions C15_compact_divisor.

Theorem C15_quota_formula : forall ws w,
  quota ws w = if sumZ ws <=? Z.max 100 (Z.of_nat (List.length ws)) then w
               else w * Z.max 100 (Z.of_nat (List.length ws)) / sumZ ws.
Proof. exact quota_unfold. Qed.
Print Assumptions C15_quota_formula.

(* the uint16 conversion in normalize never wraps, however many records there are *)
Theorem C15_no_wrap : forall ws, wf_ws ws -> normalize ws = map (quota ws) ws.
Proof. exact normalize_spec. Qed.
Print Assumptions C15_no_wrap.

(* total size bounded by max(100, number of records) *)
Theorem C15_bound : forall scheme rs,
  wf_rs rs ->
  Z.of_nat (List.length (resolve scheme rs)) <= Z.max 100 (Z.of_nat (List.length rs)).
Proof. exact resolve_bound. Qed.
Print Assumptions C15_bound.

(* formatted as scheme://host:port (a target without a colon; IPv6 literals are bracketed) *)
Theorem C15_format : forall scheme a,
  has_colon (target a) = false ->
  host_of scheme a = (scheme ++ "://" ++ target a ++ ":" ++ dec (port a))%string.
Proof. exact host_format. Qed.
Print Assumptions C15_format.

(* the whole first sentence of the property at once: the list resolve returns satisfies Spec
   (Spec/C15.v: a permutation of the lowest-priority records, each formatted and repeated
   quota/d times, monotone in the weight, bounded) - every record set with uint16 weights *)
Theorem C15_resolve_meets_spec : forall scheme rs,
  wf_rs rs -> Spec scheme rs (resolve scheme rs).
Proof. exact resolve_meets_spec. Qed.
Print Assumptions C15_resolve_meets_spec.

(* ---- the result does not depend on how sort.Slice sorts ---- *)

(* sort_post rs srt: srt is a rearrangement of the answer in which no later element is less
   (by the comparator of the code) than an earlier one - all that sort.Slice guarantees.  For
   EVERY such srt the code's remaining steps select exactly the lowest-priority records and
   return a list that satisfies the property ... *)
Theorem C15_any_sort_meets_spec : forall scheme rs srt,
  wf_rs rs -> sort_post rs srt ->
  Permutation (low_group srt) (low rs) /\ Spec scheme rs (resolve_from scheme srt).
Proof. exact any_sort_meets_spec. Qed.
Print Assumptions C15_any_sort_meets_spec.

(* ... and the same multiset of hosts as the model computes with its insertion sort (so the
   correspondence comparison does not depend on the sorting algorithm either) *)
Theorem C15_any_sort_same_multiset : forall scheme rs srt,
  wf_rs rs -> sort_post rs srt ->
  Permutation (resolve_from scheme srt) (resolve scheme rs).
Proof. exact any_sort_same_multiset. Qed.
Print Assumptions C15_any_sort_same_multiset.

(* ---- never loses hosts ---- *)

(* the list is non-empty exactly when some record of the lowest priority has a positive weight *)
Theorem C15_nonempty_iff : forall scheme rs,
  wf_rs rs ->
  (resolve scheme rs <> [] <-> exists a, In a (low rs) /\ 0 < weight a).
Proof. exact resolve_nonempty_iff. Qed.
Print Assumptions C15_nonempty_iff.

(* the heaviest lowest-priority target is never rounded away *)
Theorem C15_keeps_heaviest : forall scheme rs,
  wf_rs rs -> (exists a, In a (low rs) /\ 0 < weight a) ->
  exists m, In m (low rs) /\ 0 < weight m /\ (forall x, In x (low rs) -> weight x <= weight m) /\
            In (host_of scheme m) (resolve scheme rs).
Proof. exact resolve_keeps_heaviest. Qed.
Print Assumptions C15_keeps_heaviest.

(* along EVERY history: after a lookup succeeded with a usable answer, every read before the
   next successful lookup returns a list containing the heaviest lowest-priority target,
   however many refreshes fail in between, whatever records the failing lookups return and
   whatever callers write into their copies *)
Theorem C15_never_loses_hosts : forall scheme pre post rs,
  last_ok None pre = Some rs -> wf_rs rs ->
  (exists a, In a (low rs) /\ 0 < weight a) ->
  exists l m, nth_error (reads scheme (pre ++ ERead :: post)) (n_reads pre) = Some l /\
              In m (low rs) /\ (forall x, In x (low rs) -> weight x <= weight m) /\
              In (host_of (eff_scheme scheme) m) l.
Proof. exact never_loses_hosts. Qed.
Print Assumptions C15_never_loses_hosts.

(* lists longer than 100 are shuffled (sd.NewRandomFixedSubscriber, res[j] = hosts[perm[j]]):
   what update stores is a rearrangement of what resolve computed, given that rand.Perm returns
   a permutation of 0..n-1 (checked on every observed rand.Perm result by the CShuffle cases) *)
Theorem C15_shuffle_keeps_hosts : forall scheme rs perm,
  is_perm_of (List.length (resolve scheme rs)) perm ->
  Permutation (update_store scheme rs perm) (resolve scheme rs).
Proof. exact update_store_perm. Qed.
Print Assumptions C15_shuffle_keeps_hosts.

Theorem C15_perm_check_sound : forall n perm, is_perm_b n perm = true -> is_perm_of n perm.
Proof. exact is_perm_b_sound. Qed.
Print Assumptions C15_perm_check_sound.

(* ---- histories: failed refreshes, private copies ---- *)

(* every read returns the list resolved from the last lookup that succeeded before it (the
   empty list before the first success) - for every history of successful and failing
   lookups, reads, and callers overwriting the slices they were handed *)
Theorem C15_history : forall scheme pre post,
  nth_error (reads scheme (pre ++ ERead :: post)) (n_reads pre) =
  Some (match last_ok None pre with
        | Some rs => resolve (eff_scheme scheme) rs
        | None => []
        end).
Proof. exact history_read. Qed.
Print Assumptions C15_history.

(* a failed refresh leaves the previously resolved list in place: deleting a failing lookup
   (whatever records came with the error) from a history changes no read *)
Theorem C15_failed_refresh_keeps_list : forall scheme pre rs post,
  reads scheme (pre ++ ELookup false rs :: post) = reads scheme (pre ++ post).
Proof. exact failed_refresh_invisible. Qed.
Print Assumptions C15_failed_refresh_keeps_list.

(* every caller gets a private copy: whatever callers write into the slices they were given
   changes no read, past or future (the model has slice identities: a Hosts() that returned
   the cache slice itself would falsify this) *)
Theorem C15_private_copy : forall scheme evs,
  reads scheme evs = reads scheme (filter (fun e => negb (is_scribble e)) evs).
Proof. exact scribbles_invisible. Qed.
Print Assumptions C15_private_copy.

(* ... and no two reads are handed the same slice *)
Theorem C15_distinct_slices : forall scheme evs,
  NoDup (handed (final scheme init_st evs)).
Proof. intros. apply handed_fresh; constructor. Qed.
Print Assumptions C15_distinct_slices.

(* the reads of every history of well-formed answers satisfy the property *)
Theorem C15_history_meets_spec : forall scheme evs,
  Forall wf_ev evs -> SpecHist (eff_scheme scheme) None evs (reads scheme evs).
Proof. exact hist_meets_spec. Qed.
Print Assumptions C15_history_meets_spec.

(* ---- reads are safe while refreshes happen (H2 instance over Common/LockEv) ---- *)

(* two goroutines running any sequences of methods that follow the lock discipline
   (`disciplined`, re-proved for subscriber.Hosts and subscriber.update from the regenerated
   event lists on every check: Generated/Facts_locks_dnssrv.v) on one RWMutex: under every
   schedule no reachable state is a data race, and every read made under the read lock
   returns the version stored by the last completed write critical section *)
Theorem C15_reads_safe : forall m ms1 ms2 sched c,
  good_methods m ms1 -> good_methods m ms2 ->
  exec (start ms1 ms2) sched = Some c ->
  race c = false /\ Forall (fun p => fst p = snd p) (rlog (mm c)).
Proof. exact disciplined_safe. Qed.
Print Assumptions C15_reads_safe.

(* ---- the boolean oracles evaluated on the implementation's observations are sound ---- *)

Theorem C15_oracle_sound : forall scheme rs obs,
  spec_b scheme rs obs = true -> Spec scheme rs obs.
Proof. exact spec_b_sound. Qed.
Print Assumptions C15_oracle_sound.

(* ... and complete: it accepts every observation the Prop allows (uint16 weights), so the
   oracle itself never raises a false alarm *)
Theorem C15_oracle_complete : forall scheme rs obs,
  wf_rs rs -> Spec scheme rs obs -> spec_b scheme rs obs = true.
Proof. exact spec_b_complete. Qed.
Print Assumptions C15_oracle_complete.

(* the executable model satisfies the boolean oracle that is applied to the implementation's
   observations, for every record set with uint16 weights *)
Theorem C15_model_meets_oracle : forall scheme rs,
  wf_rs rs -> spec_b scheme rs (resolve scheme rs) = true.
Proof. exact model_meets_oracle. Qed.
Print Assumptions C15_model_meets_oracle.

(* the same tie for the other case kinds: histories and the unit-level compact cases *)
Theorem C15_hist_model_meets_oracle : forall scheme evs,
  Forall wf_ev evs -> spec_hist_b (eff_scheme scheme) None evs (reads scheme evs) = true.
Proof. exact hist_model_meets_oracle. Qed.
Print Assumptions C15_hist_model_meets_oracle.

Theorem C15_compact_model_meets_oracle : forall ws,
  wf_ws ws -> spec_compact_b ws (compact ws) = true.
Proof. exact compact_model_meets_oracle. Qed.
Print Assumptions C15_compact_model_meets_oracle.

Theorem C15_hist_oracle_sound : forall scheme evs cur obs,
  spec_hist_b scheme cur evs obs = true -> SpecHist scheme cur evs obs.
Proof. exact spec_hist_b_sound. Qed.
Print Assumptions C15_hist_oracle_sound.

Theorem C15_compact_oracle_sound : forall ws out,
  spec_compact_b ws out = true -> SpecCompact ws out.
Proof. exact spec_compact_b_sound. Qed.
Print Assumptions C15_compact_oracle_sound.

(* ---- non-vacuity and the noted corner cases ---- *)

(* the hypotheses are satisfiable and the branches reachable *)
Example C15_ex_tests_record_set :
  resolve "http" [Srv "foo.bar." 8000 1 100; Srv "foo.bar." 8001 1 50; Srv "foo.baz." 8000 2 100]
  = ["http://foo.bar.:8000"; "http://foo.bar.:8000"; "http://foo.bar.:8001"].
Proof. vm_compute. reflexivity. Qed.
Example C15_ex_normalised : compact [65535; 1; 0; 30000; 30000] = [52; 0; 0; 23; 23].
Proof. vm_compute. reflexivity. Qed.
Example C15_ex_gcd_only : compact [10; 20; 30] = [1; 2; 3].
Proof. vm_compute. reflexivity. Qed.
Example C15_ex_wf : wf_rs [Srv "a." 80 0 65535; Srv "b." 80 7 0].
Proof. repeat constructor; simpl; lia. Qed.
(* noted in DESIGN.md, not violations of the statement: all-zero weights yield no host *)
Example C15_ex_zero_weights : forall scheme rs,
  Forall (fun a => weight a = 0) rs -> resolve scheme rs = [].
Proof. exact zero_weights_empty. Qed.
Example C15_ex_history :
  reads "" [ELookup false []; ERead; ELookup true [Srv "a." 80 0 1]; ERead; EScribble 1 "X";
            ELookup false [Srv "b." 80 0 1]; ERead]
  = [[]; ["http://a.:80"]; ["http://a.:80"]].
Proof. vm_compute. reflexivity. Qed.
(* the lock events of the two methods as the facts extractor prints them *)
Example C15_ex_good_methods :
  good_methods "mutex" [[LRLock "mutex"; LRead "cache"; LRUnlock "mutex"]] /\
  good_methods "mutex" [[LLock "mutex"; LWrite "cache"; LWrite "cache"; LUnlock "mutex"]].
Proof. split; repeat constructor. Qed.
(* without the read lock a race is reachable: the discipline is what excludes it *)
Example C15_ex_unlocked_read_races :
  exists sched c,
    exec (start [[LRead "cache"]] [[LLock "mutex"; LWrite "cache"; LUnlock "mutex"]]) sched = Some c /\
    race c = true.
Proof. exact undisciplined_races. Qed.

(* sort_post is satisfiable: the model's sort meets it, and so does another order of two
   records the comparator cannot separate *)
Example C15_ex_sort_post :
  let rs := [Srv "b." 80 1 5; Srv "a." 80 0 0; Srv "a." 81 0 7; Srv "a." 80 0 0] in
  sort_post rs (sort_srv rs).
Proof. split; [apply sort_perm|vm_compute; repeat constructor]. Qed.
(* the hypothesis on rand.Perm is needed: an index list that is not a permutation loses hosts *)
Example C15_ex_shuffle_needs_perm : exists perm hosts,
  List.length perm = List.length hosts /\ ~ Permutation (shuffle_with perm hosts) hosts.
Proof. exact shuffle_needs_perm. Qed.
Example C15_ex_is_perm : is_perm_of 3 [2; 0; 1]%nat.
Proof. unfold is_perm_of. simpl. apply Permutation_sym. apply perm_trans with [0; 2; 1]%nat; [constructor; apply perm_swap|apply perm_swap]. Qed.
