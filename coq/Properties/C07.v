(* C07 - GraphQL backends receive the configured operation with correctly bound variables.
   Only theorem statements, each closed by an exact lemma, and Print Assumptions.
   The model (Model/C07.v) is the default backend stack of proxy/factory.go with the GraphQL
   stage of proxy/graphql.go and the extractor of transport/http/client/graphql/graphql.go; the
   tie to the code is the correspondence run of ./check C07 (Corr/C07.v) and the regenerated
   stack order (Generated/Facts_stack.v, same literal list as C07_stack_names). *)
Require Import Verif.Common.Base Verif.Common.Json.
Require Import Verif.Model.C07 Verif.Spec.C07 Verif.Proof.C07 Verif.Proof.C07_oracle Verif.Proof.C07_bytes Verif.Proof.C07_codec Verif.Proof.C07_opts Verif.Proof.C07_rfc.

(* ---- which configured values are '{param}' values, and the name they are bound by ---- *)

(* a string value is treated as a reference exactly when it is "{n}" for a non-empty n, and
   then the parameter is looked up under the key the configuration generates for {n} *)
Theorem C07_placeholder_iff : forall v k,
  placeholder v = Some k <-> exists n, param_ref v n /\ k = config_cap n.
Proof. exact placeholder_iff. Qed.
Print Assumptions C07_placeholder_iff.

Theorem C07_key_matches_config : forall n,
  n <> ""%string -> placeholder (String lbrace (n ++ String rbrace "")) = Some (config_cap n).
Proof. exact key_matches_config. Qed.
Print Assumptions C07_key_matches_config.

(* "", "{}" and other strings that are not a brace-wrapped non-empty name are plain values *)
Theorem C07_plain_values : forall v,
  (forall n, ~ param_ref v n) <-> placeholder v = None.
Proof. exact placeholder_none. Qed.
Print Assumptions C07_plain_values.

(* ---- queries: configured defaults with every '{param}' value replaced ---- *)
Theorem C07_query_binding : forall o ps b,
  o_type o = TQuery ->
  exists g, gql_request o ps b = Some g /\
    g_query g = o_query o /\ g_name g = o_name o /\
    keys (g_vars g) = keys (o_vars o) /\
    forall k d, lookup k (o_vars o) = Some d ->
      exists v, lookup k (g_vars g) = Some v /\
        (forall s n, d = JStr s -> param_ref s n -> v = JStr (param ps (config_cap n))) /\
        ((forall s n, d = JStr s -> ~ param_ref s n) -> v = d).
Proof. exact query_binding. Qed.
Print Assumptions C07_query_binding.

(* ---- mutations: the client's object completed with the defaults for the keys it lacks ---- *)
Theorem C07_mutation_binding : forall o ps m,
  o_type o = TMutation ->
  exists g, gql_request o ps (BObject m) = Some g /\
    g_query g = o_query o /\ g_name g = o_name o /\
    forall k, lookup k (g_vars g) =
              match lookup k m with Some v => Some v | None => lookup k (o_vars o) end.
Proof. exact mutation_binding. Qed.
Print Assumptions C07_mutation_binding.

Theorem C07_mutation_vars_are_a_map : forall body defaults,
  nodup_keys body = true -> nodup_keys defaults = true ->
  nodup_keys (complete body defaults) = true.
Proof. exact complete_nodup. Qed.
Print Assumptions C07_mutation_vars_are_a_map.

(* a body that is not a JSON object (null, another value, no JSON text at all) fails the call
   in the GraphQL stage: the stack never reaches the backend *)
Theorem C07_non_object_fails : forall i len,
  o_type (opts_of i) = TMutation -> (forall m, i_body i <> BObject m) -> model i len = Failed.
Proof. exact non_object_fails. Qed.
Print Assumptions C07_non_object_fails.

(* ---- transports, through the complete default stack: for every backend filter list, every
   client header and query string that arrives, with or without the concurrent stage ---- *)
Theorem C07_post_transport : forall i len g,
  operation i = Some g -> o_method (opts_of i) = TPost ->
  exists s, model i len = Sent s /\
    s_method s = "POST"%string /\ s_body s = Some (body_json g) /\
    s_body_len s = len /\ s_clen s = len /\ s_clen_hdr s = [dec_Z len] /\
    s_ctype s = ["application/json"%string] /\
    s_q s = qtexts (lookup "query" (restrict (b_qs_allow (i_backend i)) (p_query (initial i)))).
Proof. exact post_transport. Qed.
Print Assumptions C07_post_transport.

Theorem C07_get_transport : forall i len g,
  operation i = Some g -> o_method (opts_of i) = TGet ->
  exists s, model i len = Sent s /\
    s_method s = "GET"%string /\
    s_q s = [g_query g] /\
    s_name s = (if str_eqb (g_name g) "" then [] else [g_name g]) /\
    s_vars s = (match g_vars g with [] => [] | _ => [JObj (g_vars g)] end).
Proof. exact get_transport. Qed.
Print Assumptions C07_get_transport.

(* the GET transport depends on the stack order: with the URL rendered before the GraphQL
   stage (seeded/C08-revert-stack-order) the operation is lost and the oracle rejects it *)
Theorem C07_get_transport_needs_order :
  exists i len s, model_on exec_stack_url_first i len = Sent s /\ s_q s = [] /\ s_vars s = [] /\
                  spec_b i (model_on exec_stack_url_first i len) = false /\
                  spec_b i (model i len) = true.
Proof. exact url_first_loses_operation. Qed.
Print Assumptions C07_get_transport_needs_order.

(* the modelled order is the list Generated/Facts_stack.v re-proves from the sources *)
Theorem C07_stack_names :
  map stage_name (rev (exec_stack true)) =
  ["pf.backendFactory"; "NewBackendPluginMiddleware"; "NewLoadBalancedMiddlewareWithSubscriberAndLogger";
   "NewGraphQLMiddleware"; "NewFilterHeadersMiddleware"; "NewFilterQueryStringsMiddleware";
   "NewConcurrentMiddlewareWithLogger"; "NewRequestBuilderMiddlewareWithLogger"]%string.
Proof. exact stack_names. Qed.
Print Assumptions C07_stack_names.

(* ---- the oracle used on the implementation's observations ---- *)

(* it implies the property in Prop form (Spec.C07.Spec: the statement of C07 spelled out) *)
Theorem C07_oracle_sound : forall i o, spec_b i o = true -> Spec i o.
Proof. exact spec_b_sound. Qed.
Print Assumptions C07_oracle_sound.

(* and the model satisfies it for every input whose variables and body are maps (no duplicate
   keys at any depth), every length, with or without the concurrent stage *)
Theorem C07_model_meets_oracle : forall i len, wf_input i -> spec_b i (model i len) = true.
Proof. exact model_meets_oracle. Qed.
Print Assumptions C07_model_meets_oracle.

(* hence the property holds of the model *)
Theorem C07_model_meets_spec : forall i len, wf_input i -> Spec i (model i len).
Proof. exact model_meets_spec. Qed.
Print Assumptions C07_model_meets_spec.

(* ---- "every string reaches the backend exactly, whatever characters it contains" ----
   The tree-level theorems above pass strings through unchanged; the JSON encoder of the
   standard library turns a byte string s into [sanitize s] (validated by the CBytes cases on
   every byte 0x80..0xff and on boundary, overlong, surrogate and truncated sequences).  A
   string is unchanged exactly when it is valid UTF-8 - i.e. for every sequence of characters;
   byte strings that are not text (possible in a path parameter: /x/%FF) are outside the
   statement and arrive with U+FFFD in place of each offending byte. *)
Theorem C07_strings_exact : forall s, sanitize s = s <-> valid_utf8 s = true.
Proof. exact sanitize_exact_iff. Qed.
Print Assumptions C07_strings_exact.

Theorem C07_ascii_strings_valid : forall l,
  Forall (fun n => (n < 128)%N) l -> valid_from l 0 = true.
Proof. exact ascii_valid0. Qed.
Print Assumptions C07_ascii_strings_valid.

(* the escaping json.Marshal applies (quotes, backslashes, control characters, <, >, &, U+2028,
   U+2029, bytes that are not UTF-8), on bytes: decoding what it writes yields the sanitized
   string - for EVERY byte string; hence exactly the string when it is valid UTF-8 *)
Theorem C07_codec_roundtrip : forall l, unescape_bytes (escape_bytes l) = Some (sanitize_from l 0).
Proof. exact codec_roundtrip. Qed.
Print Assumptions C07_codec_roundtrip.

Theorem C07_codec_roundtrip_valid : forall l,
  valid_from l 0 = true -> unescape_bytes (escape_bytes l) = Some l.
Proof. exact codec_roundtrip_valid. Qed.
Print Assumptions C07_codec_roundtrip_valid.

(* ---- the escaper against the declarative reading of JSON strings (Spec: denotes, the
   grammar of RFC 8259 section 7): what it writes for ANY byte string stands for the sanitized
   string, for the string itself when it is valid UTF-8, and for nothing else ---- *)
Theorem C07_escape_denotes : forall l, denotes (escape_bytes l) (sanitize_from l 0).
Proof. exact escape_denotes. Qed.
Print Assumptions C07_escape_denotes.

Theorem C07_escape_denotes_valid : forall l, valid_from l 0 = true -> denotes (escape_bytes l) l.
Proof. exact escape_denotes_valid. Qed.
Print Assumptions C07_escape_denotes_valid.

Theorem C07_denotes_unambiguous : forall t s1 s2, denotes t s1 -> denotes t s2 -> s1 = s2.
Proof. exact denotes_fun. Qed.
Print Assumptions C07_denotes_unambiguous.

(* the decoder model accepts only what the grammar allows *)
Theorem C07_decoder_sound : forall t s, unescape_bytes t = Some s -> denotes t s.
Proof. exact unescape_sound. Qed.
Print Assumptions C07_decoder_sound.

(* ---- the body on bytes: its length is the model's own, not an input of the model ----
   encode_body is json.Marshal of the operation (struct field order, omitempty, map keys in byte
   order, the escaper above, number literals as carried); the CStackRaw cases compare it byte for
   byte with what the executor read.  The Content-Length the backend is told, both as header and
   as http.Request.ContentLength, is the length of exactly those bytes. *)
Theorem C07_content_length_is_body_length : forall i g,
  operation i = Some g -> o_method (opts_of i) = TPost ->
  exists s, model_len i = Sent s /\
    s_method s = "POST"%string /\ s_body s = Some (body_json g) /\
    s_body_len s = body_length g /\ s_clen s = body_length g /\
    s_clen_hdr s = [dec_Z (body_length g)] /\
    model_body i = Some (bs (encode_body g)).
Proof. exact content_length_is_body_length. Qed.
Print Assumptions C07_content_length_is_body_length.

Theorem C07_model_len_meets_oracle : forall i, wf_input i -> spec_b i (model_len i) = true.
Proof. exact model_len_meets_oracle. Qed.
Print Assumptions C07_model_len_meets_oracle.

Theorem C07_model_len_meets_spec : forall i, wf_input i -> Spec i (model_len i).
Proof. exact model_len_meets_spec. Qed.
Print Assumptions C07_model_len_meets_spec.

(* concurrent_calls > 1: each attempt sends what a single call sends (CStackN cases) *)
Theorem C07_concurrent_stage_transparent : forall i len,
  model_on (exec_stack true) i len = model_on (exec_stack false) i len.
Proof. exact concurrent_stage_transparent. Qed.
Print Assumptions C07_concurrent_stage_transparent.

(* ---- which spellings of "type" and "method" select which behaviour (GetOptions) ---- *)
Theorem C07_type_spelling : forall t,
  (norm_type t = Some TQuery <-> lowered t = "query"%string) /\
  (norm_type t = Some TMutation <-> lowered t = "mutation"%string) /\
  (norm_type t = None <-> lowered t <> "query"%string /\ lowered t <> "mutation"%string).
Proof. exact type_spelling. Qed.
Print Assumptions C07_type_spelling.

Theorem C07_method_spelling : forall m,
  (norm_method m = TGet <-> uppered m = "GET"%string) /\
  (norm_method m = TPost <-> uppered m <> "GET"%string).
Proof. exact method_spelling. Qed.
Print Assumptions C07_method_spelling.

(* ---- non-vacuity ---- *)
Example C07_ex_spelling :
  norm_type "MuTaTiOn" = Some TMutation /\ norm_type "QUERY" = Some TQuery /\
  norm_type "subscription" = None /\ norm_type "query " = None /\
  norm_method "gEt" = TGet /\ norm_method "" = TPost /\ norm_method "put" = TPost.
Proof. vm_compute. repeat split; reflexivity. Qed.

Example C07_ex_body_bytes :
  bs (encode_body {| g_query := "{ q }"; g_name := ""; g_vars := [("b", JNum "1.0"); ("a", JStr "<")] |})
  = bs [123;34;113;117;101;114;121;34;58;34;123;32;113;32;125;34;44;34;118;97;114;105;97;98;108;101;115;34;58;
        123;34;97;34;58;34;92;117;48;48;51;99;34;44;34;98;34;58;49;46;48;125;125]%N /\
  body_length {| g_query := "{ q }"; g_name := ""; g_vars := [] |} = 17%Z.
Proof. vm_compute. split; reflexivity. Qed.

Example C07_ex_escape :
  escape_bytes [34; 10; 60; 255]%N = [92; 34; 92; 110; 92; 117; 48; 48; 51; 99; 92; 117; 102; 102; 102; 100]%N /\
  unescape_bytes (escape_bytes [34; 92; 10; 1; 60; 226; 128; 168; 255; 195; 169]%N) =
  Some [34; 92; 10; 1; 60; 226; 128; 168; 239; 191; 189; 195; 169]%N.
Proof. vm_compute. split; reflexivity. Qed.

Example C07_ex_wf_input : wf_input witness_get.
Proof. split; vm_compute; auto. Qed.

Example C07_ex_bytes :
  valid_utf8 (bs [34; 92; 0; 37; 226; 128; 168; 240; 159; 152; 128]%N) = true /\
  valid_utf8 (bs [255]%N) = false /\ sanitize (bs [97; 255; 98]%N) = bs [97; 239; 191; 189; 98]%N /\
  valid_utf8 (bs [237; 160; 128]%N) = false /\ valid_utf8 (bs [192; 128]%N) = false /\
  sanitize (bs [240; 159; 152]%N) = bs [239; 191; 189; 239; 191; 189; 239; 191; 189]%N.
Proof. vm_compute. repeat split; reflexivity. Qed.

Example C07_ex_placeholders :
  placeholder "{id}" = Some "Id"%string /\ placeholder "{Id}" = Some "Id"%string /\
  placeholder "{userName}" = Some "UserName"%string /\ placeholder "{1a}" = Some "1a"%string /\
  placeholder "" = None /\ placeholder "{}" = None /\ placeholder "{id" = None /\
  placeholder "x{id}" = None /\ placeholder "{{id}}" = Some "{id}"%string.
Proof. vm_compute. repeat split; reflexivity. Qed.

Example C07_ex_query_get :
  exists s, model witness_get 0 = Sent s /\ s_q s = ["{ q }"%string] /\ s_name s = ["Op"%string] /\
            s_vars s = [JObj [("id", JStr "42")]].
Proof. eexists. vm_compute. repeat split; reflexivity. Qed.

Example C07_ex_mutation_null_fails :
  model {| i_backend := {| b_method := "POST"; b_hdr_allow := []; b_qs_allow := [];
                           b_opts := {| o_query := "mutation { m }"; o_name := ""; o_vars := [("d", JNum "7")];
                                        o_type := TMutation; o_method := TPost |} |};
           i_concurrent := false; i_params := []; i_body := BNull; i_method := "POST";
           i_query := []; i_hdrs := [] |} 0 = Failed.
Proof. vm_compute. reflexivity. Qed.

Example C07_ex_mutation_completed :
  complete [("a", JNum "1"); ("d", JNull)] [("d", JNum "7"); ("e", JStr "{id}")]
  = [("a", JNum "1"); ("d", JNull); ("e", JStr "{id}")].
Proof. vm_compute. reflexivity. Qed.
