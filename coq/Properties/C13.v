(* C13 - Payloads pass through the gateway without loss or corruption.
   Only theorem statements, each closed by an exact lemma, and Print Assumptions.
   Trees: Json.v documents whose numbers carry the literal text.  The step bytes <-> tree inside
   encoding/json (UseNumber keeps the literal, Marshal writes a json.Number verbatim) is
   validated by the harness on every run, not proved. *)
Require Import Verif.Common.Base Verif.Common.Json Verif.Common.Ctx.
Require Import Verif.Model.C13 Verif.Spec.C13 Verif.Proof.C13 Verif.Proof.C13_stream Verif.Proof.C13_order Verif.Proof.C13_text.
Close Scope Z_scope.
Open Scope string_scope.
Open Scope list_scope.

(* ---- decoder / pipeline / render are inverse on trees, for every document ---- *)

(* json backend, json output: the client's document IS the backend's object (same tree, every
   number literal included), on both routers, for every concurrent_calls *)
Theorem C13_json_identity : forall r cc m,
  client_body r EJson false OJson cc (BDoc (JObj m)) = {| c_status := 200; c_body := BJson (JObj m) |}.
Proof. exact json_identity. Qed.
Print Assumptions C13_json_identity.

(* is_collection: the array comes back intact under "collection" ... *)
Theorem C13_collection_wrapped : forall r cc l,
  client_body r EJson true OJson cc (BDoc (JArr l)) =
  {| c_status := 200; c_body := BJson (JObj [("collection", JArr l)]) |}.
Proof. exact collection_wrapped. Qed.
Print Assumptions C13_collection_wrapped.

(* ... and as itself through the json-collection render *)
Theorem C13_collection_unwrapped : forall r e cc l,
  e = EJson \/ e = ESafe ->
  client_body r e true OJsonCollection cc (BDoc (JArr l)) = {| c_status := 200; c_body := BJson (JArr l) |}.
Proof. exact collection_unwrapped. Qed.
Print Assumptions C13_collection_unwrapped.

(* safejson: objects as they are, arrays under "collection", scalars (null, booleans, numbers
   with their literal, strings) under "content" *)
Theorem C13_safejson_identity : forall r coll cc v,
  client_body r ESafe coll OJson cc (BDoc v) =
  {| c_status := 200;
     c_body := BJson (match v with
                      | JObj m => JObj m
                      | JArr l => JObj [("collection", JArr l)]
                      | _ => JObj [("content", v)] end) |}.
Proof. exact safejson_cases. Qed.
Print Assumptions C13_safejson_identity.

(* string: the text as it is (string render), or as the string under "content" (json render) *)
Theorem C13_string_identity : forall r coll cc s,
  client_body r EString coll OString cc (BText s) = {| c_status := 200; c_body := BRaw s |} /\
  client_body r EString coll OJson cc (BText s) =
  {| c_status := 200; c_body := BJson (JObj [("content", JStr s)]) |}.
Proof. exact string_both. Qed.
Print Assumptions C13_string_identity.

(* all of the above at once: whenever the statement promises something (Spec.expected), the
   model delivers exactly that tree / text with status 200 *)
Theorem C13_model_delivers_expected : forall r e coll o cc b x,
  expected e coll o b = Some x ->
  client_body r e coll o cc b = {| c_status := 200; c_body := x |}.
Proof. exact model_expected. Qed.
Print Assumptions C13_model_delivers_expected.

(* the pipeline between parser and render is the identity when nothing is configured, and the
   two routers render the same trees *)
Theorem C13_pipeline_identity : forall d, pipeline_no_manipulation d = d.
Proof. exact pipeline_id. Qed.
Print Assumptions C13_pipeline_identity.

(* glue: an explicitly empty allow / deny / mapping configuration, and response-modifier plugins that
   hand back what they got (at the endpoint, the backend, or both), change nothing - for documents
   and for the status and header lines of a no-op reply *)
Theorem C13_glue_transparent_body : forall r e coll o cc x b,
  client_body_x r e coll o cc x b = client_body r e coll o cc b.
Proof. exact client_body_x_eq. Qed.
Print Assumptions C13_glue_transparent_body.

Theorem C13_glue_transparent_noop : forall r cc x st hs body,
  noop_client_x r cc x st hs body = noop_client r cc st hs body.
Proof. exact noop_client_x_eq. Qed.
Print Assumptions C13_glue_transparent_noop.

Theorem C13_passthrough_plugins_identity : forall p r, through_plugins p r = r.
Proof. exact through_plugins_id. Qed.
Print Assumptions C13_passthrough_plugins_identity.

Theorem C13_routers_agree : forall o d, render Gin o d = render Mux o d.
Proof. exact render_routers_agree. Qed.
Print Assumptions C13_routers_agree.

(* ---- what "semantically identical" (the relation the oracle decides) gives ---- *)

(* the boolean comparison used on the observed client document is sound for same_doc *)
Theorem C13_comparison_sound : forall a b, wfj a = true -> json_eqb a b = true -> same_doc a b.
Proof. exact json_eqb_sound. Qed.
Print Assumptions C13_comparison_sound.

(* same nesting and same fields: a position (keys / array indices) exists in one document iff
   it exists in the other, and the sub-documents there are identical again *)
Theorem C13_same_positions : forall a b p,
  same_doc a b -> (at_path a p = None <-> at_path b p = None).
Proof. exact same_doc_positions. Qed.
Print Assumptions C13_same_positions.

Theorem C13_same_subdocuments : forall p a b x,
  same_doc a b -> at_path a p = Some x -> exists y, at_path b p = Some y /\ same_doc x y.
Proof. exact same_doc_at_path. Qed.
Print Assumptions C13_same_subdocuments.

(* every number, at any depth, with exactly the same literal text *)
Theorem C13_number_literals : forall a b p lit,
  same_doc a b -> at_path a p = Some (JNum lit) -> at_path b p = Some (JNum lit).
Proof. exact same_doc_numbers. Qed.
Print Assumptions C13_number_literals.

Theorem C13_string_values : forall a b p s,
  same_doc a b -> at_path a p = Some (JStr s) -> at_path b p = Some (JStr s).
Proof. exact same_doc_strings. Qed.
Print Assumptions C13_string_values.

(* Response.Data is a Go map: whatever order a render writes the members in, at any depth, the
   document stays semantically identical *)
Theorem C13_member_order_irrelevant : forall a b, wfj a = true -> reorder a b -> same_doc a b.
Proof. exact reorder_same_doc. Qed.
Print Assumptions C13_member_order_irrelevant.

(* ---- oracle, Prop and model ---- *)
Theorem C13_oracle_sound : forall e coll o b obs,
  wf_bbody b = true -> spec_body_b e coll o b obs = true -> Spec_body e coll o b obs.
Proof. exact spec_body_sound. Qed.
Print Assumptions C13_oracle_sound.

Theorem C13_model_meets_oracle : forall r e coll o cc b,
  wf_bbody b = true -> spec_body_b e coll o b (client_body r e coll o cc b) = true.
Proof. exact body_model_meets_oracle. Qed.
Print Assumptions C13_model_meets_oracle.

Theorem C13_model_satisfies_property : forall r e coll o cc b,
  wf_bbody b = true -> Spec_body e coll o b (client_body r e coll o cc b).
Proof. exact body_model_spec. Qed.
Print Assumptions C13_model_satisfies_property.

(* ---- no-op: stream lifetime, for every schedule ---- *)

(* one call: whatever the interleaving of the handler, the closer goroutine and the clock, once
   the handler is through and the endpoint timeout has not fired the client has the whole body
   and no read met a closed reader *)
Theorem C13_noop_single : forall cc body now0 tmo sched,
  cc <= 1 ->
  let fin := run (reader_ctx cc now0 tmo) (init_st cc body now0) sched in
  finished fin = true -> (clock fin < now0 + tmo)%Z ->
  got fin = body /\ trunc fin = false.
Proof. exact noop_single. Qed.
Print Assumptions C13_noop_single.

(* ... the reader is Open as long as the handler is still at work (copying) *)
Theorem C13_noop_single_reader_open : forall cc body now0 tmo sched,
  cc <= 1 ->
  let fin := run (reader_ctx cc now0 tmo) (init_st cc body now0) sched in
  (clock fin < now0 + tmo)%Z -> finished fin = false -> rd fin = Open.
Proof. exact noop_single_open_before_cancel. Qed.
Print Assumptions C13_noop_single_reader_open.

(* any stack, any schedule: only loss is possible - what the client got is a prefix *)
Theorem C13_noop_prefix : forall cc body now0 tmo sched,
  exists tl, got (run (reader_ctx cc now0 tmo) (init_st cc body now0) sched) ++ tl = body.
Proof. exact noop_prefix. Qed.
Print Assumptions C13_noop_prefix.

(* F-C13: with concurrent calls the reader's context is already cancelled when the copy starts;
   for EVERY non-empty body there is a schedule that loses all of it, no timeout involved *)
Theorem C13_noop_concurrent_loses : forall cc body now0 tmo,
  2 <= cc -> body <> [] -> (0 < tmo)%Z ->
  exists sched,
    let fin := run (reader_ctx cc now0 tmo) (init_st cc body now0) sched in
    finished fin = true /\ (clock fin < now0 + tmo)%Z /\ got fin = [] /\ trunc fin = true.
Proof. exact noop_concurrent_loses. Qed.
Print Assumptions C13_noop_concurrent_loses.

(* ... and in EVERY schedule the reader's context is done from the handler's first move on, i.e.
   during the whole copy: the copy always races with the closer goroutine *)
Theorem C13_noop_concurrent_always_racing : forall cc body now0 tmo sched,
  2 <= cc ->
  let s := run (reader_ctx cc now0 tmo) (init_st cc body now0) sched in
  prog s = handler_prog cc body \/ done (cancelled s) (clock s) (reader_ctx cc now0 tmo) = true.
Proof. exact noop_concurrent_always_racing. Qed.
Print Assumptions C13_noop_concurrent_always_racing.

(* hence the statement of C13_noop_single is false for concurrent_calls = 2: witness *)
Theorem C13_noop_concurrent_refuted :
  exists body sched,
    let fin := run (reader_ctx 2 0 1000) (init_st 2 body 0) sched in
    finished fin = true /\ (clock fin < 0 + 1000)%Z /\ got fin <> body.
Proof. exact noop_concurrent_refuted_witness. Qed.
Print Assumptions C13_noop_concurrent_refuted.

(* status and headers: the backend's status; every backend header line with its multiplicity *)
Theorem C13_noop_status : forall r cc st hs body tmo sched,
  st <> 0%Z -> n_status (noop_client_sched r cc st hs body tmo sched) = st.
Proof. exact noop_status_kept. Qed.
Print Assumptions C13_noop_status.

Theorem C13_noop_headers : forall r cc st hs body tmo sched h,
  count_h h hs <= count_h h (n_headers (noop_client_sched r cc st hs body tmo sched)).
Proof. exact noop_headers_included. Qed.
Print Assumptions C13_noop_headers.

(* whatever return_error_details / return_error_code says in the backend's extra_config, a no-op
   backend keeps the pass-everything status handler (so the theorems above apply to every status) *)
Theorem C13_noop_ignores_error_flags : forall f, noop_backend_status_handler f = HNoOp.
Proof. exact noop_ignores_error_flags. Qed.
Print Assumptions C13_noop_ignores_error_flags.

Theorem C13_noop_oracle_sound : forall st hs body o,
  spec_noop_b st hs body o = true <-> Spec_noop st hs body o.
Proof. exact spec_noop_iff. Qed.
Print Assumptions C13_noop_oracle_sound.

Theorem C13_noop_model_meets_oracle : forall r cc st hs body,
  cc <= 1 -> st <> 0%Z -> spec_noop_b st hs body (noop_client r cc st hs body) = true.
Proof. exact noop_model_meets_oracle. Qed.
Print Assumptions C13_noop_model_meets_oracle.

(* the same bytes cut into chunks in any two ways arrive as the same bytes (one call) *)
Theorem C13_noop_bytes_any_chunking : forall cc body1 body2 now0 tmo sched1 sched2,
  cc <= 1 -> bytes_of body1 = bytes_of body2 ->
  let fin1 := run (reader_ctx cc now0 tmo) (init_st cc body1 now0) sched1 in
  let fin2 := run (reader_ctx cc now0 tmo) (init_st cc body2 now0) sched2 in
  finished fin1 = true -> finished fin2 = true ->
  (clock fin1 < now0 + tmo)%Z -> (clock fin2 < now0 + tmo)%Z ->
  bytes_of (got fin1) = bytes_of body1 /\ bytes_of (got fin1) = bytes_of (got fin2).
Proof. exact noop_bytes_any_chunking. Qed.
Print Assumptions C13_noop_bytes_any_chunking.

(* ---- encoding/json at the byte level (models validated on every run against the literals the
   real encoder wrote into gateway replies and the real decoder read from backend replies) ---- *)

(* for EVERY byte string: the string encoder (HTML escaping on) followed by the decoder's unquote
   gives the string back and consumes exactly the literal *)
Theorem C13_string_escape_roundtrip : forall s rest,
  go_unquote ((go_escape s ++ String """" rest)%string) = Some (s, rest).
Proof. exact escape_roundtrip. Qed.
Print Assumptions C13_string_escape_roundtrip.

Theorem C13_string_literal_roundtrip : forall s rest,
  exists body, (go_quote s ++ rest)%string = String """" body /\ go_unquote body = Some (s, rest).
Proof. exact quote_roundtrip. Qed.
Print Assumptions C13_string_literal_roundtrip.

(* a number literal followed by anything that is not a number character (comma, bracket, brace,
   white space, end) is scanned back with exactly its text: no re-formatting step exists *)
Theorem C13_number_literal_scan : forall l rest,
  all_chars num_char l = true -> ends_number rest = true -> scan_number ((l ++ rest)%string) = (l, rest).
Proof. exact scan_number_roundtrip. Qed.
Print Assumptions C13_number_literal_scan.

(* ---- non-vacuity ---- *)
Example C13_ex_escape :
  go_escape (bs [34; 92; 60; 10; 1; 226; 128; 168; 195; 169]%N) =
  bs [92;34; 92;92; 92;117;48;48;51;99; 92;110; 92;117;48;48;48;49; 92;117;50;48;50;56; 195;169]%N.
Proof. vm_compute. reflexivity. Qed.
Example C13_ex_unquote_upper_hex_and_slash :
  go_unquote "\u00E9\/x""tail" = Some (bs [195; 169; 47; 120]%N, "tail").
Proof. vm_compute. reflexivity. Qed.
Example C13_ex_unquote_surrogate_not_modelled : go_unquote "\ud83d\ude00""" = None.
Proof. vm_compute. reflexivity. Qed.
Example C13_ex_scan : scan_number "12345678901234567890.000,""x""" = ("12345678901234567890.000", ",""x""").
Proof. vm_compute. reflexivity. Qed.

Definition ex_doc : json :=
  JObj [("big", JNum "12345678901234567890"); ("dec", JNum "0.1234567890123456789012345678901234567890");
        ("exp", JNum "1e400"); ("negz", JNum "-0.0");
        ("nest", JObj [("a", JArr [JNum "2.50"; JNull; JStr "x"; JObj []])])].

Example C13_ex_wf : wf_bbody (BDoc ex_doc) = true.
Proof. vm_compute. reflexivity. Qed.
Example C13_ex_expected : expected EJson false OJson (BDoc ex_doc) = Some (BJson ex_doc).
Proof. reflexivity. Qed.
Example C13_ex_json : c_body (client_body Mux EJson false OJson 3 (BDoc ex_doc)) = BJson ex_doc.
Proof. vm_compute. reflexivity. Qed.
Example C13_ex_literal :
  at_path ex_doc [PKey "nest"; PKey "a"; PIdx 0] = Some (JNum "2.50").
Proof. vm_compute. reflexivity. Qed.
Example C13_ex_safe_scalar :
  c_body (client_body Gin ESafe false OJson 1 (BDoc (JNum "12345678901234567890.000")))
  = BJson (JObj [("content", JNum "12345678901234567890.000")]).
Proof. vm_compute. reflexivity. Qed.
Example C13_ex_collection :
  c_body (client_body Gin EJson true OJsonCollection 2 (BDoc (JArr [JNum "1"; JNum "2.50"])))
  = BJson (JArr [JNum "1"; JNum "2.50"]).
Proof. vm_compute. reflexivity. Qed.
(* the statement is silent (and the code answers 500) for an array sent to a plain json backend *)
Example C13_ex_silent :
  expected EJson false OJson (BDoc (JArr [])) = None /\
  c_status (client_body Gin EJson false OJson 1 (BDoc (JArr []))) = 500%Z.
Proof. split; reflexivity. Qed.
Example C13_ex_reorder :
  reorder (JObj [("a", JNum "1.0"); ("b", JObj [("x", JNull); ("y", JNull)])])
          (JObj [("b", JObj [("y", JNull); ("x", JNull)]); ("a", JNum "1.0")]).
Proof.
  eapply RObj with (m' := [("a", JNum "1.0"); ("b", JObj [("y", JNull); ("x", JNull)])]).
  - repeat constructor. simpl. eapply RObj with (m' := [("x", JNull); ("y", JNull)]).
    + repeat constructor.
    + apply Permutation.perm_swap.
  - apply Permutation.perm_swap.
Qed.
(* a non-empty allow list is manipulation (outside the property): the formatter then prunes *)
Example C13_ex_allow_list_manipulates :
  format_full ["a"] [] [] "" (DMap [("a", JNull); ("b", JNull)]) = DMap [("a", JNull)].
Proof. exact allow_list_manipulates. Qed.
(* a rounded number is rejected by the oracle *)
Example C13_ex_oracle_rejects :
  spec_body_b EJson false OJson (BDoc (JObj [("n", JNum "12345678901234567890")]))
    {| c_status := 200; c_body := BJson (JObj [("n", JNum "12345678901234567000")]) |} = false.
Proof. vm_compute. reflexivity. Qed.
(* no-op, one call: hypotheses of C13_noop_single are met by the eager schedule *)
Example C13_ex_noop_single :
  let body := [(3%N, "abc"); (2%N, "de")] in
  let fin := run (reader_ctx 1 0 1000) (init_st 1 body 0) (eager_sched 4) in
  finished fin = true /\ (clock fin < 0 + 1000)%Z /\ got fin = body /\ rd fin = Closed.
Proof. vm_compute. repeat split; reflexivity. Qed.
(* a timeout during the copy is outside the hypothesis - and does truncate *)
Example C13_ex_noop_timeout :
  let body := [(3%N, "abc"); (2%N, "de")] in
  let fin := run (reader_ctx 1 0 1000) (init_st 1 body 0) [LH; LTick 2000; LC; LH; LH; LH] in
  finished fin = true /\ got fin = [(3%N, "abc")] /\ trunc fin = true.
Proof. vm_compute. repeat split; reflexivity. Qed.
(* concurrent calls, eager closer: nothing arrives (what the harness observes) *)
Example C13_ex_noop_concurrent :
  n_body (noop_client Gin 2 200 [("X-A", "1")] [(3%N, "abc")]) = [] /\
  n_err (noop_client Gin 2 200 [("X-A", "1")] [(3%N, "abc")]) = true.
Proof. vm_compute. split; reflexivity. Qed.
Example C13_ex_noop_oracle :
  spec_noop_b 207 [("Set-Cookie", "a=1"); ("Set-Cookie", "a=1")] [(3%N, "abc")]
    {| n_status := 207; n_headers := [("Set-Cookie", "a=1"); ("X-Krakend", "v")]; n_body := [(3%N, "abc")]; n_err := false |}
  = false.
Proof. vm_compute. reflexivity. Qed.
