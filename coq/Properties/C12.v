(* C12 - Backend HTTP statuses are classified and surfaced as configured.
   Only theorem statements, each closed by an exact lemma, and Print Assumptions. *)
Require Import Verif.Common.Base Verif.Common.Json.
Require Import Verif.Model.C12 Verif.Spec.C12 Verif.Proof.C12.

(* a reply is used exactly when its status is 200 or 201 - every status code, every mode *)
Theorem C12_default_total : forall m r,
  classify m r = Use <-> r_code r = 200%Z \/ r_code r = 201%Z.
Proof. exact classify_use_iff. Qed.
Print Assumptions C12_default_total.

Theorem C12_used_when_ok : forall m r d,
  ok_status (r_code r) = true ->
  http_proxy_outcome m r (Some d) = (Some {| p_data := d; p_complete := true; p_status := 0 |}, ENone).
Proof. exact used_when_ok. Qed.
Print Assumptions C12_used_when_ok.

(* default mode, sole backend: 500, flagged incomplete, and the reply the client gets does
   not depend on what the backend sent (status, body, content type) *)
Theorem C12_sole_backend_500 : forall i r d,
  ok_status (r_code r) = false ->
  client_single i MDefault r d =
  {| c_status := 500; c_completed := "false";
     c_body := match i with Gin => BRaw "" | Mux => BRaw ("invalid status code" ++ nl) end |}.
Proof. exact default_sole_backend. Qed.
Print Assumptions C12_sole_backend_500.

Theorem C12_no_body_leak : forall i r r' d d',
  ok_status (r_code r) = false -> ok_status (r_code r') = false ->
  client_single i MDefault r d = client_single i MDefault r' d'.
Proof. exact no_body_leak. Qed.
Print Assumptions C12_no_body_leak.

(* with healthy siblings: the failed backend is invisible and the answer is incomplete *)
Theorem C12_siblings_invisible : forall i pre post r r' d d',
  ok_status (r_code r) = false -> ok_status (r_code r') = false ->
  client_multi i (pre ++ (MDefault, r, d) :: post) =
  client_multi i (pre ++ (MDefault, r', d') :: post).
Proof. exact multi_failed_default_invisible. Qed.
Print Assumptions C12_siblings_invisible.

Theorem C12_siblings_incomplete : forall i ms m r d,
  In (m, r, d) ms -> ok_status (r_code r) = false -> m = MDefault \/ m = MErrorCode ->
  c_completed (client_multi i ms) = "false".
Proof. exact multi_incomplete. Qed.
Print Assumptions C12_siblings_incomplete.

Theorem C12_error_code_mode : forall i r d,
  ok_status (r_code r) = false ->
  c_status (client_single i MErrorCode r d) = r_code r /\
  c_completed (client_single i MErrorCode r d) = "false".
Proof. exact error_code_mode. Qed.
Print Assumptions C12_error_code_mode.

Theorem C12_details_mode : forall n r d,
  ok_status (r_code r) = false ->
  http_proxy_outcome (MDetails n) r d =
  (Some {| p_data := [(("error_" ++ n)%string, error_object (r_code r) (r_body r) (r_enc r))];
           p_complete := false; p_status := r_code r |}, ENone).
Proof. exact details_mode. Qed.
Print Assumptions C12_details_mode.

Theorem C12_mode_selection : forall details code,
  status_mode details code =
  match details with
  | VStr s => if str_eqb s "" then MDefault else MDetails s
  | VAbsent => match code with VBool true => MErrorCode | _ => MDefault end
  | _ => MDefault
  end.
Proof. exact mode_selection. Qed.
Print Assumptions C12_mode_selection.

(* the executable model satisfies the boolean oracle applied to the implementation's
   observations, for every input (ties spec_b to the model) *)
Theorem C12_model_meets_oracle : forall i m r d,
  match d with Some dd => wfj (JObj dd) = true | None => True end ->
  is_infix (r_body r) ("invalid status code" ++ nl) = false ->
  spec_single_b m r d (client_single i m r d) (raw_of (client_single i m r d)) = true.
Proof. exact single_meets_spec. Qed.
Print Assumptions C12_model_meets_oracle.

(* non-vacuity: concrete inputs in each branch *)
Example C12_ex_404_default :
  client_single Gin MDefault {| r_code := 404; r_body := "secret-body"; r_enc := "text/plain" |} None
  = {| c_status := 500; c_completed := "false"; c_body := BRaw "" |}.
Proof. vm_compute. reflexivity. Qed.
Example C12_ex_503_code :
  c_status (client_single Mux MErrorCode {| r_code := 503; r_body := "x"; r_enc := "" |} None) = 503%Z.
Proof. vm_compute. reflexivity. Qed.
Example C12_ex_details :
  fst (http_proxy_outcome (MDetails "b1") {| r_code := 418; r_body := "tea"; r_enc := "" |} None)
  = Some {| p_data := [("error_b1", JObj [("http_status_code", JNum "418"); ("http_body", JStr "tea")])];
            p_complete := false; p_status := 418 |}.
Proof. vm_compute. reflexivity. Qed.

(* ======================================================================================
   Extension: mode selection from the RAW extra_config map; the property for an endpoint
   built by the default factory (b0 :: rest backends, optional flatmap_filter / static
   stages between the merger and the router) as seen through every router (gin with or
   without return_error_msg and behind middleware that already recorded c.Error entries;
   mux, chi, gorilla, httptreemux, negroni).  Every status is an arbitrary integer.
   ====================================================================================== *)

(* -- the three modes, selected by interacting configuration keys of the raw map -- *)
Theorem C12_mode_selection_raw : forall extra,
  status_mode_raw extra =
  match lookup ns_http extra with
  | Some (JObj m) => status_mode (cfgval_of (lookup key_details m)) (cfgval_of (lookup key_code m))
  | _ => MDefault
  end.
Proof. exact status_mode_raw_digest. Qed.
Print Assumptions C12_mode_selection_raw.

Theorem C12_raw_error_code_iff : forall extra,
  status_mode_raw extra = MErrorCode <->
  exists m, lookup ns_http extra = Some (JObj m) /\ lookup key_details m = None /\
            lookup key_code m = Some (JBool true).
Proof. exact raw_error_code_iff. Qed.
Print Assumptions C12_raw_error_code_iff.

Theorem C12_raw_details_iff : forall extra n,
  status_mode_raw extra = MDetails n <->
  exists m, lookup ns_http extra = Some (JObj m) /\ lookup key_details m = Some (JStr n) /\ n <> "".
Proof. exact raw_details_iff. Qed.
Print Assumptions C12_raw_details_iff.

Theorem C12_raw_default_iff : forall extra,
  status_mode_raw extra = MDefault <->
  ~ (exists m, lookup ns_http extra = Some (JObj m) /\ lookup key_details m = None /\
               lookup key_code m = Some (JBool true)) /\
  ~ (exists m n, lookup ns_http extra = Some (JObj m) /\ lookup key_details m = Some (JStr n) /\ n <> "").
Proof. exact raw_default_iff. Qed.
Print Assumptions C12_raw_default_iff.

(* -- any status other than 200/201 (every integer): the backend counts as failed in every
      mode - an error, or the error_<name> object flagged incomplete; its decoding is unused -- *)
Theorem C12_other_status_fails : forall m r d,
  ok_status (r_code r) = false ->
  http_proxy_outcome m r d =
  match m with
  | MDefault => (None, EInvalidStatus)
  | MErrorCode => (None, ECode (r_code r) (r_body r) (r_enc r))
  | MDetails n =>
      (Some {| p_data := [(("error_" ++ n)%string, error_object (r_code r) (r_body r) (r_enc r))];
               p_complete := false; p_status := r_code r |}, ENone)
  end.
Proof. exact other_status_fails. Qed.
Print Assumptions C12_other_status_fails.

(* a 200/201 reply without a decodable body (a HEAD reply, an empty body) is a failed backend *)
Theorem C12_undecodable_fails : forall m r,
  ok_status (r_code r) = true -> http_proxy_outcome m r None = (None, EDecode).
Proof. exact undecodable_fails. Qed.
Print Assumptions C12_undecodable_fails.

(* an empty error body: error_<name> holds the status code alone *)
Theorem C12_empty_body_error_object : forall c,
  error_object c "" "" = JObj [("http_status_code", JNum (z_lit c))].
Proof. exact empty_body_error_object. Qed.
Print Assumptions C12_empty_body_error_object.

(* the text of the status code determines the code (every integer) *)
Theorem C12_status_text_injective : forall a b, z_lit a = z_lit b -> a = b.
Proof. exact z_lit_injective. Qed.
Print Assumptions C12_status_text_injective.

(* -- 200/201: decoded and used, every router, every mode (raw configuration) -- *)
Theorem C12_endpoint_ok_used : forall rt prior epx x r dd,
  ok_status (r_code r) = true -> static_cfg epx = None ->
  client_endpoint rt prior epx (backend_of_raw (x, r, Some dd)) [] =
  {| c_status := 200;
     c_completed := if Nat.eqb (List.length dd) 0 then "false" else "true";
     c_body := BJson (JObj dd) |}.
Proof. exact ep_ok_used. Qed.
Print Assumptions C12_endpoint_ok_used.

Theorem C12_endpoint_ok_used_static : forall rt prior epx x r dd,
  ok_status (r_code r) = true -> dd <> [] ->
  let o := client_endpoint rt prior epx (backend_of_raw (x, r, Some dd)) [] in
  c_status o = 200%Z /\ c_completed o = "true" /\
  exists body, c_body o = BJson (JObj body) /\
    forall k v, In (k, v) dd -> ~ In k (static_keys (static_cfg epx)) -> In (k, v) body.
Proof. exact ep_ok_used_static. Qed.
Print Assumptions C12_endpoint_ok_used_static.

(* -- default mode: none of the failing backend's body reaches the client.  Whatever the
      position of the backend, the stages and the router: the client observation does not
      depend on the failing backend's status, body, content type (or decoding) -- *)
Theorem C12_endpoint_default_independent : forall rt prior epx pre post x x' r r' d d',
  status_mode_raw x = MDefault -> status_mode_raw x' = MDefault ->
  ok_status (r_code r) = false -> ok_status (r_code r') = false ->
  client_endpoint_l rt prior epx (map backend_of_raw (pre ++ (x, r, d) :: post)) =
  client_endpoint_l rt prior epx (map backend_of_raw (pre ++ (x', r', d') :: post)).
Proof. exact ep_default_independent. Qed.
Print Assumptions C12_endpoint_default_independent.

(* -- a sole backend yields 500 (no static data declared for failed requests) -- *)
Theorem C12_endpoint_sole_500 : forall rt prior epx x r d,
  status_mode_raw x = MDefault -> ok_status (r_code r) = false ->
  static_on_failure (static_cfg epx) = false ->
  client_endpoint rt prior epx (backend_of_raw (x, r, d)) [] =
  {| c_status := 500; c_completed := "false";
     c_body := match rt with
               | RGin false => BRaw ""
               | RGin true => BRaw "invalid status code"
               | _ => BRaw ("invalid status code" ++ nl)
               end |}.
Proof. exact ep_sole_500. Qed.
Print Assumptions C12_endpoint_sole_500.

(* the hypothesis on static data is needed: a declared fallback replaces the 500 *)
Theorem C12_static_fallback_refutes_500 :
  exists epx x r,
    status_mode_raw x = MDefault /\ ok_status (r_code r) = false /\
    c_status (client_endpoint (RGin false) [] epx (backend_of_raw (x, r, None)) []) = 200%Z.
Proof. exact static_fallback_refutes_500. Qed.
Print Assumptions C12_static_fallback_refutes_500.

(* -- with healthy siblings the client gets their data, flagged incomplete: any failed
      backend bf (other status in any mode, or undecodable), any healthy one -- *)
Theorem C12_endpoint_siblings_data : forall rt prior epx b0 rest m r dd bf,
  In (m, r, Some dd) (b0 :: rest) -> ok_status (r_code r) = true -> dd <> [] ->
  In bf (b0 :: rest) -> b_failed bf = true ->
  let o := client_endpoint rt prior epx b0 rest in
  c_status o = 200%Z /\ c_completed o = "false" /\
  exists body, c_body o = BJson (JObj body) /\
    forall k v, In (k, v) dd -> ~ In k (static_keys (static_cfg epx)) -> In (k, v) body.
Proof. exact ep_siblings_data. Qed.
Print Assumptions C12_endpoint_siblings_data.

(* -- return_error_code, single backend: exactly the backend's status code -- *)
Theorem C12_endpoint_error_code_exact : forall rt prior epx x r d,
  status_mode_raw x = MErrorCode -> ok_status (r_code r) = false ->
  static_on_failure (static_cfg epx) = false ->
  c_status (client_endpoint rt prior epx (backend_of_raw (x, r, d)) []) = r_code r /\
  c_completed (client_endpoint rt prior epx (backend_of_raw (x, r, d)) []) = "false".
Proof. exact ep_error_code_exact. Qed.
Print Assumptions C12_endpoint_error_code_exact.

(* -- return_error_details=<name>: error_<name> holds the status code and the body, the
      response is flagged incomplete (sole backend or among siblings) -- *)
Theorem C12_endpoint_details : forall rt prior epx b0 rest n r d,
  In (MDetails n, r, d) (b0 :: rest) -> ok_status (r_code r) = false ->
  ~ In ("error_" ++ n)%string (static_keys (static_cfg epx)) ->
  let o := client_endpoint rt prior epx b0 rest in
  c_status o = 200%Z /\ c_completed o = "false" /\
  exists body, c_body o = BJson (JObj body) /\
    In (("error_" ++ n)%string, error_object (r_code r) (r_body r) (r_enc r)) body.
Proof. exact ep_details. Qed.
Print Assumptions C12_endpoint_details.

(* -- routers -- *)
Theorem C12_prior_errors_irrelevant : forall rt prior prior' epx b0 rest,
  client_endpoint rt prior epx b0 rest = client_endpoint rt prior' epx b0 rest.
Proof. exact prior_errors_irrelevant. Qed.
Print Assumptions C12_prior_errors_irrelevant.

Theorem C12_mux_family_agree : forall rt prior epx b0 rest,
  mux_family rt = true ->
  client_endpoint rt prior epx b0 rest = client_endpoint RMux prior epx b0 rest.
Proof. exact mux_family_agree. Qed.
Print Assumptions C12_mux_family_agree.

Theorem C12_return_error_msg_same_status : forall prior epx b0 rest,
  c_status (client_endpoint (RGin true) prior epx b0 rest) = c_status (client_endpoint (RGin false) prior epx b0 rest) /\
  c_completed (client_endpoint (RGin true) prior epx b0 rest) = c_completed (client_endpoint (RGin false) prior epx b0 rest).
Proof. exact return_error_msg_same_status. Qed.
Print Assumptions C12_return_error_msg_same_status.

(* the flatmap stage never meets (nil, nil): no nil response is dereferenced *)
Theorem C12_endpoint_no_panic : forall epx b0 rest, endpoint_out epx b0 rest <> EPanic.
Proof. exact endpoint_no_panic. Qed.
Print Assumptions C12_endpoint_no_panic.

(* -- the executable endpoint model satisfies the endpoint oracle (sole backend) -- *)
Theorem C12_endpoint_meets_oracle : forall rt prior epx m r d,
  static_cfg epx = None ->
  match d with Some dd => wfj (JObj dd) = true | None => True end ->
  is_infix (r_body r) ("invalid status code" ++ nl) = false ->
  spec_endpoint_b rt epx (m, r, d) []
    (client_endpoint rt prior epx (m, r, d) [])
    (raw_of (client_endpoint rt prior epx (m, r, d) [])) = true.
Proof. exact ep_single_meets_oracle. Qed.
Print Assumptions C12_endpoint_meets_oracle.

(* non-vacuity of the extension *)
Definition ex_flatmap : obj :=
  [(ns_proxy, JObj [("flatmap_filter", JArr [JObj [("type", JStr "del"); ("args", JArr [JStr "zz_absent"])]])])].
Definition ex_code : obj := [(ns_http, JObj [(key_code, JBool true)])].
Definition ex_both : obj := [(ns_http, JObj [(key_code, JBool true); (key_details, JStr "b1")])].

Example C12_ex_raw_modes :
  (status_mode_raw [], status_mode_raw ex_code, status_mode_raw ex_both,
   status_mode_raw [(ns_http, JObj [(key_details, JNum "5"); (key_code, JBool true)])],
   status_mode_raw [(ns_http, JStr "return_error_code")])
  = (MDefault, MErrorCode, MDetails "b1", MDefault, MDefault).
Proof. vm_compute. reflexivity. Qed.

(* the first mutant's scenario: flatmap_filter declared, 503 next to a healthy sibling *)
Example C12_ex_flatmap_partial_failure :
  flatmap_active ex_flatmap = true /\
  client_endpoint (RGin false) [] ex_flatmap
    (backend_of_raw ([], {| r_code := 503; r_body := "secret-body"; r_enc := "application/json" |}, None))
    [backend_of_raw ([], {| r_code := 200; r_body := "{...}"; r_enc := "application/json" |}, Some [("ok", JStr "yes")])]
  = {| c_status := 200; c_completed := "false"; c_body := BJson (JObj [("ok", JStr "yes")]) |}.
Proof. vm_compute. split; reflexivity. Qed.

(* the second mutant's scenario: gin behind middleware that recorded an error, return_error_code *)
Example C12_ex_prior_errors_error_code :
  client_endpoint (RGin false) ["audit: request without a trace id"] []
    (backend_of_raw (ex_code, {| r_code := 429; r_body := "slow down"; r_enc := "text/plain" |}, None)) []
  = {| c_status := 429; c_completed := "false"; c_body := BRaw "" |}.
Proof. vm_compute. reflexivity. Qed.

Example C12_ex_static_success_keeps_500 :
  static_on_failure (static_cfg [(ns_proxy, JObj [("static", JObj [("strategy", JStr "success"); ("data", JObj [("s", JNull)])])])]) = false.
Proof. vm_compute. reflexivity. Qed.

Example C12_ex_head_reply_details :
  client_endpoint RChi [] []
    (backend_of_raw (ex_both, {| r_code := 404; r_body := ""; r_enc := "" |}, None)) []
  = {| c_status := 200; c_completed := "false";
       c_body := BJson (JObj [("error_b1", JObj [("http_status_code", JNum "404")])]) |}.
Proof. vm_compute. reflexivity. Qed.

Example C12_ex_negative_status_text : (z_lit (-7), z_lit 0, z_lit 1234) = ("-7", "0", "1234").
Proof. vm_compute. reflexivity. Qed.

(* ======================================================================================
   The model meets the oracles on EVERY case kind the generator emits: every endpoint
   shape (n backends, flatmap / static stages, every router), the first version's
   multi-backend oracle, and the proxy-level oracle.
   ====================================================================================== *)
Theorem C12_endpoint_meets_oracle_all : forall rt prior epx b0 rest,
  ep_wf b0 rest ->
  spec_endpoint_b rt epx b0 rest (client_endpoint rt prior epx b0 rest)
                  (raw_of (client_endpoint rt prior epx b0 rest)) = true.
Proof. exact ep_meets_oracle. Qed.
Print Assumptions C12_endpoint_meets_oracle_all.

Theorem C12_multi_meets_oracle : forall i b0 b1 rest,
  ep_wf b0 (b1 :: rest) ->
  spec_multi_b (b0 :: b1 :: rest) (client_multi i (b0 :: b1 :: rest))
               (raw_of (client_multi i (b0 :: b1 :: rest))) = true.
Proof. exact multi_meets_oracle. Qed.
Print Assumptions C12_multi_meets_oracle.

Theorem C12_proxy_meets_oracle : forall m r d,
  (forall dd, d = Some dd -> ok_status (r_code r) = true -> wfj (JObj dd) = true) ->
  proxy_spec_b m r d (http_proxy_outcome m r d) = true.
Proof. exact proxy_meets_oracle. Qed.
Print Assumptions C12_proxy_meets_oracle.

(* the first version's endpoint without stages is the endpoint model *)
Theorem C12_client_multi_is_endpoint : forall i b0 b1 rest,
  client_multi i (b0 :: b1 :: rest) = client_endpoint (router_of i) [] [] b0 (b1 :: rest).
Proof. exact client_multi_endpoint. Qed.
Print Assumptions C12_client_multi_is_endpoint.

(* ep_wf (distinct keys across the backends, marked bodies) is satisfiable *)
Example C12_ex_ep_wf :
  ep_wf (MDefault, {| r_code := 503; r_body := "MARKER-secret-body"; r_enc := "text/plain" |}, None)
        [(MErrorCode, {| r_code := 200; r_body := "{...}"; r_enc := "application/json" |}, Some [("ok", JStr "yes")]);
         (MDetails "b2", {| r_code := 404; r_body := "gone"; r_enc := "" |}, None)].
Proof. exact ep_wf_example. Qed.

(* ======================================================================================
   Backend encodings: what counts as "decoded" (json / json collection / safejson / string)
   and the no-op encoding, for which the classification of statuses does not apply.
   ====================================================================================== *)
Theorem C12_string_always_decodes : forall m r parsed,
  ok_status (r_code r) = true ->
  http_proxy_outcome_enc EncString m r parsed =
  (Some {| p_data := [("content", JStr (r_body r))]; p_complete := true; p_status := 0 |}, ENone).
Proof. exact string_always_decodes. Qed.
Print Assumptions C12_string_always_decodes.

(* any other status fails whatever the encoding (except the pass-through one) and whatever the body parses to *)
Theorem C12_enc_other_status_fails : forall e m r parsed,
  e <> EncNoop -> ok_status (r_code r) = false ->
  http_proxy_outcome_enc e m r parsed =
  match m with
  | MDefault => (None, EInvalidStatus)
  | MErrorCode => (None, ECode (r_code r) (r_body r) (r_enc r))
  | MDetails n =>
      (Some {| p_data := [(("error_" ++ n)%string, error_object (r_code r) (r_body r) (r_enc r))];
               p_complete := false; p_status := r_code r |}, ENone)
  end.
Proof. exact enc_other_status_fails. Qed.
Print Assumptions C12_enc_other_status_fails.

(* the hypothesis e <> EncNoop is needed: a no-op backend passes every status through as a
   complete response (NoOpHTTPStatusHandler) *)
Theorem C12_noop_refutes_classification :
  exists m r parsed, ok_status (r_code r) = false /\
    exists p, fst (http_proxy_outcome_enc EncNoop m r parsed) = Some p /\ p_complete p = true.
Proof. exact noop_refutes_classification. Qed.
Print Assumptions C12_noop_refutes_classification.

Theorem C12_json_decodes_iff : forall body parsed,
  decode_as (EncJson false) body parsed <> None <->
  (exists m, parsed = Some (JObj m)) \/ parsed = Some JNull.
Proof. exact json_decodes_iff. Qed.
Print Assumptions C12_json_decodes_iff.

Theorem C12_collection_decodes_iff : forall body parsed,
  decode_as (EncJson true) body parsed <> None <->
  (exists l, parsed = Some (JArr l)) \/ parsed = Some JNull.
Proof. exact collection_decodes_iff. Qed.
Print Assumptions C12_collection_decodes_iff.

Theorem C12_safejson_decodes_iff : forall body parsed,
  decode_as EncSafeJson body parsed <> None <-> parsed <> None.
Proof. exact safejson_decodes_iff. Qed.
Print Assumptions C12_safejson_decodes_iff.

Theorem C12_enc_meets_oracle : forall e m r parsed,
  e <> EncNoop ->
  (forall dd, decode_as e (r_body r) parsed = Some dd -> ok_status (r_code r) = true -> wfj (JObj dd) = true) ->
  proxy_spec_b m r (decode_as e (r_body r) parsed) (http_proxy_outcome_enc e m r parsed) = true.
Proof. exact enc_meets_oracle. Qed.
Print Assumptions C12_enc_meets_oracle.

Example C12_ex_encodings :
  (decode_as (enc_of "json" false) "[1]" (Some (JArr [JNum "1"])),
   decode_as (enc_of "safejson" false) "[1]" (Some (JArr [JNum "1"])),
   decode_as (enc_of "string" false) "[1]" (Some (JArr [JNum "1"])),
   decode_as (enc_of "xml" true) "[1]" (Some (JArr [JNum "1"])))
  = (None, Some [("collection", JArr [JNum "1"])], Some [("content", JStr "[1]")],
     Some [("collection", JArr [JNum "1"])]).
Proof. vm_compute. reflexivity. Qed.

(* the pass-through (no-op) proxy is built for the exact spelling "no-op" only; under every other
   spelling of an encoding name ("No-Op", "NO-OP", "JSON", ...) statuses are classified as usual,
   although the decoder is looked up case-insensitively *)
Theorem C12_enc_of_noop_iff : forall name coll, enc_of name coll = EncNoop <-> name = "no-op".
Proof. exact enc_of_noop_iff. Qed.
Print Assumptions C12_enc_of_noop_iff.

Theorem C12_other_spelling_classified : forall name coll m r parsed,
  name <> "no-op" -> ok_status (r_code r) = false ->
  http_proxy_outcome_enc (enc_of name coll) m r parsed =
  match m with
  | MDefault => (None, EInvalidStatus)
  | MErrorCode => (None, ECode (r_code r) (r_body r) (r_enc r))
  | MDetails n =>
      (Some {| p_data := [(("error_" ++ n)%string, error_object (r_code r) (r_body r) (r_enc r))];
               p_complete := false; p_status := r_code r |}, ENone)
  end.
Proof. exact other_spelling_classified. Qed.
Print Assumptions C12_other_spelling_classified.

Example C12_ex_noop_spellings :
  (enc_of "no-op" false, enc_of "No-Op" false, enc_of "NO-OP" true, enc_of "SafeJSON" false, enc_of "STRING" false, enc_of "Xml" true)
  = (EncNoop, EncNoopDecoder, EncNoopDecoder, EncSafeJson, EncString, EncJson true) /\
  http_proxy_outcome_enc (enc_of "No-Op" false) MDefault {| r_code := 503; r_body := "down"; r_enc := "" |} None
  = (None, EInvalidStatus).
Proof. vm_compute. split; reflexivity. Qed.
