(* C12 - Backend HTTP statuses are classified and surfaced as configured.
   Only theorem statements, each closed by an exact lemma, and Print Assumptions. *)
Require Import Verif.Common.Base Verif.Common.Json.
Require Import Verif.Model.C12 Verif.Spec.C12 Verif.Proof.C12.

(* a reply is used exactly when its status is 200 or 201 - every status code, every mode *)
Theorem C12_default_total : forall m r,
  classify m r = Use <-> r_code r = 200%Z \/ r_code r = 201%Z.
Proof. exact classify_use_iff. Qed.
Print Assumptions C12_default_total.

Theorem C12_used_when_ok : forall m r d,
  ok_status (r_code r) = true ->
  http_proxy_outcome m r (Some d) = (Some {| p_data := d; p_complete := true; p_status := 0 |}, ENone).
Proof. exact used_when_ok. Qed.
Print Assumptions C12_used_when_ok.

(* default mode, sole backend: 500, flagged incomplete, and the reply the client gets does
   not depend on what the backend sent (status, body, content type) *)
Theorem C12_sole_backend_500 : forall i r d,
  ok_status (r_code r) = false ->
  client_single i MDefault r d =
  {| c_status := 500; c_completed := "false";
     c_body := match i with Gin => BRaw "" | Mux => BRaw ("invalid status code" ++ nl) end |}.
Proof. exact default_sole_backend. Qed.
Print Assumptions C12_sole_backend_500.

Theorem C12_no_body_leak : forall i r r' d d',
  ok_status (r_code r) = false -> ok_status (r_code r') = false ->
  client_single i MDefault r d = client_single i MDefault r' d'.
Proof. exact no_body_leak. Qed.
Print Assumptions C12_no_body_leak.

(* with healthy siblings: the failed backend is invisible and the answer is incomplete *)
Theorem C12_siblings_invisible : forall i pre post r r' d d',
  ok_status (r_code r) = false -> ok_status (r_code r') = false ->
  client_multi i (pre ++ (MDefault, r, d) :: post) =
  client_multi i (pre ++ (MDefault, r', d') :: post).
Proof. exact multi_failed_default_invisible. Qed.
Print Assumptions C12_siblings_invisible.

Theorem C12_siblings_incomplete : forall i ms m r d,
  In (m, r, d) ms -> ok_status (r_code r) = false -> m = MDefault \/ m = MErrorCode ->
  c_completed (client_multi i ms) = "false".
Proof. exact multi_incomplete. Qed.
Print Assumptions C12_siblings_incomplete.

Theorem C12_error_code_mode : forall i r d,
  ok_status (r_code r) = false ->
  c_status (client_single i MErrorCode r d) = r_code r /\
  c_completed (client_single i MErrorCode r d) = "false".
Proof. exact error_code_mode. Qed.
Print Assumptions C12_error_code_mode.

Theorem C12_details_mode : forall n r d,
  ok_status (r_code r) = false ->
  http_proxy_outcome (MDetails n) r d =
  (Some {| p_data := [(("error_" ++ n)%string, error_object (r_code r) (r_body r) (r_enc r))];
           p_complete := false; p_status := r_code r |}, ENone).
Proof. exact details_mode. Qed.
Print Assumptions C12_details_mode.

Theorem C12_mode_selection : forall details code,
  status_mode details code =
  match details with
  | VStr s => if str_eqb s "" then MDefault else MDetails s
  | VAbsent => match code with VBool true => MErrorCode | _ => MDefault end
  | _ => MDefault
  end.
Proof. exact mode_selection. Qed.
Print Assumptions C12_mode_selection.

(* the executable model satisfies the boolean oracle applied to the implementation's
   observations, for every input (ties spec_b to the model) *)
Theorem C12_model_meets_oracle : forall i m r d,
  match d with Some dd => wfj (JObj dd) = true | None => True end ->
  is_infix (r_body r) ("invalid status code" ++ nl) = false ->
  spec_single_b m r d (client_single i m r d) (raw_of (client_single i m r d)) = true.
Proof. exact single_meets_spec. Qed.
Print Assumptions C12_model_meets_oracle.

(* non-vacuity: concrete inputs in each branch *)
Example C12_ex_404_default :
  client_single Gin MDefault {| r_code := 404; r_body := "secret-body"; r_enc := "text/plain" |} None
  = {| c_status := 500; c_completed := "false"; c_body := BRaw "" |}.
Proof. vm_compute. reflexivity. Qed.
Example C12_ex_503_code :
  c_status (client_single Mux MErrorCode {| r_code := 503; r_body := "x"; r_enc := "" |} None) = 503%Z.
Proof. vm_compute. reflexivity. Qed.
Example C12_ex_details :
  fst (http_proxy_outcome (MDetails "b1") {| r_code := 418; r_body := "tea"; r_enc := "" |} None)
  = Some {| p_data := [("error_b1", JObj [("http_status_code", JNum "418"); ("http_body", JStr "tea")])];
            p_complete := false; p_status := 418 |}.
Proof. vm_compute. reflexivity. Qed.
