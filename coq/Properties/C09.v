(* C09 - Endpoint path parameters reach the backend path under every router.
   Only theorem statements, each closed by an exact lemma, and Print Assumptions. *)
Require Import Verif.Common.Base.
Require Import Verif.Model.C09 Verif.Spec.C09 Verif.Proof.C09 Verif.Proof.C09_text.
From Coq Require Import Permutation.

(* every adapter's extractor and the configuration capitalise a parameter name in the same
   way - every name of the grammar [a-zA-Z0-9_-]+, every adapter *)
Theorem C09_caps_agree : forall a n, grammar n -> adapter_cap a n = config_cap n.
Proof. exact caps_agree. Qed.
Print Assumptions C09_caps_agree.

(* ... in fact for every byte string (k[:1] cuts one byte; a byte >= 0x80, i.e. a cut
   multi-byte rune, is left as it is by both library functions - outside the grammar) *)
Theorem C09_caps_agree_bytes : forall a n, adapter_cap a n = config_cap n.
Proof. exact caps_agree_all. Qed.
Print Assumptions C09_caps_agree_bytes.

(* and the key is the name with its first character upper-cased, nothing else touched *)
Theorem C09_cap_first_only : forall n,
  config_cap n = match n with EmptyString => EmptyString | String c r => String (to_upper c) r end.
Proof. exact cap_first_only. Qed.
Print Assumptions C09_cap_first_only.

(* Init rejects a url_pattern that uses a parameter the endpoint does not declare: every
   endpoint text, every url_pattern text (raw bytes, any shape), every placeholder the
   pattern scanner finds that is not declared and is not a sequential-merge reference
   ({resp0_x}, {JWT.sub}: forced hypothesis, Init deliberately lets those through) *)
Theorem C09_rejects_undeclared : forall ep be n,
  In n (backend_outputs (clean_path be)) -> seq_ref n = false ->
  ~ In n (endpoint_params (clean_path ep)) ->
  exists why, init ep be = Rejected why.
Proof. exact rejects_undeclared. Qed.
Print Assumptions C09_rejects_undeclared.

(* a configuration with several endpoints is accepted exactly when every endpoint is accepted
   on its own - each against its OWN declared parameters - whatever the order of the endpoints;
   so a url_pattern using a parameter declared only by ANOTHER endpoint is rejected *)
Theorem C09_config_conjunction : forall eps,
  init_config eps = true <-> forall e, In e eps -> exists p k, init (fst e) (snd e) = Accepted p k.
Proof. exact config_conjunction. Qed.
Print Assumptions C09_config_conjunction.

Theorem C09_config_order_independent : forall eps eps',
  Permutation eps eps' -> init_config eps = init_config eps'.
Proof. exact config_order_independent. Qed.
Print Assumptions C09_config_order_independent.

Theorem C09_config_rejects_undeclared : forall eps ep be n,
  In (ep, be) eps ->
  In n (backend_outputs (clean_path be)) -> seq_ref n = false ->
  ~ In n (endpoint_params (clean_path ep)) ->
  init_config eps = false.
Proof. exact config_rejects_undeclared. Qed.
Print Assumptions C09_config_rejects_undeclared.

(* the boolean Init oracle evaluated on the implementation's answers states exactly that *)
Theorem C09_init_oracle_sound : forall declared used accepted,
  spec_init_b declared used accepted = true <-> (Undeclared declared used -> accepted = false).
Proof. exact spec_init_sound. Qed.
Print Assumptions C09_init_oracle_sound.

Theorem C09_init_model_meets_oracle : forall ep be,
  spec_init_b (endpoint_params (clean_path ep)) (backend_outputs (clean_path be))
              (match init ep be with Accepted _ _ => true | Rejected _ => false end) = true.
Proof. exact init_meets_oracle. Qed.
Print Assumptions C09_init_model_meets_oracle.

(* the same on tokenised inputs, through the whole chain: a url_pattern that uses a parameter
   the endpoint does not declare is never served, whatever the adapter *)
Theorem C09_rejects_undeclared_tokens : forall a segs be vals,
  forallb seg_ok segs = true -> forallb be_tok_ok be = true ->
  Undeclared (ph_names segs) (ph_names be) -> serve a segs be vals = ORejected.
Proof. exact rejects_undeclared_tokens. Qed.
Print Assumptions C09_rejects_undeclared_tokens.

(* SUBSTITUTION, on text.  Every endpoint made of literal and parameter segments (names over
   the whole grammar, pairwise different, any number, any order), every url_pattern made of
   brace-free literals and placeholders of declared parameters (any number, order, repetition,
   adjacency), every non-empty unreserved value, every adapter, and every iteration order of
   the Params map (ps is any permutation): if Init accepts, the path handed to the backend is
   the url_pattern with each placeholder replaced by the corresponding segment, and no "{{."
   is left.  No hypothesis about capitalisation: acceptance implies distinct keys (fix
   C09-ambiguous-params). *)
Theorem C09_substitution : forall a segs be vals pat ks ps,
  wf_route segs be vals = true ->
  (forall n, In n (ph_names be) -> In n (ph_names segs)) ->
  init (render_ep segs) (render be) = Accepted pat ks ->
  Permutation ps (router_params a (ph_names segs) vals) ->
  generate_path pat ps = expected_path be (combine (ph_names segs) vals) /\
  no_placeholder_left (generate_path pat ps) = true.
Proof. exact substitution. Qed.
Print Assumptions C09_substitution.

Theorem C09_serve_substituted : forall a segs be vals,
  wf_route segs be vals = true ->
  (forall n, In n (ph_names be) -> In n (ph_names segs)) ->
  serve a segs be vals = ORejected \/
  exists p, serve a segs be vals = OPath p /\ Substituted segs be vals p.
Proof. exact serve_substituted. Qed.
Print Assumptions C09_serve_substituted.

(* the scanners of Init read a tokenised endpoint / url_pattern back exactly *)
Theorem C09_scanners_read_tokens : forall segs be,
  forallb seg_ok segs = true -> forallb be_tok_ok be = true ->
  endpoint_params (clean_path (render_ep segs)) = ph_names segs /\
  backend_outputs (clean_path (render be)) = ph_names be.
Proof. exact scanners_read_tokens. Qed.
Print Assumptions C09_scanners_read_tokens.

(* accepted endpoints have pairwise different capitalised keys (what used to be the forced
   hypothesis distinct_caps) *)
Theorem C09_accepted_keys_distinct : forall ep be pat ks, init ep be = Accepted pat ks ->
  forall p q, In p (endpoint_params (clean_path ep)) -> In q (endpoint_params (clean_path ep)) ->
  config_cap p = config_cap q -> p = q.
Proof. exact accepted_keys_distinct. Qed.
Print Assumptions C09_accepted_keys_distinct.

(* the ambiguity check does not depend on where the two colliding parameters stand, nor on
   what stands between them: it is a property of the SET of declared parameters *)
Theorem C09_ambiguous_iff : forall l, ambiguous l = true <->
  exists p q, In p l /\ In q l /\ p <> q /\ config_cap p = config_cap q.
Proof. exact ambiguous_iff. Qed.
Print Assumptions C09_ambiguous_iff.

(* Init = validity of the endpoint text, then a decision that depends on the declared
   parameters only up to permutation (acceptance, error and rewritten pattern alike) *)
Theorem C09_init_factors : forall ep be,
  init ep be = if invalid_endpoint (clean_path ep) then Rejected RInvalidEndpoint
               else init_params (endpoint_params (clean_path ep)) be.
Proof. exact init_factors. Qed.
Print Assumptions C09_init_factors.

Theorem C09_declared_order_irrelevant : forall ins ins' be,
  Permutation ins ins' -> init_params ins be = init_params ins' be.
Proof. exact init_params_perm. Qed.
Print Assumptions C09_declared_order_irrelevant.

(* an endpoint with two parameters that differ only in the case of the first character is never
   served, under any adapter, wherever the two stand and whatever other parameters it has *)
Theorem C09_ambiguous_never_served : forall a segs be vals p q,
  forallb seg_ok segs = true ->
  In p (ph_names segs) -> In q (ph_names segs) -> p <> q -> config_cap p = config_cap q ->
  serve a segs be vals = ORejected.
Proof. exact ambiguous_never_served. Qed.
Print Assumptions C09_ambiguous_never_served.

(* oracle <-> model, oracle -> Prop *)
Theorem C09_model_meets_oracle : forall a segs be vals,
  wf_route segs be vals = true -> spec_route_b segs be vals (serve a segs be vals) = true.
Proof. exact route_meets_oracle. Qed.
Print Assumptions C09_model_meets_oracle.

Theorem C09_route_oracle_sound : forall segs be vals p,
  spec_route_b segs be vals (OPath p) = true ->
  ~ Undeclared (ph_names segs) (ph_names be) /\
  ((forall n, In n (ph_names be) -> In n (ph_names segs)) -> Substituted segs be vals p).
Proof. exact route_oracle_sound. Qed.
Print Assumptions C09_route_oracle_sound.

(* non-vacuity *)
Example C09_ex_grammar : grammar "user-Id_9".
Proof. vm_compute. reflexivity. Qed.
Example C09_ex_cap : config_cap "userId" = "UserId" /\ adapter_cap Gorilla "userId" = "UserId" /\ adapter_cap Gin "1abc" = "1abc".
Proof. vm_compute. auto. Qed.
Example C09_ex_whole_title_differs : title_und "userId" = "Userid".
Proof. vm_compute. reflexivity. Qed.
Example C09_ex_rejected : init "/u/{a}" "/b/{a}/{c}" = Rejected (RUndefined "c").
Proof. vm_compute. reflexivity. Qed.
Example C09_ex_seq_ref_passes : exists p k, init "/u/{a}" "/b/{resp0_x}" = Accepted p k.
Proof. vm_compute. eauto. Qed.
Example C09_ex_ambiguous_rejected : init "/u/{id}/{Id}" "/b/{id}/{Id}" = Rejected RAmbiguous.
Proof. vm_compute. reflexivity. Qed.
Example C09_ex_served :
  serve Treemux [Lit "u"; Ph "userId"; Ph "order-id"] [Lit "/b/"; Ph "order-id"; Lit "/x/"; Ph "userId"] ["u1"; "o2"]
  = OPath "/b/o2/x/u1".
Proof. vm_compute. reflexivity. Qed.
Example C09_ex_wf : wf_route [Lit "u"; Ph "userId"; Ph "order-id"] [Lit "/b/"; Ph "order-id"; Ph "userId"; Lit ".x/"; Ph "userId"] ["u~1"; "o.2"] = true.
Proof. vm_compute. reflexivity. Qed.
Example C09_ex_any_order :
  generate_path "/b/{{.Order-id}}/{{.UserId}}" [("UserId", "u1"); ("Order-id", "o2")] = "/b/o2/u1" /\
  generate_path "/b/{{.Order-id}}/{{.UserId}}" [("Order-id", "o2"); ("UserId", "u1")] = "/b/o2/u1".
Proof. vm_compute. auto. Qed.
Example C09_ex_collision : config_cap "id" = config_cap "Id".
Proof. vm_compute. reflexivity. Qed.
Example C09_ex_undeclared : Undeclared ["a"] ["a"; "c"].
Proof. exists "c". split; [simpl; auto|]. split; [reflexivity|]. simpl. intros [H|[]]. discriminate. Qed.
Example C09_ex_config_other_endpoints_param :
  init_config [("/a/{id}", "/o/{id}"); ("/b/{order}", "/o/{id}")] = false /\
  init_config [("/b/{order}", "/o/{id}"); ("/a/{id}", "/o/{id}")] = false /\
  init_config [("/a/{id}", "/o/{id}"); ("/b/{order}", "/o/{order}")] = true.
Proof. vm_compute. auto. Qed.
Example C09_ex_pair_with_middle :
  serve Gin [Lit "x"; Ph "id"; Ph "cat"; Ph "Id"] [Lit "/b/"; Ph "id"; Lit "/"; Ph "cat"; Lit "/"; Ph "Id"] ["1"; "tom"; "2"] = ORejected.
Proof. vm_compute. reflexivity. Qed.
Example C09_ex_long_name :
  serve Chi [Ph "nameWith-Long_tail0123456789nameW"] [Lit "/b/"; Ph "nameWith-Long_tail0123456789nameW"] ["v"] = OPath "/b/v".
Proof. vm_compute. reflexivity. Qed.
