(* C09 - Endpoint path parameters reach the backend path under every router.
   Only theorem statements, each closed by an exact lemma, and Print Assumptions. *)
Require Import Verif.Common.Base.
Require Import Verif.Model.C09 Verif.Spec.C09 Verif.Proof.C09 Verif.Proof.C09_text Verif.Proof.C09_route.
From Coq Require Import Permutation.

(* every adapter's extractor and the configuration capitalise a parameter name in the same
   way - every name of the grammar [a-zA-Z0-9_-]+, every adapter *)
Theorem C09_caps_agree : forall a n, grammar n -> adapter_cap a n = config_cap n.
Proof. exact caps_agree. Qed.
Print Assumptions C09_caps_agree.

(* ... in fact for every byte string (k[:1] cuts one byte; a byte >= 0x80, i.e. a cut
   multi-byte rune, is left as it is by both library functions - outside the grammar) *)
Theorem C09_caps_agree_bytes : forall a n, adapter_cap a n = config_cap n.
Proof. exact caps_agree_all. Qed.
Print Assumptions C09_caps_agree_bytes.

(* and the key is the name with its first character upper-cased, nothing else touched *)
Theorem C09_cap_first_only : forall n,
  config_cap n = match n with EmptyString => EmptyString | String c r => String (to_upper c) r end.
Proof. exact cap_first_only. Qed.
Print Assumptions C09_cap_first_only.

(* Init rejects a url_pattern that uses a parameter the endpoint does not declare: every
   endpoint text, every url_pattern text (raw bytes, any shape), every placeholder the
   pattern scanner finds that is not declared and is not a sequential-merge reference
   ({resp0_x}, {JWT.sub}: forced hypothesis, Init deliberately lets those through) *)
Theorem C09_rejects_undeclared : forall ep be n,
  In n (backend_outputs (clean_path be)) -> seq_ref n = false ->
  ~ In n (endpoint_params (clean_path ep)) ->
  exists why, init ep be = Rejected why.
Proof. exact rejects_undeclared. Qed.
Print Assumptions C09_rejects_undeclared.

(* a configuration with several endpoints is accepted exactly when every endpoint is accepted
   on its own - each against its OWN declared parameters - whatever the order of the endpoints;
   so a url_pattern using a parameter declared only by ANOTHER endpoint is rejected *)
Theorem C09_config_conjunction : forall eps,
  init_config eps = true <-> forall e, In e eps -> exists p k, init (fst e) (snd e) = Accepted p k.
Proof. exact config_conjunction. Qed.
Print Assumptions C09_config_conjunction.

Theorem C09_config_order_independent : forall eps eps',
  Permutation eps eps' -> init_config eps = init_config eps'.
Proof. exact config_order_independent. Qed.
Print Assumptions C09_config_order_independent.

Theorem C09_config_rejects_undeclared : forall eps ep be n,
  In (ep, be) eps ->
  In n (backend_outputs (clean_path be)) -> seq_ref n = false ->
  ~ In n (endpoint_params (clean_path ep)) ->
  init_config eps = false.
Proof. exact config_rejects_undeclared. Qed.
Print Assumptions C09_config_rejects_undeclared.

(* the boolean Init oracle evaluated on the implementation's answers states exactly that *)
Theorem C09_init_oracle_sound : forall declared used accepted,
  spec_init_b declared used accepted = true <-> (Undeclared declared used -> accepted = false).
Proof. exact spec_init_sound. Qed.
Print Assumptions C09_init_oracle_sound.

Theorem C09_init_model_meets_oracle : forall ep be,
  spec_init_b (endpoint_params (clean_path ep)) (backend_outputs (clean_path be))
              (match init ep be with Accepted _ _ => true | Rejected _ => false end) = true.
Proof. exact init_meets_oracle. Qed.
Print Assumptions C09_init_model_meets_oracle.

(* the same on tokenised inputs, through the whole chain: a url_pattern that uses a parameter
   the endpoint does not declare is never served, whatever the adapter *)
Theorem C09_rejects_undeclared_tokens : forall a segs be vals,
  forallb seg_ok segs = true -> forallb be_tok_ok be = true ->
  Undeclared (ph_names segs) (ph_names be) -> serve a segs be vals = ORejected.
Proof. exact rejects_undeclared_tokens. Qed.
Print Assumptions C09_rejects_undeclared_tokens.

(* SUBSTITUTION, on text.  Every endpoint made of literal and parameter segments (names over
   the whole grammar, pairwise different, any number, any order), every url_pattern made of
   brace-free literals and placeholders of declared parameters (any number, order, repetition,
   adjacency), every non-empty unreserved value, every adapter, and every iteration order of
   the Params map (ps is any permutation): if Init accepts, the path handed to the backend is
   the url_pattern with each placeholder replaced by the corresponding segment, and no "{{."
   is left.  No hypothesis about capitalisation: acceptance implies distinct keys (fix
   C09-ambiguous-params). *)
Theorem C09_substitution : forall a segs be vals pat ks ps,
  wf_route segs be vals = true ->
  (forall n, In n (ph_names be) -> In n (ph_names segs)) ->
  init (render_ep segs) (render be) = Accepted pat ks ->
  Permutation ps (router_params a (ph_names segs) vals) ->
  generate_path pat ps = expected_path be (combine (ph_names segs) vals) /\
  no_placeholder_left (generate_path pat ps) = true.
Proof. exact substitution. Qed.
Print Assumptions C09_substitution.

Theorem C09_serve_substituted : forall a segs be vals,
  wf_route segs be vals = true ->
  (forall n, In n (ph_names be) -> In n (ph_names segs)) ->
  serve a segs be vals = ORejected \/
  exists p, serve a segs be vals = OPath p /\ Substituted segs be vals p.
Proof. exact serve_substituted. Qed.
Print Assumptions C09_serve_substituted.

(* the scanners of Init read a tokenised endpoint / url_pattern back exactly *)
Theorem C09_scanners_read_tokens : forall segs be,
  forallb seg_ok segs = true -> forallb be_tok_ok be = true ->
  endpoint_params (clean_path (render_ep segs)) = ph_names segs /\
  backend_outputs (clean_path (render be)) = ph_names be.
Proof. exact scanners_read_tokens. Qed.
Print Assumptions C09_scanners_read_tokens.

(* accepted endpoints have pairwise different capitalised keys (what used to be the forced
   hypothesis distinct_caps) *)
Theorem C09_accepted_keys_distinct : forall ep be pat ks, init ep be = Accepted pat ks ->
  forall p q, In p (endpoint_params (clean_path ep)) -> In q (endpoint_params (clean_path ep)) ->
  config_cap p = config_cap q -> p = q.
Proof. exact accepted_keys_distinct. Qed.
Print Assumptions C09_accepted_keys_distinct.

(* the ambiguity check does not depend on where the two colliding parameters stand, nor on
   what stands between them: it is a property of the SET of declared parameters *)
Theorem C09_ambiguous_iff : forall l, ambiguous l = true <->
  exists p q, In p l /\ In q l /\ p <> q /\ config_cap p = config_cap q.
Proof. exact ambiguous_iff. Qed.
Print Assumptions C09_ambiguous_iff.

(* Init = validity of the endpoint text, then a decision that depends on the declared
   parameters only up to permutation (acceptance, error and rewritten pattern alike) *)
Theorem C09_init_factors : forall ep be,
  init ep be = if invalid_endpoint (clean_path ep) then Rejected RInvalidEndpoint
               else init_params (endpoint_params (clean_path ep)) be.
Proof. exact init_factors. Qed.
Print Assumptions C09_init_factors.

Theorem C09_declared_order_irrelevant : forall ins ins' be,
  Permutation ins ins' -> init_params ins be = init_params ins' be.
Proof. exact init_params_perm. Qed.
Print Assumptions C09_declared_order_irrelevant.

(* an endpoint with two parameters that differ only in the case of the first character is never
   served, under any adapter, wherever the two stand and whatever other parameters it has *)
Theorem C09_ambiguous_never_served : forall a segs be vals p q,
  forallb seg_ok segs = true ->
  In p (ph_names segs) -> In q (ph_names segs) -> p <> q -> config_cap p = config_cap q ->
  serve a segs be vals = ORejected.
Proof. exact ambiguous_never_served. Qed.
Print Assumptions C09_ambiguous_never_served.

(* THE ROUTE TEXT.  For every tokenised endpoint Init hands the router the endpoint with every
   declared parameter in the adapter's own syntax (":p" for gin and httptreemux, "{p}" for chi,
   gorilla and negroni), in order, between the same literals - every name of the grammar, every
   number and order of parameters, duplicates included *)
Theorem C09_route_text : forall a segs, forallb seg_ok segs = true ->
  init_route (colon_mode a) (render_ep segs) = clean_path (render_route (colon_mode a) segs).
Proof. exact route_text. Qed.
Print Assumptions C09_route_text.

(* A router that matches segment by segment (":p" / "{p}" binds a non-empty segment, anything
   else must be equal), given that route text and a request made of the endpoint's literals and
   unreserved values, extracts exactly the declared names with the request's segments *)
Theorem C09_router_extracts : forall a segs vals,
  forallb seg_ok segs = true -> List.length vals = List.length (ph_names segs) ->
  forallb unreserved_b vals = true -> segs <> [] ->
  match_route (colon_mode a) (init_route (colon_mode a) (render_ep segs)) (request_path segs vals)
  = Some (combine (ph_names segs) vals).
Proof. exact router_extracts. Qed.
Print Assumptions C09_router_extracts.

(* hence the chain WITH the route text and the router in it (the one the correspondence run
   compares with the implementation) is the chain the substitution theorem is about *)
Theorem C09_serve_routed_eq : forall a segs be vals,
  wf_route segs be vals = true -> segs <> [] ->
  serve_routed a segs be vals = serve a segs be vals.
Proof. exact serve_routed_eq. Qed.
Print Assumptions C09_serve_routed_eq.

(* THE SCANNERS against a declarative reading of the three regular expressions *)
Theorem C09_backend_outputs_spec : forall n s,
  In n (backend_outputs s) <-> occurs_placeholder out_char n s.
Proof. exact backend_outputs_spec. Qed.
Print Assumptions C09_backend_outputs_spec.

Theorem C09_endpoint_params_spec : forall n s, In n (endpoint_params s) <-> occurs_param n s.
Proof. exact endpoint_params_spec. Qed.
Print Assumptions C09_endpoint_params_spec.

Theorem C09_seq_ref_spec : forall s, seq_ref s = true <-> is_seq_ref s.
Proof. exact seq_ref_spec. Qed.
Print Assumptions C09_seq_ref_spec.

(* so: whatever the texts, a url_pattern in which "{n}" occurs (n a non-empty run of [\w-.:/])
   while "/{n}" does not occur in the endpoint, n not of the shape resp<digits>_<x> / JWT.<x>,
   is rejected *)
Theorem C09_rejects_undeclared_declarative : forall ep be n,
  occurs_placeholder out_char n (clean_path be) -> seq_ref n = false ->
  ~ occurs_param n (clean_path ep) ->
  exists why, init ep be = Rejected why.
Proof. exact rejects_undeclared_declarative. Qed.
Print Assumptions C09_rejects_undeclared_declarative.

(* the oracles of the Init-on-tokens, configuration and route-text case kinds hold of the model *)
Theorem C09_init_tokens_meets_oracle : forall segs be,
  forallb seg_ok segs = true -> forallb be_tok_ok be = true ->
  spec_init_b (ph_names segs) (ph_names be) (accepted_b (init (render_ep segs) (render be))) = true.
Proof. exact init_tokens_meets_oracle. Qed.
Print Assumptions C09_init_tokens_meets_oracle.

Theorem C09_config_meets_oracle : forall eps : list (list tok * list tok),
  (forall e, In e eps -> forallb seg_ok (fst e) = true /\ forallb be_tok_ok (snd e) = true) ->
  let acc := init_config (map (fun e => (render_ep (fst e), render (snd e))) eps) in
  forallb (fun e => spec_init_b (ph_names (fst e)) (ph_names (snd e)) acc) eps = true.
Proof. exact config_meets_oracle. Qed.
Print Assumptions C09_config_meets_oracle.

(* requests with a forwarded client query: the oracle only demands that the substituted
   url_pattern (placeholders in its path part or in its query part alike) is all there, followed
   by the forwarded query; the model's exact answer satisfies it *)
Theorem C09_routeq_model_meets_oracle : forall a segs be vals,
  wf_route segs be vals = true -> spec_routeq_b segs be vals (serve a segs be vals) = true.
Proof. exact routeq_meets_oracle. Qed.
Print Assumptions C09_routeq_model_meets_oracle.

(* oracle <-> model, oracle -> Prop *)
Theorem C09_model_meets_oracle : forall a segs be vals,
  wf_route segs be vals = true -> spec_route_b segs be vals (serve a segs be vals) = true.
Proof. exact route_meets_oracle. Qed.
Print Assumptions C09_model_meets_oracle.

Theorem C09_route_oracle_sound : forall segs be vals p,
  spec_route_b segs be vals (OPath p) = true ->
  ~ Undeclared (ph_names segs) (ph_names be) /\
  ((forall n, In n (ph_names be) -> In n (ph_names segs)) -> Substituted segs be vals p).
Proof. exact route_oracle_sound. Qed.
Print Assumptions C09_route_oracle_sound.

(* non-vacuity *)
Example C09_ex_grammar : grammar "user-Id_9".
Proof. vm_compute. reflexivity. Qed.
Example C09_ex_cap : config_cap "userId" = "UserId" /\ adapter_cap Gorilla "userId" = "UserId" /\ adapter_cap Gin "1abc" = "1abc".
Proof. vm_compute. auto. Qed.
Example C09_ex_whole_title_differs : title_und "userId" = "Userid".
Proof. vm_compute. reflexivity. Qed.
Example C09_ex_rejected : init "/u/{a}" "/b/{a}/{c}" = Rejected (RUndefined "c").
Proof. vm_compute. reflexivity. Qed.
Example C09_ex_seq_ref_passes : exists p k, init "/u/{a}" "/b/{resp0_x}" = Accepted p k.
Proof. vm_compute. eauto. Qed.
Example C09_ex_ambiguous_rejected : init "/u/{id}/{Id}" "/b/{id}/{Id}" = Rejected RAmbiguous.
Proof. vm_compute. reflexivity. Qed.
Example C09_ex_served :
  serve Treemux [Lit "u"; Ph "userId"; Ph "order-id"] [Lit "/b/"; Ph "order-id"; Lit "/x/"; Ph "userId"] ["u1"; "o2"]
  = OPath "/b/o2/x/u1".
Proof. vm_compute. reflexivity. Qed.
Example C09_ex_wf : wf_route [Lit "u"; Ph "userId"; Ph "order-id"] [Lit "/b/"; Ph "order-id"; Ph "userId"; Lit ".x/"; Ph "userId"] ["u~1"; "o.2"] = true.
Proof. vm_compute. reflexivity. Qed.
Example C09_ex_any_order :
  generate_path "/b/{{.Order-id}}/{{.UserId}}" [("UserId", "u1"); ("Order-id", "o2")] = "/b/o2/u1" /\
  generate_path "/b/{{.Order-id}}/{{.UserId}}" [("Order-id", "o2"); ("UserId", "u1")] = "/b/o2/u1".
Proof. vm_compute. auto. Qed.
Example C09_ex_collision : config_cap "id" = config_cap "Id".
Proof. vm_compute. reflexivity. Qed.
Example C09_ex_undeclared : Undeclared ["a"] ["a"; "c"].
Proof. exists "c". split; [simpl; auto|]. split; [reflexivity|]. simpl. intros [H|[]]. discriminate. Qed.
Example C09_ex_config_other_endpoints_param :
  init_config [("/a/{id}", "/o/{id}"); ("/b/{order}", "/o/{id}")] = false /\
  init_config [("/b/{order}", "/o/{id}"); ("/a/{id}", "/o/{id}")] = false /\
  init_config [("/a/{id}", "/o/{id}"); ("/b/{order}", "/o/{order}")] = true.
Proof. vm_compute. auto. Qed.
Example C09_ex_pair_with_middle :
  serve Gin [Lit "x"; Ph "id"; Ph "cat"; Ph "Id"] [Lit "/b/"; Ph "id"; Lit "/"; Ph "cat"; Lit "/"; Ph "Id"] ["1"; "tom"; "2"] = ORejected.
Proof. vm_compute. reflexivity. Qed.
Example C09_ex_long_name :
  serve Chi [Ph "nameWith-Long_tail0123456789nameW"] [Lit "/b/"; Ph "nameWith-Long_tail0123456789nameW"] ["v"] = OPath "/b/v".
Proof. vm_compute. reflexivity. Qed.
Example C09_ex_route_text :
  init_route true "/u/{userId}/x/{order-id}" = "/u/:userId/x/:order-id" /\
  init_route false "/u/{userId}/x/{order-id}" = "/u/{userId}/x/{order-id}".
Proof. vm_compute. auto. Qed.
Example C09_ex_router :
  match_route true "/u/:userId/x/:order-id" "/u/u1/x/o2" = Some [("userId", "u1"); ("order-id", "o2")] /\
  match_route false "/u/{userId}/x/{order-id}" "/u/u1/y/o2" = None.
Proof. vm_compute. auto. Qed.
Example C09_ex_occurs : occurs_placeholder out_char "JWT.sub" "/b/{JWT.sub}/x" /\ is_seq_ref "JWT.sub" /\ is_seq_ref "resp12_id".
Proof.
  split; [split; [discriminate|split; [reflexivity|exists "/b/", "/x"; reflexivity]]|].
  split; [right; right; exists "sub"; split; [reflexivity|discriminate]|].
  right; left; exists "12", "id"; repeat split; discriminate.
Qed.
Example C09_ex_placeholder_in_query_part :
  serve Gin [Lit "shop"; Ph "category"] [Lit "/search?category="; Ph "category"] ["books"] = OPath "/search?category=books" /\
  extends_b "/search?category=books" "/search?category=books&category=admin&q=go" = true /\
  extends_b "/search?category=books" "/search?category=admin&q=go" = false.
Proof. vm_compute. auto. Qed.
