(* C19 - Server shutdown is graceful: in-flight requests complete.
   Only theorem statements, each closed by an exact lemma, and Print Assumptions. *)
Require Import Verif.Common.Base.
Require Import Verif.Model.C19 Verif.Spec.C19 Verif.Proof.C19_a Verif.Proof.C19.

(* the trace monitor run on the observed traces decides exactly the property *)
Theorem C19_monitor_correct : forall t, graceful_b t = true <-> graceful t.
Proof. exact graceful_b_spec. Qed.
Print Assumptions C19_monitor_correct.

(* every schedule of the runner against the net/http contract - any number of requests, any
   position of the cancellation relative to arrivals and completions, any interleaving of
   the internal steps - is safe at every moment ... *)
Theorem C19_model_safe : forall ls s, run init ls = Some s -> safe ls.
Proof. exact model_safe. Qed.
Print Assumptions C19_model_safe.

(* ... and graceful once complete: requests accepted before the cancellation finished before
   the runner returned and their clients have the full response, nothing is accepted after
   the return, a listener error is returned *)
Theorem C19_model_graceful : forall ls s, run init ls = Some s -> final s -> graceful ls.
Proof. exact model_graceful. Qed.
Print Assumptions C19_model_graceful.

(* the property speaks of observable events only *)
Theorem C19_only_observables : forall t, graceful (filter observable t) <-> graceful t.
Proof. exact graceful_filter. Qed.
Print Assumptions C19_only_observables.

(* oracle <-> model: the monitor accepts what the harness would observe of any complete run *)
Theorem C19_model_meets_oracle : forall ls s, run init ls = Some s -> final s ->
  graceful_b (filter observable ls) = true.
Proof. exact model_meets_oracle. Qed.
Print Assumptions C19_model_meets_oracle.

(* a listener that cannot be started: the return step is enabled (the runner does not block)
   and, unless the context is cancelled, it is the runner's only move *)
Theorem C19_listen_error_returns : forall ls s,
  run init ls = Some s -> lis s = LFailed -> runner s = RSelect ->
  step s (RunnerReturn VListenErr) <> None /\
  (canc s = false -> forall e s', step s e = Some s' -> runner s' <> RSelect -> e = RunnerReturn VListenErr).
Proof. exact listen_error_returns. Qed.
Print Assumptions C19_listen_error_returns.

(* trace inclusion as evaluated on the observed traces is sound: an accepted trace is the
   observable part of a complete run of the model, hence graceful *)
Theorem C19_inclusion_sound : forall t, accepts_b t = true ->
  exists ls s, run init ls = Some s /\ final s /\ filter observable ls = t.
Proof. exact accepts_sound. Qed.
Print Assumptions C19_inclusion_sound.

Theorem C19_included_traces_graceful : forall t, accepts_b t = true -> graceful t.
Proof. exact accepts_graceful. Qed.
Print Assumptions C19_included_traces_graceful.

(* for every number n of requests there is a complete run of the model with all n of them in
   flight at the cancellation (the quantifier of C19 is not vacuous at any n) *)
Theorem C19_every_inflight_count_reachable : forall n,
  exists s, run init (inflight_run n) = Some s /\ final s /\
            forall r, r < n -> before (Accept r) Cancel (inflight_run n).
Proof. exact inflight_run_ok. Qed.
Print Assumptions C19_every_inflight_count_reachable.

(* Liveness, full statement (not proved here):
     forall ls s, run init ls = Some s -> canc s = true ->
       exists ls' s', run s ls' = Some s' /\ runner s' = RReturned /\
                      Forall (fun e => match e with Accept _ | HandlerDone _ | ShutdownCall
                                                   | ShutdownReturn _ | RunnerReturn _ => True | _ => False end) ls'
   (once cancelled, if the handlers finish, the runner returns).  Proved: the one-step part - after the
   cancellation, until the runner has returned, a step of the runner or of a pending handler
   is always enabled (the runner is never stuck, in any state). *)
Theorem C19_shutdown_progress_partial : forall s,
  canc s = true -> runner s <> RReturned ->
  (runner s = RSelect /\ step s ShutdownCall <> None) \/
  (runner s = RShutdown /\
   (step s (ShutdownReturn false) <> None \/
    exists r, step s (Accept r) <> None \/ step s (HandlerDone r) <> None)) \/
  (exists e, runner s = RShutRet e /\ step s (RunnerReturn (if e then VOther else VNil)) <> None).
Proof. exact shutdown_progress. Qed.
Print Assumptions C19_shutdown_progress_partial.

(* ---- non-vacuity ---- *)
(* a complete run with three requests in flight at the cancellation, one finished before, one
   late arrival that is still served, one attempt refused *)
Definition ex_run : list event :=
  [ListenOk; Conn 0; Conn 1; Conn 2; Conn 3; Accept 0; Accept 1; Accept 2; Accept 3; HandlerDone 3;
   ClientGot 3 true; Conn 7; Cancel; Accept 7; ShutdownCall; Refused; HandlerDone 1; HandlerDone 7;
   ClientGot 1 true; HandlerDone 0; HandlerDone 2; ShutdownReturn false; RunnerReturn VNil;
   ClientGot 0 true; ClientGot 2 true; ClientGot 7 true; Refused; ClientGot 9 false].
Example C19_ex_complete_run :
  match run init ex_run with Some s => final_b s | None => false end = true.
Proof. vm_compute. reflexivity. Qed.
Example C19_ex_observed_accepted :
  accepts_b (filter observable ex_run) = true /\ graceful_b (filter observable ex_run) = true.
Proof. vm_compute. split; reflexivity. Qed.
(* the listener fails: the hypotheses of C19_listen_error_returns are reachable *)
Example C19_ex_listen_fail :
  match run init [ListenFail] with
  | Some s => match lis s, runner s with LFailed, RSelect => true | _, _ => false end
  | None => false end = true /\
  accepts_b [ListenFail; RunnerReturn VListenErr] = true.
Proof. vm_compute. split; reflexivity. Qed.
(* the monitor rejects: return before an in-flight handler finished; truncated response; accept
   after the return; blocked on a listener error; nil on a listener error *)
Example C19_ex_monitor_rejects :
  graceful_b [Accept 0; Cancel; RunnerReturn VNil; HandlerDone 0; ClientGot 0 true] = false /\
  graceful_b [Accept 0; Cancel; HandlerDone 0; RunnerReturn VNil; ClientGot 0 false] = false /\
  graceful_b [Cancel; RunnerReturn VNil; Accept 5; HandlerDone 5; ClientGot 5 true] = false /\
  graceful_b [ListenFail] = false /\
  graceful_b [ListenFail; RunnerReturn VNil] = false /\
  graceful_b [Accept 0; Cancel; StillAccepting; HandlerDone 0; RunnerReturn VNil; ClientGot 0 true] = false.
Proof. vm_compute. repeat split; reflexivity. Qed.
(* ... and the model has no such run: the step that would produce it is disabled *)
Example C19_ex_model_blocks_early_return :
  run init [ListenOk; Conn 0; Accept 0; Cancel; ShutdownCall; ShutdownReturn false] = None.
Proof. vm_compute. reflexivity. Qed.
