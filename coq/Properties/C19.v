(* C19 - Server shutdown is graceful: in-flight requests complete.
   Only theorem statements, each closed by an exact lemma, and Print Assumptions. *)
Require Import Verif.Common.Base.
Require Import Verif.Model.C19 Verif.Spec.C19 Verif.Proof.C19_a Verif.Proof.C19 Verif.Proof.C19_b Verif.Proof.C19_c Verif.Proof.C19_d.

(* the trace monitor run on the observed traces decides exactly the property *)
Theorem C19_monitor_correct : forall t, graceful_b t = true <-> graceful t.
Proof. exact graceful_b_spec. Qed.
Print Assumptions C19_monitor_correct.

(* every schedule of the runner against the net/http contract - any number of requests, any
   position of the cancellation relative to arrivals and completions, any interleaving of
   the internal steps - is safe at every moment ... *)
Theorem C19_model_safe : forall ls s, run init ls = Some s -> safe ls.
Proof. exact model_safe. Qed.
Print Assumptions C19_model_safe.

(* ... and graceful once complete: requests accepted before the cancellation finished before
   the runner returned and their clients have the full response, nothing is accepted after
   the return, a listener error is returned *)
Theorem C19_model_graceful : forall ls s, run init ls = Some s -> final s -> graceful ls.
Proof. exact model_graceful. Qed.
Print Assumptions C19_model_graceful.

(* the property speaks of observable events only *)
Theorem C19_only_observables : forall t, graceful (filter observable t) <-> graceful t.
Proof. exact graceful_filter. Qed.
Print Assumptions C19_only_observables.

(* oracle <-> model: the monitor accepts what the harness would observe of any complete run *)
Theorem C19_model_meets_oracle : forall ls s, run init ls = Some s -> final s ->
  graceful_b (filter observable ls) = true.
Proof. exact model_meets_oracle. Qed.
Print Assumptions C19_model_meets_oracle.

(* a listener that cannot be started: the return step is enabled (the runner does not block)
   and, unless the context is cancelled, it is the runner's only move *)
Theorem C19_listen_error_returns : forall ls s,
  run init ls = Some s -> lis s = LFailed -> runner s = RSelect ->
  step s (RunnerReturn VListenErr) <> None /\
  (canc s = false -> forall e s', step s e = Some s' -> runner s' <> RSelect -> e = RunnerReturn VListenErr).
Proof. exact listen_error_returns. Qed.
Print Assumptions C19_listen_error_returns.

(* trace inclusion as evaluated on the observed traces is sound: an accepted trace is the
   observable part of a complete run of the model, hence graceful *)
Theorem C19_inclusion_sound : forall t, accepts_b t = true ->
  exists ls s, run init ls = Some s /\ final s /\ filter observable ls = t.
Proof. exact accepts_sound. Qed.
Print Assumptions C19_inclusion_sound.

Theorem C19_included_traces_graceful : forall t, accepts_b t = true -> graceful t.
Proof. exact accepts_graceful. Qed.
Print Assumptions C19_included_traces_graceful.

(* the inclusion check is complete on the traces the model generates: the observable part of every
   complete run is accepted (so a correspondence failure always means that the observed trace is NOT
   a trace of the model, never that the check failed to find the internal events) *)
Theorem C19_inclusion_complete : forall ls s, run init ls = Some s -> final s ->
  accepts_b (filter observable ls) = true.
Proof. exact accepts_complete. Qed.
Print Assumptions C19_inclusion_complete.

(* hence: accepts_b decides exactly "t is the observable part of a complete run of the model" *)
Theorem C19_inclusion_exact : forall t,
  accepts_b t = true <-> exists ls s, run init ls = Some s /\ final s /\ filter observable ls = t.
Proof. exact accepts_exact. Qed.
Print Assumptions C19_inclusion_exact.

(* for every number n of requests there is a complete run of the model with all n of them in
   flight at the cancellation (the quantifier of C19 is not vacuous at any n) *)
Theorem C19_every_inflight_count_reachable : forall n,
  exists s, run init (inflight_run n) = Some s /\ final s /\
            forall r, r < n -> before (Accept r) Cancel (inflight_run n).
Proof. exact inflight_run_ok. Qed.
Print Assumptions C19_every_inflight_count_reachable.

(* Liveness.  The one-step part first (kept under its original name; the full statement is
   C19_shutdown_terminates below): after the cancellation, until the runner has returned, a step
   of the runner or of a pending handler is always enabled (the runner is never stuck, in any state). *)
Theorem C19_shutdown_progress_partial : forall s,
  canc s = true -> runner s <> RReturned ->
  (runner s = RSelect /\ step s ShutdownCall <> None) \/
  (runner s = RShutdown /\
   (step s (ShutdownReturn false) <> None \/
    exists r, step s (Accept r) <> None \/ step s (HandlerDone r) <> None)) \/
  (exists e, runner s = RShutRet e /\ step s (RunnerReturn (if e then VOther else VNil)) <> None).
Proof. exact shutdown_progress. Qed.
Print Assumptions C19_shutdown_progress_partial.

(* ---- termination of the shutdown (measure argument, no fairness needed) ----
   measure s = 2 per connection whose request has not started + 1 per running handler + the phase of
   the runner (3 in the select, 2 inside Shutdown, 1 when Shutdown has returned, 0 returned).
   progress_step = the steps of the runner, of the pending handlers and of the connections not yet
   served: Accept, HandlerDone, Drop, ShutdownCall, ShutdownReturn, RunnerReturn. *)

(* every such step strictly decreases the measure (in any state) *)
Theorem C19_measure_decreases : forall s e s',
  step s e = Some s' -> progress_step e = true -> measure s' < measure s.
Proof. exact measure_decreases. Qed.
Print Assumptions C19_measure_decreases.

(* every other step leaves it unchanged, except a newly dialled connection (+2); after Shutdown
   was called no connection can be dialled at all (Conn needs the listener open) *)
Theorem C19_measure_neutral : forall s e s',
  step s e = Some s' -> progress_step e = false -> is_conn e = false -> measure s' = measure s.
Proof. exact measure_neutral. Qed.
Print Assumptions C19_measure_neutral.

(* hence in every schedule from a cancelled state in which no new connection is dialled at most
   measure-many steps of the runner and of the pending handlers happen, whatever else is interleaved *)
Theorem C19_bounded_progress : forall ls s s',
  run s ls = Some s' -> canc s = true -> forallb (fun e => negb (is_conn e)) ls = true ->
  count_progress ls + measure s' <= measure s.
Proof. exact bounded_progress. Qed.
Print Assumptions C19_bounded_progress.

(* a cancelled state in which no step of the runner or of a pending handler is enabled has the runner
   returned: every maximal such schedule ends with the return (environment assumption, made explicit
   by "maximal": a handler that can finish eventually does) *)
Theorem C19_stuck_means_returned : forall s, canc s = true ->
  (forall e, progress_step e = true -> step s e = None) -> runner s = RReturned.
Proof. exact stuck_means_returned. Qed.
Print Assumptions C19_stuck_means_returned.

(* the full liveness statement: once cancelled, if the handlers finish, the runner returns - within
   measure-many steps, all of them steps of the runner or of pending handlers *)
Theorem C19_shutdown_terminates : forall s, canc s = true ->
  exists ls s', run s ls = Some s' /\ runner s' = RReturned /\
                Forall (fun e => progress_step e = true) ls /\ List.length ls <= measure s.
Proof. exact shutdown_terminates. Qed.
Print Assumptions C19_shutdown_terminates.

(* once Shutdown has returned the return of the runner is enabled and stays enabled until taken *)
Theorem C19_return_stays_enabled : forall s x, runner s = RShutRet x ->
  step s (RunnerReturn (if x then VOther else VNil)) <> None /\
  forall e s', step s e = Some s' ->
    (e = RunnerReturn (if x then VOther else VNil) /\ runner s' = RReturned) \/ runner s' = RShutRet x.
Proof. exact return_stays_enabled. Qed.
Print Assumptions C19_return_stays_enabled.

(* ---- connections that take the h2c upgrade (recorded finding use-h2c-upgraded-connection-not-drained) ----
   The extended system (Model: xstep) runs the base system next to the requests whose connection was
   hijacked by the h2c handler; Shutdown's quiescence test does not see them. *)

(* the finding, with its witness history: use_h2c on, one request on an upgraded connection in flight
   at the cancellation - the run is complete, its observable trace is exactly the recorded history, and
   it violates "the runner returns only after those requests have finished" *)
Theorem C19_h2c_upgrade_refuted :
  exists s, xrun true xinit h2c_witness = Some s /\ final (xb s) /\
            xtrace h2c_witness = [Accept 0; Cancel; RunnerReturn VNil; HandlerDone 0; ClientGot 0 true; Refused] /\
            ~ G1 (xtrace h2c_witness) /\ ~ graceful (xtrace h2c_witness).
Proof. exact h2c_upgrade_refuted. Qed.
Print Assumptions C19_h2c_upgrade_refuted.

(* the property for every schedule without upgraded connections, use_h2c on or off *)
Theorem C19_no_upgrade_graceful : forall h xs s,
  xrun h xinit xs = Some s -> forallb is_base xs = true -> final (xb s) -> graceful (xtrace xs).
Proof. exact no_upgrade_graceful. Qed.
Print Assumptions C19_no_upgrade_graceful.

(* with use_h2c off (the default) the offer is ignored, nothing is hijacked: every schedule *)
Theorem C19_h2c_off_graceful : forall xs s,
  xrun false xinit xs = Some s -> final (xb s) -> graceful (xtrace xs).
Proof. exact h2c_off_graceful. Qed.
Print Assumptions C19_h2c_off_graceful.

(* even with upgraded connections around, the requests that did not take the upgrade keep the whole
   property: the base part of every extended run is graceful *)
Theorem C19_non_upgraded_requests_graceful : forall h xs s,
  xrun h xinit xs = Some s -> final (xb s) -> graceful (filter observable (unbase xs)).
Proof. exact base_part_graceful. Qed.
Print Assumptions C19_non_upgraded_requests_graceful.

(* oracle <-> extended model, for the case kinds without upgraded requests *)
Theorem C19_ext_model_meets_oracle : forall h xs s,
  xrun h xinit xs = Some s -> forallb is_base xs = true -> final (xb s) -> graceful_b (xtrace xs) = true.
Proof. exact ext_model_meets_oracle. Qed.
Print Assumptions C19_ext_model_meets_oracle.

(* the inclusion check used on the observed traces of the finding (upgraded requests named) is sound *)
Theorem C19_upgraded_inclusion_sound : forall ups t, xaccepts_b ups t = true ->
  exists xs s, xrun true xinit xs = Some s /\ final (xb s) /\ xtrace xs = t.
Proof. exact xaccepts_sound. Qed.
Print Assumptions C19_upgraded_inclusion_sound.

(* server timeouts (read, read-header, idle) close connections: in the model that is Drop, which is
   enabled only for a connection whose request has not started and touches neither a running or
   finished request nor the runner or the listener *)
Theorem C19_timeout_close_spares_inflight : forall s r s', step s (Drop r) = Some s' ->
  getq r (reqs s) = Some QConn /\ lis s' = lis s /\ canc s' = canc s /\ runner s' = runner s /\
  forall r', started (getq r' (reqs s)) -> getq r' (reqs s') = getq r' (reqs s).
Proof. exact drop_spares_started. Qed.
Print Assumptions C19_timeout_close_spares_inflight.

(* ---- non-vacuity ---- *)
(* a complete run with three requests in flight at the cancellation, one finished before, one
   late arrival that is still served, one attempt refused *)
Definition ex_run : list event :=
  [ListenOk; Conn 0; Conn 1; Conn 2; Conn 3; Accept 0; Accept 1; Accept 2; Accept 3; HandlerDone 3;
   ClientGot 3 true; Conn 7; Cancel; Accept 7; ShutdownCall; Refused; HandlerDone 1; HandlerDone 7;
   ClientGot 1 true; HandlerDone 0; HandlerDone 2; ShutdownReturn false; RunnerReturn VNil;
   ClientGot 0 true; ClientGot 2 true; ClientGot 7 true; Refused; ClientGot 9 false].
Example C19_ex_complete_run :
  match run init ex_run with Some s => final_b s | None => false end = true.
Proof. vm_compute. reflexivity. Qed.
Example C19_ex_observed_accepted :
  accepts_b (filter observable ex_run) = true /\ graceful_b (filter observable ex_run) = true.
Proof. vm_compute. split; reflexivity. Qed.
(* the listener fails: the hypotheses of C19_listen_error_returns are reachable *)
Example C19_ex_listen_fail :
  match run init [ListenFail] with
  | Some s => match lis s, runner s with LFailed, RSelect => true | _, _ => false end
  | None => false end = true /\
  accepts_b [ListenFail; RunnerReturn VListenErr] = true.
Proof. vm_compute. split; reflexivity. Qed.
(* the monitor rejects: return before an in-flight handler finished; truncated response; accept
   after the return; blocked on a listener error; nil on a listener error *)
Example C19_ex_monitor_rejects :
  graceful_b [Accept 0; Cancel; RunnerReturn VNil; HandlerDone 0; ClientGot 0 true] = false /\
  graceful_b [Accept 0; Cancel; HandlerDone 0; RunnerReturn VNil; ClientGot 0 false] = false /\
  graceful_b [Cancel; RunnerReturn VNil; Accept 5; HandlerDone 5; ClientGot 5 true] = false /\
  graceful_b [ListenFail] = false /\
  graceful_b [ListenFail; RunnerReturn VNil] = false /\
  graceful_b [Accept 0; Cancel; StillAccepting; HandlerDone 0; RunnerReturn VNil; ClientGot 0 true] = false.
Proof. vm_compute. repeat split; reflexivity. Qed.
(* ... and the model has no such run: the step that would produce it is disabled *)
Example C19_ex_model_blocks_early_return :
  run init [ListenOk; Conn 0; Accept 0; Cancel; ShutdownCall; ShutdownReturn false] = None.
Proof. vm_compute. reflexivity. Qed.

(* the history the harness observes of the finding is a trace of the extended system, not of the base one *)
Example C19_ex_finding_history :
  xaccepts_b [0] [Accept 0; Cancel; RunnerReturn VNil; HandlerDone 0; Refused; ClientGot 0 true; Refused] = true /\
  accepts_b [Accept 0; Cancel; RunnerReturn VNil; HandlerDone 0; Refused; ClientGot 0 true; Refused] = false.
Proof. vm_compute. split; reflexivity. Qed.
