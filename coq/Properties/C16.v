(* C16 - Shadow backends never influence the client response.
   Only theorem statements, each closed by an exact lemma, and Print Assumptions. *)
Require Import Verif.Common.Base Verif.Common.Json Verif.Common.Ctx Verif.Common.Heap.
Require Import Verif.Model.C16 Verif.Spec.C16 Verif.Proof.C16 Verif.Proof.C16_ni Verif.Proof.C16_call Verif.Proof.C16_oracle.
Require Import Verif.Corr.C16.
Close Scope Z_scope.

(* ---- invariance ---- *)

(* the shadow proxy: for every regular proxy p1, every shadow timeout, time, caller context
   and request, the caller gets exactly p1's result on the unchanged request (the shadow
   proxy's behaviour is not even an argument: its result is dropped) *)
Theorem C16_invariance_proxy : forall R (p1 : ctx -> request -> R) tk now timeout c r,
  Invariant (fst (shadow_proxy p1 tk now timeout c r)) (p1 c r).
Proof. exact @shadow_proxy_result. Qed.
Print Assumptions C16_invariance_proxy.

(* the endpoint built by shadowFactory.New, for every list of backends (every split, every
   shape of extra_config) and every wrapped factory F: the caller's result is the one of the
   endpoint F builds for the regular backends only *)
Theorem C16_invariance : forall R (F : list backend -> ctx -> request -> R) bs tk now c r,
  bs <> [] ->
  option_map fst (endpoint_call F bs tk now c r) =
  Some (F (filter (fun b => negb (snd (is_shadow_backend b))) bs) c r).
Proof. exact @endpoint_invariant. Qed.
Print Assumptions C16_invariance.

(* and so is the error of New (ferr: the wrapped factory; it rejects an empty list) *)
Theorem C16_invariance_new : forall E (nb : E) (ferr : list nat -> option E) bs,
  ferr [] = Some nb ->
  new_error nb ferr bs = ferr (ids (filter (fun b => negb (snd (is_shadow_backend b))) bs)).
Proof. exact @new_error_invariant. Qed.
Print Assumptions C16_invariance_new.

(* non-interference on the request's objects (Common/Heap.v, H1).  The call is the fork tree
   "CloneRequest; go shadow; regular".  For EVERY shadow pipeline sp and regular pipeline rp
   (arbitrary fork trees) that keep to the ownership discipline - the shadow side touches the
   clone, its own allocations, and only READS the one object CloneRequest shares, the Query
   map; the regular side touches the client's request and its own allocations and does not
   write the Query map - and for EVERY interleaving of all goroutines:
   (a) the call is free of conflicting unordered accesses;
   (b) the caller's goroutine reads, after the reads of CloneRequest, exactly what it reads
       in the endpoint without shadow backends (rp alone on the same heap);
   (c) every goroutine the regular pipeline spawns (thread ids whose first fork number is
       >= 1: number 0 is the shadow goroutine) reads exactly the log the schedule-free
       semantics gives it for rp ALONE on the original heap - [kids rp [] (heap_of r) 1], the
       threads of rp numbered from 1 - a set that mentions neither sp nor the schedule.
   [log t ++ exp_log (rem t) (shadow t)] is the thread's complete read log: what it has read
   plus what it is bound to read; for a finished thread it is [log t]. *)
Theorem C16_noninterference : forall r sp rp sched s,
  shadow_disciplined sp = true -> regular_disciplined rp = true ->
  race_free hobj_eqb sp = true -> race_free hobj_eqb rp = true ->
  run hobj_eqb (init (shadowed_prog r sp rp) (heap_of r)) sched = Some s ->
  race_free hobj_eqb (shadowed_prog r sp rp) = true /\
  (forall t, In t (pool s) -> tid t = [] ->
     (log t ++ exp_log hobj_eqb (rem t) (shadow t))%list =
     (clone_reads r ++ exp_log hobj_eqb rp (heap_of r))%list) /\
  (forall t, In t (pool s) -> regular_thread (tid t) = true ->
     In (tid t, (log t ++ exp_log hobj_eqb (rem t) (shadow t))%list)
        (kids hobj_eqb rp [] (heap_of r) 1)).
Proof. exact noninterference. Qed.
Print Assumptions C16_noninterference.

(* the default backend stack keeps to the discipline on both sides, for every combination of
   filters and GraphQL stage (after the repair of the GraphQL middleware) ... *)
Theorem C16_default_stack_disciplined : forall k,
  shadow_disciplined (shadow_stack k) = true /\ regular_disciplined (regular_stack k) = true /\
  race_free hobj_eqb (shadow_stack k) = true /\ race_free hobj_eqb (regular_stack k) = true.
Proof. exact default_stack_disciplined. Qed.
Print Assumptions C16_default_stack_disciplined.

(* ... whereas the GraphQL GET stage as it was before the repair, on the shadow side, breaks
   it: the call then has a conflicting unordered pair (shadow writes / regular reads Query) *)
Theorem C16_unrepaired_graphql_get_refuted : exists r rp,
  regular_disciplined rp = true /\
  shadow_disciplined (map Acc (unrepaired_gql_get_accs (root_view OClone (cl FQry)))) = false /\
  race_free hobj_eqb (shadowed_prog r (map Acc (unrepaired_gql_get_accs (root_view OClone (cl FQry)))) rp) = false.
Proof. exact unrepaired_refuted. Qed.
Print Assumptions C16_unrepaired_graphql_get_refuted.

(* sequential merges (two backends each, every combination of filters / GraphQL stages, deep or
   shallow fan-out clones) write the propagated values into the Params map of the request they
   were handed: the clone's on the shadow side, the client's on the regular side - both keep
   to the discipline ... *)
Theorem C16_sequential_merge_disciplined : forall deep k1 k2,
  shadow_disciplined (shadow_seq deep k1 k2) = true /\
  regular_disciplined (regular_seq deep k1 k2) = true /\
  race_free hobj_eqb (shadow_seq deep k1 k2) = true /\ race_free hobj_eqb (regular_seq deep k1 k2) = true.
Proof. exact sequential_merge_disciplined. Qed.
Print Assumptions C16_sequential_merge_disciplined.

(* ... so for every schedule the caller's goroutine, which runs the regular sequential merge,
   reads what it reads in the endpoint without shadow backends *)
Theorem C16_sequential_noninterference : forall r d1 d2 k1 k2 k3 k4 sched s,
  run hobj_eqb (init (shadowed_prog r (shadow_seq d1 k1 k2) (regular_seq d2 k3 k4)) (heap_of r)) sched = Some s ->
  race_free hobj_eqb (shadowed_prog r (shadow_seq d1 k1 k2) (regular_seq d2 k3 k4)) = true /\
  forall t, In t (pool s) -> tid t = [] ->
    (log t ++ exp_log hobj_eqb (rem t) (shadow t))%list =
    (clone_reads r ++ exp_log hobj_eqb (regular_seq d2 k3 k4) (heap_of r))%list.
Proof. exact sequential_noninterference. Qed.
Print Assumptions C16_sequential_noninterference.

(* header VALUE SLICES (the backing arrays `h[k][i] = v` writes) are objects of their own:
   CloneRequestHeaders copies the elements, so a shadow-side stage that rewrites header values
   in place stays inside the discipline (hence, by C16_noninterference, is invisible to the
   regular pipeline under every schedule) ... *)
Theorem C16_inplace_header_writer_ok :
  shadow_disciplined (map Acc (inplace_header_writer (sh FHdr) (sh FHdrVals))) = true /\
  race_free hobj_eqb (map Acc (inplace_header_writer (sh FHdr) (sh FHdrVals))) = true.
Proof. exact inplace_writer_disciplined. Qed.
Print Assumptions C16_inplace_header_writer_ok.

(* ... whereas with a clone that only copies the map (value slices aliased) the same stage
   breaks the discipline and the call has a conflicting unordered pair *)
Theorem C16_shared_value_slices_refuted : exists r rp,
  regular_disciplined rp = true /\
  shadow_disciplined (map Acc (inplace_header_writer (sh FHdr) (cl FHdrVals))) = false /\
  race_free hobj_eqb
    (map Acc (aliasing_clone_accs r) ++ Fork (map Acc (inplace_header_writer (sh FHdr) (cl FHdrVals))) :: rp)%list = false.
Proof. exact aliasing_clone_refuted. Qed.
Print Assumptions C16_shared_value_slices_refuted.

(* ---- one call as a transition system: the shadow proxy's answer is an explicit event ----
   For EVERY run of the call (every interleaving of the caller's steps - synchronous
   CloneRequest, spawn, regular proxy returns - with the shadow goroutine's steps: p2 returning
   ANY value at ANY point, before the regular proxy, after the caller has returned, or never,
   then cancel(); and with the client's context being cancelled at any point):
   (1) the run with every shadow event erased is a run too and gives the caller the same result
       in the same phase;
   (2) the regular proxy is handed the request with its whole body (the copy is made before it
       starts), the shadow request is a full copy;
   (3) the caller's result is the regular proxy's on that request. *)
Theorem C16_call_noninfluence : forall R S (p1 : bool -> request -> R) r (ls : list (plabel S)) (s : cstate R S),
  crun p1 (cinit r) ls = Some s ->
  (exists s0, crun p1 (cinit r) (erase S ls) = Some s0 /\ c_result s0 = c_result s /\ c_phase s0 = c_phase s) /\
  c_src s = r /\ (c_phase s <> PStart -> c_clone s = Some r) /\
  (forall x, c_result s = Some x -> exists cc, x = p1 cc r).
Proof. exact call_noninfluence. Qed.
Print Assumptions C16_call_noninfluence.

(* two runs that differ only in what the shadow side did - the values p2 returned, when, or
   whether it returned at all - give the caller the same *)
Theorem C16_call_any_shadow : forall R S (p1 : bool -> request -> R) r (ls1 ls2 : list (plabel S)) (s1 s2 : cstate R S),
  erase S ls1 = erase S ls2 ->
  crun p1 (cinit r) ls1 = Some s1 -> crun p1 (cinit r) ls2 = Some s2 ->
  c_result s1 = c_result s2.
Proof. exact call_any_shadow. Qed.
Print Assumptions C16_call_any_shadow.

(* late answers: once the caller has returned, no later event (a shadow answer, cancel(), the
   client's cancellation) changes what it got *)
Theorem C16_late_answer : forall R S (p1 : bool -> request -> R) (ls : list (plabel S)) (s s' : cstate R S),
  c_phase s = PReturned -> crun p1 s ls = Some s' ->
  c_phase s' = PReturned /\ c_result s' = c_result s.
Proof. exact result_stable. Qed.
Print Assumptions C16_late_answer.

(* the shadow context's cancel() happens only after p2 has returned, whatever the client does *)
Theorem C16_shadow_cancel_after_return : forall R S (p1 : bool -> request -> R) r (ls : list (plabel S)) (s : cstate R S),
  crun p1 (cinit r) ls = Some s -> c_shadow_cancelled s = true -> c_shadow_value s <> None.
Proof. exact @shadow_cancel_after_return_init. Qed.
Print Assumptions C16_shadow_cancel_after_return.

(* ---- full copy ---- *)
(* CloneRequest: the argument keeps its contents (so the regular pipeline reads the whole
   body), the clone has the same contents: method, headers, query, params, body *)
Theorem C16_body_copy : forall r,
  clone_request r = (r, r) /\
  forall R (p1 : ctx -> request -> R) tk now timeout c,
    FullCopy r (snd (shadow_proxy p1 tk now timeout c r)).
Proof. exact body_copy. Qed.
Print Assumptions C16_body_copy.

(* whereas a copy buffer pre-sized with length n > 0 (instead of capacity) changes the body the
   regular pipeline and the shadow pipeline read *)
Theorem C16_presized_clone_refuted : forall n r b,
  q_body r = Some b -> n <> 0 ->
  q_body (fst (clone_request_presized n r)) <> q_body r /\ q_body (snd (clone_request_presized n r)) <> q_body r.
Proof. exact presized_clone_refuted. Qed.
Print Assumptions C16_presized_clone_refuted.

(* what the endpoint starts the shadow pipeline with: the full request, under the context
   WithTimeout(Background, max of the shadow backends' durations) *)
Theorem C16_spawned : forall R (F : list backend -> ctx -> request -> R) bs tk now c r x s,
  endpoint_call F bs tk now c r = Some (x, Some s) ->
  s_req s = r /\ s_ctx s = shadow_ctx tk now (maxdur bs 0%Z) /\
  filter (fun b => snd (is_shadow_backend b)) bs <> [].
Proof. exact @endpoint_spawned. Qed.
Print Assumptions C16_spawned.

(* ---- the split and the timeout ---- *)
Theorem C16_split : forall bs reg sh mx,
  shadow_split bs = (reg, sh, mx) ->
  reg = filter (fun b => negb (snd (is_shadow_backend b))) bs /\
  sh = filter (fun b => snd (is_shadow_backend b)) bs /\
  (forall b, In b bs <-> In b reg \/ In b sh) /\
  (forall b, In b reg -> In b sh -> False) /\
  List.length reg + List.length sh = List.length bs.
Proof. exact split_partition. Qed.
Print Assumptions C16_split.

Theorem C16_is_shadow : forall b,
  snd (is_shadow_backend b) = true <-> exists t, b_ns b = NsMap (FBool true) t.
Proof. exact shadowb_iff. Qed.
Print Assumptions C16_is_shadow.

(* the endpoint's shadow timeout is the maximum of the shadow backends' durations: an upper
   bound of each, and one of them (0 when none is positive) *)
Theorem C16_max_timeout : forall bs,
  (forall b, In b bs -> snd (is_shadow_backend b) = true -> (fst (is_shadow_backend b) <= maxdur bs 0%Z)%Z) /\
  (maxdur bs 0%Z = 0%Z \/
   exists b, In b bs /\ snd (is_shadow_backend b) = true /\ maxdur bs 0%Z = fst (is_shadow_backend b)).
Proof. exact max_timeout. Qed.
Print Assumptions C16_max_timeout.

(* New does not modify the configuration value it is given: however often a proxy is built
   from the same configuration, every build is the first one (same regular list handed to the
   wrapped factory, same shadow list, same timeout) and the configuration is unchanged *)
Theorem C16_rebuild : forall n bs, rebuilds n bs = (repeat (shadow_new bs) n, bs).
Proof. exact rebuilds_same. Qed.
Print Assumptions C16_rebuild.

(* whereas filtering the regular backends in place over the caller's array builds the right
   proxy once and then, from [shadow; regular], an endpoint without shadow backend that calls
   the regular backend twice *)
Theorem C16_inplace_filter_refuted : exists bs,
  fst (new_inplace bs) = BShadowed [rb_reg] [rb_sh] 2000%Z /\
  snd (new_inplace bs) <> bs /\
  fst (new_inplace (snd (new_inplace bs))) = BPlain [rb_reg; rb_reg].
Proof. exact inplace_filter_refuted. Qed.
Print Assumptions C16_inplace_filter_refuted.

(* one endpoint serving a history: whatever shadow calls are in flight (hung, any number),
   a client call gets what the endpoint without shadow backends gives - for every history
   length, shadow calls ending at any point or never *)
Theorem C16_serve_independent : forall R (F : list backend -> ctx -> request -> R) bs inflight tk now c r,
  bs <> [] ->
  fst (serve F bs inflight tk now c r) = Some (F (filter (fun b => negb (snd (is_shadow_backend b))) bs) c r).
Proof. exact @serve_independent. Qed.
Print Assumptions C16_serve_independent.

Theorem C16_history_independent : forall R (F : list backend -> ctx -> request -> R) bs es,
  bs <> [] -> forall inflight,
  history F bs inflight es = calls_of F (filter (fun b => negb (snd (is_shadow_backend b))) bs) es.
Proof. exact @history_independent. Qed.
Print Assumptions C16_history_independent.

(* whereas a bound on the shadow calls in flight that is acquired on the caller's path makes
   the client call wait (no result) once [cap] shadow calls are pending, for every cap *)
Theorem C16_bounded_inflight_refuted : forall R cap (F : list backend -> ctx -> request -> R) bs reg sh t inflight tk now c r,
  shadow_new bs = BShadowed reg sh t -> cap <= List.length inflight ->
  fst (serve_bounded cap F bs inflight tk now c r) = None.
Proof. exact @bounded_blocks. Qed.
Print Assumptions C16_bounded_inflight_refuted.

(* ---- detached and bounded ---- *)
(* whatever cancel functions are called outside (every frame of the client's context, in any
   order, at any time), the shadow context is not done before its own deadline *)
Theorem C16_detached : forall (client : ctx) cs now tk t0 timeout s,
  s_ctx s = shadow_ctx tk t0 timeout ->
  (forall t, In t cs -> exists f, In f client /\ Ctx.tok f = t) ->
  (forall f, In f client -> Ctx.tok f <> tk) ->
  (now < t0 + timeout)%Z ->
  Detached cs now s.
Proof. exact spawned_detached. Qed.
Print Assumptions C16_detached.

(* a context derived from the client's (the mutation "run the shadow under the client
   context") would be done as soon as any frame of the client's context is cancelled *)
Theorem C16_derived_would_die : forall (client : ctx) cs now tk t0 timeout f,
  In f client -> In (Ctx.tok f) cs -> done cs now (with_timeout client tk t0 timeout) = true.
Proof. exact derived_ctx_dies. Qed.
Print Assumptions C16_derived_would_die.

Theorem C16_bounded : forall tk t0 timeout s,
  s_ctx s = shadow_ctx tk t0 timeout -> Bounded t0 timeout s.
Proof. exact spawned_bounded. Qed.
Print Assumptions C16_bounded.

(* at a shadow BACKEND (behind the shadow pipeline's merge when there are two or more) *)
Theorem C16_bounded_backend : forall n tk tk2 t0 t1 timeout ep,
  (t0 <= t1)%Z ->
  (forall cs now, (t0 + timeout <= now)%Z -> done cs now (shadow_backend_ctx n tk tk2 t0 t1 timeout ep) = true) /\
  deadline (shadow_backend_ctx n tk tk2 t0 t1 timeout ep) =
    Some (if (2 <=? n)%nat then Z.min (t0 + timeout) (t1 + merge_timeout ep) else (t0 + timeout))%Z.
Proof. exact shadow_backend_ctx_bounded. Qed.
Print Assumptions C16_bounded_backend.

(* ---- oracle <-> model, oracle -> Prop ---- *)
(* the interval test of the correspondence/oracle is implied by the model's deadline whenever
   the two context creations happened inside the bracket the harness measured *)
Theorem C16_deadline_interval : forall n t0 t1 timeout ep seen d,
  (0 <= t0)%Z -> (t0 <= t1)%Z -> (t1 <= seen)%Z ->
  d = (if (2 <=? n)%nat then Z.min (t0 + timeout) (t1 + merge_timeout ep) else (t0 + timeout))%Z ->
  (expected_rel_deadline n timeout ep <= d)%Z /\ (d <= seen + expected_rel_deadline n timeout ep)%Z /\
  (d <= seen + timeout)%Z.
Proof. exact expected_deadline_interval. Qed.
Print Assumptions C16_deadline_interval.

(* the model's own observations pass the oracle: a shadow backend stub that sees what the
   model says (the handed request, private objects, the model's deadline, a live context
   after the client ended, the deadline error at the end) is accepted, for every input *)
Theorem C16_model_meets_oracle : forall T req b hang id seen t0 tc tf,
  (0 <= t0)%Z -> (t0 <= seen)%Z -> (tc < t0 + T)%Z -> (t0 + T <= tf)%Z ->
  spec_shadow_b T req true b hang (model_sobs T req b id seen t0 tc tf) = true.
Proof. exact model_meets_oracle. Qed.
Print Assumptions C16_model_meets_oracle.

(* the same for the other case kinds the generator emits *)
(* CRun / CSeqRun *)
Theorem C16_run_model_meets_oracle : forall bs req outs plain regs seen t0 tc tf,
  let T := match shadow_new bs with BShadowed _ _ t => t | _ => 0%Z end in
  wf_cres plain -> (0 <= t0)%Z -> (t0 <= seen)%Z -> (tc < t0 + T)%Z -> (t0 + T <= tf)%Z ->
  spec_run_b bs req true outs plain plain regs regs
    (map (fun b => model_sobs T req b (b_id b) seen t0 tc tf) (shadow_of (shadow_new bs))) = true.
Proof. exact run_model_meets_oracle. Qed.
Print Assumptions C16_run_model_meets_oracle.

(* CHist: for every history length *)
Theorem C16_hist_model_meets_oracle : forall bs hist plain,
  bs <> [] -> wf_cres plain -> check_hist bs hist false false plain plain = (true, true).
Proof. exact hist_model_meets_oracle. Qed.
Print Assumptions C16_hist_model_meets_oracle.

(* CNew *)
Theorem C16_new_model_meets_oracle : forall bs,
  spec_new_b (default_ferr (ids (regular_of (shadow_new bs)))) (new_error "no_backends" default_ferr bs) = true.
Proof. exact new_model_meets_oracle. Qed.
Print Assumptions C16_new_model_meets_oracle.

Theorem C16_oracle_sound : forall T req fc b hang s,
  spec_shadow_b T req fc b hang s = true -> ShadowCallOK T req b hang s.
Proof. exact spec_shadow_sound. Qed.
Print Assumptions C16_oracle_sound.

(* the run-level oracle: accepted runs have equal client results, equal regular calls, and
   every shadow backend of the configuration accounted for *)
Theorem C16_run_oracle_sound : forall bs req fc outs plain shadowed pregs sregs shs,
  spec_run_b bs req fc outs plain shadowed pregs sregs shs = true ->
  cres_eqb plain shadowed = true /\ list_eqb robs_eqb pregs sregs = true /\
  map so_id shs = ids (filter (fun b => snd (is_shadow_backend b)) bs) /\
  Forall (fun s => exists b, In b bs /\ b_id b = so_id s /\
                   ShadowCallOK (match shadow_new bs with BShadowed _ _ t => t | _ => 0%Z end) req b (is_hang outs (b_id b)) s) shs.
Proof. exact run_oracle_sound. Qed.
Print Assumptions C16_run_oracle_sound.

(* ---- non-vacuity ---- *)
Definition ex_reg : backend := {| b_id := 0; b_timeout := 2000; b_ns := NsAbsent; b_method := "GET" |}.
Definition ex_sh1 : backend := {| b_id := 1; b_timeout := 2000; b_ns := NsMap (FBool true) (TStr (Some 10000%Z)); b_method := "POST" |}.
Definition ex_sh2 : backend := {| b_id := 2; b_timeout := 3000; b_ns := NsMap (FBool true) (TStr None); b_method := "GET" |}.
Definition ex_not : backend := {| b_id := 3; b_timeout := 2000; b_ns := NsMap FNotBool (TStr (Some 5%Z)); b_method := "GET" |}.
Definition ex_req : request := {| q_method := "POST"; q_path := "/e"; q_hdr := [("X-A", ["1"])]; q_qry := [("x", ["1"])]; q_par := [("Id", "7")]; q_body := Some "body" |}.

Example C16_ex_split :
  shadow_new [ex_sh1; ex_reg; ex_sh2; ex_not] = BShadowed [ex_reg; ex_not] [ex_sh1; ex_sh2] 10000%Z.
Proof. vm_compute. reflexivity. Qed.
Example C16_ex_all_shadow_error :
  new_error "no_backends" (fun l => match l with [] => Some "no_backends" | _ => None end) [ex_sh1; ex_sh2] = Some "no_backends".
Proof. vm_compute. reflexivity. Qed.
Example C16_ex_call :
  endpoint_call (fun reg _ r => (ids reg, q_body r)) [ex_sh1; ex_reg] 7 100%Z background ex_req =
  Some (([0], Some "body"), Some {| s_ctx := [{| Ctx.tok := 7; dl := Some 10100%Z |}]; s_req := ex_req |}).
Proof. vm_compute. reflexivity. Qed.
(* the hypotheses of C16_noninterference are satisfiable by the default stacks, with a body
   and a GraphQL GET shadow *)
Example C16_ex_discipline :
  let k := {| k_qs := true; k_hs := true; k_gql := GGet false |} in
  shadow_disciplined (shadow_stack k) = true /\ regular_disciplined (regular_stack k) = true /\
  race_free hobj_eqb (shadowed_prog ex_req (shadow_stack k) (regular_stack k)) = true.
Proof. vm_compute. repeat split. Qed.
Example C16_ex_detached :
  done [1; 2] 5000%Z (shadow_ctx 7 100%Z 10000%Z) = false /\
  done [1; 2] 5000%Z (with_timeout [{| Ctx.tok := 1; dl := None |}] 7 100%Z 10000%Z) = true /\
  done [1; 2] 10100%Z (shadow_ctx 7 100%Z 10000%Z) = true.
Proof. vm_compute. repeat split. Qed.

(* a run with a late garbage answer: the client is gone, then the shadow proxy returns *)
Example C16_ex_late_answer :
  option_map (fun s : cstate (option string) nat => (c_result s, c_shadow_value s, c_shadow_cancelled s))
    (crun (fun _ r => q_body r) (cinit ex_req) [LClone; LSpawn; LRegular; LClientCancel; LShadow 599; LShadowCancel])
  = Some (Some (Some "body"), Some 599, true).
Proof. vm_compute. reflexivity. Qed.
(* the regular proxy cannot run before the copy is made *)
Example C16_ex_copy_first :
  crun (fun _ r => q_body r) (cinit ex_req) [LSpawn; LRegular] = (None : option (cstate (option string) nat)).
Proof. vm_compute. reflexivity. Qed.
