(* Proof obligations over facts regenerated from /repo on every check (Generated/SourceFacts.v,
   written by harness/cmd/facts).  Topic: endpoint.  When an edit of the sources changes a fact, the
   lemma below stops compiling; the checks of the properties that depend on this topic then report
   the broken obligation by name and search for a failing input. *)
From Coq Require Import List String ZArith Bool.
Import ListNotations.
Require Import Verif.Common.LockEv Verif.Generated.SourceFacts.
Open Scope string_scope.

(* endpoint level: static (outermost) o plugin o (single stack | merge then flatmap) *)
Lemma endpoint_order_ok : stack_New = ["pf.newSingle"; "pf.newMulti"; "NewPluginMiddleware"; "NewStaticMiddleware"].
Proof. reflexivity. Qed.
Lemma multi_order_ok : stack_newMulti = ["pf.newStack"; "NewMergeDataMiddleware"; "NewFlatmapMiddleware"].
Proof. reflexivity. Qed.
