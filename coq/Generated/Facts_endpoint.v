(* Proof obligations over facts regenerated from /repo on every check (Generated/SourceFacts.v,
   written by harness/cmd/facts).  Topic: endpoint.  The facts are semantic summaries (orders, literal
   sets, capacity classes, parent classes of contexts, lock events per path), so a behaviour-
   preserving rewrite regenerates the same facts; when an edit changes what the theorems rest on,
   the lemma below stops compiling, the checks of the properties that depend on this topic report
   the broken obligation by name and search for a failing input. *)
From Coq Require Import List String ZArith Bool.
Import ListNotations.
Require Import Verif.Common.LockEv Verif.Generated.SourceFacts.

Open Scope string_scope.

(* endpoint level: the static middleware wraps the plugin middleware, which wraps the backend part;
   a multi-backend endpoint merges and then flat-maps *)
Lemma endpoint_order_ok : before "NewPluginMiddleware" "NewStaticMiddleware" stack_New = true.
Proof. vm_compute; reflexivity. Qed.
Lemma multi_order_ok : before "NewMergeDataMiddleware" "NewFlatmapMiddleware" stack_newMulti = true.
Proof. vm_compute; reflexivity. Qed.
