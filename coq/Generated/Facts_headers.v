(* Proof obligations over facts regenerated from /repo on every check (Generated/SourceFacts.v,
   written by harness/cmd/facts).  Topic: headers.  The facts are semantic summaries (orders, literal
   sets, capacity classes, parent classes of contexts, lock events per path), so a behaviour-
   preserving rewrite regenerates the same facts; when an edit changes what the theorems rest on,
   the lemma below stops compiling, the checks of the properties that depend on this topic report
   the broken obligation by name and search for a failing input. *)
From Coq Require Import List String ZArith Bool.
Import ListNotations.
Require Import Verif.Common.LockEv Verif.Generated.SourceFacts.

Open Scope string_scope.

Lemma header_constants_ok :
  hdr_complete_name = "X-Krakend-Completed" /\ hdr_complete_true = "true" /\ hdr_complete_false = "false" /\
  krakend_header_name = "X-KRAKEND" /\ default_headers_to_send = "[]string{""Content-Type""}".
Proof. repeat split; reflexivity. Qed.
