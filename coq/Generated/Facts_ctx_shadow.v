(* Proof obligations over facts regenerated from /repo on every check (Generated/SourceFacts.v,
   written by harness/cmd/facts).  Topic: ctx_shadow.  The facts are semantic summaries (orders, literal
   sets, capacity classes, parent classes of contexts, lock events per path), so a behaviour-
   preserving rewrite regenerates the same facts; when an edit changes what the theorems rest on,
   the lemma below stops compiling, the checks of the properties that depend on this topic report
   the broken obligation by name and search for a failing input. *)
From Coq Require Import List String ZArith Bool.
Import ListNotations.
Require Import Verif.Common.LockEv Verif.Generated.SourceFacts.

Open Scope string_scope.

(* the only context derived in proxy/shadow.go is a timeout context on the background context,
   not on the client's *)
Lemma ctx_shadow_ok : ctx_shadow = [("WithTimeout", "background")].
Proof. reflexivity. Qed.
