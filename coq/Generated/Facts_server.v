(* Proof obligations over facts regenerated from /repo on every check (Generated/SourceFacts.v,
   written by harness/cmd/facts).  Topic: server.  When an edit of the sources changes a fact, the
   lemma below stops compiling; the checks of the properties that depend on this topic then report
   the broken obligation by name and search for a failing input. *)
From Coq Require Import List String ZArith Bool.
Import ListNotations.
Require Import Verif.Common.LockEv Verif.Generated.SourceFacts.
Open Scope string_scope.

(* the runner selects between the listener's result and the cancellation, shuts down with a
   background context (not the cancelled one); the done channel is unbuffered *)
Lemma runserver_ok : runserver_select = ["err := <-done"; "<-ctx.Done()"] /\
  runserver_shutdown_arg = "context.Background()" /\ runserver_done_cap = "0".
Proof. repeat split; reflexivity. Qed.
