(* Proof obligations over facts regenerated from /repo on every check (Generated/SourceFacts.v,
   written by harness/cmd/facts).  Topic: server.  The facts are semantic summaries (orders, literal
   sets, capacity classes, parent classes of contexts, lock events per path), so a behaviour-
   preserving rewrite regenerates the same facts; when an edit changes what the theorems rest on,
   the lemma below stops compiling, the checks of the properties that depend on this topic report
   the broken obligation by name and search for a failing input. *)
From Coq Require Import List String ZArith Bool.
Import ListNotations.
Require Import Verif.Common.LockEv Verif.Generated.SourceFacts.

Open Scope string_scope.

(* the runner waits on exactly two things - a message from the serving goroutine and the
   cancellation - shuts down with a background context (not the cancelled one), and the channel of
   the serving goroutine is unbuffered (select cases as a sorted set: their order has no meaning) *)
Lemma runserver_ok : runserver_select = ["ctx-done"; "recv"] /\
  runserver_shutdown_arg = "background" /\ runserver_done_cap = "unbuffered".
Proof. repeat split; reflexivity. Qed.
