(* Proof obligations over facts regenerated from /repo on every check (Generated/SourceFacts.v,
   written by harness/cmd/facts).  Topic: status.  The facts are semantic summaries (orders, literal
   sets, capacity classes, parent classes of contexts, lock events per path), so a behaviour-
   preserving rewrite regenerates the same facts; when an edit changes what the theorems rest on,
   the lemma below stops compiling, the checks of the properties that depend on this topic report
   the broken obligation by name and search for a failing input. *)
From Coq Require Import List String ZArith Bool.
Import ListNotations.
Require Import Verif.Common.LockEv Verif.Generated.SourceFacts.
Require Verif.Model.C12.
Open Scope string_scope.

(* the statuses the default handler lets through, and the tie to the C12 model: a status is used
   iff it is one of them *)
Lemma status_accepted_ok : default_status_accepted = [200; 201]%Z.
Proof. reflexivity. Qed.
Lemma status_matches_model : forall code : Z,
  Verif.Model.C12.ok_status code = existsb (Z.eqb code) default_status_accepted.
Proof. intros code. unfold Verif.Model.C12.ok_status. rewrite status_accepted_ok. simpl. rewrite orb_false_r. reflexivity. Qed.
