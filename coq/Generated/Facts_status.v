(* Proof obligations over facts regenerated from /repo on every check (Generated/SourceFacts.v,
   written by harness/cmd/facts).  Topic: status.  When an edit of the sources changes a fact, the
   lemma below stops compiling; the checks of the properties that depend on this topic then report
   the broken obligation by name and search for a failing input. *)
From Coq Require Import List String ZArith Bool.
Import ListNotations.
Require Import Verif.Common.LockEv Verif.Generated.SourceFacts.
Require Verif.Model.C12.
Open Scope string_scope.

Lemma default_status_ok : default_status_cond = "resp.StatusCode != http.StatusOK && resp.StatusCode != http.StatusCreated".
Proof. reflexivity. Qed.

(* the tie to the C12 model: a status is used iff it is one the regenerated condition lets through *)
Lemma status_accepted_ok : default_status_accepted = [200; 201]%Z.
Proof. reflexivity. Qed.
Lemma status_matches_model : forall code : Z,
  Verif.Model.C12.ok_status code = existsb (Z.eqb code) default_status_accepted.
Proof. intros code. unfold Verif.Model.C12.ok_status. rewrite status_accepted_ok. simpl. rewrite orb_false_r. reflexivity. Qed.
