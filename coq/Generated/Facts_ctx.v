(* Proof obligations over facts regenerated from /repo on every check (Generated/SourceFacts.v,
   written by harness/cmd/facts).  Topic: ctx.  When an edit of the sources changes a fact, the
   lemma below stops compiling; the checks of the properties that depend on this topic then report
   the broken obligation by name and search for a failing input. *)
From Coq Require Import List String ZArith Bool.
Import ListNotations.
Require Import Verif.Common.LockEv Verif.Generated.SourceFacts.
Open Scope string_scope.

(* where contexts are derived, from which parent, and how many cancel() call sites exist *)
Lemma ctx_derivations_ok :
  ctx_parallelMerge = ["WithTimeout(ctx, timeout)"] /\ ctx_sequentialMerge = ["WithTimeout(ctx, timeout)"] /\
  ctx_requestPart = ["WithCancel(ctx)"] /\ ctx_concurrent = ["WithTimeout(ctx, serviceTimeout)"] /\
  ctx_processConcurrentCall = ["WithCancel(ctx)"].
Proof. repeat split; reflexivity. Qed.
Lemma cancel_sites_ok :
  cancel_calls_parallelMerge = 1%Z /\ cancel_calls_sequentialMerge = 2%Z /\ cancel_calls_requestPart = 3%Z /\
  cancel_calls_concurrent = 2%Z /\ cancel_calls_processConcurrentCall = 3%Z.
Proof. repeat split; reflexivity. Qed.
