(* Proof obligations over facts regenerated from /repo on every check (Generated/SourceFacts.v,
   written by harness/cmd/facts).  Topic: ctx.  The facts are semantic summaries (orders, literal
   sets, capacity classes, parent classes of contexts, lock events per path), so a behaviour-
   preserving rewrite regenerates the same facts; when an edit changes what the theorems rest on,
   the lemma below stops compiling, the checks of the properties that depend on this topic report
   the broken obligation by name and search for a failing input. *)
From Coq Require Import List String ZArith Bool.
Import ListNotations.
Require Import Verif.Common.LockEv Verif.Generated.SourceFacts.

Open Scope string_scope.

(* every context the merge / concurrent code derives comes from the context it was handed (never
   from context.Background()), with the constructor the model uses, and every function that derives
   one calls (or defers) its cancel function *)
Lemma ctx_derivations_ok :
  ctx_parallelMerge = [("WithTimeout", "derived")] /\ ctx_sequentialMerge = [("WithTimeout", "derived")] /\
  ctx_requestPart = [("WithCancel", "derived")] /\ ctx_concurrent = [("WithTimeout", "derived")] /\
  ctx_processConcurrentCall = [("WithCancel", "derived")].
Proof. repeat split; reflexivity. Qed.
Lemma cancel_sites_ok :
  (1 <=? cancel_calls_parallelMerge)%Z = true /\ (1 <=? cancel_calls_sequentialMerge)%Z = true /\
  (1 <=? cancel_calls_requestPart)%Z = true /\ (1 <=? cancel_calls_concurrent)%Z = true /\
  (1 <=? cancel_calls_processConcurrentCall)%Z = true.
Proof. repeat split; vm_compute; reflexivity. Qed.
