(* Proof obligations over facts regenerated from /repo on every check (Generated/SourceFacts.v,
   written by harness/cmd/facts).  Topic: chan_concurrent.  The facts are semantic summaries (orders, literal
   sets, capacity classes, parent classes of contexts, lock events per path), so a behaviour-
   preserving rewrite regenerates the same facts; when an edit changes what the theorems rest on,
   the lemma below stops compiling, the checks of the properties that depend on this topic report
   the broken obligation by name and search for a failing input. *)
From Coq Require Import List String ZArith Bool.
Import ListNotations.
Require Import Verif.Common.LockEv Verif.Generated.SourceFacts.

Open Scope string_scope.

(* both result channels of the concurrent middleware are buffered with one and the same
   non-literal capacity expression (one slot per attempt) *)
Lemma concurrent_channels_ok : same_expr_caps 2 chans_concurrent = true.
Proof. vm_compute; reflexivity. Qed.
