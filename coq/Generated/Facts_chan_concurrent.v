(* Proof obligations over facts regenerated from /repo on every check (Generated/SourceFacts.v,
   written by harness/cmd/facts).  Topic: chan_concurrent.  When an edit of the sources changes a fact, the
   lemma below stops compiling; the checks of the properties that depend on this topic then report
   the broken obligation by name and search for a failing input. *)
From Coq Require Import List String ZArith Bool.
Import ListNotations.
Require Import Verif.Common.LockEv Verif.Generated.SourceFacts.
Open Scope string_scope.

(* both result channels of the concurrent middleware have one slot per attempt *)
Lemma concurrent_channels_ok : chans_concurrent = [("results", "remote.ConcurrentCalls"); ("failed", "remote.ConcurrentCalls")].
Proof. reflexivity. Qed.
