(* Proof obligations over facts regenerated from /repo on every check (Generated/SourceFacts.v,
   written by harness/cmd/facts).  Topic: locks_register.  The facts are semantic summaries (orders, literal
   sets, capacity classes, parent classes of contexts, lock events per path), so a behaviour-
   preserving rewrite regenerates the same facts; when an edit changes what the theorems rest on,
   the lemma below stops compiling, the checks of the properties that depend on this topic report
   the broken obligation by name and search for a failing input. *)
From Coq Require Import List String ZArith Bool.
Import ListNotations.
Require Import Verif.Common.LockEv Verif.Generated.SourceFacts.

Open Scope string_scope.

(* every path of every method of this package that touches the shared object follows the lock
   discipline (Common/LockEv.disciplined: reads under a read or write lock, writes under the write
   lock, every lock released, at most one self-locking call outside a critical section), the methods of one owner (a type, or the
   package for plain functions) never naming two different locks (LockEv.all_paths_owner_one_lock; locks and shared objects are
   found by their declared types, not by name); every listed method touches the object on some path (guards against an extractor
   that finds nothing); the methods the model knows are all there *)
Lemma locks_register_ok :
  all_paths_disciplined lock_paths_register = true /\ all_paths_touch lock_paths_register = true /\
  all_paths_owner_one_lock lock_paths_register = true /\ all_paths_calls_atomic lock_paths_register = true /\
  has_path_methods ["register.Namespaced.AddNamespace"; "register.Namespaced.Get"; "register.Namespaced.Register"; "register.Untyped.Clone"; "register.Untyped.Get"; "register.Untyped.Register"] lock_paths_register = true.
Proof. repeat split; vm_compute; reflexivity. Qed.
