(* Proof obligations over facts regenerated from /repo on every check (Generated/SourceFacts.v,
   written by harness/cmd/facts).  Topic: locks_dnssrv.  When an edit of the sources changes a fact, the
   lemma below stops compiling; the checks of the properties that depend on this topic then report
   the broken obligation by name and search for a failing input. *)
From Coq Require Import List String ZArith Bool.
Import ListNotations.
Require Import Verif.Common.LockEv Verif.Generated.SourceFacts.
Open Scope string_scope.

(* every method of this package that touches the shared object follows the lock discipline
   (Common/LockEv.disciplined: reads under a read or write lock, writes under the write lock,
   every lock released, at most one self-locking call outside a critical section), all of them
   on the one lock "mutex", and the
   methods the model knows are all there *)
Lemma locks_dnssrv_ok :
  all_disciplined lock_events_dnssrv = true /\ all_touch lock_events_dnssrv = true /\
  all_one_lock "mutex" lock_events_dnssrv = true /\
  has_methods ["dnssrv.subscriber.Hosts"; "dnssrv.subscriber.update"] lock_events_dnssrv = true.
Proof. repeat split; vm_compute; reflexivity. Qed.
