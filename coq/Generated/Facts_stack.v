(* Proof obligations over facts regenerated from /repo on every check (Generated/SourceFacts.v,
   written by harness/cmd/facts).  Topic: stack.  The facts are semantic summaries (orders, literal
   sets, capacity classes, parent classes of contexts, lock events per path), so a behaviour-
   preserving rewrite regenerates the same facts; when an edit changes what the theorems rest on,
   the lemma below stops compiling, the checks of the properties that depend on this topic report
   the broken obligation by name and search for a failing input. *)
From Coq Require Import List String ZArith Bool.
Import ListNotations.
Require Import Verif.Common.LockEv Verif.Generated.SourceFacts.
Require Verif.Model.C08.
Open Scope string_scope.

(* execution order of a backend stack is the reverse of this list: RequestBuilder -> [Concurrent] ->
   FilterQueryStrings -> FilterHeaders -> GraphQL -> LoadBalanced (renders Query into URL) ->
   BackendPlugin -> backend.  It is the order the C08 model executes (and through it the C07 / C10
   stack models, whose literals are proved equal to it in their Properties files). *)
Lemma stack_matches_model : stack_newStack = Verif.Model.C08.newStack_names.
Proof. reflexivity. Qed.
(* the parts of that order single theorems rest on: the URL is rendered after the filters and the
   GraphQL stage decided the query (C07 C08 C10) *)
Lemma stack_order_ok :
  before "NewLoadBalancedMiddlewareWithSubscriberAndLogger" "NewGraphQLMiddleware" stack_newStack = true /\
  before "NewLoadBalancedMiddlewareWithSubscriberAndLogger" "NewFilterQueryStringsMiddleware" stack_newStack = true /\
  before "NewLoadBalancedMiddlewareWithSubscriberAndLogger" "NewFilterHeadersMiddleware" stack_newStack = true /\
  before "NewGraphQLMiddleware" "NewFilterHeadersMiddleware" stack_newStack = true /\
  before "NewFilterQueryStringsMiddleware" "NewRequestBuilderMiddlewareWithLogger" stack_newStack = true.
Proof. repeat split; vm_compute; reflexivity. Qed.
