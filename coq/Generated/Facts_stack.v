(* Proof obligations over facts regenerated from /repo on every check (Generated/SourceFacts.v,
   written by harness/cmd/facts).  Topic: stack.  When an edit of the sources changes a fact, the
   lemma below stops compiling; the checks of the properties that depend on this topic then report
   the broken obligation by name and search for a failing input. *)
From Coq Require Import List String ZArith Bool.
Import ListNotations.
Require Import Verif.Common.LockEv Verif.Generated.SourceFacts.
Require Verif.Model.C08.
Open Scope string_scope.

(* execution order of a backend stack is the reverse of this list: RequestBuilder -> [Concurrent] ->
   FilterQueryStrings -> FilterHeaders -> GraphQL -> LoadBalanced (renders Query into URL) ->
   BackendPlugin -> backend *)
Lemma stack_order_ok : stack_newStack =
  ["pf.backendFactory"; "NewBackendPluginMiddleware"; "NewLoadBalancedMiddlewareWithSubscriberAndLogger";
   "NewGraphQLMiddleware"; "NewFilterHeadersMiddleware"; "NewFilterQueryStringsMiddleware";
   "NewConcurrentMiddlewareWithLogger"; "NewRequestBuilderMiddlewareWithLogger"].
Proof. reflexivity. Qed.

(* the tie to the models: the order the C08 model (and through it the C07 / C10 stack models, whose
   literals are proved equal to it in their Properties files) executes is the regenerated one *)
Lemma stack_matches_model : stack_newStack = Verif.Model.C08.newStack_names.
Proof. reflexivity. Qed.
