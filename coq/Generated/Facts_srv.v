(* Proof obligations over facts regenerated from /repo on every check (Generated/SourceFacts.v,
   written by harness/cmd/facts).  Topic: srv.  When an edit of the sources changes a fact, the
   lemma below stops compiling; the checks of the properties that depend on this topic then report
   the broken obligation by name and search for a failing input. *)
From Coq Require Import List String ZArith Bool.
Import ListNotations.
Require Import Verif.Common.LockEv Verif.Generated.SourceFacts.
Require Verif.Model.C15.
Open Scope string_scope.

Lemma srv_scale_ok : srv_scale_lits = [100%Z].
Proof. reflexivity. Qed.

(* the tie to the C15 model *)
Lemma srv_scale_matches_model : srv_scale_lits = [Verif.Model.C15.srv_scale].
Proof. reflexivity. Qed.
