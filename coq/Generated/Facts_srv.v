(* Proof obligations over facts regenerated from /repo on every check (Generated/SourceFacts.v,
   written by harness/cmd/facts).  Topic: srv.  The facts are semantic summaries (orders, literal
   sets, capacity classes, parent classes of contexts, lock events per path), so a behaviour-
   preserving rewrite regenerates the same facts; when an edit changes what the theorems rest on,
   the lemma below stops compiling, the checks of the properties that depend on this topic report
   the broken obligation by name and search for a failing input. *)
From Coq Require Import List String ZArith Bool.
Import ListNotations.
Require Import Verif.Common.LockEv Verif.Generated.SourceFacts.
Require Verif.Model.C15.
Open Scope string_scope.

Lemma srv_scale_ok : srv_scale_lits = [100%Z].
Proof. reflexivity. Qed.
Lemma srv_scale_matches_model : srv_scale_lits = [Verif.Model.C15.srv_scale].
Proof. reflexivity. Qed.
