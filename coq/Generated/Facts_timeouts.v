(* Proof obligations over facts regenerated from /repo on every check (Generated/SourceFacts.v,
   written by harness/cmd/facts).  Topic: timeouts.  When an edit of the sources changes a fact, the
   lemma below stops compiling; the checks of the properties that depend on this topic then report
   the broken obligation by name and search for a failing input. *)
From Coq Require Import List String ZArith Bool.
Import ListNotations.
Require Import Verif.Common.LockEv Verif.Generated.SourceFacts.
Require Verif.Model.C04.
Open Scope string_scope.

(* 85 % for merges, 75 % for concurrent calls, integer arithmetic n*T/100 on nanoseconds *)
Lemma merge_timeout_ok : merge_timeout_lits = [85; 100]%Z /\
  merge_timeout_expr = "time.Duration(85*endpointConfig.Timeout.Nanoseconds()/100) * time.Nanosecond".
Proof. split; reflexivity. Qed.
Lemma concurrent_timeout_ok : concurrent_timeout_lits = [75; 100]%Z /\
  concurrent_timeout_expr = "time.Duration(75*remote.Timeout.Nanoseconds()/100) * time.Nanosecond".
Proof. split; reflexivity. Qed.

(* the tie to the C04 model: the factors the deadline theorems are instantiated with *)
Lemma timeouts_match_model :
  merge_timeout_lits = [Verif.Model.C04.fm_num Verif.Model.C04.lura_factors; Verif.Model.C04.fm_den Verif.Model.C04.lura_factors] /\
  concurrent_timeout_lits = [Verif.Model.C04.fc_num Verif.Model.C04.lura_factors; Verif.Model.C04.fc_den Verif.Model.C04.lura_factors].
Proof. split; reflexivity. Qed.
