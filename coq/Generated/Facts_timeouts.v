(* Proof obligations over facts regenerated from /repo on every check (Generated/SourceFacts.v,
   written by harness/cmd/facts).  Topic: timeouts.  The facts are semantic summaries (orders, literal
   sets, capacity classes, parent classes of contexts, lock events per path), so a behaviour-
   preserving rewrite regenerates the same facts; when an edit changes what the theorems rest on,
   the lemma below stops compiling, the checks of the properties that depend on this topic report
   the broken obligation by name and search for a failing input. *)
From Coq Require Import List String ZArith Bool.
Import ListNotations.
Require Import Verif.Common.LockEv Verif.Generated.SourceFacts.
Require Verif.Model.C04.
Open Scope string_scope.

(* 85 % for merges, 75 % for concurrent calls (the integer literals of the serviceTimeout
   computations, sorted), and they are the factors the C04 deadline theorems are instantiated with *)
Lemma merge_timeout_ok : merge_timeout_lits = [85; 100]%Z.
Proof. reflexivity. Qed.
Lemma concurrent_timeout_ok : concurrent_timeout_lits = [75; 100]%Z.
Proof. reflexivity. Qed.
Lemma timeouts_match_model :
  merge_timeout_lits = [Verif.Model.C04.fm_num Verif.Model.C04.lura_factors; Verif.Model.C04.fm_den Verif.Model.C04.lura_factors] /\
  concurrent_timeout_lits = [Verif.Model.C04.fc_num Verif.Model.C04.lura_factors; Verif.Model.C04.fc_den Verif.Model.C04.lura_factors].
Proof. split; reflexivity. Qed.
