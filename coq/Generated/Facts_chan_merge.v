(* Proof obligations over facts regenerated from /repo on every check (Generated/SourceFacts.v,
   written by harness/cmd/facts).  Topic: chan_merge.  When an edit of the sources changes a fact, the
   lemma below stops compiling; the checks of the properties that depend on this topic then report
   the broken obligation by name and search for a failing input. *)
From Coq Require Import List String ZArith Bool.
Import ListNotations.
Require Import Verif.Common.LockEv Verif.Generated.SourceFacts.
Open Scope string_scope.

(* both result channels of parallelMerge have one slot per worker (Fanout: cap >= n) *)
Lemma parallel_merge_channels_ok : chans_parallelMerge = [("parts", "len(next)"); ("failed", "len(next)")].
Proof. reflexivity. Qed.
