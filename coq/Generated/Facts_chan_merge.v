(* Proof obligations over facts regenerated from /repo on every check (Generated/SourceFacts.v,
   written by harness/cmd/facts).  Topic: chan_merge.  The facts are semantic summaries (orders, literal
   sets, capacity classes, parent classes of contexts, lock events per path), so a behaviour-
   preserving rewrite regenerates the same facts; when an edit changes what the theorems rest on,
   the lemma below stops compiling, the checks of the properties that depend on this topic report
   the broken obligation by name and search for a failing input. *)
From Coq Require Import List String ZArith Bool.
Import ListNotations.
Require Import Verif.Common.LockEv Verif.Generated.SourceFacts.

Open Scope string_scope.

(* both result channels of parallelMerge are buffered with one and the same non-literal capacity
   expression (one slot per worker: Fanout cap >= n); that this expression is the number of
   workers is what the leak detection of the C04 generator observes *)
(* count-free: at least one channel, all with the same non-literal capacity expression (one
   slot per worker); a rewrite that carries payloads and errors on ONE channel of that capacity
   regenerates facts that still pass, a literal or smaller capacity on any channel does not *)
Definition all_same_expr_caps (caps : list string) : bool :=
  match caps with
  | [] => false
  | c :: r => starts_with "expr:" c && forallb (String.eqb c) r
  end.
Lemma parallel_merge_channels_ok : all_same_expr_caps chans_parallelMerge = true.
Proof. vm_compute; reflexivity. Qed.
