(* C07 - correspondence: cases produced by the Go harness from the real code. *)
Require Export Verif.Common.Base Verif.Common.Json.
Require Export Verif.Model.C07 Verif.Spec.C07.

Definition orelse (v : option json) (d : json) : json := match v with Some x => x | None => d end.

(* the three members the property speaks of; an absent operationName is the empty name, absent
   variables are the empty map; other members are not compared *)
Definition body_view (b : option json) : option (json * json * json) :=
  match b with
  | Some (JObj m) => Some (orelse (lookup "query" m) JNull,
                           orelse (lookup "operationName" m) (JStr ""),
                           orelse (lookup "variables" m) (JObj []))
  | Some _ => Some (JOther "not an object", JNull, JNull)
  | None => None
  end.
Definition view_eqb (a b : option (json * json * json)) : bool :=
  opt_eqb (fun x y => let '(q, n, v) := x in let '(q', n', v') := y in jeq q q' && jeq n n' && jeq v v') a b.

Definition vars_view (l : list json) : list json := match l with [] => [JObj []] | _ => l end.
Definition name_view (l : list string) : list string := match l with [] => [""] | _ => l end.

Definition is_get (s : sent) : bool := str_eqb (s_method s) "GET".

(* POST: everything the statement fixes (body members, Content-Length both ways, content type);
   the URL of the POST form carries whatever client query strings are forwarded (C08/C10).
   GET: method and the three URL parameters - the statement says nothing about headers or
   body of the GET form *)
Definition sent_eqb (a b : sent) : bool :=
  str_eqb (s_method a) (s_method b) &&
  if is_get a then
    list_eqb str_eqb (s_q a) (s_q b) &&
    list_eqb str_eqb (name_view (s_name a)) (name_view (s_name b)) &&
    list_eqb jeq (vars_view (s_vars a)) (vars_view (s_vars b))
  else
    view_eqb (body_view (s_body a)) (body_view (s_body b)) &&
    (s_body_len a =? s_body_len b)%Z && (s_clen a =? s_clen b)%Z &&
    list_eqb str_eqb (s_clen_hdr a) (s_clen_hdr b) &&
    list_eqb str_eqb (s_ctype a) (s_ctype b).

Definition outcome_eqb (a b : outcome) : bool :=
  match a, b with
  | Sent x, Sent y => sent_eqb x y
  | Failed, Failed => true
  | Panicked, Panicked => true
  | _, _ => false
  end.

Definition obs_len (o : outcome) : Z := match o with Sent s => s_body_len s | _ => 0%Z end.

Inductive case :=
(* the complete default backend stack: input, what the recording executor saw *)
| CStack (i : input) (o : outcome)
(* the same with the bytes of the body the executor read (POST transport): they are the bytes
   the model's encoder writes *)
| CStackRaw (i : input) (o : outcome) (raw : string)
(* concurrent_calls = n: what each of the attempts handed to the executor (all of them are
   held at the executor until the last one has arrived) *)
| CStackN (i : input) (n : nat) (os : list outcome)
(* spelling of type and method in the configuration, and what the stack was seen to do with a
   probe request: None = no GraphQL handling (the client's request passed through) *)
| COpts (typ method : string) (seen : option (optype * transport))
(* config.ServiceConfig.Init on a backend URL pattern /{name}: the key it generated *)
| CCap (name : string) (key : string)
(* an arbitrary byte string s put at one place of the configuration / request (path parameter,
   query text, operation name, variable value, variable name, string of the client body) and the
   string the backend received there, decoded *)
| CBytes (place : string) (s observed : string)
(* json.Marshal of the Go string s, without the surrounding quotes *)
| CEscape (s encoded : string).

Definition check_case (c : case) : bool * bool :=
  match c with
  | CStack i o => (outcome_eqb (model_len i) o, spec_b i o)
  | CStackRaw i o raw =>
      (outcome_eqb (model_len i) o &&
       match model_body i with Some b => str_eqb b raw | None => false end, spec_b i o)
  | CStackN i n os =>
      let count_ok := match model_len i with
                      | Sent _ => Nat.eqb (List.length os) n
                      | _ => Nat.eqb (List.length os) 1
                      end in
      (count_ok && forallb (fun o => outcome_eqb (model_len i) o) os, forallb (spec_b i) os)
  | COpts t m seen =>
      (match norm_type t, seen with
       | Some ty, Some (ty', tr') =>
           (match ty, ty' with TQuery, TQuery | TMutation, TMutation => true | _, _ => false end) &&
           (match norm_method m, tr' with TPost, TPost | TGet, TGet => true | _, _ => false end)
       | None, None => true
       | _, _ => false
       end, true)
  | CCap name key => (str_eqb (config_cap name) key, true)
  | CEscape s enc =>
      (str_eqb (escape s) enc &&
       match unescape_bytes (bytes_of enc) with Some o => str_eqb (bs o) (sanitize s) | None => false end, true)
  | CBytes _ s obs => (str_eqb (sanitize s) obs, if valid_utf8 s then str_eqb s obs else true)
  end.

Fixpoint failing (i : nat) (cs : list case) : list verdict :=
  match cs with
  | [] => []
  | c :: r => let '(a, b) := check_case c in
              if a && b then failing (S i) r else (i, a, b) :: failing (S i) r
  end.
