(* C14 - correspondence: cases produced by the Go harness from the real balancers
   (sd.NewRoundRobinLB / sd.NewRandomLB and the proxy load-balancing middlewares). *)
Require Export Verif.Common.Base.
Require Export Verif.Model.C14 Verif.Spec.C14.
Local Open Scope Z_scope.

(* The projection (DESIGN section 3): per call the kind of the result (a host / which
   error / panic); WHICH host was chosen is not compared with the model (the property
   leaves open which hosts get the extra selection and where the rotation starts): for a
   fixed list of distinct hosts only the multiset of per-host counts is compared. *)
Definition kind_eqb (a b : res) : bool :=
  match a, b with
  | Ok _, Ok _ => true
  | Err x, Err y => herr_eqb x y
  | Panic, Panic => true
  | _, _ => false
  end.

Definition counts (hs picks : list string) : list Z := map (fun h => zcount h picks) hs.

Fixpoint zocc (x : Z) (l : list Z) : nat :=
  match l with [] => O | y :: r => ((if Z.eqb x y then 1 else 0) + zocc x r)%nat end.
Definition same_mset_Z (a b : list Z) : bool :=
  Nat.eqb (List.length a) (List.length b) &&
  forallb (fun x => Nat.eqb (zocc x a) (zocc x b)) a.

Definition fixed (hs : list string) : report := {| rp_hosts := hs; rp_err := None |}.
Definition nonempty (hs : list string) : bool := negb (Nat.eqb (List.length hs) 0).

(* decoding of the harness's compact notation: every distinct string of a case is written
   once in a table t; hosts and results refer to it by position *)
Definition sel (t : list string) (l : list nat) : list string := map (fun i => nth i t "") l.
Definition dec1 (t : list string) (z : Z) : res :=
  if 0 <=? z then Ok (nth (Z.to_nat z) t "")
  else if z =? -1 then Err ENoHosts
  else if z =? -2 then Err (ESub "a")
  else if z =? -3 then Err (ESub "b")
  else if z =? -4 then Err (ESub "not-asked")
  else if z =? -9 then Panic
  else Err (EOther "").
Definition dec (t : list string) (l : list Z) : list res := map (dec1 t) l.

Inductive case :=
(* round robin, one caller, fixed list.  via: 0 = Balancer.Host(), 1 = through the
   middleware (Ok h = URL prefix seen by the next proxy).  known: the counter was read
   through the hook (c0 before the first call, c1 after the last); otherwise c0 = c1 = 0 *)
| CSeqFixed (via : nat) (hs : list string) (known : bool) (c0 : Z) (obs : list res) (c1 : Z)
(* round robin, one caller, the subscriber reports a scripted list / error per call *)
| CSeqDyn (via : nat) (known : bool) (c0 : Z) (steps : list (report * res)) (c1 : Z)
(* a host slice shared by two consumers: a round robin balancer over FixedSubscriber(s) made
   the first picks of obs, then sd.NewRandomFixedSubscriber(s) was called (once or more, or
   concurrently), then the balancer made the remaining picks.  hs: the slice before;
   after: the caller's slice afterwards; sub: the list of the subscriber that was returned *)
| CShared (hs : list string) (known : bool) (c0 : Z) (obs : list res) (c1 : Z) (after sub : list string)
(* round robin, one caller, a stable list hs with failing lookups in between (every report is
   hs, an error or an empty list): the selections that were made must be fair over every window.
   via as in CSeqFixed *)
| CSeqStable (via : nat) (hs : list string) (known : bool) (c0 : Z) (steps : list (report * res)) (c1 : Z)
(* the same with concurrent callers: per caller the report it was handed and the result *)
| CConcStable (hs : list string) (per : list (list (report * res)))
(* a middleware built by the exported constructor `name` (proxy/balancing.go) with GOMAXPROCS =
   procs over a subscriber reporting hs (isfixed: a sd.FixedSubscriber value): what the next
   proxy saw over the calls.  Which balancer that constructor builds is looked up in the
   model's table, and the oracle of that balancer is applied *)
| CMwNamed (name : string) (procs : Z) (isfixed : bool) (hs : list string) (obs : list res)
(* sd constructors: which 0 = NewBalancer, 1 = NewRoundRobinLB, 2 = NewRandomLB; observed kind
   0 = single-host, 1 = round robin (start: its initial counter), 2 = random *)
| CCtor (which : nat) (procs : Z) (isfixed : bool) (hs : list string) (kind : nat) (start : Z)
(* round robin, several concurrent callers on one fixed list: results per caller *)
| CConc (known : bool) (hs : list string) (c0 : Z) (per : list (list res)) (c1 : Z)
(* random balancer with an injected (seeded fastrand.RNG) generator, scripted reports:
   per call the report, the argument the generator was called with (-1: not called), the
   32-bit value it drew, the result *)
| CRndDyn (via : nat) (steps : list (report * Z * Z * res))
(* random balancer, fixed list, M >= 64 n selections.  wild: the package's own generator *)
| CShare (wild : bool) (hs : list string) (obs : list res)
(* fastrand.RNG.Uint32n: (x drawn, n, value returned) *)
| CU32 (l : list (Z * Z * Z))
(* one concurrent scenario run in a child process built with -race *)
| CRace (scenario : string) (detector_on observed_race : bool).

Definition all_ok_fixed (hs : list string) (obs : list res) : bool :=
  forallb (call_ok_b (fixed hs)) obs.

Definition check_seq_fixed (hs : list string) (known : bool) (c0 : Z) (obs : list res) (c1 : Z) : bool * bool :=
  let M := List.length obs in
  let '(c1m, om) := rr_run c0 (repeat (fixed hs) M) in
  (list_eqb kind_eqb om obs &&
   (negb (known && nonempty hs) || (c1 =? c1m)) &&
   (negb (nodup_str hs && no_wrap_b c0 M (List.length hs)) || same_mset_Z (counts hs (oks om)) (counts hs (oks obs))),
   all_ok_fixed hs obs &&
   (negb (nodup_str hs && nonempty hs && no_wrap_b c0 M (List.length hs)) || rr_seq_b hs (oks obs))).

Definition check_share (hs : list string) (obs : list res) : bool * bool :=
  (forallb (fun o => kind_eqb (rnd_step 0 (fixed hs)) o) obs,
   all_ok_fixed hs obs && (negb (nodup_str hs && nonempty hs) || share_b hs (oks obs))).

Definition check_case (c : case) : bool * bool :=
  match c with
  | CSeqFixed via hs known c0 obs c1 => check_seq_fixed hs known c0 obs c1
  | CShared hs known c0 obs c1 after sub =>
      (* the model: the shared slice is untouched (fst (random_fixed _ hs) = hs), the new
         subscriber holds a permutation of it; the balancer goes on over the same list *)
      let '(a, b) := check_seq_fixed hs known c0 obs c1 in
      (a && list_eqb str_eqb (fst (random_fixed [] hs)) after && same_mset_str hs sub, b)
  | CSeqDyn via known c0 steps c1 =>
      (* via 0 / 1: one caller on a round robin balancer / middleware: the windows between
         changes of the list are fair.  Other values (random, generic, one caller of many
         concurrent ones: via >= 10): membership and error rules only *)
      let '(c1m, om) := rr_run c0 (map fst steps) in
      (list_eqb kind_eqb om (map snd steps),
       forallb (fun s => call_ok_b (fst s) (snd s)) steps &&
       (negb ((Nat.eqb via 0 || Nat.eqb via 1) &&
              (c0 + Z.of_nat (List.length steps) + two32 <=? two64))
        || blocks_b None [] steps))
  | CMwNamed name procs isfixed hs obs =>
      match lookup name mw_constructors with
      | None => (false, false)
      | Some k =>
          match build k procs (if isfixed then SFixed hs else SOther) 0 with
          | BRandom => check_share hs obs
          | _ => check_seq_fixed hs false 0 obs 0
          end
      end
  | CCtor which procs isfixed hs kind start =>
      let k := match which with O => CGeneric | S O => CRoundRobin | _ => CRandom end in
      (match build k procs (if isfixed then SFixed hs else SOther) 0 with
       | BNop _ => Nat.eqb kind 0
       | BRR _ => Nat.eqb kind 1 &&
                  (if isfixed && (1 <? Z.of_nat (List.length hs))
                   then (0 <=? start) && (start <? Z.of_nat (List.length hs))
                   else start =? 0)
       | BRandom => Nat.eqb kind 2
       end, true)
  | CSeqStable via hs known c0 steps c1 =>
      let rs := map fst steps in
      let obs := map snd steps in
      let '(c1m, om) := rr_run c0 rs in
      let M := List.length (oks om) in
      (list_eqb kind_eqb om obs && stable_b hs rs &&
       (negb (known && nonempty hs) || (c1 =? c1m)) &&
       (negb (nodup_str hs && no_wrap_b c0 M (List.length hs)) || same_mset_Z (counts hs (oks om)) (counts hs (oks obs))),
       forallb (fun s => call_ok_b (fst s) (snd s)) steps &&
       (negb (nodup_str hs && nonempty hs && no_wrap_b c0 M (List.length hs)) || rr_seq_b hs (oks obs)))
  | CConcStable hs per =>
      let all := List.concat per in
      (forallb (fun s => kind_eqb (snd (rr_step 0 (fst s))) (snd s)) all && stable_b hs (map fst all),
       forallb (fun s => call_ok_b (fst s) (snd s)) all &&
       (negb (nodup_str hs && nonempty hs) || fair_b hs (oks (map snd all))))
  | CConc known hs c0 per c1 =>
      let all := List.concat per in
      let M := List.length all in
      let '(c1m, om) := rr_run c0 (repeat (fixed hs) M) in
      (list_eqb kind_eqb om all &&
       (negb (known && nonempty hs) || (c1 =? c1m)) &&
       (negb (nodup_str hs && no_wrap_b c0 M (List.length hs)) || same_mset_Z (counts hs (oks om)) (counts hs (oks all))),
       all_ok_fixed hs all &&
       (negb (nodup_str hs && nonempty hs && no_wrap_b c0 M (List.length hs)) || fair_b hs (oks all)))
  | CRndDyn via steps =>
      (forallb (fun s => let '(r, arg, x, o) := s in
                  kind_eqb (rnd_step x r) o &&
                  (arg =? match hosts_step r with inl hs => Z.of_nat (List.length hs) | inr _ => -1 end)) steps,
       forallb (fun s => let '(r, arg, x, o) := s in call_ok_b r o) steps)
  | CShare wild hs obs => check_share hs obs
  | CU32 l =>
      (forallb (fun t => let '(x, n, r) := t in uint32n x n =? r) l,
       forallb (fun t => let '(x, n, r) := t in (0 <=? r) && (r <? n)) l)
  | CRace _ on raced => (true, on && negb raced)
  end.

Fixpoint failing (i : nat) (cs : list case) : list verdict :=
  match cs with
  | [] => []
  | c :: r => let '(a, b) := check_case c in
              if a && b then failing (S i) r else (i, a, b) :: failing (S i) r
  end.
