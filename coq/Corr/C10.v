(* C10 - correspondence: cases produced by the Go harness from net/url and the real lura
   code (load balancer middleware, http proxy, default stack, gin engine). *)
Require Export Verif.Common.Base.
Require Export Verif.Model.C10 Verif.Spec.C10.
From Coq Require Uint63.

Local Open Scope N_scope.

(* result of an unescape in Go, relative to its input *)
Inductive ures := UId | UErr | USome (s : string).

Definition ures_eqb (input : string) (m : option string) (o : ures) : bool :=
  match o, m with
  | UId, Some x => str_eqb x input
  | UErr, None => true
  | USome s, Some x => str_eqb s x
  | _, _ => false
  end.

Definition values_eqb (a b : values) : bool :=
  forallb (fun k => list_eqb str_eqb (vals k a) (vals k b)) (map fst a ++ map fst b)%list.

Definition pairs_eqb (a b : list (string * string)) : bool :=
  forallb (fun k => list_eqb str_eqb (pvals k a) (pvals k b)) (map fst a ++ map fst b)%list.

Definition called_eqb (a b : called) : bool :=
  str_eqb (o_host a) (o_host b) && str_eqb (o_path a) (o_path b) &&
  str_eqb (o_rawquery a) (o_rawquery b) && str_eqb (o_frag a) (o_frag b) &&
  str_eqb (o_wire a) (o_wire b).

(* the balancer may pick any configured host: the model is run with the host that was used *)
Definition call_matches (hosts : list string) (path : string) (q : values) (o : option called) : bool :=
  match o with
  | Some c => str_mem (o_host c) hosts && opt_eqb called_eqb (assemble_glue (o_host c) path q) (Some c)
  | None => forallb (fun h => is_none (assemble_glue h path q)) hosts
  end.

(* QueryEscape, QueryUnescape, PathUnescape, URL{Path}.EscapedPath, QueryUnescape(QueryEscape) *)
Definition codec_row := (string * ures * ures * string * ures)%type.

Definition codec_check (s : string) (row : codec_row) : bool * bool :=
  let '(qe, qu, pu, pe, rt) := row in
  (str_eqb (query_escape s) qe && ures_eqb s (query_unescape s) qu &&
   ures_eqb s (path_unescape s) pu &&
   str_eqb (if str_eqb s "*" then "*" else escape MPath s) pe,
   match rt with UId => true | _ => false end).

(* sweeps over all strings [a;b] and ['%';a;b]: a case carries, for one first byte a, a 63-bit
   polynomial checksum of the 256 outputs (b = 0..255) of each of the four functions; the
   model's outputs are hashed the same way.  Unescape results are written I (unchanged),
   E (error) or S followed by the result in upper-case hex. *)
(* arithmetic modulo 2^63 on primitive integers (evaluation only; no lemma about them is used) *)
Definition h63 (h : Uint63.int) (n : N) : Uint63.int :=
  Uint63.add (Uint63.add (Uint63.mul h (Uint63.of_Z 257)) (Uint63.of_Z (Z.of_N n))) (Uint63.of_Z 1).

Fixpoint hash_str (h : Uint63.int) (s : string) : Uint63.int :=
  match s with
  | EmptyString => h
  | String c r => hash_str (h63 h (code c)) r
  end.

Fixpoint hex_of (s : string) : string :=
  match s with
  | EmptyString => EmptyString
  | String c r => String (hex_digit (code c / 16)) (String (hex_digit (code c mod 16)) (hex_of r))
  end.

Definition enc_ures (input : string) (m : option string) : string :=
  match m with
  | None => "E"
  | Some x => if str_eqb x input then "I" else String (chr 83) (hex_of x)
  end.

Definition sep : string := "|".

Definition h4 := (Uint63.int * Uint63.int * Uint63.int * Uint63.int)%type.
Fixpoint row_hash (mk : N -> string) (n : nat) (b : N) (h : h4) : h4 :=
  match n with
  | O => h
  | S n' =>
      let '(h1, h2, h3, h4) := h in
      let s := mk b in
      row_hash mk n' (b + 1)
        (hash_str (hash_str h1 (query_escape s)) sep,
         hash_str (hash_str h2 (enc_ures s (query_unescape s))) sep,
         hash_str (hash_str h3 (enc_ures s (path_unescape s))) sep,
         hash_str (hash_str h4 (if str_eqb s "*" then "*" else escape MPath s)) sep)
  end.

Definition row_check (mk : N -> string) (qe qu pu pe : N) : bool :=
  let z := Uint63.of_Z 0 in
  let '(h1, h2, h3, h4) := row_hash mk 256 0 (z, z, z, z) in
  let eq (h : Uint63.int) (n : N) := Uint63.eqb h (Uint63.of_Z (Z.of_N n)) in
  eq h1 qe && eq h2 qu && eq h3 pu && eq h4 pe.

Inductive case :=
| CCodec (s : string) (row : codec_row)
(* all strings [a;b], b = 0..255 *)
| CPairRow (a : N) (qe qu pu pe : N)
(* all strings ['%';a;b], b = 0..255 *)
| CPctRow (a : N) (qe qu pu pe : N)
(* url.ParseQuery(raw): the map and err == nil *)
| CParseQuery (raw : string) (m : values) (ok : bool)
(* url.Values.Encode and Go's own ParseQuery of the result *)
| CEncode (q : values) (enc : string) (back : values) (backok : bool)
(* load balancer middleware + http proxy, recording executor *)
| CAsm (hosts : list string) (path : string) (q : values) (o : option called)
(* default backend stack: url_pattern with placeholders, Params, Query *)
| CStack (hosts : list string) (pattern : string) (params : list (string * string)) (q : values)
         (inner : option (string * values)) (o : option called)
(* gin engine with default options, raw request line *)
| CGin (route : list seg) (allow be_allow : list string) (pattern : string) (hosts : list string)
       (target : string) (malformed : bool) (o : gin_obs).

Definition params_eqb (a b : list (string * string)) : bool :=
  Nat.eqb (List.length a) (List.length b) &&
  forallb (fun kv => opt_eqb str_eqb (lookup (fst kv) a) (lookup (fst kv) b)) (a ++ b)%list.

Definition not_routed_status (z : Z) : bool :=
  (* 400: the engine-wide paramChecker also runs in the no-route chain, on the parameters
     the router collected before it gave up *)
  ((z =? 301) || (z =? 307) || (z =? 400) || (z =? 404) || (z =? 405))%Z.

Definition first_host (hosts : list string) (o : option called) : string :=
  match o with
  | Some c => o_host c
  | None => match hosts with h :: _ => h | [] => "" end
  end.

Definition check_case (c : case) : bool * bool :=
  match c with
  | CCodec s row => codec_check s row
  | CPairRow a qe qu pu pe =>
      (row_check (fun b => String (chr a) (String (chr b) "")) qe qu pu pe, true)
  | CPctRow a qe qu pu pe =>
      (row_check (fun b => String (chr c_pct) (String (chr a) (String (chr b) ""))) qe qu pu pe, true)
  | CParseQuery raw m ok =>
      let '(pairs, ok') := parse_query raw in
      (Bool.eqb ok ok' && values_eqb (client_values pairs) m, true)
  | CEncode q enc back backok =>
      (str_eqb (values_encode q) enc, backok && values_eqb back q && fwd_ok_b q enc)
  | CAsm hosts path q o =>
      (call_matches hosts path q o, asm_spec_b hosts path q o)
  | CStack hosts pattern params q inner o =>
      let path := generate_path pattern params in
      (call_matches hosts path q o &&
       match inner, o with
       | Some (p, q'), Some _ => str_eqb p path && values_eqb q' q
       | None, None => true
       | _, _ => false
       end,
       match o, inner with
       | Some c, Some (p, q') =>
           (has_byte c_hash p || url_ok_b hosts p q' c) &&
           (existsb (fun kv => tainted (snd kv)) params || same_counts_pos pattern p)
       | Some _, None => false
       | None, _ => true
       end)
  | CGin route allow be_allow pattern hosts target malformed o =>
      (match gin_request route allow be_allow pattern (first_host hosts (g_call o)) target with
       | GMalformed => malformed
       | GNotRouted => negb malformed && not_routed_status (g_status o) &&
                       is_none (g_outer o) && is_none (g_inner o) && is_none (g_call o)
       | GReject => negb malformed && (g_status o =? 400)%Z &&
                    is_none (g_outer o) && is_none (g_inner o) && is_none (g_call o)
       | GProxy params path qep q c =>
           negb malformed &&
           (g_status o =? match c with Some _ => 200 | None => 500 end)%Z &&
           match g_outer o with
           | Some (ps, q') => params_eqb ps params && values_eqb q' qep
           | None => false
           end &&
           match g_inner o, c with
           | Some (p, q'), Some _ => str_eqb p path && values_eqb q' q
           | None, None => true
           | _, _ => false
           end &&
           call_matches hosts path q (g_call o) && Bool.eqb (is_none c) (is_none (g_call o))
       end,
       malformed || gin_spec_b (extracted_of route target) pattern hosts o)
  end.

Fixpoint failing (i : nat) (cs : list case) : list verdict :=
  match cs with
  | [] => []
  | c :: r => let '(a, b) := check_case c in
              if a && b then failing (S i) r else (i, a, b) :: failing (S i) r
  end.
