(* C16 - correspondence: cases produced by the Go harness from the real code. *)
Require Export Verif.Common.Base Verif.Common.Json Verif.Common.Ctx.
Require Export Verif.Model.C16 Verif.Spec.C16.
Close Scope Z_scope.

Definition nats_eqb := list_eqb Nat.eqb.

(* compact encoding used by the emitter for an observed request whose headers, query,
   params and body are those of the client's request q (decided by the harness; the term
   denotes the observed value either way) *)
Definition obs_req (m p : string) (q : request) : request :=
  {| q_method := m; q_path := p; q_hdr := q_hdr q; q_qry := q_qry q; q_par := q_par q; q_body := q_body q |}.

Inductive case :=
(* factory level: configuration, the backend lists the wrapped factory was asked for, the
   regular backends as the harness classified them for the plain run, the error of the plain
   factory on those and of the shadow factory *)
| CNew (bs : list backend) (calls : list (list nat)) (plain_ids : list nat)
       (plain_err shadow_err : option string)
(* one call: configuration, endpoint timeout, client request, fullcopy flag, shadow outcomes,
   factory calls, plain ids, watchdog fired, the two results, the regular stubs of the two
   runs, the shadow stubs *)
| CRun (bs : list backend) (ep_timeout : Z) (req : request) (fullcopy : bool)
       (outs : list (nat * soutcome)) (calls : list (list nat)) (plain_ids : list nat) (watchdog : bool)
       (plain shadowed : cres) (pregs sregs : list robs) (shs : list sobs)
(* the same for an endpoint whose pipelines are SEQUENTIAL merges (later backends are called
   with values propagated from earlier answers, and only while the answers are complete) *)
| CSeqRun (bs : list backend) (ep_timeout : Z) (req : request) (fullcopy : bool)
       (outs : list (nat * soutcome)) (calls : list (list nat)) (plain_ids : list nat) (watchdog : bool)
       (plain shadowed : cres) (pregs sregs : list robs) (shs : list sobs)
(* long history on ONE proxy: the client call number hist, made while the shadow calls of all
   hist earlier requests are still hung (never released); blocked = it did not return until
   the harness released the hung shadow calls; alarm = a harness watchdog fired *)
| CHist (bs : list backend) (hist : nat) (blocked alarm : bool) (plain shadowed : cres).

(* ErrNoBackends is the only error the default factory returns *)
Definition default_ferr (l : list nat) : option string :=
  match l with [] => Some "no_backends" | _ => None end.

Definition corr_shadow_b (n : nat) (T ep : Z) (s : sobs) : bool :=
  let e := expected_rel_deadline n T ep in
  so_value s &&
  match so_deadline s with
  | Some d => (e <=? d)%Z && (d <=? so_seen s + e)%Z
  | None => false
  end.

Definition dummy_spawned : spawned :=
  {| s_ctx := background; s_req := {| q_method := ""; q_path := ""; q_hdr := []; q_qry := []; q_par := []; q_body := None |} |}.

Definition check_hist (bs : list backend) (hist : nat) (blocked alarm : bool) (plain shadowed : cres) : bool * bool :=
  (* the model: with hist shadow calls in flight the caller gets the regular result, at once *)
  (negb alarm &&
   match fst (serve (fun _ _ _ => plain) bs (repeat dummy_spawned hist) 0 0%Z background (s_req dummy_spawned)) with
   | Some x => negb blocked && cres_eqb x shadowed
   | None => false
   end,
   negb blocked && cres_eqb plain shadowed).

(* a sequential pipeline stops at the first backend that fails or answers incompletely: the
   backends are called at most once, a called one never after an uncalled one *)
Fixpoint prefix_calls (l : list nat) : bool :=
  match l with
  | [] => true
  | 1 :: r => prefix_calls r
  | 0 :: r => forallb (Nat.eqb 0) r
  | _ => false
  end.

Definition check_run (seq : bool) (bs : list backend) (ep : Z) (req : request) (fullcopy : bool)
    (outs : list (nat * soutcome)) (calls : list (list nat)) (plain_ids : list nat) (wd : bool)
    (plain shadowed : cres) (pregs sregs : list robs) (shs : list sobs) : bool * bool :=
      let B := shadow_new bs in
      let T := match B with BShadowed _ _ t => t | _ => 0%Z end in
      let n := List.length (shadow_of B) in
      (negb wd &&
       list_eqb nats_eqb calls (factory_calls B) && nats_eqb plain_ids (ids (regular_of B)) &&
       nats_eqb (map ro_id sregs) (ids (regular_of B)) && (if seq then prefix_calls (map ro_calls sregs) else forallb (fun r => Nat.eqb (ro_calls r) 1) sregs) &&
       nats_eqb (map so_id shs) (ids (shadow_of B)) &&
       forallb (corr_shadow_b n T ep) shs &&
       (* the model: the caller gets exactly what the regular proxy returns *)
       match endpoint_call (fun _ _ _ => plain) bs 0 0%Z background req with
       | Some (x, _) => cres_eqb x shadowed
       | None => false
       end &&
       (* the call as a transition system, under the two extreme schedules *)
       forallb (fun ls => match crun (fun _ _ => plain) (cinit req) ls with
                          | Some s => opt_eqb cres_eqb (c_result s) (Some shadowed)
                          | None => false end)
               [[LClone; LSpawn; LShadow tt; LShadowCancel; LRegular];
                [LClone; LSpawn; LRegular; LClientCancel; LShadow tt; LShadowCancel]],
       spec_run_b bs req fullcopy outs plain shadowed pregs sregs shs).

Definition check_case (c : case) : bool * bool :=
  match c with
  | CNew bs calls plain_ids pe se =>
      let B := shadow_new bs in
      (list_eqb nats_eqb calls (factory_calls B) && nats_eqb plain_ids (ids (regular_of B)) &&
       opt_eqb str_eqb se (new_error "no_backends" default_ferr bs),
       spec_new_b pe se)
  | CRun bs ep req fullcopy outs calls plain_ids wd plain shadowed pregs sregs shs =>
      check_run false bs ep req fullcopy outs calls plain_ids wd plain shadowed pregs sregs shs
  | CSeqRun bs ep req fullcopy outs calls plain_ids wd plain shadowed pregs sregs shs =>
      check_run true bs ep req fullcopy outs calls plain_ids wd plain shadowed pregs sregs shs
  | CHist bs hist blocked alarm plain shadowed => check_hist bs hist blocked alarm plain shadowed
  end.

Fixpoint failing (i : nat) (cs : list case) : list verdict :=
  match cs with
  | [] => []
  | c :: r => let '(a, b) := check_case c in
              if a && b then failing (S i) r else (i, a, b) :: failing (S i) r
  end.
