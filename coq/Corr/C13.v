(* C13 - correspondence: cases produced by the Go harness from the real code. *)
Require Export Verif.Common.Base Verif.Common.Json.
Require Export Verif.Model.C13 Verif.Spec.C13.
Open Scope string_scope.
Open Scope list_scope.

(* n copies of a text (long bodies are emitted in this form) *)
Fixpoint rep (n : nat) (u : string) : string :=
  match n with O => "" | S k => (u ++ rep k u)%string end.

(* a long text given in pieces *)
Definition cat (l : list string) : string := String.concat "" l.

Inductive case :=
(* one backend behind the default stack, nothing configured: router, backend encoding,
   is_collection, output_encoding, concurrent_calls, what the backend sent (the generator's own
   tree / text), what the client received *)
| CBody (r : router) (e : benc) (coll : bool) (o : oenc) (cc : nat) (x : extra) (b : bbody) (obs : cobs)
(* no-op endpoint: router, concurrent_calls, backend status, backend header lines as seen on the
   wire by a direct client, body chunks as written by the backend, what the client received
   (its body cut at the same chunk boundaries) *)
(* byte-level literals (validation of Model go_escape / go_unquote / scan_number against the real
   encoding/json): a string literal found in a gateway reply (text between the quotes, Go's decoding
   of it); a number literal found in a gateway reply and the bytes after it; a string literal the
   backend sent (written by the generator's serialiser, any escape style) and its value *)
| CLit (raw value : string)
| CNumLit (lit rest : string)
| CSrcLit (raw value : string)
| CNoop (r : router) (cc : nat) (ef : errflag) (x : extra) (st : Z) (hs : list header) (body : list chunk) (obs : nobs).

Definition check_case (c : case) : bool * bool :=
  match c with
  | CBody r e coll o cc x b obs =>
      (* x: pass-through modifier plugins / explicitly empty manipulation lists (Model glue) *)
      let m := client_body_x r e coll o cc x b in
      ((c_status m =? c_status obs)%Z &&
       ((c_status m =? 500)%Z (* the text of an error reply is outside C13 *) || cbody_eqb (c_body m) (c_body obs)),
       spec_body_b e coll o b obs)
  | CLit raw v =>
      (str_eqb (go_escape v) raw &&
       match go_unquote (raw ++ """")%string with
       | Some (d, r) => str_eqb d v && str_eqb r "" | None => false end, true)
  | CNumLit l rest =>
      (all_chars num_char l && negb (str_eqb l "") &&
       (let '(l', r') := scan_number (l ++ rest)%string in str_eqb l' l && str_eqb r' rest), true)
  | CSrcLit raw v =>
      (* escaped surrogates are outside the model (None) *)
      (match go_unquote (raw ++ """")%string with
       | Some (d, r) => str_eqb d v && str_eqb r "" | None => true end, true)
  | CNoop r cc ef x st hs body obs =>
      (* ef: the backend's return_error_* flags, ignored for no-op (Model.noop_backend_status_handler) *)
      let m := match noop_backend_status_handler ef with
               | HNoOp => noop_client_x r cc x st hs body
               | _ => {| n_status := st; n_headers := []; n_body := []; n_err := false |}
               end in
      (* gateway-made headers are C11's: compared as "the backend's lines are included" *)
      ((n_status m =? n_status obs)%Z && chunks_eqb (n_body m) (n_body obs) && sub_mset hs (n_headers obs),
       spec_noop_b st hs body obs)
  end.

Fixpoint failing (i : nat) (cs : list case) : list verdict :=
  match cs with
  | [] => []
  | c :: r => let '(a, b) := check_case c in
              if a && b then failing (S i) r else (i, a, b) :: failing (S i) r
  end.
