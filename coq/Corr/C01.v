(* C01 - correspondence: cases produced by the Go harness from the real code
   (proxy.NewMergeDataMiddleware / DefaultFactory with gated stub backends and the dequeue
   hook imposing the arrival order; VerifAccumulator and VerifCombineData directly). *)
Require Export Verif.Common.Base Verif.Common.Json.
Require Export Verif.Model.C01 Verif.Spec.C01.

Definition jresp := resp json.
Definition jout := outcome json.
Definition jresult := result json.

Definition mkresp (d : option obj) (c : bool) : jresp := {| data := d; complete := c |}.

(* same key set *)
Definition same_keys (a b : obj) : bool :=
  forallb (fun k => str_mem k (keys b)) (keys a) && forallb (fun k => str_mem k (keys a)) (keys b).

(* The projection (DESIGN section 3): nil-ness of the response, its set of fields, the
   completeness flag, nil-ness of the error and the multiset of its entries.  Which
   backend wins an overlapping field is left open by the property: the observed value of
   every field must be one of those offered (pm), nothing more.  A nil Data map and an
   empty one are not distinguished. *)
Definition result_agrees (pm : list obj) (m o : jresult) : bool :=
  match fst m, fst o with
  | None, None => true
  | Some x, Some y =>
      same_keys (dat x) (dat y) && Bool.eqb (complete x) (complete y) &&
      forallb (offered_b json_eqb pm) (dat y)
  | _, _ => false
  end &&
  perm_b (err_entries (snd m)) (err_entries (snd o)) &&
  Bool.eqb (match snd m with None => true | _ => false end) (match snd o with None => true | _ => false end).

Fixpoint nat_mem (x : nat) (l : list nat) : bool :=
  match l with [] => false | y :: r => Nat.eqb x y || nat_mem x r end.
Fixpoint nat_nodup (l : list nat) : bool :=
  match l with [] => true | x :: r => negb (nat_mem x r) && nat_nodup r end.
(* one call of Merge on the accumulator *)
Inductive call := KResp (r : jresp) | KNil | KErr (e : ekind).

Definition apply_call (a : acc json) (c : call) : acc json :=
  match c with
  | KResp r => acc_call a (Some r) None
  | KNil => acc_call a None None
  | KErr e => acc_call a None (Some e)
  end.

Inductive case :=
(* the merging proxy: outcome of each backend, imposed arrival order (indices into outs),
   how the proxy was built (0 = NewMergeDataMiddleware, 1 = DefaultFactory), observed *)
| CMerge (via : nat) (outs : list jout) (order : list nat) (o : jresult)
(* the merging proxy when payloads race with the cancellation (the select of requestPart):
   what every backend RETURNED, the backends whose payload was dropped for the context error
   (read off the response: private marker fields), the flavour of the context error *)
| CRace (via : nat) (outs : list jout) (dropped : list nat) (deadline : bool) (order : list nat) (o : jresult)
(* the accumulator alone: total, the Merge calls, observed Result() *)
| CAcc (total : Z) (calls : list call) (o : jresult)
(* combineData alone: total, parts (None = nil pointer), observed response *)
| CCombine (total : Z) (parts : list (option jresp)) (o : jresp).

(* order is a permutation of 0..n-1 *)
Definition is_order (n : nat) (order : list nat) : bool :=
  Nat.eqb (List.length order) n && nat_nodup order && forallb (fun i => Nat.ltb i n) order.

(* the message of backend i: requestPart applied to what the backend returned *)
Definition arrivals_of (outs : list jout) (order : list nat) : list (msg json) :=
  map (fun i => request_part (return_of (nth i outs OEmpty)) None) order.

(* backends whose payload lost the select of requestPart against the cancellation *)
Definition choice_of (dropped : list nat) (dl : bool) (i : nat) : option ekind :=
  if nat_mem i dropped then Some (ctx_err dl) else None.
Fixpoint effs_from (i : nat) (outs : list jout) (dropped : list nat) (dl : bool) : list jout :=
  match outs with
  | [] => []
  | o :: r => effective o (choice_of dropped dl i) :: effs_from (S i) r dropped dl
  end.
Definition race_arrivals (outs : list jout) (dropped : list nat) (dl : bool) (order : list nat) : list (msg json) :=
  map (fun i => request_part (return_of (nth i outs OEmpty)) (choice_of dropped dl i)) order.

Definition call_maps (cs : list call) : list obj :=
  flat_map (fun c => match c with KResp r => match data r with Some d => [d] | None => [] end | _ => [] end) cs.
Definition part_maps (ps : list (option jresp)) : list obj :=
  flat_map (fun p => match p with Some r => match data r with Some d => [d] | None => [] end | None => [] end) ps.

Definition outcome_of_call (c : call) : jout :=
  match c with KResp r => OPayload (complete r) (data r) | KNil => OEmpty | KErr e => OErr e end.

Definition check_case (c : case) : bool * bool :=
  match c with
  | CMerge _ outs order o =>
      let n := List.length outs in
      (is_order n order && Nat.leb 2 n &&
       result_agrees (payload_maps outs) (merge_run n (arrivals_of outs order)) o,
       spec_b json_eqb outs o)
  | CRace _ outs dropped dl order o =>
      let n := List.length outs in
      let effs := effs_from 0 outs dropped dl in
      (is_order n order && Nat.leb 2 n &&
       forallb (fun i => is_payload (nth i outs OEmpty)) dropped &&
       result_agrees (payload_maps effs) (merge_run n (race_arrivals outs dropped dl order)) o,
       spec_b json_eqb effs o)
  | CAcc total calls o =>
      (result_agrees (call_maps calls) (acc_result (fold_left apply_call calls (acc_init total))) o,
       (* when the calls are a whole parallel merge the property applies to them too *)
       if (Z.of_nat (List.length calls) =? total)%Z && Nat.leb 2 (List.length calls)
          && negb (existsb (fun c => match c with KNil => true | _ => false end) calls)
       then spec_b json_eqb (map outcome_of_call calls) o else true)
  | CCombine total parts o =>
      let m := combine_data total parts in
      (same_keys (dat m) (dat o) && Bool.eqb (complete m) (complete o) &&
       forallb (offered_b json_eqb (part_maps parts)) (dat o) &&
       match data o with Some _ => true | None => false end,
       true)
  end.

Fixpoint failing (i : nat) (cs : list case) : list verdict :=
  match cs with
  | [] => []
  | c :: r => let '(a, b) := check_case c in
              if a && b then failing (S i) r else (i, a, b) :: failing (S i) r
  end.
