(* C17 - correspondence: cases produced by the Go harness from the real code. *)
Require Export Verif.Common.Base Verif.Common.Json.
Require Export Verif.Model.C17 Verif.Spec.C17.

Definition str_list_eqb (a b : list string) : bool := list_eqb str_eqb a b.

Definition decoder_eqb (a b : decoder) : bool :=
  match a, b with
  | DNil, DNil | DJson, DJson | DJsonColl, DJsonColl | DSafe, DSafe | DString, DString | DNoop, DNoop => true
  | _, _ => false
  end.
Definition fkind_eqb (a b : fkind) : bool :=
  match a, b with KOk, KOk | KErr, KErr | KPanic, KPanic => true | _, _ => false end.

(* the projection: the fields the property speaks of. The order of the hosts and of the
   url keys is not compared (the statement is silent about it). *)
Definition bobs_eqb (a b : bobs) : bool :=
  same_mset_str (ob_host a) (ob_host b) && str_eqb (ob_method a) (ob_method b) &&
  str_eqb (ob_url a) (ob_url b) && same_mset_str (ob_keys a) (ob_keys b) &&
  decoder_eqb (ob_dec a) (ob_dec b) && (ob_timeout a =? ob_timeout b)%Z && (ob_cc a =? ob_cc b)%Z &&
  str_list_eqb (ob_hdrs a) (ob_hdrs b).
Definition eobs_eqb (a b : eobs) : bool :=
  str_eqb (oe_method a) (oe_method b) && (oe_timeout a =? oe_timeout b)%Z && (oe_cc a =? oe_cc b)%Z &&
  str_list_eqb (oe_hdrs a) (oe_hdrs b) && forallb2 bobs_eqb (oe_backends a) (oe_backends b) &&
  fkind_eqb (oe_factory a) (oe_factory b).
(* async agents: timeout, workers, health interval, the backends as above, the pipe's outcome *)
Definition aobs_eqb (a b : aobs) : bool :=
  (oa_timeout a =? oa_timeout b)%Z && (oa_workers a =? oa_workers b)%Z && (oa_health a =? oa_health b)%Z &&
  forallb2 bobs_eqb (oa_backends a) (oa_backends b) && fkind_eqb (oa_factory a) (oa_factory b).
Definition obs_eqb (a b : obs) : bool :=
  match a, b with
  | OPanic, OPanic | OErr, OErr => true
  | OOk x xa, OOk y ya => forallb2 eobs_eqb x y && forallb2 aobs_eqb xa ya
  | _, _ => false
  end.

Inductive case :=
(* a configuration: the real SafeCleanHost result of every host in it, strings.ToLower of
   every encoding it changes, the query_path files os.ReadFile could read, the configuration as decoded, what Parse / DefaultFactory.New did *)
| CCfg (hosts : list (string * option string)) (lowers : list (string * string)) (files : list string) (s : svc) (o : obs)
(* ill-typed or syntactically broken JSON: Parse must answer with an error *)
| CMalformed (o : obs)
(* re-validation of the hand-written scanners and library models against the real ones *)
| CKeys (strict : bool) (s : string) (found : list string)
| CSeq (s : string) (matched : bool)
| CInvalid (s : string) (matched : bool)
| CCanon (s r : string)
| CCap (s r : string)
| CReplace (s old new r : string)
| CUnique (l r : list string) (size : nat)
| CSplit (s : string) (r : list string)
| CEndpointPath (path : string) (params : list string) (r : string).

Definition check_case (c : case) : bool * bool :=
  match c with
  | CCfg hosts lowers files s o =>
      (obs_eqb (obs_of (fun p => str_mem p files) (init (tbl_fun hosts) (lower_fun lowers) s)) o, spec_b hosts s o)
  | CMalformed o => (match o with OErr => true | _ => false end, true)
  | CKeys strict s found => (str_list_eqb ((if strict then strict_keys else simple_keys) s) found, true)
  | CSeq s m => (Bool.eqb (seq_param s) m, true)
  | CInvalid s m => (Bool.eqb (invalid_path s) m, true)
  | CCanon s r => (str_eqb (canon_header s) r, true)
  | CCap s r => (str_eqb (cap s) r, true)
  | CReplace s old new r => (str_eqb (replace_all s old new) r, true)
  | CUnique l r n => (let '(u, k) := unique_output l in str_list_eqb u r && Nat.eqb k n, true)
  | CSplit s r => (str_list_eqb (split_dot s) r, true)
  | CEndpointPath p ps r => (str_eqb (endpoint_path p ps) r, true)
  end.

Fixpoint failing (i : nat) (cs : list case) : list verdict :=
  match cs with
  | [] => []
  | c :: r => let '(a, b) := check_case c in
              if a && b then failing (S i) r else (i, a, b) :: failing (S i) r
  end.
