(* C20 - correspondence: cases produced by the Go harness from the real code. *)
Require Export Verif.Common.Base Verif.Common.LockEv.
Require Export Verif.Model.C20 Verif.Spec.C20.

Inductive case :=
(* delays returned by a non-jittered strategy for the attempts from, from+1, ... *)
| CBack (s : strat) (from : Z) (obs : list Z)
(* jittered strategy, attempt i, the package's random source replaced by a seeded one: for every
   call the value its Intn returned (recomputed from a twin source) and the delay returned *)
| CJit (s : jstrat) (i : Z) (draws : list (Z * Z))
(* jittered strategy called from many goroutines at once (draws unknown) *)
| CJitConc (s : jstrat) (i : Z) (obs : list Z)
(* one goroutine using a registry: operations with their results, contents at the end *)
| CSeq (reg : string) (init : rmap) (ops : list rop) (final : rmap)
(* many goroutines using one registry: recorded history, contents after all returned *)
| CHist (reg : string) (init : rmap) (evs : list hev) (final : rmap)
(* goroutines registering distinct names in namespaces of a fresh Namespaced register *)
| CNs (regs : list (string * string * Z)) (final : nsmap)
(* race-detector build: did a report with a lura frame appear during the scenario *)
| CRace (scenario : string) (observed_race : bool)
(* a concurrent scenario killed the process (e.g. the runtime's concurrent map access check) *)
| CCrash (scenario : string) (msg : string)
(* a concurrent scenario made no progress (nothing completed within the stall limit, or the budget
   was overrun): the operations listed were blocked - "can be used from any number of goroutines
   at once" is violated by a deadlock as much as by a race *)
| CBlocked (scenario : string) (in_flight : list string)
(* a child process of the generator ran all its scenarios to the end (also: the liveness stress in
   which handlers are built through the routers' lookup path while renders are being registered) *)
| CLive (scenario : string) (finished : bool)
(* placeholder keeping case indices stable: a result a child did not deliver (the child's own
   status case says why) *)
| CSkip (scenario : string).

Open Scope Z_scope.
(* is d a delay the model can return for some value of Intn *)
Definition jit_image_b (s : jstrat) (i d : Z) : bool :=
  let n := jarg s i in
  let mj := max_jitter n in
  let r := d / millisecond - n * 1000 + mj in
  ((0 <=? r) && (r <? intn_arg s i) && (jbackoff s i r =? d)) ||
  ((d =? millisecond) && (n * 1000 - mj <=? 0)).
Close Scope Z_scope.

Definition check_case (c : case) : bool * bool :=
  match c with
  | CBack s from obs =>
      (list_eqb Z.eqb (map (backoff s) (zseq from (List.length obs))) obs, back_spec_b from obs)
  | CJit s i draws =>
      (forallb (fun p => (0 <=? fst p)%Z && (fst p <? intn_arg s i)%Z && (jbackoff s i (fst p) =? snd p)%Z) draws,
       negb (in_domain i) || forallb (fun p => jit_spec_b (nominal s i) (snd p)) draws)
  | CJitConc s i obs =>
      (forallb (jit_image_b s i) obs,
       negb (in_domain i) || forallb (jit_spec_b (nominal s i)) obs)
  | CSeq _ init ops final =>
      (let '(o, f) := seq_run init ops in list_eqb rop_eqb o ops && rmap_eqb f final,
       hist_ok init (seq_hist 0%Z ops) && final_ok init (seq_hist 0%Z ops) final)
  | CHist _ init evs final =>
      (final_ok init evs final, hist_ok init evs && final_ok init evs final)
  | CNs regs final =>
      (nsmap_eqb (ns_run [] regs) final, ns_all_present regs final)
  | CRace _ o => (negb o, negb o)
  | CCrash _ _ => (false, false)
  | CBlocked _ _ => (false, false)
  | CLive _ f => (f, f)
  | CSkip _ => (true, true)
  end.

Fixpoint failing (i : nat) (cs : list case) : list verdict :=
  match cs with
  | [] => []
  | c :: r => let '(a, b) := check_case c in
              if a && b then failing (S i) r else (i, a, b) :: failing (S i) r
  end.
