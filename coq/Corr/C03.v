(* C03 - correspondence: cases produced by the Go harness from the real code. *)
Require Export Verif.Common.Base Verif.Common.Heap.
Require Export Verif.Model.C03 Verif.Spec.C03.

(* cfg, client request, per backend what was sent (fan-out, alone), whether the race
   detector reported lura frames, and the client's own maps after the request *)
Inductive case :=
| Case (cfg : config) (q : request) (obs : list bobs) (race : bool)
       (after_hdr after_qry : mmap) (after_par : list (string * string))
(* unit level: one function / middleware applied to a request; by pointer identity, per field
   of all_fields, whether the request handed on holds the SAME object as the one received
   (None: not observable - nil body, no comparable header entry), whether next was reached,
   and whether the Body of the SOURCE request is still the reader it was *)
| CAlias (kd : akind) (b : backend) (q : request) (reached : bool) (same : list (option bool)) (src_body_same : option bool).

Definition somes {A} (l : list (option A)) : list A :=
  flat_map (fun o => match o with Some x => [x] | None => [] end) l.

(* the implementation sent what the model's schedule-free semantics says (as multisets of
   pairwise equal requests: same count, every observed one equal to every predicted one) *)
(* projection: method, URL (host and path), headers and body are compared with the model;
   WHICH query parameters reach a backend is the subject of C07/C08/C10 and is not part of
   this tie (the property oracle itself does compare the query strings, fan-out against
   alone) *)
Definition sent_corr_eqb (a b : sent) : bool :=
  str_eqb (s_method a) (s_method b) && str_eqb (s_url a) (s_url b) &&
  mmap_eqb (s_hdr a) (s_hdr b) && str_eqb (s_body a) (s_body b).
Definition agrees (predicted : list (option sent)) (observed : list sent) : bool :=
  let p := somes predicted in
  Nat.eqb (List.length p) (List.length observed) &&
  forallb (fun s => forallb (sent_corr_eqb s) p) observed.

Definition par_eqb (a b : list (string * string)) : bool :=
  forallb (fun kv => opt_eqb str_eqb (lookup (fst kv) a) (lookup (fst kv) b)) (a ++ b).

Fixpoint zip_idx {A} (i : nat) (l : list A) : list (nat * A) :=
  match l with [] => [] | x :: r => (i, x) :: zip_idx (S i) r end.

(* the tie is one-directional: wherever the code hands on the SAME object the model must say
   so (sharing the model does not know about would void the race-freedom theorem); a rewrite
   that copies more than the model says shares less and stays inside the theorem *)
Fixpoint match_same (o : list (option bool)) (m : list bool) : bool :=
  match o, m with
  | [], [] => true
  | x :: r, y :: t => match x with Some v => implb v y | None => true end && match_same r t
  | _, _ => false
  end.

Definition check_case (c : case) : bool * bool :=
  match c with
  | Case cfg q obs race ah aq ap =>
      let rf := race_free_b cfg q in
      let corr :=
        Nat.eqb (List.length obs) (List.length cfg) &&
        in_scope cfg q && rf && negb race && model_isolated_b cfg q &&
        forallb (fun io => let '(k, (fan, alone)) := io in
                   agrees (sent_seq cfg q k) fan && agrees (sent_seq (solo cfg k) q 0) alone)
                (zip_idx 0 obs) &&
        match final_orig cfg q FHdr with VMap m => mmap_eqb m ah | _ => false end &&
        match final_orig cfg q FQry with VMap m => mmap_eqb m aq | _ => false end &&
        match final_orig cfg q FPar with VPar m => par_eqb m ap | _ => false end in
      (corr, spec_b obs race)
  | CAlias kd b q reached same src =>
      let ok :=
        match stage_effect kd b q with
        | None => negb reached
        | Some (s', c) =>
            reached &&
            match_same same (same_objects (init_pst q) c) &&
            match src with Some x => implb x (obj_eqb (pv s' FBody) (pv (init_pst q) FBody)) | None => true end
        end in
      (ok, true)
  end.

Fixpoint failing (i : nat) (cs : list case) : list verdict :=
  match cs with
  | [] => []
  | c :: r => let '(a, b) := check_case c in
              if a && b then failing (S i) r else (i, a, b) :: failing (S i) r
  end.
