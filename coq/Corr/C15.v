(* C15 - correspondence: cases produced by the Go harness (harness/cmd/c15) from the real
   sd/dnssrv code.  Host lists are compared as multisets (the order is not part of C15; lists
   longer than 100 are shuffled by the code). *)
Require Export Verif.Common.Base.
Require Export Verif.Model.C15 Verif.Spec.C15.
Local Open Scope Z_scope.

Definition zlist_eqb (a b : list Z) : bool := list_eqb Z.eqb a b.

(* run-length form in which the harness writes host lists (keeps the order) *)
Definition unrle (l : list (string * nat)) : list string :=
  flat_map (fun p => repeat (fst p) (snd p)) l.

Inductive case :=
(* unit level (verif_export_c15.go): weights, then what normalize, gcd and compact returned *)
| CCompact (ws : list Z) (norm : list Z) (g : Z) (comp : list Z)
(* unit level: subscriber.resolve with the given (effective) scheme on one SRV answer *)
| CResolve (scheme : string) (rs : list srv) (obs : list string)
(* a subscriber built by NewDetailedWithScheme(name, scripted lookup, tiny ttl, scheme) driven
   through the history evs; obs = what each Hosts() call returned, in order *)
| CHist (scheme : string) (evs : list event) (obs : list (list string))
(* race-detector build: successive answers rss handed to the refresh goroutine while readers
   call Hosts(); seqs = per reader the lists it saw (consecutive repetitions removed);
   observed_race = the race detector reported a data race with a lura frame *)
| CRace (scheme : string) (rss : list (list srv)) (seqs : list (list (list string))) (observed_race : bool)
(* unit level: sd.NewRandomFixedSubscriber(hosts) after rand.Seed(s); perm = what rand.Perm(len)
   returns after the same seed; obs = the list it built *)
| CShuffle (hosts : list string) (perm : list nat) (obs : list string).

Definition check_case (c : case) : bool * bool :=
  match c with
  | CCompact ws norm g comp =>
      (zlist_eqb (normalize ws) norm && (gcdl ws =? g) && zlist_eqb (compact ws) comp,
       spec_compact_b ws comp)
  | CResolve scheme rs obs =>
      (perm_b obs (resolve scheme rs), spec_b scheme rs obs)
  | CHist scheme evs obs =>
      (forall2b perm_b (reads scheme evs) obs, spec_hist_b (eff_scheme scheme) None evs obs)
  | CRace scheme rss seqs race =>
      (* the model: disciplined reader and writer never race (Properties/C15.v), and a read
         returns the list of a completed update, never an older one than before *)
      (negb race &&
       forallb (in_order (fun rs o => perm_b o (resolve (eff_scheme scheme) rs)) rss) seqs,
       spec_race_b (eff_scheme scheme) rss seqs race)
  | CShuffle hosts perm obs =>
      (* the model of the shuffle, exactly; and the contract of rand.Perm the theorem assumes *)
      (is_perm_b (List.length hosts) perm && list_eqb str_eqb obs (shuffle_with perm hosts),
       perm_b obs hosts)
  end.

Fixpoint failing (i : nat) (cs : list case) : list verdict :=
  match cs with
  | [] => []
  | c :: r => let '(a, b) := check_case c in
              if a && b then failing (S i) r else (i, a, b) :: failing (S i) r
  end.
