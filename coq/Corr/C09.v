(* C09 - correspondence: cases produced by the Go harness from the real code. *)
Require Export Verif.Common.Base.
Require Export Verif.Model.C09 Verif.Spec.C09.

Definition robs_eqb (a b : robs) : bool :=
  match a, b with
  | ORejected, ORejected | OPanic, OPanic => true
  | OPath p, OPath q => str_eqb p q
  | ONotRouted s, ONotRouted t => (s =? t)%Z
  | _, _ => false
  end.

(* with a forwarded client query the implementation's call is the model's path followed by
   the forwarded query *)
Definition robs_ext (m o : robs) : bool :=
  match m, o with
  | OPath a, OPath b => extends_b a b
  | _, _ => robs_eqb m o
  end.

Inductive case :=
(* library casers on names: for every word w of length len over alpha, in lexicographic
   order of positions, cases.Title(Und)(prefix+w) and CanonicalMIMEHeaderKey(prefix+w), each
   followed by "|", concatenated *)
| CCaps (alpha pre : string) (len : nat) (titles mimes : string)
(* the same for longer sweeps, comparing a 61-bit polynomial hash of the concatenation (long
   string literals are expensive to read); the harness computes the same hash of the library's
   outputs *)
| CCapsH (alpha pre : string) (len : nat) (htitle hmime : N)
(* every one-byte string b: Title(b), CanonicalMIMEHeaderKey(b) *)
| CBytes (rows : list (N * string * string))
(* Init on raw text (colon: routing-pattern mode the run used) *)
| CInit (colon : bool) (ep be : string) (accepted : bool)
(* Init on a tokenised endpoint / url_pattern, with the text the harness handed to Init *)
| CInitT (colon : bool) (segs be : list tok) (eptext betext : string) (accepted : bool)
(* a configuration with several endpoints, initialised as a whole under the adapter's routing
   mode; when accepted, one request per endpoint through ONE router: values and observation *)
| CConfig (a : adapter) (eps : list (list tok * list tok)) (texts : list (string * string))
          (accepted : bool) (routes : list (list string * robs))
(* the route text of an accepted endpoint after Init (EndpointConfig.Endpoint), raw and tokenised *)
| CRouteTextRaw (colon : bool) (ep : string) (route : string)
| CRouteText (colon : bool) (segs : list tok) (eptext : string) (route : string)
(* Init with the endpoint's sequential-merge flag on or off (Init's verdict does not read it) *)
| CInitS (colon sequential : bool) (segs be : list tok) (eptext betext : string) (accepted : bool)
(* one request with a query string through an adapter and the full default backend stack; the
   endpoint's and the backend's own input_query_strings lists: the path the backend is called
   with does not depend on any of the three *)
| CRouteQ (a : adapter) (segs be : list tok) (eptext betext : string) (vals : list string)
          (ep_qs be_qs : list string) (query : list (string * string)) (o : robs)
(* one request through an adapter *)
| CRoute (a : adapter) (segs be : list tok) (eptext betext : string) (vals : list string) (o : robs).

Fixpoint words (alpha : list ascii) (len : nat) : list string :=
  match len with
  | O => [EmptyString]
  | S k => flat_map (fun c => map (String c) (words alpha k)) alpha
  end.
Definition sep : string := "|".
Definition sweep (f : string -> string) (alpha pre : string) (len : nat) : string :=
  String.concat EmptyString (map (fun w => (f (pre ++ w) ++ sep)%string) (words (list_ascii_of_string alpha) len)).

Definition hash_mask : N := 2305843009213693951. (* 2^61 - 1 *)
Fixpoint hash_str (h : N) (s : string) : N :=
  match s with
  | EmptyString => h
  | String c r => hash_str (N.land (h * 257 + N_of_ascii c + 1) hash_mask)%N r
  end.
Definition sweep_hash (f : string -> string) (alpha pre : string) (len : nat) : N :=
  fold_left (fun h w => hash_str h (f (pre ++ w) ++ sep)%string) (words (list_ascii_of_string alpha) len) 0%N.

Definition byte_row_ok (r : N * string * string) : bool :=
  let '(b, t, m) := r in
  let s := String (ascii_of_N b) EmptyString in
  str_eqb (title_und s) t && str_eqb (mime_canon s) m.

Definition check_case (c : case) : bool * bool :=
  match c with
  | CCaps alpha pre len titles mimes =>
      (str_eqb (sweep title_und alpha pre len) titles && str_eqb (sweep mime_canon alpha pre len) mimes, true)
  | CCapsH alpha pre len ht hm =>
      ((sweep_hash title_und alpha pre len =? ht)%N && (sweep_hash mime_canon alpha pre len =? hm)%N, true)
  | CBytes rows => (forallb byte_row_ok rows, true)
  | CInit colon ep be acc =>
      (Bool.eqb (accepted_b (init ep be)) acc,
       spec_init_b (endpoint_params (clean_path ep)) (backend_outputs (clean_path be)) acc)
  | CInitT colon segs be ept bet acc =>
      (str_eqb (render_ep segs) ept && str_eqb (render be) bet &&
       forallb seg_ok segs && forallb be_tok_ok be &&
       Bool.eqb (accepted_b (init ept bet)) acc,
       spec_init_b (ph_names segs) (ph_names be) acc)
  | CConfig a eps texts acc routes =>
      let rendered := map (fun e => (render_ep (fst e), render (snd e))) eps in
      (list_eqb (fun x y => str_eqb (fst x) (fst y) && str_eqb (snd x) (snd y)) rendered texts &&
       forallb (fun e => forallb seg_ok (fst e) && forallb be_tok_ok (snd e)) eps &&
       Bool.eqb (init_config texts) acc &&
       (if acc then
          Nat.eqb (List.length routes) (List.length eps) &&
          forallb (fun er => let '(e, (vals, o)) := er in
                     wf_route (fst e) (snd e) vals && robs_eqb (serve_routed a (fst e) (snd e) vals) o)
                  (combine eps routes)
        else true),
       forallb (fun e => spec_init_b (ph_names (fst e)) (ph_names (snd e)) acc) eps &&
       forallb (fun er => let '(e, (vals, o)) := er in spec_route_b (fst e) (snd e) vals o)
               (combine eps routes))
  | CRouteTextRaw colon ep route => (str_eqb (init_route colon ep) route, true)
  | CRouteText colon segs ept route =>
      (str_eqb (render_ep segs) ept && forallb seg_ok segs && str_eqb (init_route colon ept) route,
       (* every declared parameter appears in the router's syntax, in order, between the same literals *)
       str_eqb route (clean_path (render_route colon segs)))
  | CInitS colon sq segs be ept bet acc =>
      (str_eqb (render_ep segs) ept && str_eqb (render be) bet &&
       forallb seg_ok segs && forallb be_tok_ok be &&
       Bool.eqb (accepted_b (init ept bet)) acc,
       spec_init_b (ph_names segs) (ph_names be) acc)
  | CRouteQ a segs be ept bet vals epq beq query o =>
      (str_eqb (render_ep segs) ept && str_eqb (render be) bet && wf_route segs be vals &&
       (match query with [] => robs_eqb | _ => robs_ext end) (serve_routed a segs be vals) o,
       (match query with [] => spec_route_b | _ => spec_routeq_b end) segs be vals o)
  | CRoute a segs be ept bet vals o =>
      (str_eqb (render_ep segs) ept && str_eqb (render be) bet && wf_route segs be vals &&
       robs_eqb (serve_routed a segs be vals) o,
       spec_route_b segs be vals o)
  end.

Fixpoint failing (i : nat) (cs : list case) : list verdict :=
  match cs with
  | [] => []
  | c :: r => let '(a, b) := check_case c in
              if a && b then failing (S i) r else (i, a, b) :: failing (S i) r
  end.
