(* C04 - correspondence: cases produced by the Go harness from the real code. *)
Require Export Verif.Common.Base Verif.Common.Ctx.
Require Export Verif.Model.C04 Verif.Spec.C04.
Open Scope Z_scope.

(* the WithTimeout calls of the pipeline happen between the arrival (0) and the first backend
   call; the one of backend i's concurrent stage before the first attempt of backend i *)
Definition clk_lo : clock := fun _ => 0.
Definition clk_hi (calls : list call) : clock :=
  fun s => match s with SConc i => min_inv (calls_of i calls) | _ => min_inv calls end.
(* ... and the router handler's before the request builder runs, when that was observed *)
Definition clk_hi_rb (rb : option Z) (calls : list call) : clock :=
  fun s => match s, rb with
           | SRouter, Some r => Z.min r (min_inv calls)
           | _, _ => clk_hi calls s
           end.

Definition dl_model (c : config) (clk : clock) (i : nat) : option Z :=
  deadline (ctx_call lura_factors c clk i 0).

(* None = no deadline = +infinity *)
Definition opt_le (a b : option Z) : bool :=
  match a, b with
  | _, None => true
  | None, Some _ => false
  | Some x, Some y => x <=? y
  end.
Definition opt_z_eqb (a b : option Z) : bool := opt_eqb Z.eqb a b.

Definition count_calls (i : nat) (calls : list call) : nat := List.length (calls_of i calls).

(* which backends were called how often *)
Definition shape_ok (c : config) (o : obs) : bool :=
  let calls := o_calls o in
  let n := nbackends c in
  forallb (fun k => (k_be k <? n)%nat) calls &&
  forallb (fun i => let m := count_calls i calls in
                    if multi c && c_seq c
                    then (Nat.eqb m (cc_of c i) || (Nat.eqb m 0 && negb (Nat.eqb i 0))) &&
                         (* a prefix *)
                         (Nat.eqb m 0 || Nat.eqb i 0 || negb (Nat.eqb (count_calls (pred i) calls) 0)) &&
                         (o_tainted o || negb (i <? certain_prefix (c_backends c))%nat || Nat.eqb m (cc_of c i))
                    else Nat.eqb m (cc_of c i)) (upto 0 n).

(* every observed deadline lies between what the model yields for the earliest and for the
   latest possible derivation times *)
Definition deadlines_ok (c : config) (o : obs) : bool :=
  let calls := o_calls o in
  forallb (fun k => opt_le (dl_model c clk_lo (k_be k)) (k_dl k) &&
                    opt_le (k_dl k) (dl_model c (clk_hi_rb (o_rb o) calls) (k_be k))) calls.

(* calls that share their innermost WithTimeout frame report the same deadline *)
Definition shared_ok (c : config) (o : obs) : bool :=
  let calls := o_calls o in
  forallb (fun k => forallb (fun k' =>
     negb (Nat.eqb (k_be k) (k_be k') || (negb (concurrent c (k_be k)) && negb (concurrent c (k_be k'))))
     || opt_z_eqb (k_dl k) (k_dl k')) calls) calls.

(* a call whose stack certainly returns only when its context is done holds the pipeline up
   until then (never earlier) *)
Definition waits_ok (c : config) (o : obs) : bool :=
  o_tainted o ||
  forallb (fun i => forallb (fun k => match k_dl k with Some x => x <=? o_ret o | None => false end)
                            (calls_of i (o_calls o))) (must_wait c).

(* the number of contexts found between a call's context and the one handed in is the number
   of derivations the model's nesting has for that backend *)
Definition depth_ok (c : config) (o : obs) : bool :=
  forallb (fun k => match k_depth k with Some d => Nat.eqb d (depth c (k_be k)) | None => true end) (o_calls o).

Definition corr_b (c : config) (o : obs) : bool :=
  o_returned o && wf_config c && shape_ok c o && deadlines_ok c o && shared_ok c o && waits_ok c o && depth_ok c o.

Inductive case := Case (c : config) (slack : Z) (o : obs).

Definition check_case (x : case) : bool * bool :=
  match x with
  | Case c slack o => (corr_b c o, spec_b lura_factors c slack o)
  end.

Fixpoint failing (i : nat) (cs : list case) : list verdict :=
  match cs with
  | [] => []
  | c :: r => let '(a, b) := check_case c in
              if a && b then failing (S i) r else (i, a, b) :: failing (S i) r
  end.

(* Common/Ctx.v opens Z_scope for whoever imports it; the driver reads the verdict list in
   nat_scope *)
Close Scope Z_scope.
