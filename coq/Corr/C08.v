(* C08 - correspondence: cases produced by the Go harness from the real code. *)
Require Export Verif.Common.Base.
Require Export Verif.Model.C08 Verif.Spec.C08.

(* maps compared as maps: same value list under every key of either *)
Definition hmap_eqb (a b : hmap) : bool :=
  forallb (fun k => sl_eqb (getl k a) (getl k b)) (keys a ++ keys b).

(* the value of X-Forwarded-For (ClientIP heuristics over X-Forwarded-For / X-Real-Ip /
   RemoteAddr) is outside C08: when the harness cannot name it independently only its
   presence (one value) is compared, and the oracle is given the observed value as the address *)
Definition hide_xff (m : hmap) : hmap :=
  map (fun kv => if str_eqb (fst kv) XFF then (fst kv, map (fun _ => "") (snd kv)) else kv) m.

Definition pair_eqb (a b : string * string) : bool := str_eqb (fst a) (fst b) && str_eqb (snd a) (snd b).

Inductive case :=
(* one call of a backend's HTTPRequestExecutor: adapter, the four lists as written in the
   configuration, the parsed static query of url_pattern, the client's header lines and
   query pairs, Host, the client IP when known, the gateway's User-Agent value; observed
   header map and parsed URL query *)
| COut (a : adapter) (eph epq beh beq : list string) (static : list (string * string))
       (lines qs : list (string * string)) (host : string) (ip : option string) (ua : string)
       (oh oq : hmap)
(* the same call at the wire level: the query text of url_pattern, the RawQuery of the URL the
   executor was handed and what url.ParseQuery makes of it *)
| CWire (a : adapter) (eph epq beh beq : list string) (sraw : string) (static : list (string * string))
        (lines qs : list (string * string)) (host ua : string) (raw : string) (oq : hmap)
(* a GraphQL backend: as COut, plus what the stage contributes (length of the generated body /
   the operation's GET parameters) *)
| CGql (g : gql) (a : adapter) (eph epq beh beq : list string) (static : list (string * string))
       (lines qs : list (string * string)) (host : string) (ip : option string) (ua : string)
       (oh oq : hmap)
(* url.QueryEscape s = e *)
| CEscape (s e : string)
(* url.QueryUnescape s = o (None: error) *)
| CUnescape (s : string) (o : option string)
(* url.ParseQuery raw = m (errors ignored, as url.URL.Query does) *)
| CParse (raw : string) (m : hmap)
(* textproto.CanonicalMIMEHeaderKey s = expected (validates the model of the std-lib function) *)
| CCanon (s expected : string).

Definition check_case (c : case) : bool * bool :=
  match c with
  | COut a eph epq beh beq static lines qs host ip ua oh oq =>
      let cfg := {| c_adapter := a; c_ep_headers := eph; c_ep_query := epq;
                    c_be_headers := beh; c_be_query := beq; c_static := static |} in
      let req := {| r_lines := lines; r_query := qs; r_host := host;
                    r_ip := match ip with Some i => i
                            | None => match getl XFF oh with [v] => v | _ => "" end end; r_ua := ua |} in
      let o := {| o_headers := oh; o_query := oq |} in
      let m := outgoing cfg req in
      let hid := match ip with Some _ => (fun x => x) | None => hide_xff end in
      (hmap_eqb (hid (o_headers m)) (hid oh) && hmap_eqb (o_query m) oq, spec_b cfg req o)
  | CWire a eph epq beh beq sraw static lines qs host ua raw oq =>
      let cfg := {| c_adapter := a; c_ep_headers := eph; c_ep_query := epq;
                    c_be_headers := beh; c_be_query := beq; c_static := static |} in
      let req := {| r_lines := lines; r_query := qs; r_host := host; r_ip := ""; r_ua := ua |} in
      (* the url_pattern text parses to the static pairs the harness got from net/url; the real
         RawQuery parses (by the model) to what url.ParseQuery found; the model's RawQuery is the
         real one up to the order of the '&'-separated pieces (Values.Encode sorts keys) *)
      (list_eqb pair_eqb (parse_query sraw) static &&
       hmap_eqb (group (parse_query raw)) oq &&
       same_mset_str (split_on amp (outgoing_raw cfg sraw req)) (split_on amp raw), true)
  | CGql g a eph epq beh beq static lines qs host ip ua oh oq =>
      let cfg := {| c_adapter := a; c_ep_headers := eph; c_ep_query := epq;
                    c_be_headers := beh; c_be_query := beq; c_static := static |} in
      let req := {| r_lines := lines; r_query := qs; r_host := host;
                    r_ip := match ip with Some i => i
                            | None => match getl XFF oh with [v] => v | _ => "" end end; r_ua := ua |} in
      let o := {| o_headers := oh; o_query := oq |} in
      let m := outgoing_gql g cfg req in
      let hid := match ip with Some _ => (fun x => x) | None => hide_xff end in
      (hmap_eqb (hid (o_headers m)) (hid oh) && hmap_eqb (o_query m) oq, spec_gql_b g cfg req o)
  | CEscape s e => (str_eqb (query_escape s) e && opt_eqb str_eqb (query_unescape e) (Some s), true)
  | CUnescape s o => (opt_eqb str_eqb (query_unescape s) o, true)
  | CParse raw m => (hmap_eqb (group (parse_query raw)) m, true)
  | CCanon s e => (str_eqb (canon s) e, true)
  end.

Fixpoint failing (i : nat) (cs : list case) : list verdict :=
  match cs with
  | [] => []
  | c :: r => let '(a, b) := check_case c in
              if a && b then failing (S i) r else (i, a, b) :: failing (S i) r
  end.
