(* C05 - correspondence: cases produced by the Go harness from the real middleware. *)
Require Export Verif.Common.Base.
Require Export Verif.Model.C05 Verif.Spec.C05.

(* One run of the real middleware under an imposed arrival order.
   n: ConcurrentCalls; kinds: what the backend call of the attempt that took slot i does;
   order: the non-silent slots in the order in which they were let go (each one only after
   the collector had dequeued the previous message); parent: Some k = the parent context was
   cancelled after k messages had been dequeued (every other attempt still held back);
   req: the request given to the middleware (q_body = its full body);
   seen: per slot, the request the attempt was handed, body read to the end;
   o: what the middleware returned. *)
Inductive case :=
| CRun (n : nat) (kinds : list kind) (order : list nat) (parent : option nat)
       (req : request) (seen : list request) (o : result)
(* a run in which the attempts answer at once and the arrival order is NOT imposed (used
   where one middleware instance serves several calls at the same time and the dequeue
   hook cannot be attributed to a call); no silent attempts, parent alive.  What is
   compared (response class, presence of an error, membership) does not depend on the
   order, so the model is evaluated on the spawn order *)
| CFree (n : nat) (kinds : list kind) (req : request) (seen : list request) (o : result)
(* the caller's own request after the call (attempts that write to the maps of the request
   THEY were handed must not be visible to the caller): everything but the body reader *)
| CCaller (n : nat) (req after : request)
(* a schedule the harness could not impose on this machine (budget elapsed before all
   messages were released, six times in a row): nothing was observed, nothing is judged *)
| CSkipped (why : string).

Fixpoint nat_mem (x : nat) (l : list nat) : bool :=
  match l with [] => false | y :: r => Nat.eqb x y || nat_mem x r end.
Fixpoint nodup_nat (l : list nat) : bool :=
  match l with [] => true | x :: r => negb (nat_mem x r) && nodup_nat r end.

(* sanity of the scenario itself (a harness bug shows up as a correspondence failure) *)
Definition scenario_ok (n : nat) (kinds : list kind) (order : list nat) (parent : option nat) : bool :=
  Nat.eqb (List.length kinds) n && Nat.leb 2 n && nodup_nat order &&
  forallb (fun i => nat_mem i (nonsilent_slots kinds)) order &&
  Nat.eqb (List.length order) (List.length (nonsilent_slots kinds)) &&
  match parent with
  | None => true
  | Some k => Nat.leb k (List.length order) && Nat.eqb (silent_count kinds) 0
  end.

(* the projection: which of several complete (or of several incomplete) answers, and which
   of several errors, is returned is left open by the statement and is not compared *)
Definition resp_class (r : option response) : nat :=
  match r with None => 0 | Some x => if r_complete x then 2 else 1 end.
Definition is_some {A} (x : option A) : bool := match x with Some _ => true | None => false end.
(* a complete response is compared exactly: under the imposed arrival order the model names
   the winner (C05_which_complete: the first complete one) *)
Definition complete_same (m o : option response) : bool :=
  match m, o with
  | Some x, Some y => if r_complete x then resp_eqb x y else true
  | _, _ => true
  end.
Definition result_agrees (exact : bool) (evs : list ev) (m o : result) : bool :=
  Nat.eqb (resp_class (fst m)) (resp_class (fst o)) && (negb exact || complete_same (fst m) (fst o)) &&
  Bool.eqb (is_some (snd m)) (is_some (snd o)) &&
  match fst o with None => true | Some r => res_in r evs end &&
  match snd o with None => true | Some e => err_in e evs end.

Fixpoint remove_first {A} (f : A -> A -> bool) (x : A) (l : list A) : option (list A) :=
  match l with
  | [] => None
  | y :: r => if f x y then Some r
              else match remove_first f x r with Some r' => Some (y :: r') | None => None end
  end.
Fixpoint mset_eqb {A} (f : A -> A -> bool) (a b : list A) : bool :=
  match a with
  | [] => match b with [] => true | _ => false end
  | x :: r => match remove_first f x b with Some b' => mset_eqb f r b' | None => false end
  end.

Definition check_run (exact : bool) (n : nat) (kinds : list kind) (order : list nat) (parent : option nat)
           (req : request) (seen : list request) (o : result) : bool * bool :=
      let evs := match parent with
                 | None => events kinds order
                 | Some k => events_parent n kinds order k end in
      (scenario_ok n kinds order parent &&
       result_agrees exact evs (run_scenario n kinds order parent) o &&
       mset_eqb req_eqb (spawn n req) seen,
       match parent with
       | None => spec_b (produced kinds) o
       | Some _ => spec_parent_b (produced kinds) o
       end && requests_b n req seen).

Definition check_case (c : case) : bool * bool :=
  match c with
  | CRun n kinds order parent req seen o => check_run true n kinds order parent req seen o
  | CFree n kinds req seen o =>
      let '(a, b) := check_run false n kinds (nonsilent_slots kinds) None req seen o in
      (a && Nat.eqb (silent_count kinds) 0, b)
  | CCaller n req after =>
      (req_eqb (with_body after None) (with_body (caller_after n req) None),
       req_eqb (with_body after None) (with_body req None))
  | CSkipped _ => (true, true)
  end.

Fixpoint failing (i : nat) (cs : list case) : list verdict :=
  match cs with
  | [] => []
  | c :: r => let '(a, b) := check_case c in
              if a && b then failing (S i) r else (i, a, b) :: failing (S i) r
  end.
