(* C18 - correspondence: cases produced by the Go harness from the real code. *)
Require Export Verif.Common.Base Verif.Common.Json.
Require Export Verif.Model.C18 Verif.Spec.C18.

Inductive case :=
(* proxy.NewStaticMiddleware around a stub returning (r, e): shape of the extra_config,
   the stub's result, the observed result *)
| CStatic (s : sshape) (r : option resp) (e : err) (o : outcome)
(* proxy.NewPluginMiddleware (LEndpoint) / NewBackendPluginMiddleware (LBackend) around a
   logging stub: registrations of the names used, config shape, stub result, observed
   call log and result *)
| CPlugin (lv : level) (R : registry) (p : pshape) (r : option resp) (e : err) (o : comp)
(* proxy.DefaultFactory.New for an endpoint with one backend: static config, registry,
   endpoint and backend plugin configs, result of the backend proxy, observed log/result *)
| CStack (s : sshape) (R : registry) (pe pb : pshape) (r : option resp) (e : err) (o : comp)
(* values: via 0 = NewPluginMiddleware (pb unconfigured), 1 = NewBackendPluginMiddleware (pe
   unconfigured), 2 = DefaultFactory, 3 = DefaultFactory for a no-op endpoint; initial request trace v0, trace of the backend's response
   (None: the backend fails), observed: what every modifier and the backend saw, and the
   trace of the returned response *)
(* the same through DefaultFactory for an endpoint with this output encoding ("no-op") *)
| CStackEnc (enc : string) (s : sshape) (R : registry) (pe pb : pshape) (r : option resp) (e : err) (o : comp)
| CThread (via : nat) (R : registry) (pe pb : pshape) (v0 : trace) (t0 : option trace)
          (o : list vevent * vresult).

Definition check_case (c : case) : bool * bool :=
  match c with
  | CStatic s r e o =>
      (outcome_eqb (static_apply (static_cfg s) r e) o,
       static_case_spec_b (static_cfg s) r e o)
  | CPlugin lv R p r e o =>
      (comp_eqb (plugin_mw lv R p (backend_call r e)) o,
       plugin_case_spec_b lv R p (backend_call r e) o)
  | CStack s R pe pb r e o =>
      (comp_eqb (endpoint_stack s R pe pb r e) o,
       stack_spec_b s R pe pb r e o)
  | CStackEnc enc s R pe pb r e o =>
      (comp_eqb (factory_stack enc s R pe pb r e) o,
       stack_spec_b s R pe pb r e o)
  | CThread _ R pe pb v0 t0 o =>
      (vcomp_eqb (vstack R pe pb t0 v0) o, thread_spec_b R pe pb v0 t0 o)
  end.

Fixpoint failing (i : nat) (cs : list case) : list verdict :=
  match cs with
  | [] => []
  | c :: r => let '(a, b) := check_case c in
              if a && b then failing (S i) r else (i, a, b) :: failing (S i) r
  end.
