(* C06 - correspondence: cases produced by the Go harness from the real formatter. *)
Require Export Verif.Common.Base Verif.Common.Json.
Require Export Verif.Model.C06 Verif.Spec.C06.

Definition obs_eqb (r : result) (o : obs) : bool :=
  match r, o with
  | Panic, OPanic => true
  | Ok m, OData m' => obj_eqb m m'
  | _, _ => false
  end.

(* the partial configurations the harness also runs: target only; target + filter *)
Definition cfg_t (c : cfg) : cfg :=
  {| target := target c; allow := []; deny := []; mapping := []; group := "" |}.
Definition cfg_f (c : cfg) : cfg :=
  {| target := target c; allow := allow c; deny := deny c; mapping := []; group := "" |}.

Inductive case :=
(* proxy.NewEntityFormatter(backend).Format on a decoded document: observed with the
   target only, with target + filter, and with the whole configuration *)
| CFmt (c : cfg) (d : obj) (o_t o_f o : obs) (stable : bool)
(* backend body -> decoder chosen by config (is_collection) -> formatter, through the http
   proxy (or through the whole pipeline and the router: same observation, the Data / the JSON
   body); o = None: no response (decoder error).  o_t, o_f: the formatter's partial runs on
   the document the statement says the decoder yields (only looked at when it says so).
   Every configuration is run several times on fresh copies (Go's map iteration order varies
   between runs); o_t, o_f, o are the observations of the first run and stable tells whether
   all runs produced the same result ("the outcome does not depend on map iteration order") *)
| CResp (c : cfg) (is_collection : bool) (payload : json) (o_t o_f : obs) (o : option obs) (stable : bool).

(* a mapping whose names overlap is outside the quantifier: its outcome depends on the
   order in which Go ranges over the map, so it is not compared with the model *)
Definition comparable (c : cfg) : bool := names_distinct_b (sanitize (mapping c)).

Definition check_case (cs : case) : bool * bool :=
  match cs with
  | CFmt c d o_t o_f o stable =>
      (obs_eqb (format (cfg_t c) d) o_t && obs_eqb (format (cfg_f c) d) o_f &&
       (negb (comparable c) || obs_eqb (format c d) o),
       spec_b c d o_t o_f o && (stable || negb (comparable c)))
  | CResp c ic payload o_t o_f o stable =>
      (match respond c ic payload, o with
       | None, None => true
       | Some r, Some oo => negb (comparable c) || obs_eqb r oo
       | _, _ => false
       end,
       spec_resp_b c ic payload o_t o_f o && (stable || negb (comparable c)))
  end.

Fixpoint failing (i : nat) (cs : list case) : list verdict :=
  match cs with
  | [] => []
  | c :: r => let '(a, b) := check_case c in
              if a && b then failing (S i) r else (i, a, b) :: failing (S i) r
  end.
