(* C06 - correspondence: cases produced by the Go harness from the real formatter. *)
Require Export Verif.Common.Base Verif.Common.Json.
Require Export Verif.Model.C06 Verif.Spec.C06.

Definition obs_eqb (r : result) (o : obs) : bool :=
  match r, o with
  | Panic, OPanic => true
  | Ok m, OData m' => obj_eqb m m'
  | _, _ => false
  end.

(* the partial configurations the harness also runs: target only; target + filter *)
Definition cfg_t (c : cfg) : cfg :=
  {| target := target c; allow := []; deny := []; mapping := []; group := "" |}.
Definition cfg_f (c : cfg) : cfg :=
  {| target := target c; allow := allow c; deny := deny c; mapping := []; group := "" |}.

Inductive case :=
(* proxy.NewEntityFormatter(backend).Format on a decoded document: observed with the
   target only, with target + filter, and with the whole configuration *)
| CFmt (c : cfg) (d : obj) (o_t o_f o : obs) (stable : bool)
(* the same with an extra_config on the backend: ns = the value under the proxy namespace.
   Judged like CFmt when the model says the entity formatter stays in place; when the flatmap
   formatter takes over (outside C06) nothing is judged *)
| CFmtX (ns : option json) (c : cfg) (d : obj) (o_t o_f o : obs) (stable : bool)
(* backend body -> decoder chosen by config (is_collection) -> formatter, through the http
   proxy (or through the whole pipeline and the router: same observation, the Data / the JSON
   body); o = None: no response (decoder error).  o_t, o_f: the formatter's partial runs on
   the document the statement says the decoder yields (only looked at when it says so).
   Every configuration is run several times on fresh copies (Go's map iteration order varies
   between runs); o_t, o_f, o are the observations of the first run and stable tells whether
   all runs produced the same result ("the outcome does not depend on map iteration order") *)
| CResp (c : cfg) (is_collection : bool) (payload : json) (o_t o_f : obs) (o : option obs) (stable : bool)
(* an endpoint with several backends behind the default factory (parallel merge) and the gin
   JSON render: per backend its configuration, is_collection, payload and what that backend's
   own http proxy / formatter was observed to do (as in CResp); client = the decoded JSON body
   the client received (None: an error status); stable: every run gave the same body *)
| CE2E (bs : list (cfg * bool * json * obs * obs * option obs)) (client : option obj) (stable : bool).

(* a mapping whose names overlap is outside the quantifier: its outcome depends on the
   order in which Go ranges over the map, so it is not compared with the model *)
Definition comparable (c : cfg) : bool := names_distinct_b (sanitize (mapping c)).

Definition e2e_item := (cfg * bool * json * obs * obs * option obs)%type.
Definition e2e_backend (x : e2e_item) : backend :=
  let '(c, ic, payload, _, _, _) := x in {| b_cfg := c; b_coll := ic; b_payload := payload |}.
Definition e2e_cfg (x : e2e_item) : cfg := let '(c, _, _, _, _, _) := x in c.
Definition e2e_backend_corr (x : e2e_item) : bool :=
  let '(c, ic, payload, _, _, o) := x in
  match respond c ic payload, o with
  | None, None => true
  | Some r, Some oo => negb (comparable c) || obs_eqb r oo
  | _, _ => false
  end.
Definition e2e_backend_prop (x : e2e_item) : bool :=
  let '(c, ic, payload, o_t, o_f, o) := x in spec_resp_b c ic payload o_t o_f o.
Definition observed_out (x : e2e_item) : list obj :=
  let '(_, _, _, _, _, o) := x in match o with Some (OData m) => [m] | _ => [] end.
(* the model's formatted outputs (the observed one where the mapping is outside the quantifier) *)
Definition model_out (x : e2e_item) : list obj :=
  if comparable (e2e_cfg x)
  then match backend_out (e2e_backend x) with Some m => [m] | None => [] end
  else observed_out x.

Definition check_case (cs : case) : bool * bool :=
  match cs with
  | CFmt c d o_t o_f o stable =>
      (obs_eqb (format (cfg_t c) d) o_t && obs_eqb (format (cfg_f c) d) o_f &&
       (negb (comparable c) || obs_eqb (format c d) o),
       spec_b c d o_t o_f o && (stable || negb (comparable c)))
  | CFmtX ns c d o_t o_f o stable =>
      if uses_flatmap ns then (true, true)
      else
      (obs_eqb (format (cfg_t c) d) o_t && obs_eqb (format (cfg_f c) d) o_f &&
       (negb (comparable c) || obs_eqb (format c d) o),
       spec_b c d o_t o_f o && (stable || negb (comparable c)))
  | CResp c ic payload o_t o_f o stable =>
      (match respond c ic payload, o with
       | None, None => true
       | Some r, Some oo => negb (comparable c) || obs_eqb r oo
       | _, _ => false
       end,
       spec_resp_b c ic payload o_t o_f o && (stable || negb (comparable c)))
  | CE2E bs client stable =>
      let mo := flat_map model_out bs in
      let oo := flat_map observed_out bs in
      let all_comparable := forallb (fun x => comparable (e2e_cfg x)) bs in
      (forallb e2e_backend_corr bs &&
       match client with
       | None => is_nil mo
       | Some doc =>
           negb all_comparable ||   (* a run-dependent backend output: the merge is not judged *)
           (* which backend wins a shared top-level key is left open (arrival order) *)
           negb (is_nil mo) && noleak_e2e_b mo doc && all_delivered_b mo doc &&
           (negb all_comparable || negb (disjoint_keys_b mo) ||
            opt_eqb obj_eqb (client_doc (map e2e_backend bs)) (Some doc))
       end,
       forallb e2e_backend_prop bs &&
       match client with
       | None => true
       | Some doc => negb all_comparable || noleak_e2e_b oo doc
       end &&
       (stable || negb (disjoint_keys_b oo) || negb all_comparable))
  end.

Fixpoint failing (i : nat) (cs : list case) : list verdict :=
  match cs with
  | [] => []
  | c :: r => let '(a, b) := check_case c in
              if a && b then failing (S i) r else (i, a, b) :: failing (S i) r
  end.
