(* C02 - correspondence: cases produced by the Go harness from the real code. *)
Require Export Verif.Common.Base Verif.Common.Json.
Require Export Verif.Model.C02 Verif.Spec.C02.

Definition event_eqb (a b : event) : bool :=
  match a, b with
  | ECall i p, ECall j q => Nat.eqb i j && str_eqb p q
  | ERet i, ERet j => Nat.eqb i j
  | _, _ => false
  end.

Definition same_keys (a b : obj) : bool :=
  forallb (fun k => mem k b) (keys a) && forallb (fun k => mem k a) (keys b).

(* the response: nil-ness of the response and of its data, key set and completeness as the
   model says; every value one that an answering backend offered (the winner of a key offered
   twice is not fixed by the statement, so it is not compared) *)
Definition resp_corr (offered : list obj) (m o : option resp) : bool :=
  match m, o with
  | None, None => true
  | Some a, Some b =>
      Bool.eqb (complete a) (complete b) &&
      match data a, data b with
      | None, None => true
      | Some da, Some db => same_keys da db && union_b offered db
      | _, _ => false
      end
  | _, _ => false
  end.

Inductive case :=
(* lvl 0: NewMergeDataMiddleware over request-builder-wrapped stubs; lvl 1: config Init +
   default proxy factory.  ts: the templates; pats: the url patterns the backends ended up
   with (lvl 1: after Init rewrote {resp<i>_...}); outs: scripted outcomes; ps0: endpoint
   parameters; evs: enter/exit log of the stubs with the path each was called with; res:
   what the endpoint proxy returned *)
| CSeq (lvl : nat) (ts : list tmpl) (pats : list string) (outs : list outcome) (ps0 : params)
       (evs : list event) (res : result)
(* config Init + default factory, every backend behind the real HTTP proxy with a stub
   executor: hs = per backend the status mode of its configuration and the HTTP reply *)
| CSeqH (ts : list tmpl) (pats : list string) (hs : list (hmode * hreply)) (ps0 : params)
        (evs : list event) (res : result)
(* merge middleware behind the request builder with sequential_propagated_params = props;
   pars: the request.Params each entered backend saw *)
| CSeqP (ts : list tmpl) (pats : list string) (props : list (nat * list string)) (outs : list outcome)
        (ps0 : params) (evs : list event) (pars : list (nat * params)) (res : result).

Definition check_seq (ts : list tmpl) (pats : list string) (outs : list outcome) (ps0 : params)
           (evs : list event) (res : result) : bool * bool :=
  let '(mevs, mres) := seq_run ts outs ps0 in
  (Nat.eqb (List.length ts) (List.length outs) &&
   list_eqb str_eqb (map render ts) pats &&
   list_eqb event_eqb mevs evs &&
   resp_corr (payload_datas (called outs)) (fst mres) (fst res) &&
   rerr_eqb (snd mres) (snd res),
   spec_b ts outs ps0 (evs, res)).

(* parameter tables compared as maps *)
Definition params_eqb (a b : params) : bool :=
  forallb (fun kv => opt_eqb str_eqb (lookup (fst kv) a) (lookup (fst kv) b)) (a ++ b).

Definition pars_eqb (a b : list (nat * params)) : bool :=
  list_eqb (fun x y => Nat.eqb (fst x) (fst y) && params_eqb (snd x) (snd y)) a b.

Definition check_case (c : case) : bool * bool :=
  match c with
  | CSeqP ts pats props outs ps0 evs pars res =>
      let '(mevs, mpars, mres) := seq_run_x ts props outs ps0 in
      (Nat.eqb (List.length ts) (List.length outs) &&
       list_eqb str_eqb (map render ts) pats &&
       list_eqb event_eqb mevs evs && pars_eqb mpars pars &&
       resp_corr (payload_datas (called outs)) (fst mres) (fst res) &&
       rerr_eqb (snd mres) (snd res),
       spec_b ts outs ps0 (evs, res))
  | CSeq _ ts pats outs ps0 evs res => check_seq ts pats outs ps0 evs res
  | CSeqH ts pats hs ps0 evs res =>
      check_seq ts pats (map (fun x => http_outcome (fst x) (snd x)) hs) ps0 evs res
  end.

Fixpoint failing (i : nat) (cs : list case) : list verdict :=
  match cs with
  | [] => []
  | c :: r => let '(a, b) := check_case c in
              if a && b then failing (S i) r else (i, a, b) :: failing (S i) r
  end.
