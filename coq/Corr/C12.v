(* C12 - correspondence: cases produced by the Go harness from the real code. *)
Require Export Verif.Common.Base Verif.Common.Json.
Require Export Verif.Model.C12 Verif.Spec.C12.

Definition presp_eqb (a b : presp) : bool :=
  obj_eqb (p_data a) (p_data b) && Bool.eqb (p_complete a) (p_complete b) && (p_status a =? p_status b)%Z.
Definition pout_eqb (a b : pout) : bool :=
  opt_eqb presp_eqb (fst a) (fst b) && perr_eqb (snd a) (snd b).
Definition cbody_eqb (a b : cbody) : bool :=
  match a, b with
  | BJson x, BJson y => json_eqb x y
  | BRaw x, BRaw y => str_eqb x y
  | _, _ => false
  end.
Definition cobs_eqb (a b : cobs) : bool :=
  (c_status a =? c_status b)%Z && str_eqb (c_completed a) (c_completed b) && cbody_eqb (c_body a) (c_body b).
(* same, but the text of a raw (non JSON) body is not compared: used where the text is
   outside C12 (the decoder's own error message; error texts joined in arrival order) *)
Definition cobs_eqb_lax (a b : cobs) : bool :=
  (c_status a =? c_status b)%Z && str_eqb (c_completed a) (c_completed b) &&
  match c_body a, c_body b with
  | BJson x, BJson y => json_eqb x y
  | BRaw _, BRaw _ => true
  | _, _ => false
  end.

Inductive case :=
(* proxy level: extra_config values, backend reply, independent decoding, observed outcome *)
| CProxy (details code : cfgval) (r : reply) (decoded : option obj) (o : pout)
(* client level, one backend: handler implementation, ..., observed reply and raw body *)
| CSingle (i : impl) (details code : cfgval) (r : reply) (decoded : option obj) (o : cobs) (raw : string)
(* client level, several backends *)
| CMulti (i : impl) (bs : list (cfgval * cfgval * reply * option obj)) (o : cobs) (raw : string)
(* proxy level, the backend's RAW extra_config map *)
| CProxyRaw (extra : obj) (r : reply) (decoded : option obj) (o : pout)
(* proxy level, backend encoding by name; parsed: independent parse of the body as a JSON value *)
| CProxyEnc (enc : string) (is_collection : bool) (extra : obj) (r : reply) (parsed : option json) (o : pout)
(* an endpoint built by the default factory: router, texts of the c.Error entries recorded by
   earlier gin middleware, raw endpoint extra_config, backends b0 :: rest (raw extra_config,
   reply, independent decoding), observed reply and raw body *)
| CEndpoint (rt : router) (prior : list string) (epx : obj)
            (b0 : obj * reply * option obj) (rest : list (obj * reply * option obj))
            (o : cobs) (raw : string).

(* model reply against the observation.  A raw (non JSON) model body is compared with the raw
   bytes the client got (the harness classifies by content type, which an error body written
   by return_error_msg borrows from the backend); lax: its text is not compared (decoder's
   own message; error texts joined in arrival order). *)
Definition cobs_match (lax : bool) (m o : cobs) (raw : string) : bool :=
  (c_status m =? c_status o)%Z && str_eqb (c_completed m) (c_completed o) &&
  match c_body m with
  | BJson x => match c_body o with BJson y => json_eqb x y | BRaw _ => false end
  | BRaw s => lax || str_eqb s raw
  end.

Definition check_case (c : case) : bool * bool :=
  match c with
  | CProxy dt cd r d o =>
      let m := status_mode dt cd in
      (pout_eqb (http_proxy_outcome m r d) o, proxy_spec_b m r d o)
  | CSingle i dt cd r d o raw =>
      let m := status_mode dt cd in
      ((if ok_status (r_code r) && match d with None => true | _ => false end
        then cobs_eqb_lax else cobs_eqb) (client_single i m r d) o, spec_single_b m r d o raw)
  | CMulti i bs o raw =>
      let ms := map (fun b => let '(dt, cd, r, d) := b in (status_mode dt cd, r, d)) bs in
      (cobs_eqb_lax (client_multi i ms) o, spec_multi_b ms o raw)
  | CProxyRaw extra r d o =>
      let m := status_mode_raw extra in
      (pout_eqb (http_proxy_outcome m r d) o, proxy_spec_b m r d o)
  | CProxyEnc enc coll extra r parsed o =>
      let m := status_mode_raw extra in
      let e := enc_of enc coll in
      (pout_eqb (http_proxy_outcome_enc e m r parsed) o,
       match e with
       | EncNoop => true      (* the property does not speak of pass-through backends *)
       | _ => proxy_spec_b m r (decode_as e (r_body r) parsed) o
       end)
  | CEndpoint rt prior epx b0 rest o raw =>
      let b0' := backend_of_raw b0 in
      let rest' := map backend_of_raw rest in
      let lax := negb (Nat.eqb (List.length rest) 0) ||
                 existsb (fun b : backend => let '(_, r, d) := b in
                            ok_status (r_code r) && match d with None => true | Some _ => false end)
                         (b0' :: rest') in
      (cobs_match lax (client_endpoint rt prior epx b0' rest') o raw,
       spec_endpoint_b rt epx b0' rest' o raw)
  end.

Fixpoint failing (i : nat) (cs : list case) : list verdict :=
  match cs with
  | [] => []
  | c :: r => let '(a, b) := check_case c in
              if a && b then failing (S i) r else (i, a, b) :: failing (S i) r
  end.
