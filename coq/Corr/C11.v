(* C11 - correspondence: cases produced by the Go harness from the real handlers. *)
Require Export Verif.Common.Base Verif.Common.Json.
Require Export Verif.Model.C11 Verif.Spec.C11.

Definition body_eqb (a b : body) : bool :=
  match a, b with
  | BJson x, BJson y => json_eqb x y
  | BRaw x, BRaw y => str_eqb x y
  | BOther, BRaw _ => true      (* XML / YAML text: outside the property, not compared *)
  | _, _ => false
  end.
Definition render_eqb (a b : render) : bool :=
  match a, b with
  | RJson, RJson | RNoop, RNoop | RString, RString | RCollection, RCollection
  | RXml, RXml | RYaml, RYaml => true
  | _, _ => false
  end.
Definition reply_eqb (a b : reply) : bool :=
  (o_status a =? o_status b)%Z &&
  list_eqb str_eqb (o_completed a) (o_completed b) &&
  list_eqb str_eqb (o_cache a) (o_cache b) &&
  list_eqb str_eqb (o_version a) (o_version b) &&
  body_eqb (o_body a) (o_body b).
Definition outcome_eqb (a b : outcome) : bool :=
  match a, b with
  | Reply x, Reply y => reply_eqb x y
  | Panic, Panic => true
  | _, _ => false
  end.

(* flagged: the generator put the input under the signature of the recorded finding
   (noop-metadata-header-collision); the driver then looks at prop_ok only.  The flag must be
   the model's in_finding, so that no other input escapes the comparison. *)
(* output / backends / acc: the endpoint's output_encoding, the encodings of its backends and
   the request's Accept header: i_render i must be what the model of getRender selects *)
Inductive case :=
| CCase (flagged : bool) (output : string) (backends : list string) (acc : accept)
        (i : input) (observed : outcome)
(* a process whose identification value comes from the build (`build`) and in which a gin engine
   was (hide = true) or was not made by NewEngine with hide_version_header: i_ver i must be the
   model's version_value *)
| CVersion (build : string) (hide : bool) (flagged : bool) (output : string) (backends : list string)
           (acc : accept) (i : input) (observed : outcome).

Definition check_main (flagged : bool) (output : string) (backends : list string) (acc : accept)
                      (i : input) (obs : outcome) : bool * bool :=
  let m := handler i in   (* in_finding i, with the model's outcome computed once *)
  let inf := negb (pair_eqb (hdr_pair m) (hdr_pair (handler (strip_meta i)))) in
  (input_wf i && render_eqb (render_of_config (i_impl i) output backends acc) (i_render i) &&
   Bool.eqb flagged inf && outcome_eqb m obs &&
   (* the writer-operation model of the same handler agrees as well *)
   outcome_eqb (handler_ops i) obs, spec_out_b i obs).

Definition check_case (c : case) : bool * bool :=
  match c with
  | CCase flagged output backends acc i obs => check_main flagged output backends acc i obs
  | CVersion build hide flagged output backends acc i obs =>
      let '(a, b) := check_main flagged output backends acc i obs in
      (str_eqb (i_ver i) (version_value build hide) && a, b)
  end.

Lemma check_case_in_finding flagged output backends acc i obs :
  fst (check_case (CCase flagged output backends acc i obs)) =
  input_wf i && render_eqb (render_of_config (i_impl i) output backends acc) (i_render i) &&
  Bool.eqb flagged (in_finding i) && outcome_eqb (handler i) obs && outcome_eqb (handler_ops i) obs.
Proof. reflexivity. Qed.

Fixpoint failing (i : nat) (cs : list case) : list verdict :=
  match cs with
  | [] => []
  | c :: r => let '(a, b) := check_case c in
              if a && b then failing (S i) r else (i, a, b) :: failing (S i) r
  end.
