(* C19 - correspondence: traces observed from the real server runner (and from the gin and
   mux routers' Run, which pass their context to it), produced by the Go harness. *)
Require Export Verif.Common.Base.
Require Export Verif.Model.C19 Verif.Spec.C19.

Inductive router := Plain | Gin | Mux.
(* how the server is reached: cleartext HTTP/1.1, TLS (HTTP/1.1), TLS with HTTP/2, cleartext with
   use_h2c on (HTTP/1.1 clients through the h2c handler) *)
Inductive transport := THttp | TTls | TTlsH2 | TH2c.
(* why the listener cannot start, if it cannot: the port is held by the harness, or the socket
   cannot be created (descriptor table full: a "temporary" error) *)
Inductive listen_error := LNone | LAddrInUse | LTemporary.

(* which entry point ran, over which transport, whether (and why) the listener could not start,
   the imposed script, the
   observed trace (events ordered by the harness's single atomic clock) *)
Inductive case :=
| CRun (rt : router) (tr : transport) (le : listen_error) (script : list sstep) (trace : list event)
(* use_h2c on and the requests [ups] come from clients that take the h2c upgrade (cases inside the
   recorded finding): the trace is checked for inclusion in the extended system *)
| CRunUpgraded (rt : router) (ups : list nat) (script : list sstep) (trace : list event).

(* corr_ok: the harness imposed what the case says and the observed trace is a complete trace
   of the model (trace inclusion); prop_ok: the verified monitor accepts the observed trace *)
Definition check_case (c : case) : bool * bool :=
  match c with
  | CRun _ _ le sc t =>
      (imposed_b (match le with LNone => false | _ => true end) sc t && accepts_b t, graceful_b t)
  | CRunUpgraded _ ups sc t => (imposed_b false sc t && xaccepts_b ups t, graceful_b t)
  end.

Fixpoint failing (i : nat) (cs : list case) : list verdict :=
  match cs with
  | [] => []
  | c :: r => let '(a, b) := check_case c in
              if a && b then failing (S i) r else (i, a, b) :: failing (S i) r
  end.
