(* C19 - correspondence: traces observed from the real server runner (and from the gin and
   mux routers' Run, which pass their context to it), produced by the Go harness. *)
Require Export Verif.Common.Base.
Require Export Verif.Model.C19 Verif.Spec.C19.

Inductive router := Plain | Gin | Mux.

(* which entry point ran, whether the harness held the port, the imposed script, the
   observed trace (events ordered by the harness's single atomic clock) *)
Inductive case :=
| CRun (rt : router) (port_held : bool) (script : list sstep) (trace : list event).

(* corr_ok: the harness imposed what the case says and the observed trace is a complete trace
   of the model (trace inclusion); prop_ok: the verified monitor accepts the observed trace *)
Definition check_case (c : case) : bool * bool :=
  match c with
  | CRun _ ph sc t => (imposed_b ph sc t && accepts_b t, graceful_b t)
  end.

Fixpoint failing (i : nat) (cs : list case) : list verdict :=
  match cs with
  | [] => []
  | c :: r => let '(a, b) := check_case c in
              if a && b then failing (S i) r else (i, a, b) :: failing (S i) r
  end.
