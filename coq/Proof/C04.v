(* C04 - lemmas and proofs. *)
Require Import Verif.Common.Base Verif.Common.Ctx Verif.Common.Fanout.
Require Import Verif.Model.C04 Verif.Spec.C04.
Open Scope Z_scope.

(* ---------------------------------------------------------------------------------- *)
(* Go's truncating division on the reduced timeouts *)

Lemma reduced_nonneg num den T : 0 <= num -> 0 < den -> 0 <= T -> 0 <= reduced num den T.
Proof.
  intros Hn Hd HT. unfold reduced. rewrite Z.quot_div_nonneg by nia.
  apply Z.div_pos; nia.
Qed.

Lemma reduced_le num den T : 0 <= num <= den -> 0 < den -> 0 <= T -> reduced num den T <= T.
Proof.
  intros Hn Hd HT. unfold reduced. rewrite Z.quot_div_nonneg by nia.
  apply Z.div_le_upper_bound; nia.
Qed.

Lemma reduced_mono num num' den T :
  0 <= num <= num' -> 0 < den -> 0 <= T -> reduced num den T <= reduced num' den T.
Proof.
  intros Hn Hd HT. unfold reduced. rewrite !Z.quot_div_nonneg by nia.
  apply Z.div_le_mono; nia.
Qed.

Lemma lura_factor_bounds T : 0 <= T ->
  0 <= reduced 75 100 T /\ reduced 75 100 T <= reduced 85 100 T /\ reduced 85 100 T <= T.
Proof.
  intros HT. repeat split.
  - apply reduced_nonneg; lia.
  - apply reduced_mono; lia.
  - apply reduced_le; lia.
Qed.

(* ---------------------------------------------------------------------------------- *)
(* deadlines along the chain of derivations *)

Definition dle (a : option Z) (b : Z) : Prop := exists x, a = Some x /\ x <= b.

Lemma dle_with_timeout_own c t now d : dle (deadline (with_timeout c t now d)) (now + d).
Proof. destruct (with_timeout_deadline c t now d) as (x & E & H & _). exists x; auto. Qed.

Lemma dle_with_timeout_parent c t now d b : dle (deadline c) b -> dle (deadline (with_timeout c t now d)) b.
Proof.
  intros (p & Ep & Hp). destruct (with_timeout_deadline c t now d) as (x & E & _ & H).
  exists x. split; auto. specialize (H p Ep). lia.
Qed.

Lemma dle_with_cancel c t b : dle (deadline c) b -> dle (deadline (with_cancel c t)) b.
Proof. rewrite with_cancel_deadline. auto. Qed.

Section Chain.
  Variable F : factors.
  Variable c : config.
  Variable clk : clock.

  Lemma dle_merge_of_router b : dle (deadline (ctx_router c clk)) b -> dle (deadline (ctx_merge F c clk)) b.
  Proof. unfold ctx_merge. destruct (multi c); auto. apply dle_with_timeout_parent. Qed.

  Lemma dle_part_of_merge i b : dle (deadline (ctx_merge F c clk)) b -> dle (deadline (ctx_part F c clk i)) b.
  Proof. unfold ctx_part. destruct (multi c && negb (c_seq c)); auto. Qed.

  Lemma dle_conc_of_part i b : dle (deadline (ctx_part F c clk i)) b -> dle (deadline (ctx_conc F c clk i)) b.
  Proof. unfold ctx_conc. destruct (concurrent c i); auto. apply dle_with_timeout_parent. Qed.

  Lemma dle_call_of_conc i j b : dle (deadline (ctx_conc F c clk i)) b -> dle (deadline (ctx_call F c clk i j)) b.
  Proof. unfold ctx_call. destruct (concurrent c i); auto. Qed.

  Lemma dle_call_of_router i j b : dle (deadline (ctx_router c clk)) b -> dle (deadline (ctx_call F c clk i j)) b.
  Proof. intros H. apply dle_call_of_conc, dle_conc_of_part, dle_part_of_merge, dle_merge_of_router, H. Qed.

  Lemma deadline_router i j : routed c = true ->
    dle (deadline (ctx_call F c clk i j)) (clk SRouter + c_T c).
  Proof.
    intros H. apply dle_call_of_router. unfold ctx_router, routed in *.
    destruct (c_level c); try discriminate; apply dle_with_timeout_own.
  Qed.

  Lemma deadline_merge i j : multi c = true ->
    dle (deadline (ctx_call F c clk i j)) (clk SMerge + reduced (fm_num F) (fm_den F) (c_T c)).
  Proof.
    intros H. apply dle_call_of_conc, dle_conc_of_part, dle_part_of_merge.
    unfold ctx_merge. rewrite H. apply dle_with_timeout_own.
  Qed.

  Lemma deadline_concurrent i j : concurrent c i = true ->
    dle (deadline (ctx_call F c clk i j)) (clk (SConc i) + reduced (fc_num F) (fc_den F) (c_T c)).
  Proof.
    intros H. apply dle_call_of_conc. unfold ctx_conc. rewrite H. apply dle_with_timeout_own.
  Qed.

  Lemma deadline_parent i j p : parent_bound c = Some p ->
    dle (deadline (ctx_call F c clk i j)) p.
  Proof.
    intros H. apply dle_call_of_router. unfold parent_bound in H. unfold ctx_router.
    destruct (c_level c) eqn:L; try discriminate.
    - unfold parent_ctx. rewrite H. exists p. split; [reflexivity|lia].
    - apply dle_with_timeout_parent. unfold parent_ctx. rewrite H. exists p. split; [reflexivity|lia].
  Qed.

  (* ---- cancellation ---- *)
  Lemma done_merge_of_router cs now : done cs now (ctx_router c clk) = true -> done cs now (ctx_merge F c clk) = true.
  Proof. unfold ctx_merge. destruct (multi c); auto. apply done_parent. Qed.
  Lemma done_part_of_merge cs now i : done cs now (ctx_merge F c clk) = true -> done cs now (ctx_part F c clk i) = true.
  Proof. unfold ctx_part. destruct (multi c && negb (c_seq c)); auto. apply done_parent. Qed.
  Lemma done_conc_of_part cs now i : done cs now (ctx_part F c clk i) = true -> done cs now (ctx_conc F c clk i) = true.
  Proof. unfold ctx_conc. destruct (concurrent c i); auto. apply done_parent. Qed.
  Lemma done_call_of_conc cs now i j : done cs now (ctx_conc F c clk i) = true -> done cs now (ctx_call F c clk i j) = true.
  Proof. unfold ctx_call. destruct (concurrent c i); auto. apply done_parent. Qed.

  Lemma done_if_router_cancelled cs now i j : routed c = true -> In tok_router cs ->
    done cs now (ctx_call F c clk i j) = true.
  Proof.
    intros H Hin. apply done_call_of_conc, done_conc_of_part, done_part_of_merge, done_merge_of_router.
    unfold ctx_router, routed in *. destruct (c_level c); try discriminate;
      apply done_head_cancelled; exact Hin.
  Qed.

  Lemma done_if_merge_cancelled cs now i j : multi c = true -> In tok_merge cs ->
    done cs now (ctx_call F c clk i j) = true.
  Proof.
    intros H Hin. apply done_call_of_conc, done_conc_of_part, done_part_of_merge.
    unfold ctx_merge. rewrite H. apply done_head_cancelled; exact Hin.
  Qed.

  Lemma done_if_conc_cancelled cs now i j : concurrent c i = true -> In (tok_conc i) cs ->
    done cs now (ctx_call F c clk i j) = true.
  Proof.
    intros H Hin. apply done_call_of_conc. unfold ctx_conc. rewrite H.
    apply done_head_cancelled; exact Hin.
  Qed.

  (* whichever return paths were taken: once the pipeline has returned, every context it
     derived for a backend call is done *)
  Lemma cancelled_after_return p called now i j :
    derived c i = true -> In i called ->
    done (cancelled_at_return c p called) now (ctx_call F c clk i j) = true.
  Proof.
    intros Hd Hi. unfold derived in Hd. unfold cancelled_at_return.
    destruct (routed c) eqn:R.
    - apply done_if_router_cancelled; auto. unfold router_cancels. rewrite R. simpl. auto.
    - destruct (multi c) eqn:M.
      + apply done_if_merge_cancelled; auto. unfold merge_cancels. rewrite M.
        apply in_or_app. right. simpl. auto.
      + simpl in Hd. apply done_if_conc_cancelled; auto.
        apply in_or_app. right. apply in_or_app. right.
        apply in_flat_map. exists i. split; auto. unfold conc_cancels. rewrite Hd. simpl. auto.
  Qed.

  (* ... and stays done whatever is cancelled later and however much time passes *)
  Lemma stays_done cs cs' now now' i j :
    incl cs cs' -> now <= now' ->
    done cs now (ctx_call F c clk i j) = true -> done cs' now' (ctx_call F c clk i j) = true.
  Proof. apply done_mono. Qed.

  (* a call that reached its deadline is done without anybody cancelling *)
  Lemma done_at_deadline now i j x :
    deadline (ctx_call F c clk i j) = Some x -> x <= now -> done [] now (ctx_call F c clk i j) = true.
  Proof. apply done_deadline. Qed.
End Chain.

(* ---------------------------------------------------------------------------------- *)
(* the deadline is monotone in the moments of derivation: justifies comparing an observed
   deadline with the model evaluated at the earliest and at the latest possible moments *)

Lemma deadline_monotone F c clk clk' i j :
  0 <= c_T c -> (forall s, clk s <= clk' s) ->
  match deadline (ctx_call F c clk i j), deadline (ctx_call F c clk' i j) with
  | Some x, Some y => x <= y
  | None, None => True
  | _, _ => False
  end.
Proof.
  intros HT H. pose proof (H SRouter) as H1. pose proof (H SMerge) as H2. pose proof (H (SConc i)) as H3.
  unfold ctx_call, ctx_conc, ctx_part, ctx_merge, ctx_router, parent_ctx, with_timeout, with_cancel, omin.
  destruct (concurrent c i); destruct (multi c); destruct (c_seq c); destruct (c_level c);
    destruct (c_parent c); simpl; try exact I; lia.
Qed.

(* ---------------------------------------------------------------------------------- *)
(* no context is ended early, and a backend's cancellations leave its siblings alone *)

Definition good (c : ctx) : Prop := wf c /\ (deadline c = None -> forall f, In f c -> dl f = None).

Lemma good_background : good background.
Proof. split; [exact I|]. intros _ f []. Qed.

Lemma good_with_timeout c t now d : good c -> good (with_timeout c t now d).
Proof.
  intros [Hw _]. split; [apply wf_with_timeout; exact Hw|]. simpl. discriminate.
Qed.

Lemma good_with_cancel c t : good c -> good (with_cancel c t).
Proof.
  intros [Hw Hn]. split; [apply wf_with_cancel; exact Hw|].
  simpl. intros E f [<-|Hf]; simpl; auto.
Qed.

Lemma good_parent c : good (parent_ctx c).
Proof.
  unfold parent_ctx. destruct (c_parent c).
  - split; simpl; auto. discriminate.
  - apply good_with_cancel, good_background.
Qed.

Lemma good_call F c clk i j : good (ctx_call F c clk i j).
Proof.
  unfold ctx_call, ctx_conc, ctx_part, ctx_merge, ctx_router.
  repeat match goal with
  | |- good (if ?b then _ else _) => destruct b
  | |- good (match ?l with LProxy => _ | LGin => _ | LMux => _ end) => destruct l
  | |- good (with_timeout _ _ _ _) => apply good_with_timeout
  | |- good (with_cancel _ _) => apply good_with_cancel
  | |- good (parent_ctx _) => apply good_parent
  | |- good background => apply good_background
  end.
Qed.

Definition own_tokens (i j : nat) : list nat :=
  [tok_parent; tok_router; tok_merge; tok_part i; tok_conc i; tok_att i j].

Lemma tokens_call F c clk i j f : In f (ctx_call F c clk i j) -> In (tok f) (own_tokens i j).
Proof.
  unfold ctx_call, ctx_conc, ctx_part, ctx_merge, ctx_router, parent_ctx, with_timeout, with_cancel, background, own_tokens.
  destruct (concurrent c i); destruct (multi c); destruct (c_seq c); destruct (c_level c);
    destruct (c_parent c); simpl; intros H;
    repeat (destruct H as [<-|H]; [simpl; tauto|]); destruct H.
Qed.

Definition foreign (i : nat) (t : nat) : Prop :=
  exists i' j', i' <> i /\ (j' < 8)%nat /\ (t = tok_part i' \/ t = tok_conc i' \/ t = tok_att i' j').

Lemma foreign_not_own i j t : (j < 8)%nat -> foreign i t -> ~ In t (own_tokens i j).
Proof.
  intros Hj (i' & j' & Hne & Hj' & Ht) Hin.
  unfold own_tokens, tok_parent, tok_router, tok_merge, tok_part, tok_conc, tok_att in *.
  simpl in Hin. lia.
Qed.

Lemma sibling_unaffected F c clk i j now cs :
  (j < 8)%nat -> (forall t, In t cs -> foreign i t) ->
  (forall x, deadline (ctx_call F c clk i j) = Some x -> now < x) ->
  done cs now (ctx_call F c clk i j) = false.
Proof.
  intros Hj Hcs Hd. destruct (good_call F c clk i j) as [Hw Hn].
  apply not_done; auto.
  intros f Hf Hin. apply (foreign_not_own i j (tok f) Hj (Hcs _ Hin)).
  apply (tokens_call F c clk i j f Hf).
Qed.

(* ---------------------------------------------------------------------------------- *)
(* what the client certainly receives does not depend on the siblings (parallel, single) *)

Lemma In_upto a n i : In i (upto a n) <-> (a <= i < a + n)%nat.
Proof.
  revert a. induction n as [|n IH]; intros a; simpl.
  - split; [intros []|lia].
  - rewrite IH. lia.
Qed.

Lemma answered_is_delivered c i :
  multi c && c_seq c = false -> (i < nbackends c)%nat ->
  delivers_now (nth i (c_backends c) []) = true -> In i (must_keys c).
Proof.
  intros Hs Hi Hd. unfold must_keys. apply filter_In. split.
  - apply In_upto. lia.
  - unfold certainly_called. rewrite Hs, Hd. apply Nat.ltb_lt in Hi. rewrite Hi. reflexivity.
Qed.

(* ... and so is a sole attempt that answers at 80 % of the timeout, i.e. inside its own deadline
   but after the 75 % at which a sibling's concurrent stage gives up *)
Lemma mid_answer_is_delivered c i :
  multi c && c_seq c = false -> (i < nbackends c)%nat ->
  nth i (c_backends c) [] = [Mid] -> parent_after c (reduced 85 100 (c_T c)) = true ->
  In i (must_keys c).
Proof.
  intros Hs Hi Hm Hp. unfold must_keys. apply filter_In. split.
  - apply In_upto. lia.
  - unfold certainly_called, mid_delivers. rewrite Hs, Hm, Hp. apply Nat.ltb_lt in Hi. rewrite Hi.
    simpl. reflexivity.
Qed.

(* ---------------------------------------------------------------------------------- *)
(* a shadow backend, whatever its shadow_timeout, changes nothing for the regular calls *)

Lemma shadow_irrelevant_ctx F c s clk i j :
  ctx_call F (with_shadow c s) clk i j = ctx_call F c clk i j.
Proof. reflexivity. Qed.

Lemma shadow_irrelevant_certain c s :
  must_keys (with_shadow c s) = must_keys c /\ must_wait (with_shadow c s) = must_wait c.
Proof. split; reflexivity. Qed.

Lemma shadow_irrelevant_oracle F c s slack o :
  spec_b F (with_shadow c s) slack o = spec_b F c slack o.
Proof. reflexivity. Qed.

(* the regular contexts do not even share a token with the shadow pipe's detached context:
   cancelling (or expiring) the shadow context cannot end a regular call *)
Lemma shadow_token_foreign F c clk i j f : (j < 8)%nat ->
  In f (ctx_call F c clk i j) -> tok f <> tok_shadow.
Proof.
  intros Hj Hf E. apply tokens_call in Hf. rewrite E in Hf.
  unfold own_tokens, tok_shadow, tok_parent, tok_router, tok_merge, tok_part, tok_conc, tok_att in Hf.
  simpl in Hf. lia.
Qed.

Lemma shadow_cancel_harmless F c clk i j now :
  (j < 8)%nat -> (forall x, deadline (ctx_call F c clk i j) = Some x -> now < x) ->
  done [tok_shadow] now (ctx_call F c clk i j) = false.
Proof.
  intros Hj Hd. destruct (good_call F c clk i j) as [Hw Hn]. apply not_done; auto.
  intros f Hf [E|[]]. apply (shadow_token_foreign F c clk i j f Hj Hf). symmetry. exact E.
Qed.

(* ---------------------------------------------------------------------------------- *)
(* the boolean oracle is the property *)

Lemma mem_nat_In x l : mem_nat x l = true <-> In x l.
Proof.
  unfold mem_nat. rewrite existsb_exists. split.
  - intros (y & Hy & E). apply Nat.eqb_eq in E. subst. exact Hy.
  - intros H. exists x. split; auto. apply Nat.eqb_refl.
Qed.

Lemma bound_b_iff F c first firsti i x : 0 <= first -> 0 <= firsti ->
  bound_b F c first firsti i x = true <-> bound_ok F c first firsti i x.
Proof.
  intros H1 H2. unfold bound_b, bound_ok. rewrite !andb_true_iff, !orb_true_iff, !negb_true_iff, !Z.leb_le.
  split.
  - intros (((A & B) & C) & D). repeat split.
    + intros E. destruct A as [A|A]; [congruence|]. exists first. lia.
    + intros E. destruct B as [B|B]; [congruence|]. exists first. lia.
    + intros E. destruct C as [C|C]; [congruence|]. exists firsti. lia.
    + intros p E. rewrite E in D. apply Z.leb_le in D. exact D.
  - intros (A & B & C & D). repeat split.
    + destruct (routed c); [right|left; reflexivity]. destruct (A eq_refl) as (t & Ht & Hx). lia.
    + destruct (multi c); [right|left; reflexivity]. destruct (B eq_refl) as (t & Ht & Hx). lia.
    + destruct (concurrent c i); [right|left; reflexivity]. destruct (C eq_refl) as (t & Ht & Hx). lia.
    + destruct (parent_bound c) as [p|]; auto. apply Z.leb_le. apply D. reflexivity.
Qed.

Lemma call_b_iff F c calls k : call_b F c calls k = true <-> call_ok F c calls k.
Proof.
  unfold call_b, call_ok. rewrite !andb_true_iff, !orb_true_iff, !negb_true_iff, !Z.leb_le.
  split.
  - intros (((A & B) & C) & D). split; [exact A|]. split; [exact B|]. split.
    + intros E. destruct C as [C|C]; [congruence|]. destruct (k_dl k) as [x|]; [|discriminate].
      exists x. split; auto. apply bound_b_iff; auto.
    + intros E. destruct D as [D|D]; [congruence|apply andb_true_iff; exact D].
  - intros (A & B & C & D). split; [split; [split; [exact A|exact B]|]|].
    + destruct (needs_deadline c (k_be k)); [right|left; reflexivity].
      destruct (C eq_refl) as (x & E & Hb). rewrite E. apply bound_b_iff; auto.
    + destruct (derived c (k_be k)); [right; apply andb_true_iff; auto|left; reflexivity].
Qed.

Lemma builder_b_iff c o : builder_b c o = true <-> builder_ok c o.
Proof.
  unfold builder_b, builder_ok. destruct (o_rb o) as [r|].
  - rewrite orb_true_iff, negb_true_iff, andb_true_iff, Z.leb_le, forallb_forall. split.
    + intros [H|[H0 H]] r' E R; [congruence|]. inversion E; subst r'. split; [exact H0|].
      intros k x Hk Hx. specialize (H k Hk). rewrite Hx in H. apply Z.leb_le in H. exists r. lia.
    + intros H. destruct (routed c); [right|left; reflexivity].
      destruct (H r eq_refl eq_refl) as [H0 H1]. split; [exact H0|].
      intros k Hk. destruct (k_dl k) as [x|] eqn:E; auto. apply Z.leb_le.
      destruct (H1 k x Hk E) as (t & Ht & Hx). lia.
  - split; [intros _ r E; discriminate|reflexivity].
Qed.

Lemma spec_b_iff F c slack o : spec_b F c slack o = true <-> Spec F c slack o.
Proof.
  unfold spec_b, Spec. rewrite !andb_true_iff, !orb_true_iff, negb_true_iff, Nat.eqb_eq, !forallb_forall.
  rewrite builder_b_iff.
  split.
  - intros ((((((A & B) & C) & R) & D) & E) & G).
    split; [exact A|]. split; [exact B|]. split; [exact C|]. split; [exact R|]. split; [|split].
    + intros k Hk. apply call_b_iff. apply D. exact Hk.
    + intros Ht d Hd. destruct E as [E|E]; [congruence|]. rewrite Hd in E. apply Z.leb_le. exact E.
    + intros Ht i Hi. destruct G as [G|G]; [congruence|]. apply mem_nat_In. apply G. exact Hi.
  - intros (A & B & C & R & D & E & G).
    split; [split; [split; [split; [split; [split; [exact A|exact B]|exact C]|exact R]|]|]|].
    + intros k Hk. apply call_b_iff. apply D. exact Hk.
    + destruct (o_tainted o); [left; reflexivity|right].
      destruct (max_dl (o_calls o)) as [d|]; auto. apply Z.leb_le. apply E; reflexivity.
    + destruct (o_tainted o); [left; reflexivity|right].
      intros i Hi. apply mem_nat_In. apply G; auto.
Qed.

(* ---------------------------------------------------------------------------------- *)
(* the model meets the per-call part of the oracle *)

Lemma model_deadline_meets_oracle F c clk i j first firsti :
  0 <= clk SRouter <= first -> 0 <= clk SMerge <= first -> 0 <= clk (SConc i) <= firsti ->
  (needs_deadline c i = true -> exists x, deadline (ctx_call F c clk i j) = Some x) /\
  (forall x, deadline (ctx_call F c clk i j) = Some x -> bound_b F c first firsti i x = true).
Proof.
  intros H1 H2 H3. split.
  - unfold needs_deadline, derived. intros H.
    destruct (routed c) eqn:R; [destruct (deadline_router F c clk i j R) as (x & E & _); eauto|].
    destruct (multi c) eqn:M; [destruct (deadline_merge F c clk i j M) as (x & E & _); eauto|].
    destruct (concurrent c i) eqn:K; [destruct (deadline_concurrent F c clk i j K) as (x & E & _); eauto|].
    simpl in H. destruct (parent_bound c) as [p|] eqn:P; [|discriminate].
    destruct (deadline_parent F c clk i j p P) as (x & E & _); eauto.
  - intros x E. apply bound_b_iff; try lia. unfold bound_ok. repeat split.
    + intros R. destruct (deadline_router F c clk i j R) as (y & Ey & Hy). exists (clk SRouter). split; [lia|congruence].
    + intros M. destruct (deadline_merge F c clk i j M) as (y & Ey & Hy). exists (clk SMerge).
      split; [lia|]. rewrite E in Ey. inversion Ey; subst. exact Hy.
    + intros K. destruct (deadline_concurrent F c clk i j K) as (y & Ey & Hy). exists (clk (SConc i)).
      split; [lia|]. rewrite E in Ey. inversion Ey; subst. exact Hy.
    + intros p P. destruct (deadline_parent F c clk i j p P) as (y & Ey & Hy). congruence.
Qed.

(* ---------------------------------------------------------------------------------- *)
(* goroutines and channels (Common/Fanout.v), with the capacities the source facts pin:
   parts/failed have len(next) slots, results/failed have ConcurrentCalls slots, i.e. cap = n *)

Section Workers.
  Variable msg : Type.
  Variable route : msg -> chan.
  Variable cancel_msg : msg.
  Variable can_finish : list msg -> bool.
  Variable allow_idle : bool.
  Variable n : nat.
  Notation frun := (run msg n route cancel_msg can_finish allow_idle).
  Notation fstep := (step msg n route cancel_msg can_finish allow_idle).

  Lemma worker_never_blocked ls s i m :
    frun (init msg n) ls = Some s -> nth_error (ws msg s) i = Some (Ret m) -> fstep s (LSend i) <> None.
  Proof. apply no_blocked_sender. apply Nat.le_refl. Qed.

  Lemma step_fin_cancelled s l s' :
    (fin msg s = true -> cancelled msg s = true) -> fstep s l = Some s' ->
    (fin msg s' = true -> cancelled msg s' = true).
  Proof.
    intros H E. destruct l; simpl in E;
    repeat match type of E with
    | match ?x with _ => _ end = Some _ => destruct x eqn:?; try discriminate
    end; inversion E; subst; simpl; auto.
  Qed.

  Lemma run_fin_cancelled ls : forall s s',
    (fin msg s = true -> cancelled msg s = true) -> frun s ls = Some s' ->
    (fin msg s' = true -> cancelled msg s' = true).
  Proof.
    induction ls as [|l r IH]; simpl; intros s s' H E.
    - inversion E; subst; exact H.
    - destruct (fstep s l) as [s0|] eqn:E0; [|discriminate].
      apply (IH s0 s'); auto. apply (step_fin_cancelled s l s0 H E0).
  Qed.

  Lemma run_app ls ls' : forall s,
    frun s (ls ++ ls') = match frun s ls with Some s1 => frun s1 ls' | None => None end.
  Proof.
    induction ls as [|l r IH]; simpl; intros s; auto.
    destruct (fstep s l); auto.
  Qed.

  Lemma remaining_unsent (w : list (wst msg)) : remaining msg w <> O ->
    exists i, (i < List.length w)%nat /\ forall r d, nth_error w i <> Some (Sent r d).
  Proof.
    induction w as [|y r IH]; simpl; intros H; [congruence|].
    destruct y as [|m|r0 d].
    - exists O. split; [lia|]. simpl. discriminate.
    - exists O. split; [lia|]. simpl. discriminate.
    - simpl in H. destruct (IH H) as (i & Hi & Hn). exists (S i). split; [lia|]. exact Hn.
  Qed.

  (* once the collector has returned: every continuation, under any schedule, has at most
     2n steps, and as long as a worker has not terminated some step is enabled (a running
     backend returns - its context is done -, a worker holding a result can send it) *)
  Lemma workers_terminate (any : msg) ls s :
    frun (init msg n) ls = Some s -> fin msg s = true ->
    cancelled msg s = true /\
    forall ls' s', frun s ls' = Some s' ->
      (List.length ls' + remaining msg (ws msg s') <= 2 * n)%nat /\
      (remaining msg (ws msg s') <> O -> exists l, fstep s' l <> None).
  Proof.
    intros Hr Hf.
    assert (Hc : cancelled msg s = true).
    { apply (run_fin_cancelled ls (init msg n) s); auto; simpl; discriminate. }
    split; [exact Hc|]. intros ls' s' Hr'. split.
    - pose proof (bounded_after_fin msg n route cancel_msg can_finish allow_idle ls' s s' Hf Hc Hr') as Hb.
      destruct (reachable_inv msg n route cancel_msg can_finish allow_idle n ls s Hr) as (Hn & _).
      pose proof (remaining_le msg (ws msg s)). lia.
    - intros Hrem. destruct (remaining_unsent _ Hrem) as (i & Hi & Hns).
      apply (progress_after_fin msg n route cancel_msg can_finish allow_idle n (ls ++ ls') s' i any); auto.
      rewrite run_app, Hr. exact Hr'.
  Qed.
End Workers.

(* ---------------------------------------------------------------------------------- *)
(* the nesting as data: any chain of derivations, then the chains the factory builds *)

Lemma build_deadline st : forall base, deadline (build base st) = min_dl (deadline base) st.
Proof.
  induction st as [|[t now d|t] r IH]; intros base; simpl; auto; rewrite IH; reflexivity.
Qed.

Lemma build_length st : forall base, List.length (build base st) = (List.length base + List.length st)%nat.
Proof.
  induction st as [|[t now d|t] r IH]; intros base; simpl; try lia; rewrite IH; simpl; lia.
Qed.

Lemma build_wf st : forall base, wf base -> wf (build base st).
Proof.
  induction st as [|[t now d|t] r IH]; intros base H; simpl; auto; apply IH;
    [apply wf_with_timeout|apply wf_with_cancel]; exact H.
Qed.

(* done is inherited along any chain *)
Lemma build_done st : forall base cs now, done cs now base = true -> done cs now (build base st) = true.
Proof.
  induction st as [|[t now0 d|t] r IH]; intros base cs now H; simpl; auto; apply IH; apply done_parent; exact H.
Qed.

Lemma derived_done st : forall base cs now,
  done cs now base = true -> forallb (done cs now) (derived_ctxs base st) = true.
Proof.
  induction st as [|[t now0 d|t] r IH]; intros base cs now H; cbn [derived_ctxs forallb]; auto.
  - assert (H1 : done cs now (with_timeout base t now0 d) = true) by (apply done_parent; exact H).
    rewrite H1. simpl. apply IH. exact H1.
  - assert (H1 : done cs now (with_cancel base t) = true) by (apply done_parent; exact H).
    rewrite H1. simpl. apply IH. exact H1.
Qed.

(* calling the cancel function of the OUTERMOST derivation ends every derived context of the
   chain, whatever is nested inside it *)
Lemma outermost_cancel_ends_chain base s st cs now :
  In (stage_tok s) cs -> chain_done cs now base (s :: st) = true.
Proof.
  intros H. unfold chain_done. destruct s as [t now0 d|t]; cbn [derived_ctxs forallb stage_tok] in *.
  - assert (H1 : done cs now (with_timeout base t now0 d) = true) by (apply done_head_cancelled; exact H).
    rewrite H1. simpl. apply derived_done. exact H1.
  - assert (H1 : done cs now (with_cancel base t) = true) by (apply done_head_cancelled; exact H).
    rewrite H1. simpl. apply derived_done. exact H1.
Qed.

(* the contexts of the model are the chains the factory wires up *)
Lemma ctx_call_build F c clk i j : ctx_call F c clk i j = build (base_ctx c) (stages F c clk i j).
Proof.
  unfold ctx_call, ctx_conc, ctx_part, ctx_merge, ctx_router, stages, base_ctx, routed, opt_stage.
  destruct (concurrent c i); destruct (multi c); destruct (c_seq c); destruct (c_level c); reflexivity.
Qed.

Lemma stages_length F c clk i j : List.length (stages F c clk i j) = depth c i.
Proof.
  unfold stages, depth, opt_stage.
  destruct (routed c); destruct (multi c); destruct (c_seq c); destruct (concurrent c i); reflexivity.
Qed.

Lemma nesting_depth F c clk i j :
  List.length (ctx_call F c clk i j) = (List.length (base_ctx c) + depth c i)%nat.
Proof. rewrite ctx_call_build, build_length, stages_length. reflexivity. Qed.

(* end to end: the deadline of a backend call is exactly the minimum of the deadlines of the
   frames above it - the context handed in, the router's T, the merge's 85 %, the concurrent
   stage's 75 % -, for every combination the factory can build; no deadline iff there is no frame *)
Lemma leaf_deadline_is_min F c clk i j :
  deadline (ctx_call F c clk i j) = lmin (frame_deadlines F c clk i).
Proof.
  unfold ctx_call, ctx_conc, ctx_part, ctx_merge, ctx_router, frame_deadlines, base_ctx, routed,
    parent_ctx, with_timeout, with_cancel, background, omin.
  destruct (concurrent c i); destruct (multi c); destruct (c_seq c); destruct (c_level c);
    destruct (c_parent c); simpl; try reflexivity; f_equal; lia.
Qed.

(* every derived context of a call - leaf and intermediate frames alike - is done once the
   pipeline has returned *)
Lemma chain_done_after_return F c clk p called now i j :
  derived c i = true -> In i called ->
  chain_done (cancelled_at_return c p called) now (base_ctx c) (stages F c clk i j) = true.
Proof.
  intros Hd Hi. unfold derived in Hd. unfold stages, cancelled_at_return, router_cancels, merge_cancels, opt_stage.
  destruct (routed c) eqn:R; simpl.
  - apply outermost_cancel_ends_chain. simpl. auto.
  - destruct (multi c) eqn:M; simpl.
    + apply outermost_cancel_ends_chain. simpl. auto.
    + simpl in Hd. rewrite Hd. simpl. apply outermost_cancel_ends_chain. simpl.
      apply in_flat_map. exists i. split; auto. unfold conc_cancels. rewrite Hd. simpl. auto.
Qed.

(* ---------------------------------------------------------------------------------- *)
(* the handler starts the endpoint clock before it builds the proxy request: however long the
   request builder takes (it returns at any rb_out), the time is counted *)
Lemma builder_time_counted F c clk i j rb_in :
  routed c = true -> clk SRouter <= rb_in ->
  exists x, deadline (ctx_call F c clk i j) = Some x /\ x <= rb_in + c_T c.
Proof.
  intros R H. destruct (deadline_router F c clk i j R) as (x & E & Hx). exists x. split; auto. lia.
Qed.

(* ---------------------------------------------------------------------------------- *)
(* the model meets the oracle: the observation the model predicts - every attempt of every
   called backend invoked at [inv] under the model's context, sampled against the cancel
   functions called on the return paths - passes spec_b *)

Definition model_call F c clk p called now inv (i j : nat) : call :=
  {| k_be := i; k_inv := inv; k_dl := deadline (ctx_call F c clk i j);
     k_done_after := done (cancelled_at_return c p called) now (ctx_call F c clk i j);
     k_depth := Some (depth c i);
     k_chain_done := chain_done (cancelled_at_return c p called) now (base_ctx c) (stages F c clk i j) |}.

Definition model_calls F c clk p called now inv : list call :=
  flat_map (fun i => map (model_call F c clk p called now inv i) (upto 0 (cc_of c i))) called.

Definition model_obs F c clk p called now inv ret keys : obs :=
  {| o_calls := model_calls F c clk p called now inv; o_returned := true; o_ret := ret; o_keys := keys;
     o_leaked := 0; o_released := false; o_rb := Some inv; o_tainted := false |}.

Lemma min_inv_const (l : list call) inv k :
  In k l -> (forall k', In k' l -> k_inv k' = inv) -> min_inv l = inv.
Proof.
  intros Hk Hall. destruct l as [|a r]; [destruct Hk|]. unfold min_inv.
  assert (Ha : k_inv a = inv) by (apply Hall; simpl; auto).
  assert (Hr : forall k', In k' r -> k_inv k' = inv) by (intros; apply Hall; simpl; auto).
  clear Hk Hall. rewrite Ha. induction r as [|b t IH]; simpl; auto.
  rewrite IH by (intros; apply Hr; simpl; auto).
  rewrite (Hr b) by (simpl; auto). apply Z.min_id.
Qed.

Lemma model_calls_inv F c clk p called now inv k :
  In k (model_calls F c clk p called now inv) ->
  exists i j, In i called /\ k = model_call F c clk p called now inv i j.
Proof.
  unfold model_calls. intros H. apply in_flat_map in H as (i & Hi & H).
  apply in_map_iff in H as (j & E & _). exists i, j. split; auto.
Qed.

Lemma model_meets_oracle F c clk p called now inv ret keys slack :
  (forall s, 0 <= clk s <= inv) ->
  (forall d, max_dl (model_calls F c clk p called now inv) = Some d -> ret <= d + slack) ->
  (forall i, In i (must_keys c) -> In i keys) ->
  spec_b F c slack (model_obs F c clk p called now inv ret keys) = true.
Proof.
  intros Hclk Hret Hkeys. apply spec_b_iff. unfold Spec, model_obs; simpl.
  split; [reflexivity|]. split; [reflexivity|]. split; [reflexivity|]. split; [|split; [|split]].
  - unfold builder_ok; simpl. intros r E R. inversion E; subst r. pose proof (Hclk SRouter) as C1.
    split; [lia|]. intros k x Hk Hx.
    destruct (model_calls_inv _ _ _ _ _ _ _ _ Hk) as (i & j & Hi & ->). simpl in Hx.
    destruct (deadline_router F c clk i j R) as (y & Ey & Hy). exists (clk SRouter).
    split; [lia|]. rewrite Hx in Ey. inversion Ey; subst. exact Hy.
  - intros k Hk. destruct (model_calls_inv _ _ _ _ _ _ _ _ Hk) as (i & j & Hi & ->).
    set (calls := model_calls F c clk p called now inv) in *.
    set (k := model_call F c clk p called now inv i j) in *.
    assert (Hall : forall k', In k' calls -> k_inv k' = inv).
    { intros k' Hk'. destruct (model_calls_inv _ _ _ _ _ _ _ _ Hk') as (i' & j' & _ & ->). reflexivity. }
    assert (M1 : min_inv calls = inv) by (apply (min_inv_const calls inv k Hk Hall)).
    assert (M2 : min_inv (calls_of (k_be k) calls) = inv).
    { apply (min_inv_const _ inv k).
      - unfold calls_of. apply filter_In. split; auto. apply Nat.eqb_refl.
      - intros k' Hk'. apply Hall. unfold calls_of in Hk'. apply filter_In in Hk'. tauto. }
    pose proof (Hclk SRouter) as C1. pose proof (Hclk SMerge) as C2. pose proof (Hclk (SConc i)) as C3.
    unfold call_ok. rewrite M1, M2. simpl.
    destruct (model_deadline_meets_oracle F c clk i j inv inv C1 C2 C3) as [D1 D2].
    split; [lia|]. split; [lia|]. split.
    + intros Hn. destruct (D1 Hn) as (x & E). exists x. split; auto.
      apply bound_b_iff; try lia. apply D2. exact E.
    + intros Hd. split; [apply cancelled_after_return; auto|apply chain_done_after_return; auto].
  - intros _ d Hd. apply Hret. exact Hd.
  - intros _ i Hi. apply Hkeys. exact Hi.
Qed.
