(* C08 - proofs. *)
Require Import Verif.Common.Base Verif.Model.C08 Verif.Spec.C08.

(* ------------------------------------------------------------------------------------ *)
(* small helpers *)

Lemma str_eqb_sym a b : str_eqb a b = str_eqb b a.
Proof. apply String.eqb_sym. Qed.

Lemma sl_eqb_eq a b : sl_eqb a b = true <-> a = b.
Proof. apply list_eqb_eq. intros; apply str_eqb_eq. Qed.

Lemma sl_eqb_refl a : sl_eqb a a = true.
Proof. apply sl_eqb_eq; reflexivity. Qed.

Lemma is_nil_true {A} (l : list A) : is_nil l = true <-> l = [].
Proof. destruct l; simpl; split; intros; congruence. Qed.

Lemma is_nil_false {A} (l : list A) : is_nil l = false <-> l <> [].
Proof. destruct l; simpl; split; intros; congruence. Qed.

Lemma str_mem_false x l : str_mem x l = false <-> ~ In x l.
Proof.
  split.
  - intros H Hin. apply str_mem_In in Hin. congruence.
  - intros H. destruct (str_mem x l) eqn:E; [apply str_mem_In in E; contradiction|reflexivity].
Qed.

(* ------------------------------------------------------------------------------------ *)
(* CanonicalMIMEHeaderKey is idempotent *)

Lemma to_upper_idem c : to_upper (to_upper c) = to_upper c.
Proof. destruct c as [[] [] [] [] [] [] [] []]; reflexivity. Qed.
Lemma to_lower_idem c : to_lower (to_lower c) = to_lower c.
Proof. destruct c as [[] [] [] [] [] [] [] []]; reflexivity. Qed.
Lemma to_upper_token c : is_token (to_upper c) = is_token c.
Proof. destruct c as [[] [] [] [] [] [] [] []]; reflexivity. Qed.
Lemma to_lower_token c : is_token (to_lower c) = is_token c.
Proof. destruct c as [[] [] [] [] [] [] [] []]; reflexivity. Qed.

Lemma all_token_canon_go s : forall u, all_token (canon_go u s) = all_token s.
Proof.
  induction s as [|c s IH]; intros u; simpl; [reflexivity|].
  rewrite IH. destruct u; [rewrite to_upper_token|rewrite to_lower_token]; reflexivity.
Qed.

Lemma canon_go_idem s : forall u, canon_go u (canon_go u s) = canon_go u s.
Proof.
  induction s as [|c s IH]; intros u; simpl; [reflexivity|].
  destruct u.
  - rewrite to_upper_idem. rewrite IH. reflexivity.
  - rewrite to_lower_idem. rewrite IH. reflexivity.
Qed.

Lemma canon_idem s : canon (canon s) = canon s.
Proof.
  unfold canon. destruct (all_token s) eqn:E.
  - rewrite all_token_canon_go, E. apply canon_go_idem.
  - rewrite E. reflexivity.
Qed.

Lemma in_init_headers_canon h l : In h (init_headers l) -> canon h = h.
Proof.
  unfold init_headers. intros H. apply in_map_iff in H. destruct H as [x [<- _]]. apply canon_idem.
Qed.

Lemma in_eff_headers_canon h l : In h (eff_headers (init_headers l)) -> canon h = h.
Proof.
  unfold eff_headers. destruct (init_headers l) eqn:E.
  - simpl. intros [<-|[]]. reflexivity.
  - rewrite <- E. apply in_init_headers_canon.
Qed.

(* ------------------------------------------------------------------------------------ *)
(* maps *)

Lemma getl_nil k : getl k [] = [].
Proof. reflexivity. Qed.

Lemma getl_set k k' v (m : hmap) : getl k (set k' v m) = if str_eqb k k' then v else getl k m.
Proof. unfold getl. rewrite lookup_set. destruct (str_eqb k k'); reflexivity. Qed.

Lemma getl_nonnil_mem k (m : hmap) : getl k m <> [] -> mem k m = true.
Proof. unfold getl, mem. destruct (lookup k m); [reflexivity|intros H; exfalso; apply H; reflexivity]. Qed.

Lemma mem_false_getl k (m : hmap) : mem k m = false -> getl k m = [].
Proof. unfold getl, mem. destruct (lookup k m); [discriminate|reflexivity]. Qed.

Lemma notin_keys_getl k (m : hmap) : ~ In k (keys m) -> getl k m = [].
Proof. intros H. apply lookup_None_notin in H. unfold getl. rewrite H. reflexivity. Qed.

Lemma vals_of_app k a b : vals_of k (a ++ b) = (vals_of k a ++ vals_of k b)%list.
Proof. unfold vals_of. rewrite filter_app, map_app. reflexivity. Qed.

Lemma vals_of_notin k ps : ~ In k (map fst ps) -> vals_of k ps = [].
Proof.
  induction ps as [|[k0 v0] ps IH]; simpl; intros H; [reflexivity|].
  unfold vals_of. simpl. destruct (str_eqb k0 k) eqn:E.
  - apply str_eqb_eq in E. exfalso. apply H. left. exact E.
  - apply IH. intros H1. apply H. right. exact H1.
Qed.

Lemma getl_fold_add ps : forall m k,
  getl k (fold_left add_val ps m) = (getl k m ++ vals_of k ps)%list.
Proof.
  induction ps as [|[k0 v0] ps IH]; intros m k; simpl.
  - unfold vals_of. simpl. rewrite app_nil_r. reflexivity.
  - rewrite IH. unfold add_val. simpl. rewrite getl_set. unfold vals_of. simpl.
    rewrite (str_eqb_sym k0 k). destruct (str_eqb k k0) eqn:E.
    + apply str_eqb_eq in E. subst. simpl. rewrite <- app_assoc. reflexivity.
    + reflexivity.
Qed.

Lemma getl_group k ps : getl k (group ps) = vals_of k ps.
Proof. unfold group. rewrite getl_fold_add. reflexivity. Qed.

(* keys stay distinct *)
Lemma keys_remove_in k (m : hmap) x : In x (keys (remove k m)) -> In x (keys m).
Proof.
  induction m as [|[k0 v0] m IH]; simpl; [tauto|].
  destruct (str_eqb k k0); simpl; intros H; [right; auto|destruct H; [left; assumption|right; auto]].
Qed.

Lemma nodup_remove k (m : hmap) : NoDup (keys m) -> NoDup (keys (remove k m)).
Proof.
  induction m as [|[k0 v0] m IH]; simpl; intros H; [constructor|].
  inversion H; subst. destruct (str_eqb k k0); [auto|].
  simpl. constructor; [|auto]. intros Hin. apply keys_remove_in in Hin. contradiction.
Qed.

Lemma nodup_set k v (m : hmap) : NoDup (keys m) -> NoDup (keys (set k v m)).
Proof.
  intros H. unfold set. simpl. constructor.
  - apply lookup_None_notin. apply lookup_remove_eq.
  - apply nodup_remove. exact H.
Qed.

Lemma nodup_fold_add ps : forall m, NoDup (keys m) -> NoDup (keys (fold_left add_val ps m)).
Proof.
  induction ps as [|p ps IH]; intros m H; simpl; [exact H|].
  apply IH. unfold add_val. apply nodup_set. exact H.
Qed.

Lemma nodup_group ps : NoDup (keys (group ps)).
Proof. apply nodup_fold_add. constructor. Qed.

Lemma vals_of_pairs k k0 vs : vals_of k (map (fun v : string => (k0, v)) vs) = if str_eqb k0 k then vs else [].
Proof.
  unfold vals_of. induction vs as [|v vs IH]; simpl.
  - destruct (str_eqb k0 k); reflexivity.
  - destruct (str_eqb k0 k) eqn:E; simpl; [f_equal|]; rewrite IH; reflexivity.
Qed.

Lemma vals_of_flatten k (m : hmap) : NoDup (keys m) -> vals_of k (flatten m) = getl k m.
Proof.
  induction m as [|[k0 vs] m IH]; intros H; [reflexivity|].
  inversion H; subst. unfold flatten. simpl. fold (flatten m).
  rewrite vals_of_app, vals_of_pairs. rewrite IH by assumption.
  unfold getl at 2. simpl. rewrite (str_eqb_sym k k0). destruct (str_eqb k0 k) eqn:E.
  - apply str_eqb_eq in E. subst. rewrite notin_keys_getl by assumption. apply app_nil_r.
  - reflexivity.
Qed.

Lemma vals_of_canon_lines k lines :
  vals_of k (map (fun p : string * string => (canon (fst p), snd p)) lines) =
  map snd (filter (fun p => str_eqb (canon (fst p)) k) lines).
Proof.
  unfold vals_of. induction lines as [|[n v] ls IH]; simpl; [reflexivity|].
  destruct (str_eqb (canon n) k); simpl; rewrite IH; reflexivity.
Qed.

(* what the handler finds under the canonical form of a name is what the client sent under
   any spelling of it *)
Lemma getl_client_hmap r h : getl (canon h) (client_hmap (r_lines r)) = client_h r h.
Proof. unfold client_hmap, client_h. rewrite getl_group. apply vals_of_canon_lines. Qed.

Lemma getl_client_hmap_raw r k :
  getl k (client_hmap (r_lines r)) = map snd (filter (fun p => str_eqb (canon (fst p)) k) (r_lines r)).
Proof. unfold client_hmap. rewrite getl_group. apply vals_of_canon_lines. Qed.

(* only canonical names are keys of the client's header map *)
Lemma client_hmap_key_canon r k : getl k (client_hmap (r_lines r)) <> [] -> canon k = k.
Proof.
  rewrite getl_client_hmap_raw. intros H.
  destruct (filter (fun p => str_eqb (canon (fst p)) k) (r_lines r)) as [|p l] eqn:E; [exfalso; apply H; reflexivity|].
  assert (Hin : In p (filter (fun p => str_eqb (canon (fst p)) k) (r_lines r))) by (rewrite E; left; reflexivity).
  apply filter_In in Hin. destruct Hin as [_ Hk]. apply str_eqb_eq in Hk. subst k. apply canon_idem.
Qed.

(* ------------------------------------------------------------------------------------ *)
(* the request builders *)

Lemma getl_select_h l : forall cm acc h,
  getl h (select_h l cm acc) =
  if str_mem star l then getl h cm
  else if str_mem h l && mem (canon h) cm then getl (canon h) cm else getl h acc.
Proof.
  induction l as [|k l IH]; intros cm acc h; cbn [select_h str_mem]; [reflexivity|].
  rewrite (str_eqb_sym star k). destruct (str_eqb k star) eqn:Ek; cbn [orb]; [reflexivity|].
  destruct (lookup (canon k) cm) as [hv|] eqn:El.
  - rewrite IH. destruct (str_mem star l); [reflexivity|].
    rewrite getl_set. destruct (str_eqb h k) eqn:Eh; simpl; [|reflexivity].
    apply str_eqb_eq in Eh. subst h.
    unfold mem, getl. rewrite El. destruct (str_mem k l); reflexivity.
  - rewrite IH. destruct (str_mem star l); [reflexivity|].
    destruct (str_eqb h k) eqn:Eh; simpl; [|reflexivity].
    apply str_eqb_eq in Eh. subst h.
    unfold mem. rewrite El. rewrite andb_false_r. reflexivity.
Qed.

Lemma getl_select_h0 l cm h :
  getl h (select_h l cm []) =
  if str_mem star l then getl h cm else if str_mem h l then getl (canon h) cm else [].
Proof.
  rewrite getl_select_h. destruct (str_mem star l); [reflexivity|].
  destruct (str_mem h l); simpl; [|reflexivity].
  destruct (mem (canon h) cm) eqn:E; [reflexivity|]. symmetry. apply mem_false_getl. exact E.
Qed.

Lemma getl_select_q l : forall qm acc k,
  getl k (select_q l qm acc) =
  if str_mem star l then getl k qm
  else if str_mem k l && negb (is_nil (getl k qm)) then getl k qm else getl k acc.
Proof.
  induction l as [|k0 l IH]; intros qm acc k; cbn [select_q str_mem]; [reflexivity|].
  rewrite (str_eqb_sym star k0). destruct (str_eqb k0 star) eqn:Ek; cbn [orb]; [reflexivity|].
  destruct (lookup k0 qm) as [[|v vs]|] eqn:El.
  1,3: (assert (Hg : getl k0 qm = []) by (unfold getl; rewrite El; reflexivity);
    rewrite IH; destruct (str_mem star l); [reflexivity|];
    destruct (str_eqb k k0) eqn:Eh; cbn [orb]; [|reflexivity];
    apply str_eqb_eq in Eh; subst k; rewrite Hg; cbn [is_nil negb]; rewrite !andb_false_r; reflexivity).
  assert (Hg : getl k0 qm = v :: vs) by (unfold getl; rewrite El; reflexivity).
  rewrite IH. destruct (str_mem star l); [reflexivity|].
  rewrite getl_set. destruct (str_eqb k k0) eqn:Eh; cbn [orb]; [|reflexivity].
  apply str_eqb_eq in Eh. subst k. rewrite Hg. cbn [is_nil negb]. rewrite !andb_true_r.
  destruct (str_mem k0 l); reflexivity.
Qed.

Lemma getl_select_q0 l qm k :
  getl k (select_q l qm []) =
  if str_mem star l then getl k qm else if str_mem k l then getl k qm else [].
Proof.
  rewrite getl_select_q. destruct (str_mem star l); [reflexivity|].
  destruct (str_mem k l); simpl; [|reflexivity].
  destruct (getl k qm); reflexivity.
Qed.

Lemma nodup_select_q l : forall qm acc,
  NoDup (keys qm) -> NoDup (keys acc) -> NoDup (keys (select_q l qm acc)).
Proof.
  induction l as [|k0 l IH]; intros qm acc Hq Ha; simpl; [exact Ha|].
  destruct (str_eqb k0 star); [exact Hq|].
  destruct (lookup k0 qm) as [[|v vs]|]; try (apply IH; assumption).
  apply IH; [assumption|]. apply nodup_set. exact Ha.
Qed.

(* the gin builder and the mux builder compute the same request *)
Lemma gin_query_loop r l : forall acc,
  (fix go (l : list string) (acc : hmap) : hmap :=
     match l with
     | [] => acc
     | k :: rest =>
         if str_eqb k star then client_qmap (r_query r)
         else match lookup k (client_qmap (r_query r)) with
              | Some (v :: vs) => go rest (set k (v :: vs) acc)
              | _ => go rest acc
              end
     end) l acc = select_q l (client_qmap (r_query r)) acc.
Proof.
  induction l as [|k l IH]; intros acc; simpl; [reflexivity|].
  destruct (str_eqb k star); [reflexivity|].
  destruct (lookup k (client_qmap (r_query r))) as [[|v vs]|]; apply IH.
Qed.

Lemma builders_agree hs qs r : gin_new_request hs qs r = mux_new_request hs qs r.
Proof. unfold gin_new_request, mux_new_request. rewrite gin_query_loop. reflexivity. Qed.

Lemma new_request_mux b hs qs r : new_request b hs qs r = mux_new_request hs qs r.
Proof. destruct b; simpl; [apply builders_agree|reflexivity]. Qed.

(* the gateway's own headers *)
Lemma getl_add_gateway_other ip host ua m h :
  h <> XFF -> h <> XFH -> h <> XFV -> h <> UA -> getl h (add_gateway ip host ua m) = getl h m.
Proof.
  intros H1 H2 H3 H4. unfold add_gateway.
  apply str_eqb_neq in H1, H2, H3, H4.
  destruct (mem UA (set XFH [host] (set XFF [ip] m))); rewrite !getl_set, ?H1, ?H2, ?H3, ?H4; reflexivity.
Qed.

Lemma getl_add_gateway_ua ip host ua m :
  getl UA m <> [] -> getl UA (add_gateway ip host ua m) = getl UA m.
Proof.
  intros H. unfold add_gateway.
  assert (E : mem UA (set XFH [host] (set XFF [ip] m)) = true).
  { apply getl_nonnil_mem. rewrite !getl_set. exact H. }
  rewrite E. rewrite !getl_set. reflexivity.
Qed.

(* ------------------------------------------------------------------------------------ *)
(* the backend filters *)

Lemma filter_length_le {A} (p : A -> bool) l : List.length (filter p l) <= List.length l.
Proof. induction l as [|x l IH]; simpl; [lia|]. destruct (p x); simpl; lia. Qed.

Lemma filter_length_all {A} (p : A -> bool) l :
  List.length (filter p l) = List.length l -> forall x, In x l -> p x = true.
Proof.
  induction l as [|y l IH]; simpl; intros H x Hin; [contradiction|].
  destruct (p y) eqn:E; simpl in H.
  - destruct Hin as [<-|Hin]; [exact E|]. apply IH; [lia|exact Hin].
  - pose proof (filter_length_le p l). lia.
Qed.

Lemma getl_rebuild_gen l (m : hmap) h : forall acc,
  getl h (fold_left (fun acc v => match lookup v m with Some vs => set v vs acc | None => acc end) l acc) =
  if str_mem h l && mem h m then getl h m else getl h acc.
Proof.
  induction l as [|v l IH]; intros acc; cbn [fold_left str_mem]; [reflexivity|].
  rewrite IH. destruct (lookup v m) as [vs|] eqn:El.
  - rewrite getl_set. destruct (str_eqb h v) eqn:Eh; cbn [orb]; [|reflexivity].
    apply str_eqb_eq in Eh. subst v.
    assert (Hm : mem h m = true) by (unfold mem; rewrite El; reflexivity).
    assert (Hg : getl h m = vs) by (unfold getl; rewrite El; reflexivity).
    rewrite Hm, Hg. rewrite !andb_true_r. destruct (str_mem h l); reflexivity.
  - destruct (str_eqb h v) eqn:Eh; cbn [orb]; [|reflexivity].
    apply str_eqb_eq in Eh. subst v.
    assert (Hm : mem h m = false) by (unfold mem; rewrite El; reflexivity).
    rewrite Hm, !andb_false_r. reflexivity.
Qed.

Lemma getl_be_filter l (m : hmap) h :
  getl h (be_filter l m) = if is_nil l then getl h m else if str_mem h l then getl h m else [].
Proof.
  destruct l as [|v l]; [reflexivity|].
  change (be_filter (v :: l) m) with
    (if Nat.eqb (List.length m) 0 then m
     else if Nat.eqb (count_allowed (v :: l) m) (List.length m) then m else rebuild (v :: l) m).
  cbn [is_nil]. generalize (v :: l). intros l'.
  destruct (Nat.eqb (List.length m) 0) eqn:E0.
  - apply Nat.eqb_eq in E0. destruct m; [|discriminate]. rewrite getl_nil. destruct (str_mem h l'); reflexivity.
  - destruct (Nat.eqb (count_allowed l' m) (List.length m)) eqn:E1.
    + apply Nat.eqb_eq in E1. destruct (str_mem h l') eqn:Eh; [reflexivity|].
      unfold getl. destruct (lookup h m) as [vs|] eqn:El; [|reflexivity].
      apply lookup_In in El. unfold count_allowed in E1.
      pose proof (filter_length_all _ _ E1 _ El) as Hp. simpl in Hp. congruence.
    + unfold rebuild. rewrite getl_rebuild_gen. destruct (str_mem h l'); simpl; [|reflexivity].
      destruct (mem h m) eqn:Em; [reflexivity|]. symmetry. apply mem_false_getl. exact Em.
Qed.

Lemma nodup_rebuild l (m : hmap) : forall acc, NoDup (keys acc) ->
  NoDup (keys (fold_left (fun acc v => match lookup v m with Some vs => set v vs acc | None => acc end) l acc)).
Proof.
  induction l as [|v l IH]; intros acc H; simpl; [exact H|].
  apply IH. destruct (lookup v m); [apply nodup_set|]; exact H.
Qed.

Lemma nodup_be_filter l (m : hmap) : NoDup (keys m) -> NoDup (keys (be_filter l m)).
Proof.
  intros H. destruct l as [|v l]; [exact H|]. unfold be_filter.
  destruct (Nat.eqb (List.length m) 0); [exact H|].
  destruct (Nat.eqb (count_allowed (v :: l) m) (List.length m)); [exact H|].
  apply nodup_rebuild. constructor.
Qed.

(* the filters look at membership only: duplicates and order of a list are irrelevant *)
Lemma be_filter_membership l l' (m : hmap) h :
  is_nil l = is_nil l' -> (forall x, str_mem x l = str_mem x l') ->
  getl h (be_filter l m) = getl h (be_filter l' m).
Proof. intros H1 H2. rewrite !getl_be_filter, H1, H2. reflexivity. Qed.

(* ------------------------------------------------------------------------------------ *)
(* the default stack *)

Lemma default_exec_eq :
  default_exec = [SNeutral; SNeutral; SFilterQuery; SFilterHeaders; SNeutral; SRender; SNeutral; SNeutral].
Proof. reflexivity. Qed.

Definition sel_headers (c : config) (r : request) : hmap :=
  add_gateway (r_ip r) (r_host r) (r_ua r) (select_h (ep_hl c) (client_hmap (r_lines r)) []).
Definition sel_query (c : config) (r : request) : hmap :=
  select_q (c_ep_query c) (client_qmap (r_query r)) [].

Lemma outgoing_eq c r :
  outgoing c r =
  {| o_headers := be_filter (be_hl c) (sel_headers c r);
     o_query := group (c_static c ++ flatten (be_filter (c_be_query c) (sel_query c r))) |}.
Proof.
  unfold outgoing, outgoing_with. rewrite new_request_mux, default_exec_eq. reflexivity.
Qed.

Lemma sent_h_outgoing c r h :
  sent_h (outgoing c r) h =
  if is_nil (be_hl c) then getl h (sel_headers c r)
  else if str_mem h (be_hl c) then getl h (sel_headers c r) else [].
Proof. unfold sent_h. rewrite outgoing_eq. simpl. apply getl_be_filter. Qed.

Lemma sent_q_outgoing c r k :
  sent_q (outgoing c r) k = (static_q c k ++ fwd_q c r k)%list.
Proof.
  unfold sent_q. rewrite outgoing_eq. simpl. rewrite getl_group, vals_of_app.
  unfold static_q. f_equal.
  rewrite vals_of_flatten.
  2:{ apply nodup_be_filter. apply nodup_select_q; [apply nodup_group|constructor]. }
  rewrite getl_be_filter. unfold sel_query. rewrite getl_select_q0.
  unfold client_qmap. rewrite getl_group.
  unfold fwd_q, allowed_ep_qb, allowed_be_qb, client_q.
  destruct (is_nil (c_be_query c)); simpl.
  - rewrite andb_true_r. destruct (str_mem star (c_ep_query c)); simpl; [reflexivity|].
    destruct (str_mem k (c_ep_query c)); reflexivity.
  - destruct (str_mem k (c_be_query c)); simpl.
    + rewrite andb_true_r. destruct (str_mem star (c_ep_query c)); simpl; [reflexivity|].
      destruct (str_mem k (c_ep_query c)); reflexivity.
    + rewrite andb_false_r. reflexivity.
Qed.

(* ------------------------------------------------------------------------------------ *)
(* reflection of the small predicates *)

Lemma overwritten_b_iff h : overwritten_b h = true <-> overwritten h.
Proof.
  unfold overwritten_b, overwritten. rewrite !orb_true_iff, !str_eqb_eq. tauto.
Qed.
Lemma own_b_iff h : own_b h = true <-> own h.
Proof. unfold own_b, own. rewrite orb_true_iff, overwritten_b_iff, str_eqb_eq. tauto. Qed.
Lemma allowed_ep_hb_iff c h : allowed_ep_hb c h = true <-> allowed_ep_h c h.
Proof. unfold allowed_ep_hb, allowed_ep_h. rewrite orb_true_iff, !str_mem_In. tauto. Qed.
Lemma allowed_be_hb_iff c h : allowed_be_hb c h = true <-> allowed_be_h c h.
Proof. unfold allowed_be_hb, allowed_be_h. rewrite orb_true_iff, is_nil_true, str_mem_In. tauto. Qed.
Lemma allowed_ep_qb_iff c k : allowed_ep_qb c k = true <-> allowed_ep_q c k.
Proof. unfold allowed_ep_qb, allowed_ep_q. rewrite orb_true_iff, !str_mem_In. tauto. Qed.
Lemma allowed_be_qb_iff c k : allowed_be_qb c k = true <-> allowed_be_q c k.
Proof. unfold allowed_be_qb, allowed_be_q. rewrite orb_true_iff, is_nil_true, str_mem_In. tauto. Qed.

Lemma own_b_false h : own_b h = false -> h <> XFF /\ h <> XFH /\ h <> XFV /\ h <> UA.
Proof.
  unfold own_b, overwritten_b. rewrite !orb_false_iff, !str_eqb_neq. tauto.
Qed.

(* ------------------------------------------------------------------------------------ *)
(* the theorems about the model *)

Lemma own_ok_b_iff r h vs : own_ok_b r h vs = true <-> own_ok r h vs.
Proof.
  unfold own_ok_b, own_ok. destruct (own_value r h) as [v|]; [|split; discriminate].
  rewrite sl_eqb_eq. split; [intros ->; reflexivity|intros H; inversion H; reflexivity].
Qed.

Lemma own_ok_own r h vs : own_ok r h vs -> own h.
Proof.
  unfold own_ok, own_value, own, overwritten.
  destruct (str_eqb h XFF) eqn:E1; [apply str_eqb_eq in E1; auto|].
  destruct (str_eqb h XFH) eqn:E2; [apply str_eqb_eq in E2; auto|].
  destruct (str_eqb h UA) eqn:E3; [apply str_eqb_eq in E3; auto|].
  destruct (str_eqb h XFV) eqn:E4; [apply str_eqb_eq in E4; auto|discriminate].
Qed.

(* what the router leaves under every name once it has written its own headers *)
Lemma getl_add_gateway ip host ua (m : hmap) h :
  getl h (add_gateway ip host ua m) =
  if str_eqb h XFF then [ip]
  else if str_eqb h XFH then [host]
  else if str_eqb h UA then (if mem UA m then getl UA m else [ua])
  else if str_eqb h XFV then (if mem UA m then [ua] else getl XFV m)
  else getl h m.
Proof.
  unfold add_gateway.
  assert (Em : mem UA (set XFH [host] (set XFF [ip] m)) = mem UA m).
  { unfold mem. rewrite !lookup_set. reflexivity. }
  rewrite Em.
  destruct (str_eqb h XFF) eqn:E1.
  { apply str_eqb_eq in E1. subst h. destruct (mem UA m); rewrite !getl_set; reflexivity. }
  destruct (str_eqb h XFH) eqn:E2.
  { apply str_eqb_eq in E2. subst h. destruct (mem UA m); rewrite !getl_set; reflexivity. }
  destruct (str_eqb h UA) eqn:E3.
  { apply str_eqb_eq in E3. subst h. destruct (mem UA m); rewrite !getl_set; reflexivity. }
  destruct (str_eqb h XFV) eqn:E4.
  { apply str_eqb_eq in E4. subst h. destruct (mem UA m); rewrite !getl_set; reflexivity. }
  destruct (mem UA m); rewrite !getl_set, ?E1, ?E2, ?E3, ?E4; reflexivity.
Qed.

(* whatever the router selected from the client's headers is allowed by the endpoint list and
   is what the client sent - gateway-owned names included *)
Lemma select_sound c r h :
  getl h (select_h (ep_hl c) (client_hmap (r_lines r)) []) <> [] ->
  allowed_ep_h c h /\ getl h (select_h (ep_hl c) (client_hmap (r_lines r)) []) = client_h r h.
Proof.
  rewrite getl_select_h0. intros Hne.
  destruct (str_mem star (ep_hl c)) eqn:Es.
  - split; [left; apply str_mem_In; exact Es|].
    pose proof (client_hmap_key_canon r h Hne) as Hc.
    rewrite <- Hc at 1. apply getl_client_hmap.
  - destruct (str_mem h (ep_hl c)) eqn:Em; [|exfalso; apply Hne; reflexivity].
    split; [right; apply str_mem_In; exact Em|]. apply getl_client_hmap.
Qed.

Theorem headers_sound_model c r : headers_sound c r (outgoing c r).
Proof.
  intros h Hne. rewrite sent_h_outgoing in *.
  assert (Hbe : allowed_be_h c h /\
                getl h (sel_headers c r) <> [] /\
                (if is_nil (be_hl c) then getl h (sel_headers c r)
                 else if str_mem h (be_hl c) then getl h (sel_headers c r) else []) = getl h (sel_headers c r)).
  { destruct (is_nil (be_hl c)) eqn:En.
    - split; [left; apply is_nil_true; exact En|split; [exact Hne|reflexivity]].
    - destruct (str_mem h (be_hl c)) eqn:Em; [|exfalso; apply Hne; reflexivity].
      split; [right; apply str_mem_In; exact Em|split; [exact Hne|reflexivity]]. }
  destruct Hbe as [Hbe [Hne' Heq]]. rewrite Heq. clear Heq Hne.
  unfold sel_headers in *. rewrite getl_add_gateway in *.
  unfold own_ok, own_value.
  destruct (str_eqb h XFF); [left; reflexivity|].
  destruct (str_eqb h XFH); [left; reflexivity|].
  destruct (str_eqb h UA) eqn:E3.
  { apply str_eqb_eq in E3. subst h.
    destruct (mem UA (select_h (ep_hl c) (client_hmap (r_lines r)) [])); [|left; reflexivity].
    right. destruct (select_sound c r UA Hne') as [Ha He]. auto. }
  destruct (str_eqb h XFV) eqn:E4.
  { apply str_eqb_eq in E4. subst h.
    destruct (mem UA (select_h (ep_hl c) (client_hmap (r_lines r)) [])); [left; reflexivity|].
    right. destruct (select_sound c r XFV Hne') as [Ha He]. auto. }
  right. destruct (select_sound c r h Hne') as [Ha He]. auto.
Qed.

Theorem headers_complete_model c r : headers_complete c r (outgoing c r).
Proof.
  intros h Hep Hbe Hnov Hpres.
  assert (Hcc : canon (canon h) = canon h) by apply canon_idem.
  rewrite sent_h_outgoing.
  assert (Hsel : getl (canon h) (select_h (ep_hl c) (client_hmap (r_lines r)) []) = client_h r h).
  { rewrite getl_select_h0. destruct (str_mem star (ep_hl c)) eqn:Es.
    - apply getl_client_hmap.
    - destruct Hep as [Hs|Hin]; [apply str_mem_In in Hs; congruence|].
      pose proof (in_eff_headers_canon _ _ Hin) as Hc. rewrite Hc.
      apply str_mem_In in Hin. rewrite Hin. apply getl_client_hmap. }
  assert (Hgw : getl (canon h) (sel_headers c r) = client_h r h).
  { unfold sel_headers. destruct (str_eqb (canon h) UA) eqn:Eu.
    - apply str_eqb_eq in Eu. rewrite Eu in *. rewrite getl_add_gateway_ua; [exact Hsel|].
      rewrite Hsel. exact Hpres.
    - apply str_eqb_neq in Eu. rewrite getl_add_gateway_other; [exact Hsel| | | |exact Eu];
        intros E; apply Hnov; unfold overwritten; auto. }
  destruct (is_nil (be_hl c)) eqn:En; [exact Hgw|].
  destruct Hbe as [Hn|Hin]; [apply is_nil_true in Hn; congruence|].
  pose proof (in_init_headers_canon _ _ Hin) as Hc. rewrite Hc in *.
  apply str_mem_In in Hin. rewrite Hin. exact Hgw.
Qed.

Theorem query_exact_model c r : query_exact c r (outgoing c r).
Proof. intros k. apply sent_q_outgoing. Qed.

Lemma query_exact_sound c r o : query_exact c r o -> query_sound c r o.
Proof.
  intros H k. exists (fwd_q c r k). split; [apply H|].
  unfold fwd_q. destruct (allowed_ep_qb c k && allowed_be_qb c k) eqn:E; [right|left; reflexivity].
  apply andb_true_iff in E. destruct E as [E1 E2].
  apply allowed_ep_qb_iff in E1. apply allowed_be_qb_iff in E2. auto.
Qed.

Lemma query_exact_complete c r o : query_exact c r o -> query_complete c r o.
Proof.
  intros H k H1 H2. rewrite H. unfold fwd_q.
  apply allowed_ep_qb_iff in H1. apply allowed_be_qb_iff in H2. rewrite H1, H2. reflexivity.
Qed.

Theorem query_sound_model c r : query_sound c r (outgoing c r).
Proof. apply query_exact_sound, query_exact_model. Qed.
Theorem query_complete_model c r : query_complete c r (outgoing c r).
Proof. apply query_exact_complete, query_exact_model. Qed.

(* the static query of url_pattern is kept, whatever the lists and the client say *)
Theorem static_query_kept c r k :
  exists rest, sent_q (outgoing c r) k = (static_q c k ++ rest)%list.
Proof. exists (fwd_q c r k). apply sent_q_outgoing. Qed.

Theorem spec_model c r : C08_spec c r (outgoing c r).
Proof.
  repeat split.
  - apply headers_sound_model.
  - apply headers_complete_model.
  - apply query_sound_model.
  - apply query_complete_model.
Qed.

(* a backend that declares a list sees no header outside it - the gateway's own included *)
Theorem backend_list_bounds_all c r h :
  be_hl c <> [] -> sent_h (outgoing c r) h <> [] -> In h (be_hl c).
Proof.
  intros Hn Hs. rewrite sent_h_outgoing in Hs. apply is_nil_false in Hn. rewrite Hn in Hs.
  destruct (str_mem h (be_hl c)) eqn:E; [apply str_mem_In; exact E|exfalso; apply Hs; reflexivity].
Qed.

(* the adapter does not matter *)
Theorem adapter_independent a b eph epq beh beq st r :
  outgoing {| c_adapter := a; c_ep_headers := eph; c_ep_query := epq; c_be_headers := beh; c_be_query := beq; c_static := st |} r =
  outgoing {| c_adapter := b; c_ep_headers := eph; c_ep_query := epq; c_be_headers := beh; c_be_query := beq; c_static := st |} r.
Proof. rewrite !outgoing_eq. reflexivity. Qed.

(* ------------------------------------------------------------------------------------ *)
(* the boolean oracle decides the Prop *)

Lemma headers_sound_b_iff c r o : headers_sound_b c r o = true <-> headers_sound c r o.
Proof.
  unfold headers_sound_b, headers_sound. rewrite forallb_forall. split.
  - intros H h Hne. unfold sent_h, getl in Hne |- *.
    destruct (lookup h (o_headers o)) as [vs|] eqn:El; [|exfalso; apply Hne; reflexivity].
    specialize (H (h, vs) (lookup_In _ _ _ El)). simpl in H. unfold sent_h, getl in H. rewrite El in H.
    apply orb_true_iff in H. destruct H as [H|H].
    + apply orb_true_iff in H. destruct H as [H|H]; [apply is_nil_true in H; contradiction|].
      left. apply own_ok_b_iff. exact H.
    + right. apply andb_true_iff in H. destruct H as [H H3]. apply andb_true_iff in H. destruct H as [H1 H2].
      apply allowed_ep_hb_iff in H1. apply allowed_be_hb_iff in H2. apply sl_eqb_eq in H3. auto.
  - intros H [h vs] Hin. simpl. destruct (is_nil (sent_h o h)) eqn:En; [reflexivity|]. simpl.
    apply is_nil_false in En. destruct (H h En) as [Ho|[H1 [H2 H3]]].
    + apply own_ok_b_iff in Ho. rewrite Ho. reflexivity.
    + apply allowed_ep_hb_iff in H1. apply allowed_be_hb_iff in H2. rewrite H1, H2, H3, sl_eqb_refl.
      apply orb_true_r.
Qed.

Lemma client_h_canon r h : client_h r (canon h) = client_h r h.
Proof. unfold client_h. rewrite canon_idem. reflexivity. Qed.

Lemma allowed_ep_h_canon c h : allowed_ep_h c h -> allowed_ep_h c (canon h).
Proof.
  intros [H|H]; [left; exact H|right]. unfold ep_hl in *. rewrite (in_eff_headers_canon _ _ H). exact H.
Qed.
Lemma allowed_be_h_canon c h : allowed_be_h c h -> allowed_be_h c (canon h).
Proof.
  intros [H|H]; [left; exact H|right]. unfold be_hl in *. rewrite (in_init_headers_canon _ _ H). exact H.
Qed.

Lemma headers_complete_b_iff c r o : headers_complete_b c r o = true <-> headers_complete c r o.
Proof.
  unfold headers_complete_b, headers_complete. rewrite forallb_forall. split.
  - intros H h Hep Hbe Hnov Hpres.
    (* some line carries the name *)
    unfold client_h in Hpres.
    destruct (filter (fun p => str_eqb (canon (fst p)) (canon h)) (r_lines r)) as [|p l] eqn:E;
      [exfalso; apply Hpres; reflexivity|].
    assert (Hin : In p (filter (fun p => str_eqb (canon (fst p)) (canon h)) (r_lines r))) by (rewrite E; left; reflexivity).
    apply filter_In in Hin. destruct Hin as [Hin Hk]. apply str_eqb_eq in Hk.
    specialize (H p Hin). simpl in H. rewrite Hk in H.
    apply allowed_ep_h_canon in Hep. apply allowed_be_h_canon in Hbe.
    apply allowed_ep_hb_iff in Hep. apply allowed_be_hb_iff in Hbe. rewrite Hep, Hbe in H. simpl in H.
    destruct (overwritten_b (canon h)) eqn:Eo; [apply overwritten_b_iff in Eo; contradiction|].
    simpl in H. apply sl_eqb_eq in H. rewrite H. apply client_h_canon.
  - intros H p Hin. simpl. set (h := canon (fst p)).
    destruct (overwritten_b h) eqn:Eo; [reflexivity|]. simpl.
    destruct (allowed_ep_hb c h && allowed_be_hb c h) eqn:Ea; [|reflexivity]. simpl.
    apply andb_true_iff in Ea. destruct Ea as [E1 E2].
    apply allowed_ep_hb_iff in E1. apply allowed_be_hb_iff in E2.
    assert (Hc : canon h = h) by (unfold h; apply canon_idem).
    assert (Hnov : ~ overwritten (canon h)).
    { rewrite Hc. intros Ho. apply overwritten_b_iff in Ho. congruence. }
    assert (Hpres : client_h r h <> []).
    { unfold client_h. intros En.
      assert (Hf : In p (filter (fun q => str_eqb (canon (fst q)) (canon h)) (r_lines r))).
      { apply filter_In. split; [exact Hin|]. rewrite Hc. apply str_eqb_refl. }
      destruct (filter (fun q => str_eqb (canon (fst q)) (canon h)) (r_lines r)); [contradiction|discriminate]. }
    specialize (H h E1 E2 Hnov Hpres). rewrite Hc in H. rewrite H. apply sl_eqb_refl.
Qed.

Lemma query_b_iff c r o : query_b c r o = true <-> query_exact c r o.
Proof.
  unfold query_b, query_exact. rewrite forallb_forall. split.
  - intros H k.
    destruct (in_dec string_dec k (keys (o_query o) ++ map fst (c_static c) ++ map fst (r_query r))) as [Hin|Hnin].
    + apply sl_eqb_eq. apply H. exact Hin.
    + rewrite !in_app_iff in Hnin.
      assert (H1 : sent_q o k = []) by (apply notin_keys_getl; tauto).
      assert (H2 : static_q c k = []) by (apply vals_of_notin; tauto).
      assert (H3 : client_q r k = []) by (apply vals_of_notin; tauto).
      rewrite H1, H2. unfold fwd_q. rewrite H3. destruct (allowed_ep_qb c k && allowed_be_qb c k); reflexivity.
  - intros H k _. rewrite H. apply sl_eqb_refl.
Qed.

Theorem spec_b_iff c r o :
  spec_b c r o = true <-> headers_sound c r o /\ headers_complete c r o /\ query_exact c r o.
Proof.
  unfold spec_b. rewrite !andb_true_iff, headers_sound_b_iff, headers_complete_b_iff, query_b_iff. tauto.
Qed.

Theorem spec_b_sound c r o : spec_b c r o = true -> C08_spec c r o.
Proof.
  intros H. apply spec_b_iff in H. destruct H as [H1 [H2 H3]].
  repeat split; auto using query_exact_sound, query_exact_complete.
Qed.

Theorem model_meets_oracle c r : spec_b c r (outgoing c r) = true.
Proof.
  apply spec_b_iff. split; [apply headers_sound_model|split; [apply headers_complete_model|apply query_exact_model]].
Qed.

(* ------------------------------------------------------------------------------------ *)
(* why the stack order is part of the obligations: with the load balancer (which renders the
   query into the URL) outside the query-string filter - the order before the repair - the
   backend's own list has no effect *)

Definition old_newStack_names : list string :=
  ["pf.backendFactory"; "NewBackendPluginMiddleware"; "NewGraphQLMiddleware"; "NewFilterHeadersMiddleware";
   "NewFilterQueryStringsMiddleware"; "NewLoadBalancedMiddlewareWithSubscriberAndLogger";
   "NewConcurrentMiddlewareWithLogger"; "NewRequestBuilderMiddlewareWithLogger"].

Definition wit_cfg : config :=
  {| c_adapter := Gin; c_ep_headers := []; c_ep_query := ["*"]; c_be_headers := []; c_be_query := ["x"]; c_static := [] |}.
Definition wit_req : request :=
  {| r_lines := []; r_query := [("x", "1"); ("y", "2")]; r_host := "gw"; r_ip := "192.0.2.7"; r_ua := "KrakenD" |}.

Theorem render_before_filter_refuted :
  exists c r, ~ query_sound c r (outgoing_with (exec_order old_newStack_names) c r).
Proof.
  exists wit_cfg, wit_req. intros H. destruct (H "y") as [fwd [E Hf]].
  vm_compute in E. destruct Hf as [->|[_ [Hbe _]]]; [discriminate|].
  destruct Hbe as [Hn|Hin]; [discriminate|]. simpl in Hin. destruct Hin as [Hin|[]]. discriminate.
Qed.

(* the shortcut of the filters before the repair: counting list entries that are present
   (a duplicate counts twice) instead of present names that are listed *)
Definition be_filter_count_entries (l : list string) (m : hmap) : hmap :=
  match l with
  | [] => m
  | _ =>
      if Nat.eqb (List.length m) 0 then m
      else if Nat.eqb (List.length (filter (fun v => mem v m) l)) (List.length m) then m
      else rebuild l m
  end.

Theorem count_entries_shortcut_refuted :
  exists l m h, ~ In h l /\ getl h (be_filter_count_entries l m) <> [] /\ getl h (be_filter l m) = [].
Proof.
  exists ["X-A"; "X-A"], [("X-A", ["1"]); ("Cookie", ["secret"])], "Cookie".
  split; [|split].
  - simpl. intros [H|[H|[]]]; discriminate.
  - vm_compute. discriminate.
  - reflexivity.
Qed.

(* ------------------------------------------------------------------------------------ *)
(* corner lemmas *)

(* wildcard at the endpoint, no backend list: every client header reaches the backend under
   its canonical name, except the gateway-owned names; nothing else does *)
Theorem wildcard_forwards_all c r h :
  In star (ep_hl c) -> be_hl c = [] -> ~ own (canon h) ->
  sent_h (outgoing c r) (canon h) = client_h r h.
Proof.
  intros Hs Hb Hn. rewrite sent_h_outgoing. rewrite Hb. cbn [is_nil].
  unfold sel_headers. rewrite getl_add_gateway_other.
  - rewrite getl_select_h0. apply str_mem_In in Hs. rewrite Hs. apply getl_client_hmap.
  - intros E. apply Hn. left. left. exact E.
  - intros E. apply Hn. left. right. left. exact E.
  - intros E. apply Hn. left. right. right. exact E.
  - intros E. apply Hn. right. exact E.
Qed.

(* an endpoint without input_query_strings forwards no client parameter *)
Theorem no_query_list_no_query c r k :
  c_ep_query c = [] -> sent_q (outgoing c r) k = static_q c k.
Proof.
  intros H. rewrite sent_q_outgoing. unfold fwd_q, allowed_ep_qb. rewrite H. simpl. apply app_nil_r.
Qed.

(* an endpoint without input_headers forwards Content-Type only *)
Theorem default_list_content_type_only c r h :
  c_ep_headers c = [] -> sent_h (outgoing c r) h <> [] -> ~ own h -> h = "Content-Type".
Proof.
  intros H Hs Hn. destruct (headers_sound_model c r h Hs) as [Ho|[Hep _]]; [apply own_ok_own in Ho; contradiction|].
  unfold allowed_ep_h, ep_hl in Hep. rewrite H in Hep. simpl in Hep.
  destruct Hep as [[E|[]]|[E|[]]]; [discriminate|symmetry; exact E].
Qed.

(* ------------------------------------------------------------------------------------ *)
(* wire level of the query string: parsing undoes encoding *)

Lemma unescape_escape_byte c rest :
  query_unescape (escape_byte c ++ rest) = option_map (String c) (query_unescape rest).
Proof. destruct c as [[] [] [] [] [] [] [] []]; reflexivity. Qed.

Theorem unescape_escape s : query_unescape (query_escape s) = Some s.
Proof.
  induction s as [|c s IH]; [reflexivity|]. cbn [query_escape].
  rewrite unescape_escape_byte, IH. reflexivity.
Qed.

(* an escaped string contains none of the separators *)
Lemma ascii_mem_app c a b : ascii_mem c (a ++ b) = ascii_mem c a || ascii_mem c b.
Proof. induction a as [|x a IH]; simpl; [reflexivity|]. rewrite IH. apply orb_assoc. Qed.

Lemma escape_byte_no_sep c :
  ascii_mem amp (escape_byte c) = false /\ ascii_mem eqc (escape_byte c) = false /\
  ascii_mem semi (escape_byte c) = false.
Proof. destruct c as [[] [] [] [] [] [] [] []]; repeat split; reflexivity. Qed.

Lemma escape_no_sep s :
  ascii_mem amp (query_escape s) = false /\ ascii_mem eqc (query_escape s) = false /\
  ascii_mem semi (query_escape s) = false.
Proof.
  induction s as [|c s [I1 [I2 I3]]]; [repeat split; reflexivity|].
  cbn [query_escape]. rewrite !ascii_mem_app, I1, I2, I3.
  destruct (escape_byte_no_sep c) as [H1 [H2 H3]]. rewrite H1, H2, H3. repeat split; reflexivity.
Qed.

Lemma split_on_nonnil d s : split_on d s <> [].
Proof.
  induction s as [|c s IH]; simpl; [discriminate|].
  destruct (Ascii.eqb c d); [discriminate|]. destruct (split_on d s); [contradiction|discriminate].
Qed.

Lemma split_on_no d s : ascii_mem d s = false -> split_on d s = [s].
Proof.
  induction s as [|c s IH]; simpl; [reflexivity|]. intros H.
  apply orb_false_iff in H. destruct H as [H1 H2]. rewrite Ascii.eqb_sym, H1, (IH H2). reflexivity.
Qed.

(* Split distributes over a separator *)
Lemma split_on_app d a b : split_on d (a ++ String d b) = (split_on d a ++ split_on d b)%list.
Proof.
  induction a as [|c a IH]; simpl.
  - rewrite Ascii.eqb_refl. reflexivity.
  - destruct (Ascii.eqb c d); [rewrite IH; reflexivity|].
    rewrite IH. destruct (split_on d a) as [|x xs] eqn:E; [exfalso; eapply split_on_nonnil; eauto|].
    reflexivity.
Qed.

Lemma cut_app d a b : ascii_mem d a = false -> cut d (a ++ String d b) = (a, b).
Proof.
  induction a as [|c a IH]; simpl; intros H.
  - rewrite Ascii.eqb_refl. reflexivity.
  - apply orb_false_iff in H. destruct H as [H1 H2]. rewrite Ascii.eqb_sym, H1, (IH H2). reflexivity.
Qed.

Lemma parse_segment_encode_pair p : parse_segment (encode_pair p) = Some p.
Proof.
  destruct p as [k v]. unfold encode_pair. cbn [fst snd].
  destruct (escape_no_sep k) as [_ [Hk2 Hk3]]. destruct (escape_no_sep v) as [_ [_ Hv3]].
  unfold parse_segment.
  assert (Hs : ascii_mem semi (query_escape k ++ String eqc (query_escape v)) = false).
  { rewrite ascii_mem_app, Hk3. simpl. exact Hv3. }
  rewrite Hs, (cut_app _ _ _ Hk2), !unescape_escape.
  destruct (query_escape k ++ String eqc (query_escape v))%string eqn:E; [|reflexivity].
  destruct (query_escape k); discriminate.
Qed.

Lemma filter_map_app {A B} (f : A -> option B) a b :
  filter_map f (a ++ b) = (filter_map f a ++ filter_map f b)%list.
Proof.
  induction a as [|x a IH]; simpl; [reflexivity|]. destruct (f x); simpl; rewrite IH; reflexivity.
Qed.

(* ParseQuery distributes over '&' (any two texts, well-formed or not) *)
Theorem parse_query_amp a b :
  parse_query (a ++ String amp b) = (parse_query a ++ parse_query b)%list.
Proof. unfold parse_query. rewrite split_on_app, filter_map_app. reflexivity. Qed.

Lemma encode_pair_no_amp p : ascii_mem amp (encode_pair p) = false.
Proof.
  destruct p as [k v]. unfold encode_pair. cbn [fst snd]. rewrite ascii_mem_app.
  destruct (escape_no_sep k) as [H1 _]. destruct (escape_no_sep v) as [H2 _]. rewrite H1. simpl. exact H2.
Qed.

(* every list of pairs - any bytes in names and values, repeated names, empty names, empty
   values - comes back from its encoding, in order *)
Theorem parse_encode_pairs ps : parse_query (encode_pairs ps) = ps.
Proof.
  unfold encode_pairs. induction ps as [|p ps IH]; [reflexivity|].
  destruct ps as [|p2 ps].
  - cbn [map join_amp]. unfold parse_query. rewrite (split_on_no _ _ (encode_pair_no_amp p)).
    cbn [filter_map]. rewrite parse_segment_encode_pair. reflexivity.
  - change (join_amp (map encode_pair (p :: p2 :: ps)))
      with (encode_pair p ++ String amp (join_amp (map encode_pair (p2 :: ps))))%string.
    rewrite parse_query_amp, IH. unfold parse_query. rewrite (split_on_no _ _ (encode_pair_no_amp p)).
    cbn [filter_map]. rewrite parse_segment_encode_pair. reflexivity.
Qed.

(* what a backend that parses the RawQuery written by the load balancer finds: the pairs of the
   url_pattern text, then the pairs of the Query map - no hypothesis on either *)
Theorem parse_render_raw sraw q :
  parse_query (render_raw sraw q) = (parse_query sraw ++ flatten q)%list.
Proof.
  unfold render_raw. destruct q as [|e q]; [rewrite app_nil_r; reflexivity|].
  destruct sraw as [|c s].
  - rewrite parse_encode_pairs. reflexivity.
  - rewrite parse_query_amp, parse_encode_pairs. reflexivity.
Qed.

Lemma final_query_eq c r : final_query c r = be_filter (c_be_query c) (sel_query c r).
Proof. unfold final_query. rewrite new_request_mux. reflexivity. Qed.

Lemma nodup_final_query c r : NoDup (keys (final_query c r)).
Proof.
  rewrite final_query_eq. apply nodup_be_filter. apply nodup_select_q; [apply nodup_group|constructor].
Qed.

(* the wire level refines the pair level: parsing the RawQuery the executor is handed gives
   the query of the pair-level model, whenever c_static is what the url_pattern text parses to *)
Theorem wire_refines_pairs c sraw r :
  parse_query sraw = c_static c ->
  group (parse_query (outgoing_raw c sraw r)) = o_query (outgoing c r).
Proof.
  intros H. unfold outgoing_raw. rewrite parse_render_raw, H, outgoing_eq, final_query_eq. reflexivity.
Qed.

(* url.Values.Encode sorts the keys, the model renders them in map order: a reader that parses
   and groups cannot tell - any two renderings of maps that agree under every key do *)
Theorem key_order_irrelevant sraw (m m' : hmap) k :
  NoDup (keys m) -> NoDup (keys m') -> (forall x, getl x m = getl x m') ->
  getl k (group (parse_query (render_raw sraw m))) = getl k (group (parse_query (render_raw sraw m'))).
Proof.
  intros H1 H2 H. rewrite !parse_render_raw, !getl_group, !vals_of_app, !vals_of_flatten by assumption.
  rewrite H. reflexivity.
Qed.

(* the property at the wire: under every key, a backend that parses its RawQuery reads the
   values of the url_pattern text followed by the forwarded values *)
Theorem wire_query_exact c sraw r k :
  getl k (group (parse_query (outgoing_raw c sraw r))) =
  (vals_of k (parse_query sraw) ++
   (if allowed_ep_qb c k && allowed_be_qb c k then client_q r k else []))%list.
Proof.
  pose (c' := {| c_adapter := c_adapter c; c_ep_headers := c_ep_headers c; c_ep_query := c_ep_query c;
                 c_be_headers := c_be_headers c; c_be_query := c_be_query c; c_static := parse_query sraw |}).
  assert (E : outgoing_raw c sraw r = outgoing_raw c' sraw r) by reflexivity.
  rewrite E, (wire_refines_pairs c' sraw r eq_refl).
  exact (sent_q_outgoing c' r k).
Qed.

(* ------------------------------------------------------------------------------------ *)
(* GraphQL backends *)

(* the stage is where newStack_names puts it: after the two filters, before the rendering *)
Lemma gql_stage_position :
  map (fun n => (n, stage_of n)) (firstn 4 (skipn 2 (rev newStack_names))) =
  [("NewFilterQueryStringsMiddleware", SFilterQuery); ("NewFilterHeadersMiddleware", SFilterHeaders);
   ("NewGraphQLMiddleware", SNeutral); ("NewLoadBalancedMiddlewareWithSubscriberAndLogger", SRender)].
Proof. reflexivity. Qed.

Lemma outgoing_gql_none c r : outgoing_gql GNone c r = outgoing c r.
Proof. unfold outgoing_gql, outgoing, outgoing_with. rewrite default_exec_eq. reflexivity. Qed.

Lemma getl_gql_headers n m h :
  getl h (gql_headers n m) = if str_eqb h CT then [json_ct] else if str_eqb h CL then [n] else getl h m.
Proof. unfold gql_headers. rewrite !getl_set. reflexivity. Qed.

Lemma getl_remove k k' (m : hmap) : getl k (remove k' m) = if str_eqb k k' then [] else getl k m.
Proof.
  unfold getl. destruct (str_eqb k k') eqn:E.
  - apply str_eqb_eq in E. subst. rewrite lookup_remove_eq. reflexivity.
  - apply str_eqb_neq in E. rewrite lookup_remove_neq by assumption. reflexivity.
Qed.

Lemma getl_fold_set (opq : hmap) : forall acc k, NoDup (keys opq) ->
  getl k (fold_left (fun acc kv => set (fst kv) (snd kv) acc) opq acc) =
  if mem k opq then getl k opq else getl k acc.
Proof.
  induction opq as [|[k0 v0] opq IH]; intros acc k Hn; [reflexivity|].
  inversion Hn; subst. cbn [fold_left fst snd]. rewrite IH by assumption.
  rewrite getl_set.
  assert (Hm : mem k ((k0, v0) :: opq) = if str_eqb k k0 then true else mem k opq).
  { unfold mem. simpl. destruct (str_eqb k k0); reflexivity. }
  assert (Hg : getl k ((k0, v0) :: opq) = if str_eqb k k0 then v0 else getl k opq).
  { unfold getl. simpl. destruct (str_eqb k k0); reflexivity. }
  rewrite Hm, Hg. destruct (str_eqb k k0) eqn:E; [|reflexivity].
  apply str_eqb_eq in E. subst k0.
  assert (Hl : mem k opq = false).
  { unfold mem. replace (lookup k opq) with (@None (list string)); [reflexivity|].
    symmetry. apply lookup_None_notin. assumption. }
  rewrite Hl. reflexivity.
Qed.

Lemma nodup_fold_set (opq : hmap) : forall acc, NoDup (keys acc) ->
  NoDup (keys (fold_left (fun acc kv => set (fst kv) (snd kv) acc) opq acc)).
Proof.
  induction opq as [|kv opq IH]; intros acc H; [exact H|]. apply IH. apply nodup_set. exact H.
Qed.

Lemma nodup_gql_query opq q : NoDup (keys q) -> NoDup (keys (gql_query opq q)).
Proof. intros H. apply nodup_fold_set. repeat apply nodup_remove. exact H. Qed.

Lemma getl_gql_query opq q k : NoDup (keys opq) ->
  getl k (gql_query opq q) =
  if mem k opq then getl k opq else if str_mem k gql_keys then [] else getl k q.
Proof.
  intros H. unfold gql_query. rewrite getl_fold_set by assumption.
  destruct (mem k opq); [reflexivity|]. rewrite !getl_remove. unfold gql_keys. cbn [str_mem].
  destruct (str_eqb k "query"), (str_eqb k "operationName"), (str_eqb k "variables"); reflexivity.
Qed.

(* headers: outside the stage's own two names a GraphQL backend sees what a plain one sees *)
Lemma sent_h_gql g c r h :
  sent_h (outgoing_gql g c r) h =
  match g with
  | GNone => sent_h (outgoing c r) h
  | GPost n => if str_eqb h CT then [json_ct] else if str_eqb h CL then [n] else sent_h (outgoing c r) h
  | GGet _ => if str_eqb h CT then [json_ct] else if str_eqb h CL then ["0"] else sent_h (outgoing c r) h
  end.
Proof.
  destruct g as [|n|opq]; [rewrite outgoing_gql_none; reflexivity| |];
    unfold sent_h, outgoing_gql; rewrite new_request_mux; cbn [observe run_stage graphql_stage o_headers p_headers];
    rewrite getl_gql_headers, outgoing_eq; reflexivity.
Qed.

Theorem gql_headers_sound_model g c r : gql_headers_sound g c r (outgoing_gql g c r).
Proof.
  intros h Hne. rewrite sent_h_gql in *. unfold gql_own_hb.
  destruct g as [|n|opq].
  - destruct (headers_sound_model c r h Hne) as [H|H]; auto.
  - destruct (str_eqb h CT); [right; left; reflexivity|]. destruct (str_eqb h CL); [right; left; reflexivity|].
    destruct (headers_sound_model c r h Hne) as [H|H]; auto.
  - destruct (str_eqb h CT); [right; left; reflexivity|]. destruct (str_eqb h CL); [right; left; reflexivity|].
    destruct (headers_sound_model c r h Hne) as [H|H]; auto.
Qed.

Theorem gql_headers_complete_model g c r : gql_headers_complete g c r (outgoing_gql g c r).
Proof.
  intros h H1 H2 H3 H4 H5. rewrite sent_h_gql. unfold gql_own_hb in H4.
  destruct g as [|n|opq]; try (apply orb_false_iff in H4; destruct H4 as [E1 E2]; rewrite E1, E2);
    apply headers_complete_model; assumption.
Qed.

Theorem gql_own_headers_model g c r : gql_own_headers g (outgoing_gql g c r).
Proof.
  destruct g as [|n|opq]; [exact I| |]; unfold gql_own_headers; rewrite !sent_h_gql; split; reflexivity.
Qed.

Theorem gql_query_exact_model g c r :
  NoDup (keys (gql_opq g)) -> (forall k, mem k (gql_opq g) = true -> str_mem k gql_keys = true) ->
  gql_query_exact g c r (outgoing_gql g c r).
Proof.
  intros Hn Hk k. unfold gql_own_qb. destruct g as [|n|opq].
  - rewrite outgoing_gql_none. apply sent_q_outgoing.
  - assert (E : o_query (outgoing_gql (GPost n) c r) = o_query (outgoing c r)).
    { unfold outgoing_gql. rewrite new_request_mux, outgoing_eq. reflexivity. }
    unfold sent_q. rewrite E. apply sent_q_outgoing.
  - cbn [gql_opq] in *. unfold sent_q, outgoing_gql. rewrite new_request_mux.
    cbn [observe run_stage graphql_stage o_query p_url p_query].
    rewrite getl_group, vals_of_app. unfold static_q. f_equal.
    fold (sel_query c r).
    rewrite vals_of_flatten.
    2:{ apply nodup_gql_query, nodup_be_filter, nodup_select_q; [apply nodup_group|constructor]. }
    rewrite getl_gql_query by assumption.
    destruct (mem k opq) eqn:Em.
    + rewrite (Hk k Em). reflexivity.
    + destruct (str_mem k gql_keys); [symmetry; apply mem_false_getl; exact Em|].
      pose proof (sent_q_outgoing c r k) as Hs. unfold sent_q in Hs. rewrite outgoing_eq in Hs.
      cbn [o_query] in Hs. rewrite getl_group, vals_of_app in Hs.
      rewrite vals_of_flatten in Hs.
      2:{ apply nodup_be_filter, nodup_select_q; [apply nodup_group|constructor]. }
      apply app_inv_head in Hs. exact Hs.
Qed.

(* the model passes the boolean oracle used on the observations of GraphQL backends *)
Theorem gql_model_meets_oracle g c r :
  NoDup (keys (gql_opq g)) -> (forall k, mem k (gql_opq g) = true -> str_mem k gql_keys = true) ->
  spec_gql_b g c r (outgoing_gql g c r) = true.
Proof.
  intros Hn Hk. unfold spec_gql_b. repeat (apply andb_true_iff; split).
  - apply forallb_forall. intros [h vs] _. cbn [fst].
    destruct (is_nil (sent_h (outgoing_gql g c r) h)) eqn:En; [reflexivity|]. apply is_nil_false in En.
    destruct (gql_headers_sound_model g c r h En) as [H|[H|[H1 [H2 H3]]]].
    + apply own_ok_b_iff in H. rewrite H. reflexivity.
    + rewrite H. rewrite orb_true_r. reflexivity.
    + apply allowed_ep_hb_iff in H1. apply allowed_be_hb_iff in H2. rewrite H1, H2, H3, sl_eqb_refl. apply orb_true_r.
  - apply forallb_forall. intros p Hin. set (h := canon (fst p)).
    destruct (overwritten_b h) eqn:Eo; [reflexivity|]. destruct (gql_own_hb g h) eqn:Eg; [reflexivity|].
    destruct (allowed_ep_hb c h && allowed_be_hb c h) eqn:Ea; [|reflexivity]. cbn [orb negb].
    apply andb_true_iff in Ea. destruct Ea as [E1 E2].
    apply allowed_ep_hb_iff in E1. apply allowed_be_hb_iff in E2.
    assert (Hc : canon h = h) by (unfold h; apply canon_idem).
    assert (Hpres : client_h r h <> []).
    { unfold client_h. intros En.
      assert (Hf : In p (filter (fun q => str_eqb (canon (fst q)) (canon h)) (r_lines r))).
      { apply filter_In. split; [exact Hin|]. rewrite Hc. apply str_eqb_refl. }
      destruct (filter (fun q => str_eqb (canon (fst q)) (canon h)) (r_lines r)); [contradiction|discriminate]. }
    pose proof (gql_headers_complete_model g c r h E1 E2) as H. rewrite Hc in H.
    rewrite H; [apply sl_eqb_refl| |exact Eg|exact Hpres].
    intros Ho. apply overwritten_b_iff in Ho. congruence.
  - pose proof (gql_own_headers_model g c r) as H. destruct g as [|n|opq]; [reflexivity| |];
      destruct H as [H1 H2]; rewrite H1, H2, !sl_eqb_refl; reflexivity.
  - apply forallb_forall. intros k _. rewrite (gql_query_exact_model g c r Hn Hk k). apply sl_eqb_refl.
Qed.

(* a piece of the client's query text that does not parse (bad escape, semicolon) changes
   nothing for the other parameters, wherever it stands *)
Theorem malformed_piece_ignored a junk :
  parse_query junk = [] ->
  parse_query (a ++ String amp junk) = parse_query a /\ parse_query (junk ++ String amp a) = parse_query a.
Proof.
  intros H. rewrite !parse_query_amp, H. split; [apply app_nil_r|reflexivity].
Qed.

Theorem gateway_values c r h :
  own h -> sent_h (outgoing c r) h <> [] -> ~ (allowed_ep_h c h /\ allowed_be_h c h) ->
  own_value r h = Some (sent_h (outgoing c r) h).
Proof.
  intros _ Hs Hn. destruct (headers_sound_model c r h Hs) as [H|[H1 [H2 _]]]; [exact H|].
  exfalso. apply Hn. split; assumption.
Qed.
