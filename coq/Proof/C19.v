(* C19 - proofs, part b: every run of the model is safe, every complete run graceful
   (induction over the schedule: one invariant, preserved by every step); soundness of the
   inclusion check; the listener-error branch. *)
Require Import Verif.Common.Base.
Require Import Verif.Model.C19 Verif.Spec.C19 Verif.Proof.C19_a.

Ltac contra_lis := match goal with
  | H1 : lis ?s = _, H2 : lis ?s = _ \/ lis ?s = _ |- _ => rewrite H1 in H2; destruct H2; discriminate end.
Lemma step_iA s e s' t : Inv s t -> step s e = Some s' ->
  (lis s' = LInit \/ lis s' = LFailed) -> forall r q, getq r (reqs s') = Some q -> q = QGone.
Proof.
  intros I H. pose proof (iA _ _ I) as A.
  destruct e as [| |r0|r0| |b| |r0|r0|r0 f| |v| |]; try destruct f; try destruct v; inv_step H; simpl;
    intros HL r q Hq;
    try (destruct HL; discriminate);
    try (eapply A; eauto; fail);
    try contra_lis;
    try (destruct (nat_eqb_cases r r0) as [[E1 E2]|[E1 E2]]; rewrite E1 in Hq;
         [subst; try (inversion Hq; subst; reflexivity);
          match goal with Hg : getq _ _ = Some _ |- _ => specialize (A HL _ _ Hg); discriminate end
         |eapply A; eauto]; fail).
Qed.

Ltac ev_cases e := destruct e as [| |r0|r0| |b| |r0|r0|r0 f| |v| |]; try destruct f; try destruct v.

Lemma step_iB s e s' t : Inv s t -> step s e = Some s' -> runner s' <> RSelect -> lis s' <> LOpen.
Proof.
  intros I H. ev_cases e; inv_step H; simpl; pose proof (iB _ _ I) as B; intros Hn;
  try (apply B; congruence); try congruence; try (destruct (lis s); congruence).
Qed.

Lemma busy_gone r m : (forall r q, getq r m = Some q -> q = QGone) -> busy (getq r m) = false.
Proof. intros H. destruct (getq r m) eqn:E; [rewrite (H _ _ E)|]; reflexivity. Qed.

Lemma step_iC s e s' t : Inv s t -> step s e = Some s' ->
  (runner s' = RReturned \/ exists e, runner s' = RShutRet e) -> forall r, busy (getq r (reqs s')) = false.
Proof.
  intros I H. ev_cases e; inv_step H; simpl;
  pose proof (iA _ _ I) as A; pose proof (iB _ _ I) as B; pose proof (iC _ _ I) as C; intros HP r;
  try (apply C; exact HP);
  try (exfalso; apply B; [destruct HP as [HP|[x HP]]; congruence|assumption]);
  try (match goal with Hg : getq ?x (reqs s) = Some _ |- _ => specialize (C HP x); rewrite Hg in C; discriminate end);
  try (destruct HP as [HP|[x HP]]; discriminate);
  try (apply quiet_spec; assumption);
  try (apply busy_gone; apply A; auto; fail);
  try (apply C; left; reflexivity);
  try (apply C; right; eexists; eassumption);
  try (destruct (Nat.eqb r r0); [reflexivity|apply C; exact HP]).
Qed.

Lemma step_iD s e s' t : Inv s t -> step s e = Some s' ->
  (runner s' = RShutdown \/ exists e, runner s' = RShutRet e) -> canc s' = true.
Proof.
  intros I H. ev_cases e; inv_step H; simpl; pose proof (iD _ _ I) as D; intros HP;
  try (apply D; exact HP); try reflexivity; try assumption;
  try (destruct HP as [HP|[x HP]]; discriminate);
  try (apply D; left; assumption).
Qed.

Lemma started_keep r r0 q m : started (getq r m) -> (r = r0 -> q = QRun \/ q = QDone) ->
  started (if Nat.eqb r r0 then Some q else getq r m).
Proof.
  intros H1 H2. destruct (nat_eqb_cases r r0) as [[E1 E2]|[E1 E2]]; rewrite E1; auto.
  destruct (H2 E2); subst; [left|right]; reflexivity.
Qed.

Lemma step_t1 s e s' t : Inv s t -> step s e = Some s' ->
  forall r, In (Accept r) (t ++ [e]) -> started (getq r (reqs s')).
Proof.
  intros I H r Hin. apply in_app_iff in Hin. simpl in Hin.
  pose proof (t1 _ _ I r) as T.
  ev_cases e; inv_step H; simpl; destruct Hin as [Hin|[Hin|[]]]; try discriminate;
  try (apply T; exact Hin);
  try (apply started_keep; [apply T; exact Hin|intros ->; specialize (T Hin); destruct T; congruence]);
  try (apply started_keep; [apply T; exact Hin|auto]).
  inversion Hin; subst. rewrite Nat.eqb_refl. left; reflexivity.
Qed.

Lemma step_t2 s e s' t : Inv s t -> step s e = Some s' ->
  forall r, getq r (reqs s') = Some QDone -> In (HandlerDone r) (t ++ [e]).
Proof.
  intros I H r Hq. apply in_app_iff. simpl.
  pose proof (t2 _ _ I r) as T.
  ev_cases e; inv_step H; simpl in Hq;
  try (left; apply T; exact Hq);
  try (destruct (nat_eqb_cases r r0) as [[E1 E2]|[E1 E2]]; rewrite E1 in Hq;
       [try discriminate; subst; right; left; reflexivity|left; apply T; exact Hq]).
Qed.

Lemma step_t3 s e s' t : Inv s t -> step s e = Some s' ->
  (In Cancel (t ++ [e]) <-> canc s' = true).
Proof.
  intros I H. rewrite in_app_iff. simpl.
  ev_cases e; inv_step H; simpl; pose proof (t3 _ _ I) as T;
  try (rewrite <- T; split; [intros [X|[X|[]]]; [exact X|discriminate]|auto]; fail).
  all: try (split; [reflexivity|intros _; left; apply T; assumption]).
  split; [reflexivity|intros _; right; left; reflexivity].
Qed.

Lemma step_t4 s e s' t : Inv s t -> step s e = Some s' ->
  ((exists v, In (RunnerReturn v) (t ++ [e])) <-> runner s' = RReturned).
Proof.
  intros I H.
  assert (K : forall v, In (RunnerReturn v) (t ++ [e]) <-> In (RunnerReturn v) t \/ e = RunnerReturn v).
  { intros v. rewrite in_app_iff. simpl. tauto. }
  ev_cases e; inv_step H; simpl; pose proof (t4 _ _ I) as T;
  (split;
   [intros [v Hv]; apply K in Hv; destruct Hv as [Hv|Hv];
    [match goal with I0 : Inv ?x _ |- _ => assert (runner x = RReturned) by (apply T; eauto) end; congruence|first [discriminate|reflexivity]]
   |intros HR; first [discriminate HR
                     |eexists; apply K; right; reflexivity
                     |apply T in HR; destruct HR as [v Hv]; exists v; apply K; left; exact Hv]]).
Qed.

Lemma step_t5 s e s' t : Inv s t -> step s e = Some s' ->
  forall v, In (RunnerReturn v) (t ++ [e]) -> v <> VListenErr -> In Cancel (t ++ [e]).
Proof.
  intros I H v Hin Hv. rewrite in_app_iff in *. simpl in Hin |- *.
  destruct Hin as [Hin|[Hin|[]]]; [left; eapply (t5 _ _ I); eauto|].
  subst e. left. apply (t3 _ _ I). apply (iD _ _ I).
  destruct v; inv_step H; try congruence; right; eexists; first [reflexivity|eassumption].
Qed.

Lemma step_t6 s e s' t : Inv s t -> step s e = Some s' ->
  In (RunnerReturn VListenErr) (t ++ [e]) -> lis s' = LFailed.
Proof.
  intros I H Hin. rewrite in_app_iff in *. simpl in Hin |- *.
  destruct Hin as [Hin|[Hin|[]]].
  - pose proof (t6 _ _ I Hin) as T.
    ev_cases e; inv_step H; simpl; congruence.
  - subst e. inv_step H. simpl. assumption.
Qed.

Lemma step_t7 s e s' t : Inv s t -> step s e = Some s' ->
  forall r, In (ClientGot r false) (t ++ [e]) -> getq r (reqs s') = Some QGone.
Proof.
  intros I H r Hin. rewrite in_app_iff in *. simpl in Hin |- *.
  destruct Hin as [Hin|[Hin|[]]].
  - pose proof (t7 _ _ I r Hin) as T.
    ev_cases e; inv_step H; simpl; try exact T;
    destruct (nat_eqb_cases r r0) as [[E1 E2]|[E1 E2]]; rewrite E1; try exact T; try reflexivity;
    subst; congruence.
  - subst e. inv_step H; simpl; rewrite Nat.eqb_refl; reflexivity.
Qed.

Lemma step_t8 s e s' t : Inv s t -> step s e = Some s' ->
  forall r, memn r (resp s') = true -> In (ClientGot r true) (t ++ [e]) \/ In (ClientGot r false) (t ++ [e]).
Proof.
  intros I H r Hm. rewrite !in_app_iff. simpl.
  pose proof (t8 _ _ I r) as T.
  ev_cases e; inv_step H; simpl in Hm; try (destruct (T Hm); auto; fail);
  apply orb_true_iff in Hm; destruct Hm as [Hm|Hm]; try (destruct (T Hm); auto; fail);
  apply Nat.eqb_eq in Hm; subst; auto.
Qed.

Lemma step_t9 s e s' t : Inv s t -> step s e = Some s' -> ~ In StillAccepting (t ++ [e]).
Proof.
  intros I H. rewrite in_app_iff. simpl. intros [X|[X|[]]]; [exact (t9 _ _ I X)|].
  subst e. discriminate H.
Qed.

Lemma started_not_busy_done o : started o -> busy o = false -> o = Some QDone.
Proof. intros [->| ->]; simpl; [discriminate|reflexivity]. Qed.

Lemma step_g1 s e s' t : Inv s t -> step s e = Some s' -> G1 (t ++ [e]).
Proof.
  intros I H r v Hb Hin.
  apply before_snoc in Hb. apply before_snoc.
  rewrite in_app_iff in Hin. simpl in Hin.
  destruct Hin as [Hin|[Hin|[]]]; destruct Hb as [Hb|[Hb1 Hb2]].
  - left. apply (g1 _ _ I); assumption.
  - (* the cancellation arrives after the runner returned: only possible after a listen error,
       and then nothing was ever accepted *)
    exfalso. subst e.
    pose proof (t1 _ _ I r Hb1) as S.
    destruct (rv_dec v) as [->|Hv].
    + pose proof (t6 _ _ I Hin) as F.
      destruct S as [S|S]; pose proof (iA _ _ I (or_intror F) _ _ S); discriminate.
    + pose proof (t5 _ _ I v Hin Hv) as C. apply (t3 _ _ I) in C.
      inv_step H; try congruence.
  - (* the runner returns now: every request accepted before the cancellation is done *)
    right. split; [|exact Hin].
    pose proof (t1 _ _ I r (before_In_l _ _ _ Hb)) as S.
    apply (t2 _ _ I). apply started_not_busy_done; [exact S|].
    subst e. destruct v; inv_step H.
    + apply (iC _ _ I). right. eexists; eassumption.
    + apply busy_gone. apply (iA _ _ I). right; assumption.
    + apply (iC _ _ I). right. eexists; eassumption.
  - subst e. discriminate.
Qed.

Lemma step_g3 s e s' t : Inv s t -> step s e = Some s' -> G3 (t ++ [e]).
Proof.
  intros I H v r Hb. apply before_snoc in Hb. destruct Hb as [Hb|[Hb1 Hb2]].
  - exact (g3 _ _ I _ _ Hb).
  - subst e. assert (R : runner s = RReturned) by (apply (t4 _ _ I); eauto).
    pose proof (iC _ _ I (or_introl R) r) as C.
    inv_step H; try congruence.
Qed.

Lemma Inv_step s e s' t : Inv s t -> step s e = Some s' -> Inv s' (t ++ [e]).
Proof.
  intros I H. constructor.
  - eapply step_iA; eauto.
  - eapply step_iB; eauto.
  - eapply step_iC; eauto.
  - eapply step_iD; eauto.
  - eapply step_t1; eauto.
  - eapply step_t2; eauto.
  - eapply step_t3; eauto.
  - eapply step_t4; eauto.
  - eapply step_t5; eauto.
  - eapply step_t6; eauto.
  - eapply step_t7; eauto.
  - eapply step_t8; eauto.
  - eapply step_t9; eauto.
  - eapply step_g1; eauto.
  - eapply step_g3; eauto.
Qed.

Lemma Inv_run ls : forall s t s', Inv s t -> run s ls = Some s' -> Inv s' (t ++ ls).
Proof.
  induction ls as [|e r IH]; simpl; intros s t s' I H.
  - inversion H; subst. rewrite app_nil_r. exact I.
  - destruct (step s e) as [s1|] eqn:E; [|discriminate].
    replace (t ++ e :: r) with ((t ++ [e]) ++ r) by (rewrite <- app_assoc; reflexivity).
    eapply IH; [eapply Inv_step; eauto|exact H].
Qed.

Lemma Inv_safe s t : Inv s t -> safe t.
Proof.
  intros I. unfold safe. repeat split.
  - exact (g1 _ _ I).
  - intros r Ha Hf. pose proof (t1 _ _ I r Ha) as S. pose proof (t7 _ _ I r Hf) as G.
    destruct S as [S|S]; congruence.
  - exact (g3 _ _ I).
  - intros _ Hc v Hin. destruct (rv_dec v) as [Hv|Hv]; [exact Hv|].
    exfalso. apply Hc. eapply (t5 _ _ I); eauto.
  - exact (t9 _ _ I).
Qed.

Lemma Inv_graceful s t : Inv s t -> final s -> graceful t.
Proof.
  intros I [FR FD]. pose proof (Inv_safe _ _ I) as (S1 & S2 & S3 & S4 & S5).
  unfold graceful. repeat split; auto.
  - pose proof (t1 _ _ I r (before_In_l _ _ _ H)) as S.
    pose proof (started_not_busy_done _ S (iC _ _ I (or_introl FR) r)) as D.
    destruct (t8 _ _ I r (FD r D)) as [X|X]; [exact X|].
    pose proof (t7 _ _ I r X). congruence.
  - apply S2. exact (before_In_l _ _ _ H).
  - intros HL HC. apply (t4 _ _ I) in FR. destruct FR as [v Hv].
    rewrite <- (S4 HL HC v Hv). exact Hv.
Qed.

(* every run, every number of requests, every cancellation point *)
Lemma model_safe ls s : run init ls = Some s -> safe ls.
Proof. intros H. eapply Inv_safe. exact (Inv_run ls _ _ _ Inv_init H). Qed.

Lemma model_graceful ls s : run init ls = Some s -> final s -> graceful ls.
Proof. intros H F. eapply Inv_graceful; [exact (Inv_run ls _ _ _ Inv_init H)|exact F]. Qed.

Lemma model_meets_oracle ls s : run init ls = Some s -> final s ->
  graceful_b (filter observable ls) = true.
Proof. intros H F. apply graceful_b_spec. apply graceful_filter. eapply model_graceful; eauto. Qed.

(* the inclusion check is sound: an accepted trace is the observable part of a complete run *)
Lemma list_eqb_event a b : list_eqb event_eqb a b = true -> a = b.
Proof. apply (list_eqb_eq event_eqb event_eqb_eq). Qed.

Lemma accepts_sound t : accepts_b t = true ->
  exists ls s, run init ls = Some s /\ final s /\ filter observable ls = t.
Proof.
  unfold accepts_b. intros H. apply andb_true_iff in H. destruct H as [_ H].
  destruct (run init (explain init t)) as [s|] eqn:E; [|discriminate].
  apply andb_true_iff in H. destruct H as [H1 H2].
  exists (explain init t), s. repeat split; auto.
  - apply final_b_final in H1. apply H1.
  - apply final_b_final in H1. apply H1.
  - apply list_eqb_event. exact H2.
Qed.

Lemma accepts_graceful t : accepts_b t = true -> graceful t.
Proof.
  intros H. destruct (accepts_sound t H) as (ls & s & R & F & E).
  rewrite <- E. apply graceful_filter. eapply model_graceful; eauto.
Qed.

(* a listener that cannot be started: the runner is never blocked, and unless the context is
   cancelled its only move is to return the listener's error *)
Lemma listen_error_returns ls s : run init ls = Some s -> lis s = LFailed -> runner s = RSelect ->
  step s (RunnerReturn VListenErr) <> None /\
  (canc s = false -> forall e s', step s e = Some s' -> runner s' <> RSelect -> e = RunnerReturn VListenErr).
Proof.
  intros _ HL HR. split.
  - simpl. rewrite HR, HL. discriminate.
  - intros HC e s' H Hn. ev_cases e; inv_step H; simpl in Hn; try congruence.
Qed.

(* ---- progress: after the cancellation the runner is never stuck ---- *)
Lemma forallb_false_ex {A} (f : A -> bool) l : forallb f l = false -> exists x, In x l /\ f x = false.
Proof.
  induction l as [|x r IH]; simpl; [discriminate|].
  destruct (f x) eqn:E; simpl; intros H.
  - destruct (IH H) as [y [Hy Hf]]. exists y; auto.
  - exists x; auto.
Qed.

Lemma shutdown_progress s :
  canc s = true -> runner s <> RReturned ->
  (runner s = RSelect /\ step s ShutdownCall <> None) \/
  (runner s = RShutdown /\
   (step s (ShutdownReturn false) <> None \/
    exists r, step s (Accept r) <> None \/ step s (HandlerDone r) <> None)) \/
  (exists e, runner s = RShutRet e /\ step s (RunnerReturn (if e then VOther else VNil)) <> None).
Proof.
  intros HC HR. destruct (runner s) eqn:ER.
  - left. split; [reflexivity|]. simpl. rewrite ER, HC. discriminate.
  - right. left. split; [reflexivity|].
    destruct (quiet (reqs s)) eqn:Q.
    + left. simpl. rewrite ER, Q. discriminate.
    + right. unfold quiet in Q. apply forallb_false_ex in Q. destruct Q as [r [_ Hb]].
      apply negb_false_iff in Hb. exists r.
      destruct (getq r (reqs s)) as [[| | |]|] eqn:G; simpl in Hb; try discriminate.
      * left. simpl. rewrite G. discriminate.
      * right. simpl. rewrite G. discriminate.
  - right. right. exists e. split; [reflexivity|]. destruct e; simpl; rewrite ER; discriminate.
  - congruence.
Qed.

(* ---- every number of requests in flight at the cancellation is reachable ---- *)
Lemma run_app a : forall s b, run s (a ++ b) = match run s a with Some s' => run s' b | None => None end.
Proof. induction a as [|e r IH]; simpl; intros s b; [reflexivity|]. destruct (step s e); auto. Qed.

Definition arrivals (n : nat) : list event := flat_map (fun i => [Conn i; Accept i]) (seq 0 n).
Definition completions (n : nat) : list event := map HandlerDone (seq 0 n).
Definition answers (n : nat) : list event := map (fun i => ClientGot i true) (seq 0 n).
(* n requests arrive, the context is cancelled while all of them are being handled, Shutdown
   is called, the handlers finish, Shutdown returns, the runner returns, the clients are answered *)
Definition inflight_run (n : nat) : list event :=
  ListenOk :: arrivals n ++ [Cancel; ShutdownCall] ++ completions n ++
  [ShutdownReturn false; RunnerReturn VNil] ++ answers n.

Definition shape (s : st) l c r := lis s = l /\ canc s = c /\ runner s = r.

Lemma arrivals_run n : forall s, shape s LOpen false RSelect ->
  (forall i, getq i (reqs s) = None) -> resp s = [] ->
  exists s', run s (arrivals n) = Some s' /\ shape s' LOpen false RSelect /\ resp s' = [] /\
             forall i, getq i (reqs s') = if Nat.ltb i n then Some QRun else None.
Proof.
  unfold arrivals.
  induction n as [|n IH]; intros s Sh G R.
  - exists s. simpl. repeat split; auto; apply Sh.
  - destruct (IH s Sh G R) as (s1 & R1 & (L1 & C1 & U1) & P1 & G1).
    rewrite seq_S, flat_map_app, run_app, R1. simpl.
    rewrite L1. rewrite (G1 n), Nat.ltb_irrefl. simpl. rewrite Nat.eqb_refl.
    eexists. split; [reflexivity|]. simpl. repeat split; auto.
    intros i. destruct (nat_eqb_cases i n) as [[E1 E2]|[E1 E2]]; rewrite E1.
    + subst. assert (Nat.ltb n (S n) = true) by (apply Nat.ltb_lt; lia). rewrite H. reflexivity.
    + rewrite G1. destruct (Nat.ltb i n) eqn:E3, (Nat.ltb i (S n)) eqn:E4; auto.
      * apply Nat.ltb_lt in E3. apply Nat.ltb_ge in E4. lia.
      * apply Nat.ltb_ge in E3. apply Nat.ltb_lt in E4. lia.
Qed.

Lemma ltb_S i n : Nat.ltb i (S n) = Nat.eqb i n || Nat.ltb i n.
Proof.
  destruct (Nat.ltb_spec i (S n)), (Nat.eqb_spec i n), (Nat.ltb_spec i n); simpl; try reflexivity; lia.
Qed.

Lemma completions_run n k : k <= n -> forall s,
  (forall i, getq i (reqs s) = if Nat.ltb i n then Some QRun else None) ->
  exists s', run s (completions k) = Some s' /\
             lis s' = lis s /\ canc s' = canc s /\ runner s' = runner s /\ resp s' = resp s /\
             forall i, getq i (reqs s') = if Nat.ltb i k then Some QDone else if Nat.ltb i n then Some QRun else None.
Proof.
  unfold completions. induction k as [|k IH]; intros Hk s G.
  - exists s. simpl. repeat split; auto.
  - destruct (IH (ltac:(lia)) s G) as (s1 & R1 & L1 & C1 & U1 & P1 & G1).
    rewrite seq_S, map_app, run_app, R1. simpl.
    rewrite (G1 k), Nat.ltb_irrefl.
    assert (Hkn : Nat.ltb k n = true) by (apply Nat.ltb_lt; lia). rewrite Hkn.
    eexists. split; [reflexivity|]. simpl. repeat split; auto.
    intros i. rewrite ltb_S. destruct (Nat.eqb i k) eqn:E; simpl; [reflexivity|apply G1].
Qed.

Lemma answers_run n k : k <= n -> forall s,
  (forall i, getq i (reqs s) = if Nat.ltb i n then Some QDone else None) -> resp s = [] ->
  exists s', run s (answers k) = Some s' /\
             lis s' = lis s /\ canc s' = canc s /\ runner s' = runner s /\ reqs s' = reqs s /\
             forall i, memn i (resp s') = Nat.ltb i k.
Proof.
  unfold answers. induction k as [|k IH]; intros Hk s G R.
  - exists s. simpl. repeat split; auto. intros i. rewrite R. reflexivity.
  - destruct (IH (ltac:(lia)) s G R) as (s1 & R1 & L1 & C1 & U1 & Q1 & M1).
    rewrite seq_S, map_app, run_app, R1. simpl.
    rewrite Q1, (G k).
    assert (Hkn : Nat.ltb k n = true) by (apply Nat.ltb_lt; lia). rewrite Hkn.
    rewrite (M1 k), Nat.ltb_irrefl.
    eexists. split; [reflexivity|]. simpl. repeat split; auto.
    intros i. rewrite ltb_S, M1. reflexivity.
Qed.

Lemma quiet_intro m : (forall r, busy (getq r m) = false) -> quiet m = true.
Proof. intros H. unfold quiet. apply forallb_forall. intros k _. rewrite H. reflexivity. Qed.

Lemma before_app a b l1 l2 : In a l1 -> In b l2 -> before a b (l1 ++ l2).
Proof.
  induction l1 as [|x r IH]; simpl; [tauto|]. intros [H|H] Hb.
  - left. split; [exact H|]. apply in_app_iff. right. exact Hb.
  - right. apply IH; assumption.
Qed.

Lemma inflight_run_ok n :
  exists s, run init (inflight_run n) = Some s /\ final s /\
            forall r, r < n -> before (Accept r) Cancel (inflight_run n).
Proof.
  unfold inflight_run.
  destruct (arrivals_run n (set_lis init LOpen)) as (s1 & R1 & (L1 & C1 & U1) & P1 & G1);
    [repeat split|reflexivity|reflexivity|].
  set (s2 := mkst LClosed true RShutdown (reqs s1) (resp s1)).
  destruct (completions_run n n (le_n n) s2 G1) as (s3 & R3 & L3 & C3 & U3 & P3 & G3).
  set (s4 := set_runner (set_runner s3 (RShutRet false)) RReturned).
  assert (G4 : forall i, getq i (reqs s4) = if Nat.ltb i n then Some QDone else None).
  { intros i. simpl. rewrite G3. destruct (Nat.ltb i n); reflexivity. }
  destruct (answers_run n n (le_n n) s4 G4) as (s5 & R5 & L5 & C5 & U5 & Q5 & M5);
    [simpl; rewrite P3; simpl; exact P1|].
  exists s5. split; [|split].
  - simpl. rewrite run_app, R1. simpl. rewrite C1, U1, L1. simpl. fold s2.
    rewrite run_app, R3. simpl. rewrite U3. simpl.
    rewrite quiet_intro.
    + simpl. exact R5.
    + intros r. rewrite G3. destruct (Nat.ltb r n); reflexivity.
  - split.
    + rewrite U5. reflexivity.
    + intros r Hr. rewrite Q5, G4 in Hr. rewrite M5. destruct (Nat.ltb r n); [reflexivity|discriminate].
  - intros r Hr. simpl. right.
    apply before_app; [|simpl; auto].
    unfold arrivals. apply in_flat_map. exists r. split; [apply in_seq; lia|simpl; auto].
Qed.
