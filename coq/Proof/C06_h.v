(* C06 - proofs, part h: the filters preserve well-formedness (no duplicate keys), hence the
   model's three observations pass the whole boolean oracle spec_b. *)
Require Import Verif.Common.Base Verif.Common.Json Verif.Common.JsonFacts.
Require Import Verif.Model.C06 Verif.Spec.C06.
Require Import Verif.Proof.C06 Verif.Proof.C06_d Verif.Proof.C06_e Verif.Proof.C06_g.

Lemma nodup_keys_cons_intro {V} k (v : V) m :
  lookup k m = None -> nodup_keys m = true -> nodup_keys ((k, v) :: m) = true.
Proof.
  intros Hl Hn. unfold nodup_keys, keys in *. cbn [map fst nodup_str]. rewrite Hn, andb_true_r.
  apply negb_true_iff. destruct (str_mem k (map fst m)) eqn:E; [|reflexivity].
  apply str_mem_In in E. apply lookup_None_notin in Hl. contradiction.
Qed.

Lemma wfj_obj_intro m :
  nodup_keys m = true -> Forall (fun kv => wfj (snd kv) = true) m -> wfj (JObj m) = true.
Proof.
  intros Hn Ha. cbn [wfj]. rewrite Hn. cbn [andb]. clear Hn.
  induction Ha as [|[k x] r Hx Hr IH]; [reflexivity|]. cbn [snd] in Hx. rewrite Hx. exact IH.
Qed.

(* ---- allow ---- *)
Lemma prune_members_lookup_none w m k : lookup k m = None -> lookup k (prune_members w m) = None.
Proof.
  induction m as [|[k' x] r IH]; intros H; [reflexivity|].
  cbn [lookup] in H. destruct (str_eqb k k') eqn:E; [discriminate|]. specialize (IH H).
  cbn [prune_members]. destruct (lookup k' w) as [[|sw]|]; [cbn [lookup]; rewrite E; exact IH| |exact IH].
  destruct x; try exact IH.
  destruct (prune_json sw (JObj m)) as [| | | | |[|e l]|]; try (cbn [lookup]; rewrite E; exact IH).
  exact IH.
Qed.

Lemma prune_members_nodup w m : nodup_keys m = true -> nodup_keys (prune_members w m) = true.
Proof.
  induction m as [|[k' x] r IH]; intros H; [reflexivity|].
  apply nodup_keys_cons in H as [Hnone Hr]. specialize (IH Hr).
  pose proof (prune_members_lookup_none w r k' Hnone) as Hn'.
  cbn [prune_members]. destruct (lookup k' w) as [[|sw]|];
    [apply nodup_keys_cons_intro; assumption| |exact IH].
  destruct x; try exact IH.
  destruct (prune_json sw (JObj m)) as [| | | | |[|e l]|];
    try (apply nodup_keys_cons_intro; assumption).
  exact IH.
Qed.

Lemma prune_members_wf w m :
  Forall (fun kv => wfj (snd kv) = true /\ forall w', wfj (prune_json w' (snd kv)) = true) m ->
  Forall (fun kv => wfj (snd kv) = true) (prune_members w m).
Proof.
  induction 1 as [|[k' x] r [Hx Hp] Hr IH]; [constructor|]. cbn [snd] in *.
  cbn [prune_members]. destruct (lookup k' w) as [[|sw]|]; [constructor; assumption| |exact IH].
  destruct x; try exact IH. specialize (Hp sw).
  destruct (prune_json sw (JObj m)) as [| | | | |[|e l]|]; try (constructor; assumption).
  exact IH.
Qed.

Theorem wfj_prune : forall v, wfj v = true -> forall w, wfj (prune_json w v) = true.
Proof.
  induction v using json_ind'; intros Hwf w; try exact Hwf.
  rewrite prune_obj_shape, allow_filter_members.
  destruct (wfj_obj_inv m Hwf) as [Hn Hall].
  apply wfj_obj_intro; [apply prune_members_nodup; exact Hn|].
  apply prune_members_wf. rewrite Forall_forall in *. intros kv Hin. split.
  - apply Hall. exact Hin.
  - intros w'. apply H; [exact Hin|apply Hall; exact Hin].
Qed.

(* ---- deny ---- *)
Lemma delete_members_lookup_none t m k : lookup k m = None -> lookup k (delete_members t m) = None.
Proof.
  induction m as [|[k' x] r IH]; intros H; [reflexivity|].
  cbn [lookup] in H. destruct (str_eqb k k') eqn:E; [discriminate|]. specialize (IH H).
  cbn [delete_members]. destruct (lookup k' t) as [[|c|]|]; try exact IH; cbn [lookup]; rewrite E; exact IH.
Qed.

Lemma delete_members_nodup t m : nodup_keys m = true -> nodup_keys (delete_members t m) = true.
Proof.
  induction m as [|[k' x] r IH]; intros H; [reflexivity|].
  apply nodup_keys_cons in H as [Hnone Hr]. specialize (IH Hr).
  pose proof (delete_members_lookup_none t r k' Hnone) as Hn'.
  cbn [delete_members]. destruct (lookup k' t) as [[|c|]|]; try exact IH;
    apply nodup_keys_cons_intro; assumption.
Qed.

Lemma delete_members_wf t m :
  Forall (fun kv => wfj (snd kv) = true /\ forall t', wfj (rec_delete t' (snd kv)) = true) m ->
  Forall (fun kv => wfj (snd kv) = true) (delete_members t m).
Proof.
  induction 1 as [|[k' x] r [Hx Hp] Hr IH]; [constructor|]. cbn [snd] in *.
  cbn [delete_members]. destruct (lookup k' t) as [[|c|]|]; try exact IH; constructor; try assumption.
  apply Hp.
Qed.

Theorem wfj_rec_delete : forall v, wfj v = true -> forall t, wfj (rec_delete t v) = true.
Proof.
  induction v using json_ind'; intros Hwf tr; try exact Hwf.
  rewrite rec_delete_obj_shape, deny_filter_members.
  destruct (wfj_obj_inv m Hwf) as [Hn Hall].
  apply wfj_obj_intro; [apply delete_members_nodup; exact Hn|].
  apply delete_members_wf. rewrite Forall_forall in *. intros kv Hin. split.
  - apply Hall. exact Hin.
  - intros t'. apply H; [exact Hin|apply Hall; exact Hin].
Qed.

Lemma filter_stage_wf c t f : wfj (JObj t) = true -> filter_stage c t = Ok f -> wfj (JObj f) = true.
Proof.
  intros Hw Hf. unfold filter_stage in Hf. destruct (is_nil t); [inversion Hf; subst; exact Hw|].
  destruct (is_nil (allow c)).
  - destruct (deny_panics _ _); [discriminate|]. inversion Hf; subst f.
    rewrite <- rec_delete_obj_shape. apply wfj_rec_delete. exact Hw.
  - inversion Hf; subst f. rewrite <- prune_obj_shape. apply wfj_prune. exact Hw.
Qed.

(* ---- the whole oracle, on the model ---- *)
Theorem spec_b_model : forall c d,
  wfj (JObj d) = true ->
  spec_b c d
    (obs_of (format {| target := target c; allow := []; deny := []; mapping := []; group := "" |} d))
    (obs_of (format {| target := target c; allow := allow c; deny := deny c; mapping := []; group := "" |} d))
    (obs_of (format c d)) = true.
Proof.
  intros c d Hwf.
  destruct (stages_model c d Hwf) as [f [Ht [Hf [Hok [Hfmt [Hug Hmp]]]]]].
  rewrite Ht, Hf, Hfmt. cbn [obs_of]. unfold spec_b. rewrite Hok, Hug.
  assert (Hwt : wfj (JObj (target_spec c d)) = true).
  { destruct (target_spec_path c d) as [-> | [-> | [q Hq]]]; [exact Hwf|reflexivity|].
    eapply wfj_get_path; [exact Hwf|exact Hq]. }
  rewrite (obj_eqb_refl _ Hwt). cbn [andb].
  assert (Hwff : wfj (JObj f) = true).
  { destruct (pipeline_order c d) as [f0 [Hf0 Hfmt0]].
    assert (E : f0 = f).
    { unfold format in Hf. cbn [mapping group] in Hf. rewrite target_stage_spec in Hf.
      change (target_spec {| target := target c; allow := allow c; deny := deny c; mapping := []; group := "" |} d)
        with (target_spec c d) in Hf.
      change (filter_stage {| target := target c; allow := allow c; deny := deny c; mapping := []; group := "" |} (target_spec c d))
        with (filter_stage c (target_spec c d)) in Hf.
      rewrite Hf0 in Hf. unfold mapping_stage, group_stage in Hf.
      cbn [mapping group sanitize map apply_mapping fold_left] in Hf.
      destruct (is_nil f0); cbn in Hf; inversion Hf; reflexivity. }
    subst f0. eapply filter_stage_wf; [exact Hwt|exact Hf0]. }
  unfold mapping_ok. destruct (names_distinct_b (sanitize (mapping c))) eqn:End; [|reflexivity].
  apply names_distinct_b_sound in End. apply forallb_forall. intros k' _.
  rewrite <- (Hmp End k').
  destruct (lookup k' (mapping_stage c f)) as [v|] eqn:El; [|reflexivity].
  cbn [opt_eqb]. apply json_eqb_refl.
  assert (Hk0 : exists k0, lookup k0 f = Some v).
  { unfold mapping_stage in El. destruct (is_nil f); [exists k'; exact El|].
    eapply mapping_values. exact El. }
  destruct Hk0 as [k0 Hk0]. apply wfj_obj in Hwff as [_ Hs]. eapply Hs. exact Hk0.
Qed.
