(* C06 - proofs, top: statements at configuration level assembled from parts a-c;
   target, group, pipeline order, collections. *)
Require Import Verif.Common.Base Verif.Common.Json Verif.Common.JsonFacts.
Require Import Verif.Model.C06 Verif.Spec.C06.
Require Export Verif.Proof.C06_a Verif.Proof.C06_b Verif.Proof.C06_c.

Lemma split_dot_nonempty s : split_dot s <> [].
Proof.
  induction s as [|c r IH]; cbn [split_dot]; [discriminate|].
  destruct (Ascii.eqb c "."%char); [discriminate|].
  destruct (split_dot r); discriminate.
Qed.

Lemma split_paths_nonempty L : nonempty_paths (map split_dot L).
Proof.
  intros l Hin. apply in_map_iff in Hin as [s [<- _]]. apply split_dot_nonempty.
Qed.

(* ---------- target ---------- *)
Lemma extract_target_spec : forall t d,
  extract_target t d = match get_path (JObj d) t with Some (JObj m) => m | _ => [] end.
Proof.
  induction t as [|p r IH]; intros d; [reflexivity|].
  cbn [extract_target get_path].
  destruct (lookup p d) as [x|]; [|reflexivity].
  destruct x; try (destruct r; reflexivity). apply IH.
Qed.

Lemma target_stage_spec c d : target_stage c d = target_spec c d.
Proof.
  unfold target_stage, target_spec. destruct (str_eqb (target c) ""); [reflexivity|].
  apply extract_target_spec.
Qed.

(* ---------- the filter stage, as configured ---------- *)
Lemma filter_stage_allow c t :
  allow c <> [] -> t <> [] ->
  filter_stage c t = Ok (allow_filter (build_allow (map split_dot (allow c))) t).
Proof.
  intros Ha Ht. unfold filter_stage.
  destruct t; [congruence|]. destruct (allow c); [congruence|]. reflexivity.
Qed.

Lemma filter_stage_deny c t :
  allow c = [] -> t <> [] ->
  filter_stage c t = Ok (deny_filter (build_deny (map split_dot (deny c))) t).
Proof.
  intros Ha Ht. unfold filter_stage. rewrite Ha.
  destruct t; [congruence|]. cbn [is_nil].
  rewrite ok_no_panic; [reflexivity|apply build_deny_ok].
Qed.

Lemma filter_stage_empty c : filter_stage c [] = Ok [].
Proof. reflexivity. Qed.

(* allow list at configuration level *)
Theorem allow_exact_cfg : forall c t,
  allow c <> [] -> prefix_free (map split_dot (allow c)) -> wfj (JObj t) = true ->
  exists f, filter_stage c t = Ok f /\
    forall p, p <> [] -> allow_exact_at (map split_dot (allow c)) (JObj t) (JObj f) p.
Proof.
  intros c t Ha Hpf Hwf. destruct t as [|e t'].
  - exists []. split; [reflexivity|]. intros p Hp. unfold allow_exact_at.
    destruct p as [|k r]; [congruence|]. unfold present. cbn [get_path lookup]. split.
    + reflexivity.
    + intros _. split; [split; [discriminate|]|discriminate].
      intros [l [_ [Hs Hpr]]]. unfold strict_prefix in Hs. apply andb_true_iff in Hs as [Hs _].
      destruct l as [|k' l']; [discriminate|]. cbn [get_path lookup] in Hpr. discriminate.
  - eexists. split; [apply filter_stage_allow; [exact Ha|discriminate]|].
    apply allow_exact; [apply split_paths_nonempty|exact Hpf|exact Hwf].
Qed.

Theorem deny_exact_cfg : forall c t,
  allow c = [] -> wfj (JObj t) = true ->
  exists f, filter_stage c t = Ok f /\
    forall p, deny_exact_at (map split_dot (deny c)) (JObj t) (JObj f) p.
Proof.
  intros c t Ha Hwf. destruct t as [|e t'].
  - exists []. split; [reflexivity|]. intros p. unfold deny_exact_at.
    destruct p as [|k r].
    + split; [|intros _; eexists; reflexivity].
      intros Hc. exfalso. unfold covered in Hc. apply existsb_exists in Hc as [l [Hin Hp]].
      apply prefix_nil_r in Hp. subst l. exact (split_paths_nonempty _ _ Hin eq_refl).
    + cbn [get_path lookup]. split; reflexivity.
  - eexists. split; [apply filter_stage_deny; [exact Ha|discriminate]|].
    apply deny_exact; [apply split_paths_nonempty|exact Hwf].
Qed.

(* ---------- pipeline order, group ---------- *)
Theorem pipeline_order : forall c d,
  exists f, filter_stage c (target_spec c d) = Ok f /\
            format c d = Ok (group_spec c (mapping_stage c f)).
Proof.
  intros c d. unfold format. rewrite target_stage_spec.
  destruct (filter_stage c (target_spec c d)) as [f|] eqn:E.
  - exists f. split; reflexivity.
  - exfalso. apply (never_panics c d). unfold format. rewrite target_stage_spec, E. reflexivity.
Qed.

Theorem group_wraps : forall c d f,
  format c d = Ok f ->
  if str_eqb (group c) "" then True
  else exists inner, f = [(group c, JObj inner)].
Proof.
  intros c d f H. destruct (pipeline_order c d) as [f0 [_ Hf]]. rewrite Hf in H.
  inversion H; subst f. unfold group_spec. destruct (str_eqb (group c) ""); [exact I|].
  eexists. reflexivity.
Qed.

(* ---------- collections ---------- *)
Theorem collection_presented : forall c l,
  respond c true (JArr l) = Some (format c [("collection", JArr l)]).
Proof. reflexivity. Qed.

Theorem object_presented : forall c m, respond c false (JObj m) = Some (format c m).
Proof. reflexivity. Qed.

Theorem decode_meets_spec : forall ic v d, decode_spec ic v = Some d -> decode ic v = Some d.
Proof.
  intros ic v d. destruct ic, v; cbn; intros H; try discriminate; exact H.
Qed.
