(* C13 - proofs, part 4: encoding/json at the byte level.  The string encoder (with HTML
   escaping) followed by the decoder's unquote is the identity on EVERY byte string; a number
   literal is scanned back with exactly its text. *)
Require Import Verif.Common.Base Verif.Common.Json.
Require Import Verif.Model.C13.
Open Scope string_scope.
Open Scope list_scope.

Lemma sapp_assoc (a b c : string) : ((a ++ b) ++ c = a ++ (b ++ c))%string.
Proof. induction a as [|x a IH]; simpl; [reflexivity|]. rewrite IH. reflexivity. Qed.

Lemma pre_some p s rest : pre p (Some (s, rest)) = Some ((p ++ s)%string, rest).
Proof. reflexivity. Qed.

(* one byte: whatever follows, unquoting the encoder's output for the byte gives the byte back *)
Lemma unquote_esc_byte a X :
  go_unquote (esc_byte a ++ X) = pre (String a "") (go_unquote X).
Proof.
  destruct a as [b0 b1 b2 b3 b4 b5 b6 b7].
  destruct b0, b1, b2, b3, b4, b5, b6, b7; reflexivity.
Qed.

Lemma is_byte_eq a n : (n < 256)%N -> is_byte a n = true -> a = ascii_of_N n.
Proof.
  unfold is_byte. intros Hn H. apply N.eqb_eq in H. rewrite <- H. symmetry. apply ascii_N_embedding.
Qed.

Lemma esc_one a : go_escape (String a "") = (esc_byte a ++ "")%string.
Proof. reflexivity. Qed.
Lemma esc_two a b : go_escape (String a (String b "")) = (esc_byte a ++ go_escape (String b ""))%string.
Proof. reflexivity. Qed.
Lemma esc_three a b c r3 :
  go_escape (String a (String b (String c r3))) =
  if is_byte a 226 && is_byte b 128 && (is_byte c 168 || is_byte c 169)
  then ("\u202" ++ String (hexd (N_of_ascii c - 160)) (go_escape r3))%string
  else (esc_byte a ++ go_escape (String b (String c r3)))%string.
Proof. reflexivity. Qed.

Lemma unquote_ls_ps c Y :
  is_byte c 168 || is_byte c 169 = true ->
  go_unquote (("\u202" ++ String (hexd (N_of_ascii c - 160)) Y)%string) =
  pre (String (ascii_of_N 226) (String (ascii_of_N 128) (String c ""))) (go_unquote Y).
Proof.
  intros H. apply orb_true_iff in H as [H|H]; apply is_byte_eq in H; try (vm_compute; reflexivity);
    subst c; reflexivity.
Qed.

Lemma escape_roundtrip_n n : forall s rest,
  String.length s <= n ->
  go_unquote ((go_escape s ++ String """" rest)%string) = Some (s, rest).
Proof.
  induction n as [|n IH]; intros s rest Hl.
  - destruct s; [reflexivity|simpl in Hl; lia].
  - destruct s as [|a r]; [reflexivity|].
    assert (Hstep : forall r', String.length r' <= n ->
              go_unquote (((esc_byte a ++ go_escape r') ++ String """" rest)%string) = Some (String a r', rest)).
    { intros r' Hr. rewrite sapp_assoc, unquote_esc_byte, (IH r' rest Hr). reflexivity. }
    simpl in Hl.
    destruct r as [|b [|c r3]].
    + rewrite esc_one. apply (Hstep ""). simpl in *. lia.
    + rewrite esc_two. apply (Hstep (String b "")). simpl in *. lia.
    + rewrite esc_three.
      destruct (is_byte a 226 && is_byte b 128 && (is_byte c 168 || is_byte c 169)) eqn:E.
      * apply andb_true_iff in E as [E Ec]. apply andb_true_iff in E as [Ea Eb].
        apply is_byte_eq in Ea; [|vm_compute; reflexivity]. apply is_byte_eq in Eb; [|vm_compute; reflexivity].
        subst a b.
        change (("\u202" ++ String (hexd (N_of_ascii c - 160)) (go_escape r3)) ++ String """" rest)%string
          with ("\u202" ++ String (hexd (N_of_ascii c - 160)) (go_escape r3 ++ String """" rest))%string.
        rewrite (unquote_ls_ps c _ Ec). rewrite (IH r3 rest); [reflexivity|]. simpl in Hl. lia.
      * apply (Hstep (String b (String c r3))). simpl in *. lia.
Qed.

(* a JSON string literal as written by the encoder *)
Definition go_quote (s : string) : string := String """" (go_escape s ++ """").

Lemma escape_roundtrip s rest :
  go_unquote ((go_escape s ++ String """" rest)%string) = Some (s, rest).
Proof. apply (escape_roundtrip_n (String.length s)). apply Nat.le_refl. Qed.

(* the encoder's output contains no raw quote, backslash-free quote or control byte: it is
   one literal - nothing after the closing quote is consumed, nothing before it ends it *)
Lemma quote_roundtrip s rest :
  exists body, (go_quote s ++ rest)%string = String """" body /\ go_unquote body = Some (s, rest).
Proof.
  exists (go_escape s ++ String """" rest)%string. split; [|apply escape_roundtrip].
  unfold go_quote. simpl. f_equal. rewrite sapp_assoc. reflexivity.
Qed.

(* number literals *)
Definition ends_number (rest : string) : bool :=
  match rest with EmptyString => true | String a _ => negb (num_char a) end.

Lemma scan_number_roundtrip l rest :
  all_chars num_char l = true -> ends_number rest = true -> scan_number ((l ++ rest)%string) = (l, rest).
Proof.
  intros Hl Hr. induction l as [|a l IH]; simpl in *.
  - destruct rest as [|b r]; [reflexivity|]. simpl in Hr. apply negb_true_iff in Hr. simpl. rewrite Hr. reflexivity.
  - apply andb_true_iff in Hl as [Ha Hl]. rewrite Ha. rewrite (IH Hl). reflexivity.
Qed.
