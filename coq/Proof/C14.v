(* C14 - lemmas and proofs. *)
Require Import Verif.Common.Base Verif.Model.C14 Verif.Spec.C14.
Require Import Permutation.
Open Scope Z_scope.

(* ------------------------------------------------------------------ *)
(* one call: the boolean oracle is the Prop *)

Lemma call_ok_b_iff r o : call_ok_b r o = true <-> CallOk r o.
Proof.
  unfold call_ok_b, CallOk. destruct (rp_err r) as [e|].
  - destruct o as [h|[ | e' | t]|]; split; intros H; try discriminate; try (inversion H; fail).
    + apply str_eqb_eq in H. subst. reflexivity.
    + inversion H. apply str_eqb_refl.
  - destruct (rp_hosts r) as [|h0 hs].
    + destruct o as [h|[ | e' | t]|]; split; intros H; try discriminate; try reflexivity; try (inversion H; fail).
    + destruct o as [h|e|]; split; intros H; try discriminate.
      * exists h. split; [reflexivity|]. apply str_mem_In. exact H.
      * destruct H as [h' [E I]]. inversion E. subst. apply str_mem_In. exact I.
      * destruct H as [h' [E _]]. discriminate.
      * destruct H as [h' [E _]]. discriminate.
Qed.

Lemma two64_pos : 0 < two64. Proof. reflexivity. Qed.
Lemma two32_pos : 0 < two32. Proof. reflexivity. Qed.

Lemma pick_nth hs i : 0 <= i < Z.of_nat (List.length hs) ->
  pick hs i = Ok (nth (Z.to_nat i) hs "").
Proof.
  intros H. unfold pick. destruct (i <? 0) eqn:E; [apply Z.ltb_lt in E; lia|].
  assert (L : (Z.to_nat i < List.length hs)%nat) by lia.
  destruct (nth_error hs (Z.to_nat i)) eqn:N.
  - f_equal. symmetry. apply nth_error_nth. exact N.
  - apply nth_error_None in N. lia.
Qed.

Lemma pick_in hs i : 0 <= i < Z.of_nat (List.length hs) ->
  exists h, pick hs i = Ok h /\ In h hs.
Proof.
  intros H. rewrite pick_nth by exact H. eexists. split; [reflexivity|].
  apply nth_In. lia.
Qed.

Lemma hosts_step_inl r hs : hosts_step r = inl hs ->
  rp_err r = None /\ rp_hosts r = hs /\ hs <> [].
Proof.
  unfold hosts_step. destruct (rp_err r); [discriminate|].
  destruct (rp_hosts r) eqn:E; [discriminate|]. intros H. inversion H. subst.
  repeat split; discriminate.
Qed.

Lemma hosts_step_inr r e : hosts_step r = inr e ->
  (exists s, rp_err r = Some s /\ e = ESub s) \/ (rp_err r = None /\ rp_hosts r = [] /\ e = ENoHosts).
Proof.
  unfold hosts_step. destruct (rp_err r) as [s|].
  - intros H. inversion H. left. eauto.
  - destruct (rp_hosts r); [|discriminate]. intros H. inversion H. right. auto.
Qed.

Lemma len_pos (hs : list string) : hs <> [] -> 0 < Z.of_nat (List.length hs).
Proof. destruct hs; [congruence|]. simpl. lia. Qed.

(* a result that follows the model of hosts() and then picks an index in range is fine *)
Lemma step_ok r i :
  (forall hs, hosts_step r = inl hs -> 0 <= i hs < Z.of_nat (List.length hs)) ->
  CallOk r (match hosts_step r with inr e => Err e | inl hs => pick hs (i hs) end).
Proof.
  intros Hi. unfold CallOk. destruct (hosts_step r) as [hs|e] eqn:E.
  - destruct (hosts_step_inl _ _ E) as [E1 [E2 E3]]. rewrite E1, E2.
    destruct hs as [|h0 t]; [congruence|]. apply pick_in. apply Hi. reflexivity.
  - destruct (hosts_step_inr _ _ E) as [[s [E1 E2]]|[E1 [E2 E3]]]; subst.
    + rewrite E1. reflexivity.
    + rewrite E1, E2. reflexivity.
Qed.

Lemma rr_step_spec c r :
  rr_step c r = match hosts_step r with
                | inr e => (c, Err e)
                | inl hs => ((c + 1) mod two64, pick hs (c mod Z.of_nat (List.length hs))) end.
Proof. reflexivity. Qed.

Lemma rr_step_ok c r : CallOk r (snd (rr_step c r)).
Proof.
  rewrite rr_step_spec.
  replace (snd match hosts_step r with
               | inl hs => ((c + 1) mod two64, pick hs (c mod Z.of_nat (List.length hs)))
               | inr e => (c, Err e) end)
    with (match hosts_step r with inr e => Err e | inl hs => pick hs ((fun hs => c mod Z.of_nat (List.length hs)) hs) end)
    by (destruct (hosts_step r); reflexivity).
  apply step_ok. intros hs E. apply Z.mod_pos_bound. apply len_pos.
  apply (hosts_step_inl _ _ E).
Qed.

Lemma rr_run_ok : forall rs c, Forall2 CallOk rs (snd (rr_run c rs)).
Proof.
  induction rs as [|r rest IH]; intros c; simpl; [constructor|].
  pose proof (rr_step_ok c r) as H1.
  destruct (rr_step c r) as [c1 o]. specialize (IH c1).
  destruct (rr_run c1 rest) as [c2 os]. simpl in *. constructor; assumption.
Qed.

Lemma uint32n_range x n : 0 <= x < two32 -> 0 < n -> 0 <= uint32n x n < n.
Proof.
  intros Hx Hn. unfold uint32n. split.
  - apply Z.div_pos; [nia|reflexivity].
  - apply Z.div_lt_upper_bound; [reflexivity|]. nia.
Qed.

Lemma rnd_step_ok x r : 0 <= x < two32 -> CallOk r (rnd_step x r).
Proof.
  intros Hx. unfold rnd_step.
  apply (step_ok r (fun hs => uint32n x (Z.of_nat (List.length hs)))).
  intros hs E. apply uint32n_range; [exact Hx|]. apply len_pos. apply (hosts_step_inl _ _ E).
Qed.

(* ------------------------------------------------------------------ *)
(* tickets and residues *)

Definition rcount (n r : Z) (l : list Z) : Z :=
  Z.of_nat (List.length (filter (fun t => t mod n =? r) l)).

Lemma rcount_app n r a b : rcount n r (a ++ b) = rcount n r a + rcount n r b.
Proof. unfold rcount. rewrite filter_app, app_length. lia. Qed.

Lemma tickets_S c0 M : tickets c0 (S M) = (tickets c0 M ++ [(c0 + Z.of_nat M) mod two64])%list.
Proof. unfold tickets. rewrite seq_S, map_app. reflexivity. Qed.

Lemma tickets_length c0 M : List.length (tickets c0 M) = M.
Proof. unfold tickets. rewrite map_length, seq_length. reflexivity. Qed.

Lemma div_step n r a : 0 < n -> 0 <= r < n ->
  (a - r) / n - (a - 1 - r) / n = if a mod n =? r then 1 else 0.
Proof.
  intros Hn Hr.
  pose proof (Z.div_mod a n ltac:(lia)) as E0. pose proof (Z.mod_pos_bound a n Hn) as B0.
  destruct (Z.eqb_spec (a mod n) r) as [E|E].
  - assert (H1 : (a - r) / n = a / n).
    { symmetry. apply Z.div_unique with (r := 0); lia. }
    assert (H2 : (a - 1 - r) / n = a / n - 1).
    { symmetry. apply Z.div_unique with (r := n - 1); lia. }
    lia.
  - destruct (Z_lt_ge_dec r (a mod n)) as [L|L].
    + assert (H1 : (a - r) / n = a / n).
      { symmetry. apply Z.div_unique with (r := a mod n - r); lia. }
      assert (H2 : (a - 1 - r) / n = a / n).
      { symmetry. apply Z.div_unique with (r := a mod n - r - 1); lia. }
      lia.
    + assert (H1 : (a - r) / n = a / n - 1).
      { symmetry. apply Z.div_unique with (r := n + a mod n - r); lia. }
      assert (H2 : (a - 1 - r) / n = a / n - 1).
      { symmetry. apply Z.div_unique with (r := n + a mod n - r - 1); lia. }
      lia.
Qed.

(* closed form of the number of tickets with residue r among the M tickets from c0 *)
Lemma rcount_closed n r c0 : 0 < n -> 0 <= r < n -> 0 <= c0 ->
  forall M, c0 + Z.of_nat M <= two64 ->
  rcount n r (tickets c0 M) = (c0 + Z.of_nat M - 1 - r) / n - (c0 - 1 - r) / n.
Proof.
  intros Hn Hr Hc. induction M as [|M IH]; intros Hw.
  - simpl. unfold rcount. simpl. replace (c0 + 0 - 1 - r) with (c0 - 1 - r) by lia. lia.
  - rewrite tickets_S, rcount_app, IH by lia.
    rewrite Z.mod_small by lia.
    replace (c0 + Z.of_nat (S M) - 1 - r) with (c0 + Z.of_nat M - r) by lia.
    pose proof (div_step n r (c0 + Z.of_nat M) Hn Hr) as D.
    unfold rcount. cbn [filter].
    destruct ((c0 + Z.of_nat M) mod n =? r); cbn [List.length]; lia.
Qed.

(* the arithmetic core: a window of M consecutive counters holds floor(M/n) or ceil(M/n)
   counters of each residue *)
Lemma window_count n a M : 0 < n -> 0 <= M ->
  M / n <= (a + M) / n - a / n <= (M + n - 1) / n.
Proof.
  intros Hn HM.
  pose proof (Z.div_mod (a + M) n ltac:(lia)) as E1. pose proof (Z.mod_pos_bound (a + M) n Hn) as B1.
  pose proof (Z.div_mod a n ltac:(lia)) as E2. pose proof (Z.mod_pos_bound a n Hn) as B2.
  pose proof (Z.div_mod M n ltac:(lia)) as E3. pose proof (Z.mod_pos_bound M n Hn) as B3.
  pose proof (Z.div_mod (M + n - 1) n ltac:(lia)) as E4. pose proof (Z.mod_pos_bound (M + n - 1) n Hn) as B4.
  split; nia.
Qed.

Lemma rcount_bounds n r c0 M : 0 < n -> 0 <= r < n -> 0 <= c0 -> c0 + Z.of_nat M <= two64 ->
  Z.of_nat M / n <= rcount n r (tickets c0 M) <= (Z.of_nat M + n - 1) / n.
Proof.
  intros Hn Hr Hc Hw. rewrite rcount_closed by assumption.
  replace (c0 + Z.of_nat M - 1 - r) with ((c0 - 1 - r) + Z.of_nat M) by lia.
  apply window_count; lia.
Qed.

(* when n divides 2^64 the wrap is invisible modulo n *)
Lemma mod_mod_divide t n : 0 < n -> two64 mod n = 0 -> (t mod two64) mod n = t mod n.
Proof.
  intros Hn Hd.
  assert (K : two64 = n * (two64 / n)) by (pose proof (Z.div_mod two64 n ltac:(lia)); lia).
  pose proof (Z.div_mod t two64 ltac:(discriminate)) as E.
  set (q := t / two64) in *. set (m := t mod two64) in *.
  assert (T : t = m + q * (two64 / n) * n).
  { transitivity (n * (two64 / n) * q + m); [rewrite <- K; exact E|ring]. }
  rewrite T. symmetry. apply Z_mod_plus_full.
Qed.

Lemma rcount_divides n r c0 : 0 < n -> two64 mod n = 0 -> forall M,
  rcount n r (tickets c0 M) = rcount n r (map (fun i => c0 + Z.of_nat i) (seq 0 M)).
Proof.
  intros Hn Hd M. unfold rcount, tickets. f_equal.
  induction (seq 0 M) as [|i l IH]; cbn [map filter]; [reflexivity|].
  rewrite mod_mod_divide by assumption.
  destruct ((c0 + Z.of_nat i) mod n =? r); cbn [List.length]; congruence.
Qed.

Lemma rcount_closed_nowrap n r c0 : 0 < n -> 0 <= r < n ->
  forall M, rcount n r (map (fun i => c0 + Z.of_nat i) (seq 0 M))
            = (c0 + Z.of_nat M - 1 - r) / n - (c0 - 1 - r) / n.
Proof.
  intros Hn Hr. induction M as [|M IH].
  - simpl. unfold rcount. simpl. replace (c0 + 0 - 1 - r) with (c0 - 1 - r) by lia. lia.
  - rewrite seq_S, map_app, rcount_app, IH. cbn [map Nat.add].
    replace (c0 + Z.of_nat (S M) - 1 - r) with (c0 + Z.of_nat M - r) by lia.
    pose proof (div_step n r (c0 + Z.of_nat M) Hn Hr) as D.
    unfold rcount. cbn [filter].
    destruct ((c0 + Z.of_nat M) mod n =? r); cbn [List.length]; lia.
Qed.

Lemma rcount_bounds_divides n r c0 M : 0 < n -> 0 <= r < n -> two64 mod n = 0 ->
  Z.of_nat M / n <= rcount n r (tickets c0 M) <= (Z.of_nat M + n - 1) / n.
Proof.
  intros Hn Hr Hd. rewrite rcount_divides, rcount_closed_nowrap by assumption.
  replace (c0 + Z.of_nat M - 1 - r) with ((c0 - 1 - r) + Z.of_nat M) by lia.
  apply window_count; lia.
Qed.

(* ------------------------------------------------------------------ *)
(* from residues to hosts *)

Lemma count_str_nth_nodup (hs : list string) i j :
  NoDup hs -> (i < List.length hs)%nat -> (j < List.length hs)%nat ->
  str_eqb (nth i hs "") (nth j hs "") = Nat.eqb i j.
Proof.
  intros ND Hi Hj. destruct (Nat.eqb_spec i j) as [E|E].
  - subst. apply str_eqb_refl.
  - apply str_eqb_neq. intros H. apply E. apply (proj1 (NoDup_nth hs "") ND); assumption.
Qed.

Lemma oks_picks_length hs ts : hs <> [] ->
  List.length (oks (picks_of hs ts)) = List.length ts.
Proof.
  intros Hne. induction ts as [|t l IH]; simpl; [reflexivity|].
  rewrite pick_nth by (apply Z.mod_pos_bound, len_pos, Hne). simpl. congruence.
Qed.

Lemma zcount_picks hs r ts : NoDup hs -> (r < List.length hs)%nat ->
  zcount (nth r hs "") (oks (picks_of hs ts)) = rcount (Z.of_nat (List.length hs)) (Z.of_nat r) ts.
Proof.
  intros ND Hr. assert (Hne : hs <> []) by (destruct hs; simpl in *; [lia|discriminate]).
  unfold zcount, rcount. f_equal.
  induction ts as [|t l IH]; simpl; [reflexivity|].
  pose proof (Z.mod_pos_bound t _ (len_pos hs Hne)) as B.
  rewrite pick_nth by exact B. simpl.
  rewrite count_str_nth_nodup by (try assumption; lia).
  destruct (Z.eqb_spec (t mod Z.of_nat (List.length hs)) (Z.of_nat r)) as [E|E].
  - rewrite E, Nat2Z.id, Nat.eqb_refl. simpl. congruence.
  - destruct (Nat.eqb_spec r (Z.to_nat (t mod Z.of_nat (List.length hs)))) as [E2|E2]; [lia|].
    simpl. exact IH.
Qed.

Lemma fair_of_rcount hs ts : NoDup hs -> hs <> [] ->
  (forall r, 0 <= r < Z.of_nat (List.length hs) ->
     Z.of_nat (List.length ts) / Z.of_nat (List.length hs)
     <= rcount (Z.of_nat (List.length hs)) r ts
     <= (Z.of_nat (List.length ts) + Z.of_nat (List.length hs) - 1) / Z.of_nat (List.length hs)) ->
  Fair hs (oks (picks_of hs ts)).
Proof.
  intros ND Hne H. unfold Fair. intros h Hin. rewrite oks_picks_length by exact Hne.
  destruct (In_nth hs h "" Hin) as [r [Hr E]]. subst h.
  rewrite zcount_picks by assumption. apply H. lia.
Qed.

Lemma rr_balance hs c0 M : NoDup hs -> hs <> [] -> 0 <= c0 -> c0 + Z.of_nat M <= two64 ->
  Fair hs (oks (picks_of hs (tickets c0 M))).
Proof.
  intros ND Hne Hc Hw. apply fair_of_rcount; try assumption.
  intros r Hr. rewrite tickets_length. apply rcount_bounds; try assumption. apply len_pos, Hne.
Qed.

Lemma rr_balance_divides hs c0 M : NoDup hs -> hs <> [] ->
  two64 mod Z.of_nat (List.length hs) = 0 ->
  Fair hs (oks (picks_of hs (tickets c0 M))).
Proof.
  intros ND Hne Hd. apply fair_of_rcount; try assumption.
  intros r Hr. rewrite tickets_length. apply rcount_bounds_divides; try assumption. apply len_pos, Hne.
Qed.

(* the sequential run of the model on a fixed list IS the ticket sequence *)
Lemma rr_run_fixed hs : hs <> [] -> forall M c0, 0 <= c0 < two64 ->
  rr_run c0 (repeat {| rp_hosts := hs; rp_err := None |} M)
  = ((c0 + Z.of_nat M) mod two64, picks_of hs (tickets c0 M)).
Proof.
  intros Hne. induction M as [|M IH]; intros c0 Hc.
  - simpl. rewrite Z.add_0_r, Z.mod_small by lia. reflexivity.
  - cbn [repeat rr_run]. rewrite rr_step_spec.
    assert (HS : hosts_step {| rp_hosts := hs; rp_err := None |} = inl hs).
    { unfold hosts_step. simpl. destruct hs; [congruence|reflexivity]. }
    rewrite HS. rewrite IH by (apply Z.mod_pos_bound; reflexivity).
    f_equal.
    + rewrite Zplus_mod_idemp_l. f_equal. lia.
    + unfold tickets, picks_of. cbn [seq map]. change (Z.of_nat 0) with 0. rewrite Z.add_0_r, (Z.mod_small c0 two64) by lia.
      f_equal. rewrite <- seq_shift, !map_map. apply map_ext. intros i.
      rewrite Zplus_mod_idemp_l. do 3 f_equal. lia.
Qed.

(* the wrap, when n does not divide 2^64: three hosts, tickets 2^64-2, 2^64-1, 0 *)
Lemma rr_wrap_refuted :
  exists hs c0 M, NoDup hs /\ hs <> [] /\ 0 <= c0 < two64 /\ two64 < c0 + Z.of_nat M /\
    ~ Fair hs (oks (snd (rr_run c0 (repeat {| rp_hosts := hs; rp_err := None |} M)))).
Proof.
  exists ["a"; "b"; "c"], (two64 - 2), 3%nat.
  split; [repeat constructor; simpl; intuition discriminate|].
  split; [discriminate|]. split; [unfold two64; lia|]. split; [reflexivity|].
  intros F. specialize (F "b" (or_intror (or_introl eq_refl))). vm_compute in F.
  destruct F as [F _]. apply F. reflexivity.
Qed.

(* ------------------------------------------------------------------ *)
(* concurrent callers: every interleaving of the atomic adds *)

Fixpoint nsum (l : list nat) : nat := match l with [] => O | x :: r => (x + nsum r)%nat end.

Lemma dec_nth_sum : forall i l l', dec_nth i l = Some l' -> nsum l = S (nsum l').
Proof.
  induction i as [|i IH]; intros [|x l] l' H; simpl in H; try discriminate.
  - destruct x; [discriminate|]. inversion H. subst. simpl. reflexivity.
  - destruct (dec_nth i l) as [r'|] eqn:E; [|discriminate]. inversion H. subst.
    simpl. rewrite (IH _ _ E). lia.
Qed.

Lemma dec_nth_nth : forall i l l' j, dec_nth i l = Some l' ->
  nth j l O = ((if Nat.eqb i j then 1 else 0) + nth j l' O)%nat.
Proof.
  induction i as [|i IH]; intros [|x l] l' j H; simpl in H; try discriminate.
  - destruct x; [discriminate|]. inversion H. subst. destruct j; reflexivity.
  - destruct (dec_nth i l) as [r'|] eqn:E; [|discriminate]. inversion H. subst.
    destruct j; simpl; [reflexivity|]. apply IH. exact E.
Qed.

Lemma tickets_cons c M : 0 <= c < two64 ->
  tickets c (S M) = c :: tickets ((c + 1) mod two64) M.
Proof.
  intros Hc. unfold tickets. cbn [seq map]. change (Z.of_nat 0) with 0.
  rewrite Z.add_0_r, (Z.mod_small c two64) by lia. f_equal.
  rewrite <- seq_shift, map_map. apply map_ext. intros i.
  rewrite Zplus_mod_idemp_l. f_equal. lia.
Qed.

Lemma fetch_add_inv s i s' : fetch_add s i = Some s' ->
  t_ctr s' = (t_ctr s + 1) mod two64 /\ t_issued s' = (i, t_ctr s) :: t_issued s /\
  dec_nth i (t_left s) = Some (t_left s').
Proof.
  unfold fetch_add. destruct (dec_nth i (t_left s)) as [l'|]; [|discriminate].
  intros H. inversion H. subst. simpl. auto.
Qed.

(* whatever the schedule: the tickets handed out, in the order of the atomic steps, are
   c, c+1, ... (mod 2^64); the counter advanced by the number of steps; every step
   consumed one pending call of the caller that made it *)
Lemma run_sched_inv : forall sched s s', run_sched s sched = Some s' -> 0 <= t_ctr s < two64 ->
  map snd (t_issued s') = (rev (tickets (t_ctr s) (List.length sched)) ++ map snd (t_issued s))%list /\
  t_ctr s' = (t_ctr s + Z.of_nat (List.length sched)) mod two64 /\
  nsum (t_left s) = (List.length sched + nsum (t_left s'))%nat /\
  (forall j, (List.length (tickets_of s' j) + nth j (t_left s') O
              = List.length (tickets_of s j) + nth j (t_left s) O)%nat).
Proof.
  induction sched as [|i r IH]; intros s s' H Hc.
  - simpl in H. inversion H. subst. simpl. rewrite Z.add_0_r, Z.mod_small by lia. auto.
  - simpl in H. destruct (fetch_add s i) as [s1|] eqn:F; [|discriminate].
    destruct (fetch_add_inv _ _ _ F) as [C1 [I1 D1]].
    assert (Hc1 : 0 <= t_ctr s1 < two64) by (rewrite C1; apply Z.mod_pos_bound; reflexivity).
    destruct (IH _ _ H Hc1) as [A [B [C D]]].
    split; [|split; [|split]].
    + rewrite A, I1, C1. cbn [List.length]. rewrite tickets_cons by exact Hc.
      cbn [rev map snd]. rewrite <- app_assoc. reflexivity.
    + rewrite B, C1. cbn [List.length]. rewrite Zplus_mod_idemp_l. f_equal. lia.
    + rewrite (dec_nth_sum _ _ _ D1), C. cbn [List.length]. lia.
    + intros j. rewrite D. unfold tickets_of. rewrite I1. cbn [flat_map fst snd].
      rewrite (dec_nth_nth _ _ _ j D1).
      rewrite !rev_length, app_length.
      destruct (Nat.eqb i j); cbn [List.length]; lia.
Qed.

Lemma t_done_sum s : t_done s = true -> nsum (t_left s) = O.
Proof.
  unfold t_done. induction (t_left s) as [|x l IH]; simpl; [reflexivity|].
  intros H. apply andb_true_iff in H. destruct H as [H1 H2].
  destruct x; [|discriminate]. simpl. auto.
Qed.

Lemma t_done_nth s j : t_done s = true -> nth j (t_left s) O = O.
Proof.
  unfold t_done. intros H. rewrite forallb_forall in H.
  destruct (Nat.lt_ge_cases j (List.length (t_left s))) as [L|L].
  - symmetry. apply Nat.eqb_eq. apply H. apply nth_In. exact L.
  - apply nth_overflow. exact L.
Qed.

Lemma rr_concurrent c0 calls sched s :
  0 <= c0 < two64 -> run_sched (t_init c0 calls) sched = Some s -> t_done s = true ->
  Permutation (map snd (t_issued s)) (tickets c0 (nsum calls)) /\
  (forall i, List.length (tickets_of s i) = nth i calls O) /\
  t_ctr s = (c0 + Z.of_nat (nsum calls)) mod two64.
Proof.
  intros Hc H Hd. destruct (run_sched_inv _ _ _ H Hc) as [A [B [C D]]].
  simpl in A, B, C, D. rewrite (t_done_sum _ Hd), Nat.add_0_r in C. rewrite C.
  split; [|split].
  - rewrite A, app_nil_r. symmetry. apply Permutation_rev.
  - intros i. specialize (D i). rewrite (t_done_nth _ i Hd) in D.
    lia.
  - exact B.
Qed.

Lemma count_str_perm h a b : Permutation a b -> count_str h a = count_str h b.
Proof. induction 1; simpl; lia. Qed.

Lemma oks_perm a b : Permutation a b -> Permutation (oks a) (oks b).
Proof. intros P. unfold oks. apply Permutation_flat_map. exact P. Qed.

Lemma fair_perm hs a b : Permutation a b -> Fair hs a -> Fair hs b.
Proof.
  intros P F h Hin. specialize (F h Hin). unfold zcount in *.
  rewrite <- (count_str_perm h _ _ P), <- (Permutation_length P). exact F.
Qed.

Lemma rr_concurrent_balance hs c0 calls sched s :
  NoDup hs -> hs <> [] -> 0 <= c0 < two64 ->
  c0 + Z.of_nat (nsum calls) <= two64 \/ two64 mod Z.of_nat (List.length hs) = 0 ->
  run_sched (t_init c0 calls) sched = Some s -> t_done s = true ->
  Fair hs (oks (picks_of hs (map snd (t_issued s)))).
Proof.
  intros ND Hne Hc Hw H Hd. destruct (rr_concurrent _ _ _ _ Hc H Hd) as [P _].
  apply fair_perm with (a := oks (picks_of hs (tickets c0 (nsum calls)))).
  - apply oks_perm. unfold picks_of. apply Permutation_map. symmetry. exact P.
  - destruct Hw as [Hw|Hw]; [apply rr_balance; try assumption; lia|apply rr_balance_divides; assumption].
Qed.

(* some complete schedule exists for every number of callers and calls (non-vacuity, for all) *)
Fixpoint serial (i : nat) (calls : list nat) : list nat :=
  match calls with [] => [] | c :: r => (repeat i c ++ serial (S i) r)%list end.

(* ------------------------------------------------------------------ *)
(* random: the multiply-shift map partitions the generator's range into n intervals *)

Lemma uint32n_interval K n x i : 0 < K -> 0 < n -> 0 <= x -> 0 <= i ->
  ((x * n) / K = i <-> lo K n i <= x < lo K n (i + 1)).
Proof.
  intros HK Hn Hx Hi. unfold lo. split.
  - intros H.
    assert (i * K <= x * n < (i + 1) * K).
    { subst i. pose proof (Z.mul_div_le (x * n) K HK). pose proof (Z.mul_succ_div_gt (x * n) K HK).
      unfold Z.succ in *. nia. }
    pose proof (Z.div_mod (i * K + n - 1) n ltac:(lia)) as E1.
    pose proof (Z.mod_pos_bound (i * K + n - 1) n Hn) as B1.
    pose proof (Z.div_mod ((i + 1) * K + n - 1) n ltac:(lia)) as E2.
    pose proof (Z.mod_pos_bound ((i + 1) * K + n - 1) n Hn) as B2.
    split; nia.
  - intros [H1 H2].
    assert (A : i * K <= x * n).
    { pose proof (Z.mul_succ_div_gt (i * K + n - 1) n Hn). unfold Z.succ in *. nia. }
    assert (B : x * n < (i + 1) * K).
    { pose proof (Z.mul_div_le ((i + 1) * K + n - 1) n Hn). nia. }
    symmetry. apply Z.div_unique with (r := x * n - i * K); lia.
Qed.

Lemma share_bounds K n i : 0 < K -> 0 < n -> 0 <= i ->
  K / n <= lo K n (i + 1) - lo K n i <= (K + n - 1) / n.
Proof.
  intros HK Hn Hi. unfold lo.
  pose proof (Z.div_mod ((i + 1) * K + n - 1) n ltac:(lia)) as E1.
  pose proof (Z.mod_pos_bound ((i + 1) * K + n - 1) n Hn) as B1.
  pose proof (Z.div_mod (i * K + n - 1) n ltac:(lia)) as E2.
  pose proof (Z.mod_pos_bound (i * K + n - 1) n Hn) as B2.
  pose proof (Z.div_mod K n ltac:(lia)) as E3. pose proof (Z.mod_pos_bound K n Hn) as B3.
  pose proof (Z.div_mod (K + n - 1) n ltac:(lia)) as E4.
  pose proof (Z.mod_pos_bound (K + n - 1) n Hn) as B4.
  split; nia.
Qed.

Lemma lo_0 K n : 0 < n -> lo K n 0 = 0.
Proof. intros Hn. unfold lo. simpl. apply Z.div_small. lia. Qed.

Lemma lo_n K n : 0 < n -> lo K n n = K.
Proof.
  intros Hn. unfold lo. symmetry. apply Z.div_unique with (r := n - 1); lia.
Qed.

Lemma random_share n i : 0 < n <= two32 -> 0 <= i < n ->
  (forall x, 0 <= x < two32 ->
     (uint32n x n = i <-> lo two32 n i <= x < lo two32 n (i + 1))) /\
  0 <= lo two32 n i /\ lo two32 n (i + 1) <= two32 /\
  1 <= two32 / n <= lo two32 n (i + 1) - lo two32 n i /\
  lo two32 n (i + 1) - lo two32 n i <= (two32 + n - 1) / n.
Proof.
  intros Hn Hi.
  pose proof (share_bounds two32 n i two32_pos ltac:(lia) ltac:(lia)) as SB.
  split; [|split; [|split; [|split]]].
  - intros x Hx. unfold uint32n. apply uint32n_interval; try lia; reflexivity.
  - unfold lo. apply Z.div_pos; [|lia]. pose proof two32_pos. nia.
  - rewrite <- (lo_n two32 n) at 2 by lia. unfold lo.
    apply Z.div_le_mono; [lia|]. pose proof two32_pos. nia.
  - split; [|lia]. apply Z.div_le_lower_bound; lia.
  - lia.
Qed.

(* counts of a list of picks made through any index function *)
Lemma zcount_pickmap {A} (f : A -> Z) hs r (l : list A) : NoDup hs -> (r < List.length hs)%nat ->
  (forall a, In a l -> 0 <= f a < Z.of_nat (List.length hs)) ->
  zcount (nth r hs "") (oks (map (fun a => pick hs (f a)) l))
  = Z.of_nat (List.length (filter (fun a => f a =? Z.of_nat r) l)).
Proof.
  intros ND Hr. unfold zcount. intros B. f_equal.
  induction l as [|t l IH]; simpl; [reflexivity|].
  rewrite pick_nth by (apply B; left; reflexivity). simpl.
  pose proof (B t (or_introl eq_refl)) as Bt.
  rewrite count_str_nth_nodup by (try assumption; lia).
  rewrite IH by (intros a Ha; apply B; right; exact Ha).
  destruct (Z.eqb_spec (f t) (Z.of_nat r)) as [E|E].
  - rewrite E, Nat2Z.id, Nat.eqb_refl. simpl. reflexivity.
  - destruct (Nat.eqb_spec r (Z.to_nat (f t))) as [E2|E2]; [lia|]. reflexivity.
Qed.

(* the share of host i among the selections made for the draws xs is exactly the number
   of draws that fell into the i-th interval *)
Lemma random_counts hs i xs : NoDup hs -> (i < List.length hs)%nat ->
  Z.of_nat (List.length hs) <= two32 ->
  (forall x, In x xs -> 0 <= x < two32) ->
  zcount (nth i hs "") (oks (map (fun x => rnd_step x {| rp_hosts := hs; rp_err := None |}) xs))
  = Z.of_nat (List.length (filter (fun x => (lo two32 (Z.of_nat (List.length hs)) (Z.of_nat i) <=? x)
                                           && (x <? lo two32 (Z.of_nat (List.length hs)) (Z.of_nat i + 1))) xs)).
Proof.
  intros ND Hi Hn Hx.
  assert (Hne : hs <> []) by (destruct hs; simpl in *; [lia|discriminate]).
  assert (E : forall x, rnd_step x {| rp_hosts := hs; rp_err := None |}
                        = pick hs (uint32n x (Z.of_nat (List.length hs)))).
  { intros x. unfold rnd_step, hosts_step. simpl. destruct hs; [congruence|reflexivity]. }
  rewrite (map_ext _ _ E).
  rewrite (zcount_pickmap (fun x => uint32n x (Z.of_nat (List.length hs)))) by
    (first [assumption | intros a Ha; apply uint32n_range; [apply Hx, Ha|apply len_pos, Hne]]).
  f_equal. f_equal. apply filter_ext_in. intros x Hin.
  pose proof (proj1 (random_share (Z.of_nat (List.length hs)) (Z.of_nat i)
                ltac:(pose proof (len_pos hs Hne); lia) ltac:(lia)) x (Hx x Hin)) as I.
  destruct (Z.eqb_spec (uint32n x (Z.of_nat (List.length hs))) (Z.of_nat i)) as [Q|Q].
  - apply I in Q. symmetry. apply andb_true_iff. split; [apply Z.leb_le|apply Z.ltb_lt]; lia.
  - symmetry. apply not_true_is_false. intros T. apply andb_true_iff in T. destruct T as [T1 T2].
    apply Z.leb_le in T1. apply Z.ltb_lt in T2. apply Q, I. lia.
Qed.

(* ------------------------------------------------------------------ *)
(* oracles are the Props *)

Lemma fair_b_iff hs p : fair_b hs p = true <-> Fair hs p.
Proof.
  unfold fair_b, Fair. rewrite forallb_forall. split; intros H h Hin; specialize (H h Hin).
  - apply andb_true_iff in H. destruct H as [A B]. apply Z.leb_le in A. apply Z.leb_le in B. lia.
  - apply andb_true_iff. split; apply Z.leb_le; lia.
Qed.

Lemma share_b_iff hs p : share_b hs p = true <-> Share hs p.
Proof.
  unfold share_b, Share. rewrite forallb_forall. split; intros H h Hin; specialize (H h Hin).
  - apply Z.leb_le in H. exact H.
  - apply Z.leb_le. exact H.
Qed.

(* ------------------------------------------------------------------ *)
(* the sequential oracle (period n, first n picks distinct members) implies that EVERY
   window of the observed history is fair *)

Lemma nth_skipn' {A} (d : A) : forall n l i, nth i (skipn n l) d = nth (n + i) l d.
Proof.
  induction n as [|n IH]; intros l i; [reflexivity|].
  destruct l as [|x l]; simpl; [destruct i; reflexivity|]. apply IH.
Qed.

Lemma nth_firstn' {A} (d : A) : forall k l i, (i < k)%nat -> nth i (firstn k l) d = nth i l d.
Proof.
  induction k as [|k IH]; intros l i H; [lia|].
  destruct l as [|x l]; simpl; [reflexivity|]. destruct i; [reflexivity|]. apply IH. lia.
Qed.

Lemma window_nth (l : list string) : forall m a, (a + m <= List.length l)%nat ->
  window a m l = map (fun j => nth j l "") (seq a m).
Proof.
  unfold window. induction m as [|m IH]; intros a H; [reflexivity|].
  cbn [seq map]. rewrite <- IH by lia.
  assert (E : skipn a l = nth a l "" :: skipn (S a) l).
  { clear IH. revert a H. induction l as [|x l IHl]; intros a H; simpl in H; [lia|].
    destruct a; [reflexivity|]. simpl. apply IHl. lia. }
  rewrite E. reflexivity.
Qed.

Lemma periodic_eq n l : periodic_b n l = true -> firstn (List.length l - n) l = skipn n l.
Proof. unfold periodic_b. apply list_eqb_eq. apply str_eqb_eq. Qed.

Lemma periodic_nth n l : (0 < n)%nat -> periodic_b n l = true ->
  forall j, (j < List.length l)%nat -> nth j l "" = nth (j mod n) l "".
Proof.
  intros Hn P. apply periodic_eq in P.
  induction j as [j IH] using lt_wf_ind. intros Hj.
  destruct (Nat.lt_ge_cases j n) as [L|L].
  - rewrite Nat.mod_small by exact L. reflexivity.
  - replace j with (n + (j - n))%nat at 1 by lia.
    rewrite <- nth_skipn', <- P, nth_firstn' by lia.
    rewrite IH by lia. f_equal.
    replace j with ((j - n) + 1 * n)%nat at 2 by lia. rewrite Nat.mod_add by lia. reflexivity.
Qed.

Lemma count_str_app h a b : count_str h (a ++ b) = (count_str h a + count_str h b)%nat.
Proof. induction a as [|x a IH]; simpl; [reflexivity|]. rewrite IH. lia. Qed.

Lemma count_str_notin h l : ~ In h l -> count_str h l = O.
Proof.
  induction l as [|x l IH]; simpl; intros H; [reflexivity|].
  destruct (str_eqb h x) eqn:E; [apply str_eqb_eq in E; subst; exfalso; apply H; left; reflexivity|].
  apply IH. intros I. apply H. right. exact I.
Qed.

Lemma count_str_nodup h l : NoDup l -> (count_str h l <= 1)%nat.
Proof.
  induction 1 as [|x l Hx ND IH]; simpl; [lia|].
  destruct (str_eqb h x) eqn:E; [|lia]. apply str_eqb_eq in E. subst.
  rewrite count_str_notin by exact Hx. lia.
Qed.

Lemma count_window_le h a m l : (count_str h (window a m l) <= count_str h l)%nat.
Proof.
  unfold window. rewrite <- (firstn_skipn a l) at 2. rewrite count_str_app.
  rewrite <- (firstn_skipn m (skipn a l)) at 2. rewrite count_str_app. lia.
Qed.

Lemma window_length a m (l : list string) : (a + m <= List.length l)%nat ->
  List.length (window a m l) = m.
Proof. intros H. unfold window. rewrite firstn_length, skipn_length. lia. Qed.

Lemma oks_picks_of_nat p js : p <> [] ->
  oks (picks_of p (map Z.of_nat js)) = map (fun j => nth (j mod List.length p) p "") js.
Proof.
  intros Hne. induction js as [|j js IH]; [reflexivity|].
  cbn [map picks_of]. fold (picks_of p (map Z.of_nat js)).
  assert (Lp : (0 < List.length p)%nat) by (destruct p; [congruence|simpl; lia]).
  rewrite <- Nat2Z.inj_mod.
  rewrite pick_nth by (pose proof (Nat.mod_upper_bound j (List.length p) ltac:(lia)); lia).
  rewrite Nat2Z.id. cbn [oks flat_map app]. fold (oks (picks_of p (map Z.of_nat js))).
  rewrite IH. reflexivity.
Qed.

Lemma seq_Z a : forall m, map Z.of_nat (seq a m) = map (fun i => Z.of_nat a + Z.of_nat i) (seq 0 m).
Proof.
  intros m. revert a. induction m as [|m IH]; intros a; [reflexivity|].
  cbn [seq map]. f_equal; [lia|]. rewrite IH. rewrite <- (seq_shift m 0), map_map.
  apply map_ext. intros i. lia.
Qed.

Lemma fair_nowrap_window p a m : NoDup p -> p <> [] ->
  Fair p (oks (picks_of p (map (fun i => Z.of_nat a + Z.of_nat i) (seq 0 m)))).
Proof.
  intros ND Hne. apply fair_of_rcount; try assumption.
  intros r Hr. rewrite map_length, seq_length.
  rewrite rcount_closed_nowrap by (try apply len_pos; assumption).
  replace (Z.of_nat a + Z.of_nat m - 1 - r) with ((Z.of_nat a - 1 - r) + Z.of_nat m) by lia.
  apply window_count; [apply len_pos, Hne|lia].
Qed.

Lemma rr_seq_sound hs picks : NoDup hs -> hs <> [] ->
  rr_seq_b hs picks = true -> RRFair hs picks.
Proof.
  intros ND Hne H. unfold rr_seq_b in H.
  apply andb_true_iff in H. destruct H as [H HP].
  apply andb_true_iff in H. destruct H as [HM HD].
  apply nodup_str_NoDup in HD.
  assert (HM' : forall p, In p picks -> In p hs).
  { rewrite forallb_forall in HM. intros p Hp. apply str_mem_In. apply HM, Hp. }
  set (n := List.length hs) in *.
  assert (Hn : (0 < n)%nat) by (subst n; destruct hs; [congruence|simpl; lia]).
  intros a m Ham.
  destruct (Nat.lt_ge_cases (List.length picks) n) as [Short|Long].
  - (* fewer selections than hosts: all distinct *)
    rewrite firstn_all2 in HD by lia.
    intros h Hin. rewrite window_length by exact Ham. fold n.
    pose proof (count_window_le h a m picks) as C1.
    pose proof (count_str_nodup h picks HD) as C2.
    unfold zcount.
    assert (Z.of_nat m / Z.of_nat n = 0) as Q by (apply Z.div_small; lia).
    rewrite Q. split; [lia|].
    destruct m as [|m'].
    + unfold window. cbn [firstn count_str]. apply Z.div_pos; lia.
    + assert (1 <= (Z.of_nat (S m') + Z.of_nat n - 1) / Z.of_nat n).
      { apply Z.div_le_lower_bound; lia. }
      lia.
  - (* the picks are p[j mod n] for the permutation p = first n picks of the hosts *)
    set (p := firstn n picks) in *.
    assert (Lp : List.length p = n) by (subst p; rewrite firstn_length; lia).
    assert (Ip : incl p hs).
    { intros x Hx. apply HM'. subst p. rewrite <- (firstn_skipn n picks). apply in_or_app. left. exact Hx. }
    assert (Ih : incl hs p).
    { apply NoDup_length_incl; [exact HD|fold n; lia|exact Ip]. }
    assert (Pne : p <> []) by (destruct p; simpl in Lp; [lia|discriminate]).
    assert (W : window a m picks
                = oks (picks_of p (map (fun i => Z.of_nat a + Z.of_nat i) (seq 0 m)))).
    { rewrite window_nth by exact Ham. rewrite <- seq_Z, oks_picks_of_nat by exact Pne.
      rewrite Lp. apply map_ext_in. intros j Hj. apply in_seq in Hj.
      rewrite (periodic_nth n picks Hn HP) by lia.
      subst p. rewrite nth_firstn' by (apply Nat.mod_upper_bound; lia). reflexivity. }
    intros h Hin. pose proof (fair_nowrap_window p a m HD Pne h (Ih h Hin)) as F.
    rewrite <- W in F. rewrite Lp in F. exact F.
Qed.

Lemma model_meets_call_oracle c r x :
  call_ok_b r (snd (rr_step c r)) = true /\
  (0 <= x < two32 -> call_ok_b r (rnd_step x r) = true).
Proof.
  split; [apply call_ok_b_iff, rr_step_ok|]. intros Hx. apply call_ok_b_iff, rnd_step_ok, Hx.
Qed.

(* ------------------------------------------------------------------ *)
(* the model's sequential run on a fixed list satisfies the sequential oracle *)

Lemma firstn_seq' : forall k a m, firstn k (seq a m) = seq a (Nat.min k m).
Proof.
  induction k as [|k IH]; intros a m; [reflexivity|].
  destruct m as [|m]; [reflexivity|]. cbn [seq firstn Nat.min]. f_equal. apply IH.
Qed.

Lemma skipn_seq' : forall k a m, skipn k (seq a m) = seq (a + k) (m - k).
Proof.
  induction k as [|k IH]; intros a m.
  - rewrite Nat.add_0_r, Nat.sub_0_r. reflexivity.
  - destruct m as [|m]; [reflexivity|]. cbn [seq skipn]. rewrite IH. f_equal. lia.
Qed.

Lemma seq_shift_n n k : seq n k = map (fun i => (n + i)%nat) (seq 0 k).
Proof.
  revert n. induction k as [|k IH]; intros n; [reflexivity|].
  cbn [seq map]. rewrite Nat.add_0_r. f_equal. rewrite (IH (S n)), (IH 1%nat), map_map.
  apply map_ext. intros i. lia.
Qed.

Lemma NoDup_map_inj {A B} (g : A -> B) (l : list A) :
  (forall x y, In x l -> In y l -> g x = g y -> x = y) -> NoDup l -> NoDup (map g l).
Proof.
  intros Inj ND. induction ND as [|x l Hx ND IH]; simpl; constructor.
  - intros H. apply in_map_iff in H. destruct H as [y [E Hy]].
    assert (y = x) by (apply Inj; [right; exact Hy|left; reflexivity|exact E]). subst. contradiction.
  - apply IH. intros a b Ha Hb. apply Inj; right; assumption.
Qed.

Lemma oks_picks_map {A} hs (f : A -> Z) (l : list A) : hs <> [] ->
  oks (picks_of hs (map f l))
  = map (fun a => nth (Z.to_nat (f a mod Z.of_nat (List.length hs))) hs "") l.
Proof.
  intros Hne. induction l as [|a l IH]; [reflexivity|].
  cbn [map picks_of]. fold (picks_of hs (map f l)).
  rewrite pick_nth by (apply Z.mod_pos_bound, len_pos, Hne).
  cbn [oks flat_map app]. fold (oks (picks_of hs (map f l))). rewrite IH. reflexivity.
Qed.

Lemma tickets_nowrap c0 M : 0 <= c0 -> c0 + Z.of_nat M <= two64 ->
  tickets c0 M = map (fun i => c0 + Z.of_nat i) (seq 0 M).
Proof.
  intros Hc Hw. unfold tickets. apply map_ext_in. intros i Hi. apply in_seq in Hi.
  apply Z.mod_small. lia.
Qed.

Lemma mod_inj_window n a i j : 0 < n -> 0 <= i < n -> 0 <= j < n ->
  (a + i) mod n = (a + j) mod n -> i = j.
Proof.
  intros Hn Hi Hj E.
  pose proof (Z.div_mod (a + i) n ltac:(lia)) as E1. pose proof (Z.div_mod (a + j) n ltac:(lia)) as E2.
  rewrite E in E1.
  assert (D : i - j = n * ((a + i) / n - (a + j) / n)) by lia.
  assert ((a + i) / n - (a + j) / n = 0) by nia. lia.
Qed.

Lemma rr_model_seq_oracle_gen hs (c0 : Z) M : NoDup hs -> hs <> [] ->
  rr_seq_b hs (oks (picks_of hs (map (fun i => c0 + Z.of_nat i) (seq 0 M)))) = true.
Proof.
  intros ND Hne. pose proof (len_pos hs Hne) as Hn.
  set (n := List.length hs) in *.
  rewrite oks_picks_map by exact Hne. fold n.
  set (g := fun i : nat => nth (Z.to_nat ((c0 + Z.of_nat i) mod Z.of_nat n)) hs "").
  assert (Gin : forall i, In (g i) hs).
  { intros i. unfold g. apply nth_In. pose proof (Z.mod_pos_bound (c0 + Z.of_nat i) _ Hn). fold n. lia. }
  unfold rr_seq_b. fold n.
  apply andb_true_iff. split; [apply andb_true_iff; split|].
  - apply forallb_forall. intros p Hp. apply in_map_iff in Hp. destruct Hp as [i [E _]].
    subst p. apply str_mem_In. apply Gin.
  - apply nodup_str_NoDup. rewrite firstn_map, firstn_seq'.
    apply NoDup_map_inj; [|apply seq_NoDup].
    intros x y Hx Hy E. apply in_seq in Hx. apply in_seq in Hy.
    unfold g in E.
    pose proof (Z.mod_pos_bound (c0 + Z.of_nat x) _ Hn) as Bx.
    pose proof (Z.mod_pos_bound (c0 + Z.of_nat y) _ Hn) as By.
    apply (proj1 (NoDup_nth hs "") ND) in E; [|fold n; lia|fold n; lia].
    assert (Z.of_nat x = Z.of_nat y); [|lia].
    apply (mod_inj_window (Z.of_nat n) c0); try lia.
  - unfold periodic_b. rewrite map_length, seq_length.
    apply list_eqb_eq; [apply str_eqb_eq|].
    rewrite firstn_map, skipn_map, firstn_seq', skipn_seq'.
    replace (Nat.min (M - n) M) with (M - n)%nat by lia. simpl (0 + n)%nat.
    rewrite (seq_shift_n n (M - n)). rewrite map_map. apply map_ext. intros i.
    unfold g. do 2 f_equal.
    replace (c0 + Z.of_nat (n + i)) with (c0 + Z.of_nat i + 1 * Z.of_nat n) by lia.
    symmetry. apply Z_mod_plus_full.
Qed.

Lemma rr_model_seq_oracle hs c0 M : NoDup hs -> hs <> [] -> 0 <= c0 < two64 ->
  c0 + Z.of_nat M <= two64 ->
  rr_seq_b hs (oks (snd (rr_run c0 (repeat {| rp_hosts := hs; rp_err := None |} M)))) = true.
Proof.
  intros ND Hne Hc Hw. rewrite rr_run_fixed by assumption. cbn [snd].
  rewrite tickets_nowrap by lia. apply rr_model_seq_oracle_gen; assumption.
Qed.

(* ------------------------------------------------------------------ *)
(* exactly M mod n residues (hosts) get the larger share *)

Definition zsum (l : list Z) : Z := fold_right Z.add 0 l.
Definition residues (n : nat) : list Z := map Z.of_nat (seq 0 n).

Lemma zsum_app a b : zsum (a ++ b) = zsum a + zsum b.
Proof. induction a as [|x a IH]; simpl; [reflexivity|]. unfold zsum in *. simpl. lia. Qed.

Lemma zsum_map_add {A} (f g : A -> Z) l :
  zsum (map (fun x => f x + g x) l) = zsum (map f l) + zsum (map g l).
Proof. induction l as [|x l IH]; simpl; [reflexivity|]. unfold zsum in *. simpl. lia. Qed.

(* a value below n is hit by exactly one residue *)
Lemma one_residue : forall n v, 0 <= v < Z.of_nat n ->
  zsum (map (fun r => if v =? r then 1 else 0) (residues n)) = 1.
Proof.
  induction n as [|n IH]; intros v Hv; [lia|].
  unfold residues. rewrite seq_S, map_app, map_app, zsum_app. cbn [map Nat.add].
  destruct (Z.eq_dec v (Z.of_nat n)) as [E|E].
  - subst v. rewrite Z.eqb_refl.
    assert (Z0 : zsum (map (fun r => if Z.of_nat n =? r then 1 else 0) (map Z.of_nat (seq 0 n))) = 0).
    { rewrite map_map. assert (H : forall l, (forall i, In i l -> (i < n)%nat) ->
        zsum (map (fun x => if Z.of_nat n =? Z.of_nat x then 1 else 0) l) = 0).
      { induction l as [|i l IHl]; intros Hl; [reflexivity|]. cbn [map]. unfold zsum in *. cbn [fold_right].
        rewrite IHl by (intros j Hj; apply Hl; right; exact Hj).
        pose proof (Hl i (or_introl eq_refl)).
        destruct (Z.eqb_spec (Z.of_nat n) (Z.of_nat i)); lia. }
      apply H. intros i Hi. apply in_seq in Hi. lia. }
    rewrite Z0. unfold zsum. simpl. lia.
  - fold (residues n). rewrite IH by lia.
    destruct (Z.eqb_spec v (Z.of_nat n)); [contradiction|]. unfold zsum. simpl. lia.
Qed.

Lemma rcount_cons n r t l :
  rcount n r (t :: l) = (if t mod n =? r then 1 else 0) + rcount n r l.
Proof. unfold rcount. cbn [filter]. destruct (t mod n =? r); cbn [List.length]; lia. Qed.

Lemma rcount_total n l : (0 < n)%nat ->
  zsum (map (fun r => rcount (Z.of_nat n) r l) (residues n)) = Z.of_nat (List.length l).
Proof.
  intros Hn. induction l as [|t l IH].
  - unfold rcount. simpl. induction (residues n); [reflexivity|]. unfold zsum in *. simpl. lia.
  - rewrite (map_ext _ (fun r => (if t mod Z.of_nat n =? r then 1 else 0) + rcount (Z.of_nat n) r l))
      by (intros r; apply rcount_cons).
    rewrite zsum_map_add, IH, one_residue by (apply Z.mod_pos_bound; lia).
    cbn [List.length]. lia.
Qed.

(* values all in {q, q+1}: the number of q+1's is the sum minus length * q *)
Lemma count_larger q l : (forall v, In v l -> q <= v <= q + 1) ->
  Z.of_nat (List.length (filter (fun v => v =? q + 1) l)) = zsum l - Z.of_nat (List.length l) * q.
Proof.
  induction l as [|v l IH]; intros H; [reflexivity|].
  cbn [filter]. unfold zsum in *. cbn [fold_right List.length].
  pose proof (H v (or_introl eq_refl)) as Hv.
  specialize (IH (fun w Hw => H w (or_intror Hw))).
  destruct (Z.eqb_spec v (q + 1)); cbn [List.length]; nia.
Qed.

Lemma rr_larger_share n c0 M : (0 < n)%nat -> 0 <= c0 -> c0 + Z.of_nat M <= two64 ->
  Z.of_nat (List.length (filter (fun v => v =? Z.of_nat M / Z.of_nat n + 1)
                          (map (fun r => rcount (Z.of_nat n) r (tickets c0 M)) (residues n))))
  = Z.of_nat M mod Z.of_nat n.
Proof.
  intros Hn Hc Hw.
  rewrite count_larger.
  - rewrite rcount_total by exact Hn. rewrite tickets_length, map_length.
    unfold residues. rewrite map_length, seq_length.
    pose proof (Z.div_mod (Z.of_nat M) (Z.of_nat n) ltac:(lia)). lia.
  - intros v Hv. apply in_map_iff in Hv. destruct Hv as [r [E Hr]]. subst v.
    unfold residues in Hr. apply in_map_iff in Hr. destruct Hr as [i [E Hi]]. subst r.
    apply in_seq in Hi.
    pose proof (rcount_bounds (Z.of_nat n) (Z.of_nat i) c0 M ltac:(lia) ltac:(lia) Hc Hw) as B.
    assert ((Z.of_nat M + Z.of_nat n - 1) / Z.of_nat n <= Z.of_nat M / Z.of_nat n + 1).
    { replace (Z.of_nat M + Z.of_nat n - 1) with ((Z.of_nat M - 1) + 1 * Z.of_nat n) by lia.
      rewrite Z.div_add by lia. pose proof (Z.div_le_mono (Z.of_nat M - 1) (Z.of_nat M) (Z.of_nat n) ltac:(lia) ltac:(lia)). lia. }
    lia.
Qed.

(* ------------------------------------------------------------------ *)
(* a stable list with failing lookups in between: failed calls draw no ticket, so the
   selections that are made are exactly those of as many calls on the fixed list *)

Definition succ_count (rs : list report) : nat := List.length (filter succeeds rs).

Lemma rr_run_stable hs : hs <> [] -> forall rs c0, 0 <= c0 < two64 -> Stable hs rs ->
  oks (snd (rr_run c0 rs)) = oks (picks_of hs (tickets c0 (succ_count rs))) /\
  fst (rr_run c0 rs) = (c0 + Z.of_nat (succ_count rs)) mod two64.
Proof.
  intros Hne. induction rs as [|r rest IH]; intros c0 Hc St.
  - simpl. rewrite Z.add_0_r, Z.mod_small by lia. auto.
  - assert (St' : Stable hs rest) by (intros x Hx; apply St; right; exact Hx).
    cbn [rr_run]. rewrite rr_step_spec. unfold succ_count. cbn [filter].
    destruct (St r (or_introl eq_refl)) as [E|[e E]];
      (assert (Sr : succeeds r = match hosts_step r with inl _ => true | inr _ => false end) by reflexivity);
      rewrite E in Sr; rewrite Sr; rewrite E.
    + specialize (IH ((c0 + 1) mod two64) ltac:(apply Z.mod_pos_bound; reflexivity) St').
      destruct (rr_run ((c0 + 1) mod two64) rest) as [c2 os]. cbn [fst snd] in *.
      destruct IH as [IH1 IH2]. fold (succ_count rest). cbn [List.length].
      rewrite tickets_cons by exact Hc. split.
      * cbn [picks_of map]. fold (picks_of hs (tickets ((c0 + 1) mod two64) (succ_count rest))).
        rewrite pick_nth by (apply Z.mod_pos_bound, len_pos, Hne).
        cbn [oks flat_map app]. fold (oks os).
        fold (oks (picks_of hs (tickets ((c0 + 1) mod two64) (succ_count rest)))).
        rewrite IH1. reflexivity.
      * rewrite IH2, Zplus_mod_idemp_l. f_equal. unfold succ_count. cbn [List.length]. lia.
    + specialize (IH c0 Hc St').
      destruct (rr_run c0 rest) as [c2 os]. cbn [fst snd] in *.
      destruct IH as [IH1 IH2]. fold (succ_count rest). split.
      * cbn [oks flat_map app]. fold (oks os). exact IH1.
      * exact IH2.
Qed.

Lemma rr_stable_fair hs rs c0 : NoDup hs -> hs <> [] -> 0 <= c0 < two64 -> Stable hs rs ->
  c0 + Z.of_nat (succ_count rs) <= two64 ->
  RRFair hs (oks (snd (rr_run c0 rs))) /\
  rr_seq_b hs (oks (snd (rr_run c0 rs))) = true.
Proof.
  intros ND Hne Hc St Hw.
  destruct (rr_run_stable hs Hne rs c0 Hc St) as [E _]. rewrite E.
  assert (B : rr_seq_b hs (oks (picks_of hs (tickets c0 (succ_count rs)))) = true).
  { rewrite tickets_nowrap by lia. apply rr_model_seq_oracle_gen; assumption. }
  split; [apply rr_seq_sound; assumption|exact B].
Qed.

Lemma stable_b_sound hs rs : stable_b hs rs = true -> Stable hs rs.
Proof.
  unfold stable_b, Stable. rewrite forallb_forall. intros H r Hr. specialize (H r Hr).
  destruct (hosts_step r) as [l|e]; [left|right; eauto].
  apply (list_eqb_eq str_eqb str_eqb_eq) in H. subst. reflexivity.
Qed.

(* ------------------------------------------------------------------ *)
(* growth round 5 *)

(* fastrand.Uint32n with every Go conversion and wrap written out is the plain quotient *)
Lemma uint32n_go_eq x n : 0 <= x < two32 -> 0 <= n < two32 ->
  uint32n_go x n = uint32n x n.
Proof.
  intros Hx Hn. unfold uint32n_go, uint32n.
  rewrite (Z.mod_small x two32), (Z.mod_small n two32) by lia.
  assert (P : 0 <= x * n < two64) by (unfold two32, two64 in *; nia).
  rewrite (Z.mod_small (x * n) two64) by exact P.
  apply Z.mod_small. split.
  - apply Z.div_pos; [lia|reflexivity].
  - apply Z.div_lt_upper_bound; [reflexivity|]. unfold two32, two64 in *. nia.
Qed.

Lemma uint32n_go_range x n : 0 <= x < two32 -> 0 < n < two32 ->
  0 <= uint32n_go x n < n.
Proof. intros Hx Hn. rewrite uint32n_go_eq by lia. apply uint32n_range; lia. Qed.

(* ---- any history: the counter counts the successful lookups; runs compose ---- *)
Lemma rr_run_app : forall a b c,
  rr_run c (a ++ b) = (fst (rr_run (fst (rr_run c a)) b),
                       (snd (rr_run c a) ++ snd (rr_run (fst (rr_run c a)) b))%list).
Proof.
  induction a as [|r a IH]; intros b c.
  - simpl. destruct (rr_run c b); reflexivity.
  - cbn [app rr_run]. destruct (rr_step c r) as [c1 o]. rewrite IH.
    destruct (rr_run c1 a) as [c2 os]. cbn [fst snd].
    destruct (rr_run c2 b) as [c3 os']. reflexivity.
Qed.

Lemma rr_counter : forall rs c, 0 <= c < two64 ->
  fst (rr_run c rs) = (c + Z.of_nat (succ_count rs)) mod two64.
Proof.
  induction rs as [|r rs IH]; intros c Hc.
  - simpl. rewrite Z.add_0_r, Z.mod_small by lia. reflexivity.
  - cbn [rr_run]. rewrite rr_step_spec. unfold succ_count. cbn [filter]. unfold succeeds at 1.
    destruct (hosts_step r) as [hs|e].
    + specialize (IH ((c + 1) mod two64) ltac:(apply Z.mod_pos_bound; reflexivity)).
      destruct (rr_run ((c + 1) mod two64) rs) as [c2 os]. cbn [fst] in *.
      rewrite IH, Zplus_mod_idemp_l. f_equal. unfold succ_count. cbn [List.length]. lia.
    + specialize (IH c Hc). destruct (rr_run c rs) as [c2 os]. cbn [fst] in *. exact IH.
Qed.

Lemma succ_count_app a b : succ_count (a ++ b) = (succ_count a + succ_count b)%nat.
Proof. unfold succ_count. rewrite filter_app, app_length. reflexivity. Qed.

(* the windows between changes: whatever the subscriber reported before (pre) and reports
   afterwards (post), the selections made during a stretch of calls in which every
   successful lookup reports hs are fair over every window *)
Lemma rr_dynamic_window hs pre blk post c0 :
  NoDup hs -> hs <> [] -> 0 <= c0 < two64 -> Stable hs blk ->
  c0 + Z.of_nat (succ_count (pre ++ blk)) <= two64 ->
  exists o_pre o_blk o_post,
    snd (rr_run c0 (pre ++ blk ++ post)) = (o_pre ++ o_blk ++ o_post)%list /\
    List.length o_pre = List.length pre /\ List.length o_blk = List.length blk /\
    RRFair hs (oks o_blk) /\ rr_seq_b hs (oks o_blk) = true.
Proof.
  intros ND Hne Hc St Hw.
  assert (Dec : snd (rr_run c0 (pre ++ blk ++ post))
                = (snd (rr_run c0 pre) ++ snd (rr_run (fst (rr_run c0 pre)) blk)
                   ++ snd (rr_run (fst (rr_run (fst (rr_run c0 pre)) blk)) post))%list).
  { rewrite rr_run_app. cbn [snd]. f_equal. rewrite rr_run_app. reflexivity. }
  set (c1 := fst (rr_run c0 pre)) in *.
  set (c2 := fst (rr_run c1 blk)) in *.
  exists (snd (rr_run c0 pre)), (snd (rr_run c1 blk)), (snd (rr_run c2 post)).
  assert (Len : forall rs c, List.length (snd (rr_run c rs)) = List.length rs).
  { induction rs as [|r rs IH]; intros c; [reflexivity|]. cbn [rr_run].
    destruct (rr_step c r) as [c' o]. specialize (IH c'). destruct (rr_run c' rs). simpl in *. congruence. }
  split; [|split; [apply Len|split; [apply Len|]]].
  - exact Dec.
  - assert (B1 : 0 <= c1 < two64).
    { unfold c1. rewrite rr_counter by exact Hc. apply Z.mod_pos_bound. reflexivity. }
    assert (E1 : c1 <= c0 + Z.of_nat (succ_count pre)).
    { unfold c1. rewrite rr_counter by exact Hc. apply Z.mod_le; [lia|reflexivity]. }
    apply rr_stable_fair; try assumption.
    rewrite succ_count_app in Hw. lia.
Qed.

(* ---- constructors ---- *)
Lemma map_const_repeat {A B} (b : B) (l : list A) : map (fun _ => b) l = repeat b (List.length l).
Proof. induction l as [|x l IH]; simpl; [reflexivity|]. rewrite IH. reflexivity. Qed.

(* the single-host balancer is only ever built for a fixed subscriber with exactly that host *)
Lemma build_nop k procs s x h : build k procs s x = BNop h -> s = SFixed [h].
Proof.
  destruct k; unfold build, new_balancer; [destruct (procs =? 1)| |];
    unfold new_rr, new_random; destruct s as [[|a [|b t]]|]; intros H; try discriminate;
    inversion H; reflexivity.
Qed.

(* the counter of a round robin balancer built by the constructor starts inside the list
   (or at 0): the hypothesis "c0 + M <= 2^64" of the balance theorem becomes a bound on M *)
Lemma new_rr_start s x c0 : 0 <= x < two32 -> new_rr s x = BRR c0 ->
  match s with SFixed hs => Z.of_nat (List.length hs) <= two32 | SOther => True end ->
  0 <= c0 < two32.
Proof.
  intros Hx. destruct s as [[|a [|b t]]|]; cbn [new_rr]; intros H L;
    try (injection H as <-; unfold two32; lia); try discriminate.
  assert (E : c0 = uint32n x (Z.of_nat (List.length (a :: b :: t)))) by congruence.
  rewrite E. clear H E.
  pose proof (uint32n_range x (Z.of_nat (List.length (a :: b :: t))) Hx ltac:(simpl; lia)). lia.
Qed.

Lemma in_firstn' {A} n (l : list A) x : In x (firstn n l) -> In x l.
Proof. intros H. rewrite <- (firstn_skipn n l). apply in_or_app. left. exact H. Qed.
Lemma in_skipn' {A} n (l : list A) x : In x (skipn n l) -> In x l.
Proof. intros H. rewrite <- (firstn_skipn n l). apply in_or_app. right. exact H. Qed.

Lemma fair_all_same h w : (forall p, In p w -> p = h) -> Fair [h] w.
Proof.
  intros H x Hx. destruct Hx as [Hx|[]]. subst x.
  assert (E : zcount h w = Z.of_nat (List.length w)).
  { unfold zcount. f_equal. induction w as [|p w IH]; [reflexivity|].
    simpl. rewrite (H p (or_introl eq_refl)), str_eqb_refl.
    rewrite IH by (intros q Hq; apply H; right; exact Hq). reflexivity. }
  rewrite E. cbn [List.length]. change (Z.of_nat 1) with 1.
  rewrite Z.div_1_r. replace (Z.of_nat (List.length w) + 1 - 1) with (Z.of_nat (List.length w)) by lia.
  rewrite Z.div_1_r. lia.
Qed.

(* a round robin balancer as the public constructor builds it over a fixed list of distinct
   hosts (any draw of the start position): every window of its first M selections is fair,
   for every M up to 2^64 - 2^32 *)
Lemma constructed_rr_fair hs x (xs : list Z) : NoDup hs -> hs <> [] -> 0 <= x < two32 ->
  Z.of_nat (List.length hs) <= two32 -> Z.of_nat (List.length xs) + two32 <= two64 ->
  RRFair hs (oks (bal_run (new_rr (SFixed hs) x) hs xs)).
Proof.
  intros ND Hne Hx Hl HM.
  destruct (new_rr (SFixed hs) x) as [h|c0|] eqn:E.
  - pose proof (build_nop CRoundRobin 0 (SFixed hs) x h E) as S. inversion S. subst hs.
    intros a m Ham. apply fair_all_same. intros p Hp.
    unfold window in Hp. apply in_firstn' in Hp. apply in_skipn' in Hp.
    unfold bal_run, oks in Hp. apply in_flat_map in Hp. destruct Hp as [o [Ho Hp]].
    apply in_map_iff in Ho. destruct Ho as [_ [Eo _]]. subst o. destruct Hp as [Hp|[]]. auto.
  - pose proof (new_rr_start (SFixed hs) x c0 Hx E Hl) as B.
    unfold bal_run. rewrite map_const_repeat.
    apply rr_seq_sound; try assumption.
    apply rr_model_seq_oracle; try assumption; unfold two32, two64 in *; lia.
  - unfold new_rr in E. destruct hs as [|a [|b t]]; discriminate.
Qed.

(* whatever constructor built it (generic / round robin / random, any processor count, any
   draw), a balancer over a fixed subscriber only ever answers hosts of that list *)
Lemma constructed_membership k procs hs x xs : hs <> [] ->
  (forall y, In y xs -> 0 <= y < two32) ->
  Forall (CallOk {| rp_hosts := hs; rp_err := None |}) (bal_run (build k procs (SFixed hs) x) hs xs).
Proof.
  intros Hne Hxs. destruct (build k procs (SFixed hs) x) as [h|c0|] eqn:E.
  - apply build_nop in E. inversion E. subst hs. unfold bal_run. apply Forall_forall.
    intros o Ho. apply in_map_iff in Ho. destruct Ho as [_ [Eo _]]. subst o.
    unfold CallOk. simpl. exists h. split; [reflexivity|left; reflexivity].
  - unfold bal_run. rewrite map_const_repeat.
    pose proof (rr_run_ok (repeat {| rp_hosts := hs; rp_err := None |} (List.length xs)) c0) as F.
    revert F. generalize (snd (rr_run c0 (repeat {| rp_hosts := hs; rp_err := None |} (List.length xs)))).
    induction (List.length xs) as [|m IH]; intros l F; inversion F; subst; constructor; auto.
  - unfold bal_run. apply Forall_forall. intros o Ho. apply in_map_iff in Ho.
    destruct Ho as [y [Eo Hy]]. subst o. apply rnd_step_ok. apply Hxs, Hy.
Qed.

(* the round robin constructors do not look at the processor count and never build the
   random balancer; NewBalancer builds round robin exactly when GOMAXPROCS = 1 *)
Lemma rr_constructors_fixed_kind procs s x :
  build CRoundRobin procs s x = new_rr s x /\ new_rr s x <> BRandom /\
  (procs = 1 -> build CGeneric procs s x = new_rr s x) /\
  (procs <> 1 -> build CGeneric procs s x = new_random s).
Proof.
  split; [reflexivity|]. split.
  - unfold new_rr. destruct s as [[|a [|b t]]|]; discriminate.
  - unfold build, new_balancer. split; intros H.
    + subst. reflexivity.
    + destruct (Z.eqb_spec procs 1); [contradiction|reflexivity].
Qed.

(* the middleware: errors of the balancer come out unchanged and the next proxy sees
   host ++ path for a host of the reported list *)
Lemma mw_step_ok r o path : CallOk r o ->
  match mw_step o path with
  | MwNext u => exists h, u = (h ++ path)%string /\ In h (rp_hosts r) /\ rp_err r = None
  | MwErr e => o = Err e /\ (rp_err r <> None \/ rp_hosts r = [])
  | MwPanic => False
  end.
Proof.
  unfold CallOk. destruct (rp_err r) as [e|] eqn:Er.
  - intros H. subst o. simpl. split; [reflexivity|left; discriminate].
  - destruct (rp_hosts r) as [|h0 t] eqn:Eh.
    + intros H. subst o. simpl. split; [reflexivity|right; reflexivity].
    + intros [h [E I]]. subst o. simpl. exists h. auto.
Qed.

(* ------------------------------------------------------------------ *)
(* the model's run over ANY history satisfies the block oracle of the dynamic cases *)

(* acc holds the picks of the k tickets before counter value c, over the list of the block *)
Definition block_inv (cur : option (list string)) (acc : list string) (c : Z) : Prop :=
  match cur with
  | None => True
  | Some hs => hs <> [] /\ exists k, Z.of_nat k <= c /\
                 acc = oks (picks_of hs (tickets (c - Z.of_nat k) k))
  end.

Lemma close_of_inv cur acc c : 0 <= c <= two64 -> block_inv cur acc c -> close_b cur acc = true.
Proof.
  intros Hc. destruct cur as [hs|]; [|reflexivity]. intros [Hne [k [Hk E]]].
  unfold close_b. destruct (nodup_str hs) eqn:ND; [|reflexivity]. simpl.
  apply nodup_str_NoDup in ND. subst acc.
  rewrite tickets_nowrap by lia. apply rr_model_seq_oracle_gen; assumption.
Qed.

Lemma blocks_model : forall rs c cur acc, 0 <= c -> c + Z.of_nat (List.length rs) < two64 ->
  block_inv cur acc c ->
  blocks_b cur acc (combine rs (snd (rr_run c rs))) = true.
Proof.
  induction rs as [|r rs IH]; intros c cur acc Hc Hw Inv.
  - simpl. apply (close_of_inv cur acc c); [simpl in Hw; lia|exact Inv].
  - cbn [rr_run]. rewrite rr_step_spec. cbn [List.length] in Hw.
    destruct (hosts_step r) as [l|e] eqn:E.
    + assert (Lne : l <> []) by (apply (hosts_step_inl _ _ E)).
      pose proof (len_pos l Lne) as Lp.
      assert (C1 : (c + 1) mod two64 = c + 1) by (apply Z.mod_small; lia).
      rewrite C1.
      destruct (rr_run (c + 1) rs) as [c2 os] eqn:R. cbn [snd combine blocks_b]. rewrite E.
      rewrite pick_nth by (apply Z.mod_pos_bound; exact Lp). cbn [pick_of].
      assert (New : block_inv (Some l) [nth (Z.to_nat (c mod Z.of_nat (List.length l))) l ""] (c + 1)).
      { split; [exact Lne|]. exists 1%nat. split; [lia|].
        replace (c + 1 - Z.of_nat 1) with c by lia.
        unfold tickets. cbn [seq map picks_of]. change (Z.of_nat 0) with 0.
        rewrite Z.add_0_r, (Z.mod_small c two64) by lia.
        rewrite pick_nth by (apply Z.mod_pos_bound; exact Lp). reflexivity. }
      assert (Rest : forall cur' acc', block_inv cur' acc' (c + 1) ->
                blocks_b cur' acc' (combine rs os) = true).
      { intros cur' acc' I. specialize (IH (c + 1) cur' acc' ltac:(lia) ltac:(lia) I).
        rewrite R in IH. exact IH. }
      destruct cur as [hs|].
      * destruct (list_eqb str_eqb l hs) eqn:Q.
        -- apply (list_eqb_eq str_eqb str_eqb_eq) in Q. subst l.
           apply Rest. destruct Inv as [Hne [k [Hk Ea]]]. split; [exact Hne|].
           exists (S k). split; [lia|].
           replace (c + 1 - Z.of_nat (S k)) with (c - Z.of_nat k) by lia.
           rewrite tickets_S. unfold picks_of. rewrite map_app. unfold oks. rewrite flat_map_app.
           fold (oks (map (fun t => pick hs (t mod Z.of_nat (List.length hs))) (tickets (c - Z.of_nat k) k))).
           fold (picks_of hs (tickets (c - Z.of_nat k) k)). rewrite <- Ea. f_equal.
           cbn [map flat_map].
           replace (c - Z.of_nat k + Z.of_nat k) with c by lia.
           rewrite (Z.mod_small c two64) by lia.
           rewrite pick_nth by (apply Z.mod_pos_bound; exact Lp). reflexivity.
        -- apply andb_true_iff. split; [apply (close_of_inv _ _ c); [lia|exact Inv]|].
           apply Rest. exact New.
      * apply Rest. exact New.
    + destruct (rr_run c rs) as [c2 os] eqn:R. cbn [snd combine blocks_b]. rewrite E.
      specialize (IH c cur acc Hc ltac:(lia) Inv). rewrite R in IH. exact IH.
Qed.

Lemma blocks_model_meets rs c : 0 <= c -> c + Z.of_nat (List.length rs) < two64 ->
  blocks_b None [] (combine rs (snd (rr_run c rs))) = true.
Proof. intros Hc Hw. apply blocks_model; [exact Hc|exact Hw|exact I]. Qed.
