(* C01 - proofs about the accumulator model: the invariant of the incremental merge over
   every arrival list, and the property for every permutation of the backends' messages. *)
Require Import Verif.Common.Base Verif.Model.C01 Verif.Spec.C01.
From Coq Require Import Permutation.

Section Assoc.
  Variable V : Type.
  Implicit Types (m d : dmap V).

  Lemma In_remove (k : string) (x : string * V) m : In x (remove k m) -> In x m.
  Proof.
    induction m as [|[k' v'] r IH]; simpl; auto.
    destruct (str_eqb k k'); simpl; intuition.
  Qed.

  Lemma keys_remove_in (k k' : string) m : In k' (keys (remove k m)) -> In k' (keys m).
  Proof.
    unfold keys. rewrite !in_map_iff. intros [x [Hx Hin]]. exists x. split; auto.
    eapply In_remove; eauto.
  Qed.

  Lemma keys_remove_neq (k k' : string) m : In k' (keys m) -> k' <> k -> In k' (keys (remove k m)).
  Proof.
    induction m as [|[k2 v2] r IH]; simpl; auto. intros [H|H] Hn.
    - subst k2. destruct (str_eqb k k') eqn:E.
      + apply str_eqb_eq in E. congruence.
      + simpl. auto.
    - destruct (str_eqb k k2); simpl; auto.
  Qed.

  Lemma merge_into_In : forall (src dst : dmap V) k v,
    In (k, v) (merge_into dst src) -> In (k, v) src \/ In (k, v) dst.
  Proof.
    unfold merge_into. induction src as [|[kb vb] src IH]; simpl; intros dst k v H; auto.
    apply IH in H. destruct H as [H|H]; auto.
    unfold set in H. simpl in H. destruct H as [H|H]; auto.
    right. eapply In_remove; eauto.
  Qed.

  Lemma merge_into_keys : forall (src dst : dmap V) k,
    In k (keys (merge_into dst src)) <-> In k (keys src) \/ In k (keys dst).
  Proof.
    unfold merge_into. induction src as [|[kb vb] src IH]; simpl; intros dst k.
    - tauto.
    - rewrite IH. unfold set. simpl. split.
      + intros [H|[H|H]]; auto. right. eapply keys_remove_in; eauto.
      + intros [[H|H]|H]; auto.
        destruct (string_dec k kb) as [->|Hn]; auto.
        right. right. apply keys_remove_neq; auto.
  Qed.
End Assoc.

Section Acc.
  Variable V : Type.
  Implicit Types (r p q : resp V) (m : msg V) (o : outcome V).

  Definition combine2 (a b : resp V) : resp V := combine_data 2 [Some a; Some b].

  Definition goodr (r : resp V) : bool :=
    complete r && match data r with Some _ => true | None => false end.

  Lemma combine2_unfold a b :
    combine2 a b =
    match data a, data b with
    | None, None => {| data := Some []; complete := false |}
    | Some da, None => {| data := Some da; complete := false |}
    | None, Some db => {| data := Some db; complete := false |}
    | Some da, Some db => {| data := Some (merge_into da db); complete := complete a && complete b |}
    end.
  Proof. destruct a as [[da|] ca], b as [[db|] cb]; reflexivity. Qed.

  Lemma combine2_data a b : data (combine2 a b) <> None.
  Proof. rewrite combine2_unfold. destruct (data a), (data b); simpl; discriminate. Qed.

  Lemma combine2_good a b : goodr (combine2 a b) = goodr a && goodr b.
  Proof.
    rewrite combine2_unfold. unfold goodr.
    destruct (data a), (data b); simpl; rewrite ?andb_true_r, ?andb_false_r; auto.
  Qed.

  Lemma combine2_keys a b k :
    In k (keys (dat (combine2 a b))) <-> In k (keys (dat a)) \/ In k (keys (dat b)).
  Proof.
    rewrite combine2_unfold. unfold dat.
    destruct (data a) as [da|], (data b) as [db|]; simpl; try tauto.
    rewrite merge_into_keys. tauto.
  Qed.

  Lemma combine2_In a b k (v : V) :
    In (k, v) (dat (combine2 a b)) -> In (k, v) (dat a) \/ In (k, v) (dat b).
  Proof.
    rewrite combine2_unfold. unfold dat.
    destruct (data a) as [da|], (data b) as [db|]; simpl; try tauto.
    intros H. apply merge_into_In in H. tauto.
  Qed.

  Definition payloads_of (l : list (msg V)) : list (resp V) :=
    flat_map (fun m => match m with MP r => [r] | MF _ => [] end) l.
  Definition failures_of (l : list (msg V)) : list ekind :=
    flat_map (fun m => match m with MF e => [e] | MP _ => [] end) l.

  Lemma payloads_snoc_P l r : payloads_of (l ++ [MP r]) = payloads_of l ++ [r].
  Proof. unfold payloads_of. rewrite flat_map_app. reflexivity. Qed.
  Lemma payloads_snoc_F l e : payloads_of (l ++ [MF e]) = payloads_of l.
  Proof. unfold payloads_of. rewrite flat_map_app. simpl. apply app_nil_r. Qed.
  Lemma failures_snoc_P l r : failures_of (l ++ [MP r]) = failures_of l.
  Proof. unfold failures_of. rewrite flat_map_app. simpl. apply app_nil_r. Qed.
  Lemma failures_snoc_F l e : failures_of (l ++ [MF e]) = failures_of l ++ [e].
  Proof. unfold failures_of. rewrite flat_map_app. reflexivity. Qed.

  Lemma in_payloads l r : In r (payloads_of l) <-> In (MP r) l.
  Proof.
    unfold payloads_of. rewrite in_flat_map. split.
    - intros [[x|e] [H1 H2]]; simpl in H2; [destruct H2 as [->|[]]; auto|contradiction].
    - intros H. exists (MP r). simpl. auto.
  Qed.
  Lemma in_failures l e : In e (failures_of l) <-> In (MF e) l.
  Proof.
    unfold failures_of. rewrite in_flat_map. split.
    - intros [[x|e'] [H1 H2]]; simpl in H2; [contradiction|destruct H2 as [->|[]]; auto].
    - intros H. exists (MF e). simpl. auto.
  Qed.

  Lemma payloads_failures_length l :
    List.length (payloads_of l) + List.length (failures_of l) = List.length l.
  Proof.
    induction l as [|[r|e] l IH]; simpl; auto; lia.
  Qed.

  (* the state of the accumulator after the arrivals [seen], for n backends *)
  Definition Inv (n : nat) (seen : list (msg V)) (a : acc V) : Prop :=
    pending a = (Z.of_nat n - Z.of_nat (List.length seen))%Z /\
    errs a = failures_of seen /\
    match cur a with
    | None => payloads_of seen = []
    | Some r =>
        payloads_of seen <> [] /\
        (forall k, In k (keys (dat r)) <-> exists p, In p (payloads_of seen) /\ In k (keys (dat p))) /\
        (forall k v, In (k, v) (dat r) -> exists p, In p (payloads_of seen) /\ In (k, v) (dat p)) /\
        (2 <= List.length (payloads_of seen) -> data r <> None) /\
        (failures_of seen = [] -> goodr r = forallb goodr (payloads_of seen))
    end.

  Lemma inv_init n : Inv n [] (acc_init (Z.of_nat n)).
  Proof. unfold Inv, acc_init; simpl. repeat split; auto. lia. Qed.

  Lemma inv_step n seen a m : Inv n seen a -> Inv n (seen ++ [m]) (acc_merge a m).
  Proof.
    unfold Inv. intros (Hp & He & Hc). destruct m as [q|e]; simpl.
    - (* a payload *)
      rewrite payloads_snoc_P, failures_snoc_P, app_length. simpl.
      split; [lia|]. split; [exact He|].
      destruct (cur a) as [r|].
      + destruct Hc as (Hne & Hk & Hv & Hd & Hg).
        fold (combine2 r q).
        split; [intros H; apply app_eq_nil in H; destruct H; discriminate|].
        split; [|split; [|split]].
        * intros k. rewrite combine2_keys, Hk. split.
          -- intros [[p [H1 H2]]|H].
             ++ exists p. rewrite in_app_iff. auto.
             ++ exists q. rewrite in_app_iff. simpl. auto.
          -- intros [p [H1 H2]]. rewrite in_app_iff in H1. destruct H1 as [H1|[->|[]]]; eauto.
        * intros k v H. apply combine2_In in H. destruct H as [H|H].
          -- destruct (Hv k v H) as [p [H1 H2]]. exists p. rewrite in_app_iff. auto.
          -- exists q. rewrite in_app_iff. simpl. auto.
        * intros _. apply combine2_data.
        * intros Hf. rewrite combine2_good, forallb_app, (Hg Hf). simpl. rewrite andb_true_r. reflexivity.
      + rewrite Hc. simpl.
        split; [discriminate|]. split; [|split; [|split]].
        * intros k. split; [intros H; exists q; auto|intros [p [[->|[]] H]]; auto].
        * intros k v H. exists q. auto.
        * intros H. lia.
        * intros _. rewrite andb_true_r. reflexivity.
    - (* a failure *)
      rewrite payloads_snoc_F, failures_snoc_F, app_length. simpl.
      split; [lia|]. split; [rewrite He; reflexivity|].
      destruct (cur a) as [r|]; auto.
      destruct Hc as (Hne & Hk & Hv & Hd & Hg).
      split; [exact Hne|]. split; [exact Hk|]. split; [exact Hv|]. split; [exact Hd|].
      intros H. apply app_eq_nil in H. destruct H; discriminate.
  Qed.

  Lemma inv_fold n : forall ms seen a,
    Inv n seen a -> Inv n (seen ++ ms) (fold_left (@acc_merge V) ms a).
  Proof.
    induction ms as [|m ms IH]; simpl; intros seen a H.
    - rewrite app_nil_r. exact H.
    - replace (seen ++ m :: ms) with ((seen ++ [m]) ++ ms) by (rewrite <- app_assoc; reflexivity).
      apply IH. apply inv_step. exact H.
  Qed.

  Lemma inv_run n arrivals : Inv n arrivals (fold_left (@acc_merge V) arrivals (acc_init (Z.of_nat n))).
  Proof. apply (inv_fold n arrivals [] _ (inv_init n)). Qed.

  (* ---- from arrivals to outcomes ---- *)
  Lemma expected_errs_failures (outs : list (outcome V)) :
    expected_errs outs = failures_of (map (@msg_of V) outs).
  Proof.
    unfold expected_errs, failures_of. induction outs as [|o outs IH]; simpl; auto.
    rewrite IH. reflexivity.
  Qed.

  Lemma perm_flat_map {A B} (f : A -> list B) l l' :
    Permutation l l' -> Permutation (flat_map f l) (flat_map f l').
  Proof.
    induction 1; simpl; auto.
    - apply Permutation_app_head. assumption.
    - rewrite !app_assoc. apply Permutation_app_tail. apply Permutation_app_comm.
    - eapply Permutation_trans; eauto.
  Qed.

  Lemma flat_map_nil_all {A B} (f : A -> list B) l :
    (forall x, In x l -> f x = []) -> flat_map f l = [].
  Proof.
    induction l as [|x l IH]; simpl; intros H; auto.
    rewrite (H x), IH; auto.
  Qed.

  Lemma in_payload_maps (outs : list (outcome V)) d :
    In d (payload_maps outs) <-> exists c, In (OPayload c (Some d)) outs.
  Proof.
    unfold payload_maps. rewrite in_flat_map. split.
    - intros [o [H1 H2]]. destruct o as [c [d'|]|e| |dl|e c0 d0]; simpl in H2; try contradiction.
      destruct H2 as [->|[]]. eauto.
    - intros [c H]. exists (OPayload c (Some d)). simpl. auto.
  Qed.

  Lemma msg_of_payload o p : msg_of o = MP p -> o = OPayload (complete p) (data p).
  Proof. destruct o as [c d|e| |dl|e c0 d0]; simpl; intros H; inversion H; subst; reflexivity. Qed.

  Lemma failures_nil_all_payloads l : failures_of l = [] -> forall m, In m l -> exists p, m = MP p.
  Proof.
    intros H m Hin. destruct m as [p|e]; eauto.
    apply in_failures in Hin. rewrite H in Hin. contradiction.
  Qed.

  Lemma merge_error_entries l : err_entries (merge_error l) = l.
  Proof. destruct l; reflexivity. Qed.
  Lemma merge_error_none l : merge_error l = None <-> l = [].
  Proof. destruct l; simpl; split; intros; auto; discriminate. Qed.

  Lemma dat_clear r : dat {| data := data r; complete := false |} = dat r.
  Proof. reflexivity. Qed.

  (* the main theorem: whatever the arrival order *)
  Theorem merge_spec_all_orders : forall (outs : list (outcome V)) (arrivals : list (msg V)),
    Permutation arrivals (map (@msg_of V) outs) -> 2 <= List.length outs ->
    merge_spec eq outs (merge_run (List.length outs) arrivals).
  Proof.
    intros outs arrivals HP Hlen.
    pose proof (inv_run (List.length outs) arrivals) as HI.
    unfold merge_run. set (a := fold_left (@acc_merge V) arrivals (acc_init (Z.of_nat (List.length outs)))) in *.
    destruct HI as (Hp & He & Hc).
    assert (Hla : List.length arrivals = List.length outs).
    { rewrite (Permutation_length HP), map_length. reflexivity. }
    assert (Hpend : pending a = 0%Z) by (rewrite Hp, Hla; lia).
    assert (HPf : Permutation (failures_of arrivals) (expected_errs outs)).
    { rewrite expected_errs_failures. apply perm_flat_map. exact HP. }
    (* membership transfer *)
    assert (Hin : forall m, In m arrivals <-> exists o, In o outs /\ msg_of o = m).
    { intros m. split.
      - intros H. apply (Permutation_in _ HP) in H. apply in_map_iff in H.
        destruct H as [o [H1 H2]]. eauto.
      - intros [o [H1 H2]]. apply (Permutation_in _ (Permutation_sym HP)).
        apply in_map_iff. eauto. }
    assert (Hpm : forall k,
      (exists p, In p (payloads_of arrivals) /\ In k (keys (dat p))) <->
      (exists d, In d (payload_maps outs) /\ In k (keys d))).
    { intros k. split.
      - intros [p [H1 H2]]. apply in_payloads, Hin in H1. destruct H1 as [o [Ho Hm]].
        apply msg_of_payload in Hm. unfold dat in H2.
        destruct (data p) as [d|] eqn:E; [|contradiction].
        exists d. split; auto. apply in_payload_maps. exists (complete p). rewrite <- Hm. exact Ho.
      - intros [d [H1 H2]]. apply in_payload_maps in H1. destruct H1 as [c H1].
        exists {| data := Some d; complete := c |}. split; [|exact H2].
        apply in_payloads, Hin. exists (OPayload c (Some d)). auto. }
    assert (Hpv : forall k v,
      (exists p, In p (payloads_of arrivals) /\ In (k, v) (dat p)) ->
      (exists d v', In d (payload_maps outs) /\ In (k, v') d /\ v = v')).
    { intros k v [p [H1 H2]]. apply in_payloads, Hin in H1. destruct H1 as [o [Ho Hm]].
      apply msg_of_payload in Hm. unfold dat in H2.
      destruct (data p) as [d|] eqn:E; [|contradiction].
      exists d, v. repeat split; auto. apply in_payload_maps. exists (complete p). rewrite <- Hm. exact Ho. }
    unfold merge_spec, acc_result.
    destruct (cur a) as [r|] eqn:Ecur; simpl.
    - destruct Hc as (Hne & Hk & Hv & Hd & Hg).
      split; [discriminate|].
      split; [|split].
      + intros x Hx. inversion Hx; subst x; clear Hx.
        assert (Hdat : dat (if negb (pending a =? 0)%Z || negb (is_nil (errs a))
                            then {| data := data r; complete := false |} else r) = dat r)
          by (destruct (negb (pending a =? 0)%Z || negb (is_nil (errs a))); reflexivity).
        rewrite Hdat. split; [|split].
        * intros k. rewrite Hk. apply Hpm.
        * intros k v H. apply Hpv. apply Hv. exact H.
        * rewrite Hpend, He. simpl. split.
          -- intros Hcx o Ho.
             destruct (failures_of arrivals) as [|e0 es] eqn:Ef; simpl in Hcx; [|discriminate].
             assert (Hall : List.length (payloads_of arrivals) = List.length arrivals).
             { pose proof (payloads_failures_length arrivals) as H. rewrite Ef in H. simpl in H. lia. }
             assert (Hgr : goodr r = true).
             { unfold goodr. rewrite Hcx. simpl. destruct (data r) eqn:E; auto.
               exfalso. apply Hd; auto. lia. }
             rewrite (Hg eq_refl) in Hgr. rewrite forallb_forall in Hgr.
             assert (Hm : In (msg_of o) arrivals) by (apply Hin; eauto).
             destruct (failures_nil_all_payloads arrivals Ef _ Hm) as [p Hpp].
             rewrite Hpp in Hm. apply in_payloads in Hm. specialize (Hgr p Hm).
             apply msg_of_payload in Hpp. subst o. unfold goodr in Hgr.
             destruct (complete p), (data p); simpl in *; auto; discriminate.
          -- intros Hall.
             assert (Hex : expected_errs outs = []).
             { unfold expected_errs. apply flat_map_nil_all. intros o Ho. specialize (Hall o Ho).
               destruct o as [[|] [d|]|e| |dl|e c0 d0]; simpl in *; auto; discriminate. }
             rewrite Hex in HPf. apply Permutation_sym, Permutation_nil in HPf.
             rewrite HPf. simpl.
             assert (Hgr : goodr r = true).
             { rewrite (Hg HPf). apply forallb_forall. intros p Hpi.
               apply in_payloads, Hin in Hpi. destruct Hpi as [o [Ho Hm]].
               specialize (Hall o Ho). apply msg_of_payload in Hm. subst o. simpl in Hall.
               unfold goodr. destruct (complete p), (data p); auto; discriminate. }
             unfold goodr in Hgr. apply andb_true_iff in Hgr. tauto.
      + rewrite merge_error_entries, He. exact HPf.
      + rewrite merge_error_none, He. split.
        * intros H. rewrite H in HPf. apply Permutation_nil in HPf. exact HPf.
        * intros H. rewrite H in HPf. apply Permutation_sym in HPf. apply Permutation_nil in HPf. exact HPf.
    - split; [|split; [|split]].
      + intros _ o Ho. destruct o as [c d|e| |dl|e c0 d0]; auto.
        assert (H : In (MP {| data := d; complete := c |}) arrivals) by (apply Hin; eexists; split; eauto).
        apply in_payloads in H. rewrite Hc in H. contradiction.
      + intros x Hx. discriminate.
      + rewrite merge_error_entries, He. exact HPf.
      + rewrite merge_error_none, He. split.
        * intros H. rewrite H in HPf. apply Permutation_nil in HPf. exact HPf.
        * intros H. rewrite H in HPf. apply Permutation_sym in HPf. apply Permutation_nil in HPf. exact HPf.
  Qed.
  (* ---- the error entries come out in arrival order ---- *)
  Theorem errors_in_arrival_order n (arrivals : list (msg V)) :
    snd (merge_run n arrivals) = merge_error (failures_of arrivals).
  Proof.
    pose proof (inv_run n arrivals) as (_ & He & _). unfold merge_run, acc_result.
    destruct (cur (fold_left (@acc_merge V) arrivals (acc_init (Z.of_nat n)))); simpl; rewrite He; reflexivity.
  Qed.

  (* ---- nil Data ---- *)
  Definition Inv1 (seen : list (msg V)) (a : acc V) : Prop :=
    match cur a with
    | None => payloads_of seen = []
    | Some r => payloads_of seen <> [] /\ (forall p, payloads_of seen = [p] -> data r = data p)
    end.

  Lemma inv1_step seen a m : Inv1 seen a -> Inv1 (seen ++ [m]) (acc_merge a m).
  Proof.
    unfold Inv1. intros H. destruct m as [q|e]; simpl.
    - rewrite payloads_snoc_P. destruct (cur a) as [r|].
      + destruct H as [Hne _]. split.
        * intros E. apply app_eq_nil in E. destruct E; discriminate.
        * intros p E. exfalso. destruct (payloads_of seen) as [|x [|y l]]; simpl in E; try congruence; discriminate.
      + rewrite H. simpl. split; [discriminate|]. intros p E. inversion E; reflexivity.
    - rewrite payloads_snoc_F. destruct (cur a) as [r|]; auto.
  Qed.

  Lemma inv1_fold : forall ms seen a, Inv1 seen a -> Inv1 (seen ++ ms) (fold_left (@acc_merge V) ms a).
  Proof.
    induction ms as [|m ms IH]; simpl; intros seen a H.
    - rewrite app_nil_r. exact H.
    - replace (seen ++ m :: ms) with ((seen ++ [m]) ++ ms) by (rewrite <- app_assoc; reflexivity).
      apply IH. apply inv1_step. exact H.
  Qed.

  (* the Data map of the response is nil exactly when one single backend answered and the
     Data of its payload was nil (every later payload goes through combineData, which never
     returns nil Data) *)
  Theorem data_nil_iff n (arrivals : list (msg V)) x :
    fst (merge_run n arrivals) = Some x ->
    (data x = None <-> exists p, payloads_of arrivals = [p] /\ data p = None).
  Proof.
    pose proof (inv_run n arrivals) as (_ & _ & Hc).
    pose proof (inv1_fold arrivals [] (acc_init (Z.of_nat n)) eq_refl) as H1. simpl in H1.
    unfold merge_run, acc_result, Inv1 in *.
    destruct (cur (fold_left (@acc_merge V) arrivals (acc_init (Z.of_nat n)))) as [r|]; simpl; [|discriminate].
    intros Hx. destruct Hc as (Hne & _ & _ & Hd & _). destruct H1 as [_ H1].
    assert (Hdx : data x = data r).
    { inversion Hx. destruct (negb (pending _ =? 0)%Z || negb (is_nil (errs _))); reflexivity. }
    rewrite Hdx. split.
    - intros Hn. destruct (payloads_of arrivals) as [|p [|q l]] eqn:E.
      + congruence.
      + exists p. split; auto. rewrite <- (H1 p eq_refl). exact Hn.
      + exfalso. apply Hd; auto. simpl. lia.
    - intros [p [E Hp]]. rewrite (H1 p E). exact Hp.
  Qed.

  (* ---- requestPart ---- *)
  Lemma request_part_msg_of (o : outcome V) (choice : option ekind) :
    request_part (return_of o) choice = msg_of (effective o choice).
  Proof. destruct o as [c d|e| |dl|e c d], choice; reflexivity. Qed.

  (* the property for what the backends RETURNED and how each goroutine's select went *)
  Theorem merge_spec_from_returns (ocs : list (outcome V * option ekind)) (arrivals : list (msg V)) :
    Permutation arrivals (map (fun oc => request_part (return_of (fst oc)) (snd oc)) ocs) ->
    2 <= List.length ocs ->
    merge_spec eq (map (fun oc => effective (fst oc) (snd oc)) ocs) (merge_run (List.length ocs) arrivals).
  Proof.
    intros HP Hl.
    replace (List.length ocs) with (List.length (map (fun oc => effective (fst oc) (snd oc)) ocs))
      by apply map_length.
    apply merge_spec_all_orders; [|rewrite map_length; exact Hl].
    rewrite map_map. erewrite map_ext; [exact HP|].
    intros [o c]. simpl. symmetry. apply request_part_msg_of.
  Qed.
End Acc.
