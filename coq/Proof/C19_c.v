(* C19 - proofs, part d: completeness of the inclusion check on the traces the model generates:
   the observable part of every complete run is accepted by accepts_b.  Simulation between the
   model's run and the run explain reconstructs (which connects every later-accepted request at
   the first accept and calls Shutdown as late as possible). *)
Require Import Verif.Common.Base.
Require Import Verif.Model.C19 Verif.Spec.C19 Verif.Proof.C19_a Verif.Proof.C19 Verif.Proof.C19_b.

(* the hidden events explain puts in front of the observed event e (t = e :: rest) *)
Definition pre_of (s : st) (e : event) (t : list event) : list event :=
  match e with
  | Accept r =>
      match lis s with
      | LInit => ListenOk :: map Conn (accept_ids t)
      | _ => match getq r (reqs s) with None => [Conn r] | _ => [] end
      end
  | Refused =>
      match lis s, runner s with LOpen, RSelect => [ShutdownCall] | _, _ => [] end
  | RunnerReturn VListenErr => []
  | RunnerReturn v =>
      match runner s with
      | RShutRet _ => []
      | RSelect => ShutdownCall :: map Drop (conn_ids (reqs s)) ++
                   [ShutdownReturn (match v with VOther => true | _ => false end)]
      | _ => map Drop (conn_ids (reqs s)) ++
             [ShutdownReturn (match v with VOther => true | _ => false end)]
      end
  | _ => []
  end.

Lemma explain_cons s e t' :
  explain s (e :: t') =
  match run s (pre_of s e (e :: t') ++ [e]) with
  | Some s' => (pre_of s e (e :: t') ++ [e]) ++ explain s' t'
  | None => pre_of s e (e :: t') ++ [e]
  end.
Proof. reflexivity. Qed.

(* ---- facts about the future of a model run ---- *)
Definition fresh_or_conn (o : option qst) : Prop := o = None \/ o = Some QConn.

Lemma step_back s e s' r : step s e = Some s' ->
  fresh_or_conn (getq r (reqs s')) -> fresh_or_conn (getq r (reqs s)).
Proof.
  intros H F. unfold fresh_or_conn in *.
  ev_cases e; inv_step H; simpl in F; auto;
    destruct (nat_eqb_cases r r0) as [[E1 E2]|[E1 E2]]; rewrite E1 in F; auto; subst;
    try (destruct F; discriminate); auto.
Qed.

Lemma future_accept lm : forall sm sf r, run sm lm = Some sf -> In (Accept r) lm ->
  fresh_or_conn (getq r (reqs sm)).
Proof.
  induction lm as [|e l IH]; simpl; intros sm sf r H Hin; [tauto|].
  destruct (step sm e) as [s1|] eqn:E; [|discriminate].
  destruct Hin as [->|Hin].
  - right. inv_step E. reflexivity.
  - eapply step_back; eauto.
Qed.

Lemma failed_absorbing s e s' : step s e = Some s' -> lis s = LFailed -> lis s' = LFailed.
Proof. intros H L. ev_cases e; inv_step H; simpl; congruence. Qed.
Lemma returned_absorbing s e s' : step s e = Some s' -> runner s = RReturned -> runner s' = RReturned.
Proof. intros H L. ev_cases e; inv_step H; simpl; congruence. Qed.

Lemma failed_no_accept lm : forall sm tr sf r, Inv sm tr -> lis sm = LFailed ->
  run sm lm = Some sf -> ~ In (Accept r) lm.
Proof.
  induction lm as [|e l IH]; simpl; intros sm tr sf r I L H Hin; [tauto|].
  destruct (step sm e) as [s1|] eqn:E; [|discriminate].
  destruct Hin as [->|Hin].
  - pose proof (iA _ _ I (or_intror L) r) as A. inv_step E. specialize (A _ eq_refl). discriminate.
  - eapply (IH s1 (tr ++ [e]) sf r); [eapply Inv_step; eauto|eapply failed_absorbing; eauto|exact H|exact Hin].
Qed.

Lemma returned_no_accept lm : forall sm tr sf r, Inv sm tr -> runner sm = RReturned ->
  run sm lm = Some sf -> ~ In (Accept r) lm.
Proof.
  induction lm as [|e l IH]; simpl; intros sm tr sf r I L H Hin; [tauto|].
  destruct (step sm e) as [s1|] eqn:E; [|discriminate].
  destruct Hin as [->|Hin].
  - pose proof (iC _ _ I (or_introl L) r) as C. inv_step E; try congruence.
  - eapply (IH s1 (tr ++ [e]) sf r); [eapply Inv_step; eauto|eapply returned_absorbing; eauto|exact H|exact Hin].
Qed.

(* ---- accept_ids ---- *)
Definition acc_ids (t : list event) : list nat :=
  flat_map (fun e => match e with Accept r => [r] | _ => [] end) t.
Lemma acc_ids_In r t : In r (acc_ids t) <-> In (Accept r) t.
Proof.
  unfold acc_ids. rewrite in_flat_map. split.
  - intros [e [H1 H2]]. destruct e; simpl in H2; try tauto. destruct H2 as [->|[]]. exact H1.
  - intros H. exists (Accept r). split; [exact H|simpl; auto].
Qed.
Lemma accept_ids_In r t : In r (accept_ids t) <-> In (Accept r) t.
Proof. unfold accept_ids. rewrite dedup_In. apply acc_ids_In. Qed.
Lemma accept_ids_NoDup t : NoDup (accept_ids t).
Proof. apply dedup_NoDup. Qed.
Lemma in_filter_lm r lm : In (Accept r) (filter observable lm) <-> In (Accept r) lm.
Proof. rewrite filter_In. simpl. tauto. Qed.

(* ---- running the inserted Conn / Drop blocks ---- *)
Lemma run_conns l : forall s, NoDup l -> lis s = LOpen -> (forall r, In r l -> getq r (reqs s) = None) ->
  exists s', run s (map Conn l) = Some s' /\ lis s' = lis s /\ canc s' = canc s /\ runner s' = runner s /\
             resp s' = resp s /\ forall r, getq r (reqs s') = if memn r l then Some QConn else getq r (reqs s).
Proof.
  induction l as [|x t IH]; intros s ND L G.
  - exists s. simpl. repeat split; auto.
  - inversion ND as [|? ? Hx ND']; subst. simpl. rewrite L, (G x) by (left; reflexivity).
    assert (G' : forall r, In r t -> getq r (reqs (set_req s x QConn)) = None).
    { intros r Hr. simpl. destruct (nat_eqb_cases r x) as [[E1 E2]|[E1 E2]]; rewrite E1; [subst; contradiction|].
      apply G. right. exact Hr. }
    destruct (IH (set_req s x QConn) ND' L G') as (s' & R & A & B & C & D & E).
    exists s'. split; [exact R|]. simpl in *.
    split; [congruence|]. split; [congruence|]. split; [congruence|]. split; [congruence|].
    intros r. rewrite E. destruct (Nat.eqb r x) eqn:E1; simpl.
    + destruct (memn r t); reflexivity.
    + reflexivity.
Qed.

Lemma run_drops l : forall s, NoDup l -> (forall r, In r l -> getq r (reqs s) = Some QConn) ->
  exists s', run s (map Drop l) = Some s' /\ lis s' = lis s /\ canc s' = canc s /\ runner s' = runner s /\
             resp s' = resp s /\ forall r, getq r (reqs s') = if memn r l then Some QGone else getq r (reqs s).
Proof.
  induction l as [|x t IH]; intros s ND G.
  - exists s. simpl. repeat split; auto.
  - inversion ND as [|? ? Hx ND']; subst. simpl. rewrite (G x) by (left; reflexivity).
    assert (G' : forall r, In r t -> getq r (reqs (set_req s x QGone)) = Some QConn).
    { intros r Hr. simpl. destruct (nat_eqb_cases r x) as [[E1 E2]|[E1 E2]]; rewrite E1; [subst; contradiction|].
      apply G. right. exact Hr. }
    destruct (IH (set_req s x QGone) ND' G') as (s' & R & A & B & C & D & E).
    exists s'. split; [exact R|]. simpl in *.
    split; [congruence|]. split; [congruence|]. split; [congruence|]. split; [congruence|].
    intros r. rewrite E. destruct (Nat.eqb r x) eqn:E1; simpl.
    + destruct (memn r t); reflexivity.
    + reflexivity.
Qed.

Lemma conn_ids_spec r m : In r (conn_ids m) <-> getq r m = Some QConn.
Proof.
  unfold conn_ids. rewrite filter_In, dedup_In. split.
  - intros [_ H]. destruct (getq r m) as [[| | |]|]; try discriminate. reflexivity.
  - intros H. split; [eapply getq_in_keys; eauto|rewrite H; reflexivity].
Qed.
Lemma conn_ids_NoDup m : NoDup (conn_ids m).
Proof. unfold conn_ids. apply NoDup_filter. apply dedup_NoDup. Qed.

(* ---- the simulation ---- *)
Definition rrel (a b : rst) : Prop :=
  match a, b with
  | RSelect, RSelect | RReturned, RReturned => True
  | RShutdown, RSelect | RShutdown, RShutdown | RShutRet _, RSelect | RShutRet _, RShutdown => True
  | _, _ => False
  end.
Definition lrel (sm se : st) : Prop :=
  match lis se with
  | LFailed => lis sm = LFailed
  | LInit => lis sm <> LFailed /\ (runner se = RSelect \/ runner se = RReturned)
  | LOpen => runner se = RSelect /\ (lis sm = LOpen \/ lis sm = LClosed)
  | LClosed => lis sm = LClosed
  end.

(* sm: the model's state; se: the state of the run explain has reconstructed so far;
   t: the observable events still to come *)
Record Sim (sm se : st) (t : list event) : Prop := {
  s_canc : canc se = canc sm;
  s_resp : resp se = resp sm;
  s_run : rrel (runner sm) (runner se);
  s_lis : lrel sm se;
  s_closed : lis sm = LClosed -> runner sm <> RSelect /\ canc sm = true;
  s_q1 : forall r, started (getq r (reqs sm)) \/ started (getq r (reqs se)) ->
                   getq r (reqs se) = getq r (reqs sm);
  s_i1 : forall r, In r (accept_ids t) ->
                   getq r (reqs se) = match lis se with LInit => None | _ => Some QConn end;
  s_q3 : forall r, getq r (reqs se) = Some QConn -> In r (accept_ids t)
}.

Lemma Sim_init t : Sim init init t.
Proof.
  constructor; simpl; auto; try discriminate.
  all: try (unfold lrel; simpl; split; [discriminate|auto]).
  all: try (intros r H; discriminate).
Qed.

Lemma nonselect_init_canc s tr : Inv s tr -> runner s <> RSelect -> lis s = LInit -> canc s = true.
Proof.
  intros I R L. destruct (runner s) eqn:E; try congruence.
  - apply (iD _ _ I). left; exact E.
  - apply (iD _ _ I). right; eexists; exact E.
  - apply (t4 _ _ I) in E. destruct E as [v Hv]. apply (t3 _ _ I).
    destruct (rv_dec v) as [->|Hn]; [pose proof (t6 _ _ I Hv); congruence|eapply (t5 _ _ I); eauto].
Qed.

Lemma q1_update sm se r q : 
  (forall r, started (getq r (reqs sm)) \/ started (getq r (reqs se)) -> getq r (reqs se) = getq r (reqs sm)) ->
  ~ started (getq r (reqs sm)) -> ~ started (Some q) ->
  forall r0, started (if Nat.eqb r0 r then Some q else getq r0 (reqs sm)) \/ started (getq r0 (reqs se)) ->
             getq r0 (reqs se) = (if Nat.eqb r0 r then Some q else getq r0 (reqs sm)).
Proof.
  intros Q1 N1 N2 r0 H. destruct (nat_eqb_cases r0 r) as [[E1 E2]|[E1 E2]]; rewrite E1 in *; [|apply Q1; exact H].
  subst. destruct H as [H|H]; [contradiction|]. exfalso. apply N1. rewrite <- (Q1 r (or_intror H)). exact H.
Qed.

(* hidden steps of the model: explain's state stays *)
Lemma Sim_hidden sm se t e sm' tr : Inv sm tr -> Sim sm se t -> step sm e = Some sm' ->
  observable e = false -> Sim sm' se t.
Proof.
  intros I S H O. destruct S as [C Rp Rr Ll K Q1 I1 Q3].
  pose proof (nonselect_init_canc _ _ I) as NC.
  destruct e; try discriminate O; inv_step H; constructor; simpl; auto.
  all: try (unfold lrel in *; simpl in *; destruct (lis se); intuition congruence).
  all: try (match goal with H : runner ?x = _ |- rrel (runner ?x) _ => rewrite H; exact Rr end).
  all: try (intros _; split; [congruence|apply NC; congruence]).
  all: try (apply q1_update; [exact Q1|unfold started; intros [X|X]; congruence|unfold started; intros [X|X]; discriminate]).
  all: try (destruct (runner se); simpl in *; tauto).
  all: try (intros _; split; [discriminate|assumption]).
Qed.

Lemma accept_ids_skip e t : (forall r, e <> Accept r) -> accept_ids (e :: t) = accept_ids t.
Proof. intros H. unfold accept_ids. simpl. destruct e; try reflexivity. exfalso. eapply H; reflexivity. Qed.

Lemma lrel_LInit_of sm se : lrel sm se -> lis sm = LInit -> lis se = LInit.
Proof. unfold lrel. destruct (lis se); intuition congruence. Qed.
Lemma lrel_LFailed_of sm se : lrel sm se -> lis sm = LFailed -> lis se = LFailed.
Proof. unfold lrel. destruct (lis se); intuition congruence. Qed.

(* observable events that explain replays without inserting anything *)
Lemma Sim_simple sm se t' e sm' sf lm' tr :
  Inv sm tr -> Sim sm se (e :: t') -> step sm e = Some sm' ->
  run sm' lm' = Some sf -> t' = filter observable lm' ->
  match e with
  | ListenFail | HandlerDone _ | ClientGot _ _ | Cancel | RunnerReturn VListenErr => True
  | _ => False end ->
  exists se', step se e = Some se' /\ Sim sm' se' t'.
Proof.
  intros I S H R Ht P. pose proof (Inv_step _ _ _ _ I H) as I'.
  destruct S as [C Rp Rr Ll K Q1 I1 Q3].
  rewrite accept_ids_skip in I1, Q3 by (intros r; destruct e; try discriminate; tauto).
  assert (NF : forall r, ~ In (Accept r) lm' -> ~ In r (accept_ids t')).
  { intros r Hn Hin. apply Hn. apply in_filter_lm. rewrite <- Ht. apply accept_ids_In. exact Hin. }
  assert (FA : forall r, In r (accept_ids t') -> fresh_or_conn (getq r (reqs sm'))).
  { intros r Hin. eapply future_accept; [exact R|]. apply in_filter_lm. rewrite <- Ht. apply accept_ids_In. exact Hin. }
  ev_cases e; try tauto.
  - (* ListenFail *)
    inv_step H. pose proof (lrel_LInit_of _ _ Ll Heql) as Le.
    exists (set_lis se LFailed). split; [simpl; rewrite Le; reflexivity|].
    constructor; simpl; auto; try discriminate.
    + unfold lrel; simpl; reflexivity.
    + intros r Hin. exfalso. revert Hin. apply NF. eapply (failed_no_accept lm' _ _ sf r I'); [reflexivity|exact R].
  - (* HandlerDone *)
    inv_step H. pose proof (Q1 r0 (or_introl (or_introl Heqo))) as Qe. rewrite Heqo in Qe.
    exists (set_req se r0 QDone). split; [simpl; rewrite Qe; reflexivity|].
    constructor; simpl; auto.
    + intros r Hs. destruct (nat_eqb_cases r r0) as [[E1 E2]|[E1 E2]]; rewrite E1 in *; auto.
    + intros r Hin. destruct (nat_eqb_cases r r0) as [[E1 E2]|[E1 E2]]; rewrite E1; auto.
      subst. rewrite (I1 _ Hin) in Qe. destruct (lis se); discriminate.
    + intros r Hq. destruct (nat_eqb_cases r r0) as [[E1 E2]|[E1 E2]]; rewrite E1 in Hq; [discriminate|auto].
  - (* ClientGot true *)
    inv_step H. pose proof (Q1 r0 (or_introl (or_intror Heqo))) as Qe. rewrite Heqo in Qe.
    exists (add_resp se r0). split; [simpl; rewrite Qe, Rp, Heqb; reflexivity|].
    constructor; simpl; auto. congruence.
  - (* ClientGot false *)
    assert (Ge : getq r0 (reqs se) = None \/ getq r0 (reqs se) = Some QGone).
    { assert (Gm : getq r0 (reqs sm') = Some QGone) by (inv_step H; simpl; rewrite Nat.eqb_refl; reflexivity).
      assert (Nm : ~ started (getq r0 (reqs sm))) by (inv_step H; intros [X|X]; congruence).
      destruct (getq r0 (reqs se)) as [[| | |]|] eqn:G; auto; exfalso.
      - destruct (FA r0 (Q3 _ G)) as [X|X]; congruence.
      - apply Nm. rewrite <- (Q1 r0 (or_intror (or_introl G))). left; exact G.
      - apply Nm. rewrite <- (Q1 r0 (or_intror (or_intror G))). right; exact G. }
    assert (Nm : ~ started (getq r0 (reqs sm))) by (inv_step H; intros [X|X]; congruence).
    assert (Hm : memn r0 (resp sm) = false) by (inv_step H; reflexivity).
    assert (E' : sm' = add_resp (set_req sm r0 QGone) r0) by (inv_step H; reflexivity).
    exists (add_resp (set_req se r0 QGone) r0). split.
    { simpl. rewrite Rp, Hm. destruct Ge as [-> | ->]; reflexivity. }
    subst sm'. constructor; simpl; auto; try congruence.
    + intros r Hs. destruct (nat_eqb_cases r r0) as [[E1 E2]|[E1 E2]]; rewrite E1 in *; auto.
    + intros r Hin. destruct (nat_eqb_cases r r0) as [[E1 E2]|[E1 E2]]; rewrite E1; auto.
      subst. exfalso. specialize (FA _ Hin). simpl in FA. rewrite Nat.eqb_refl in FA. destruct FA; discriminate.
    + intros r Hq. destruct (nat_eqb_cases r r0) as [[E1 E2]|[E1 E2]]; rewrite E1 in Hq; [discriminate|auto].
  - (* Cancel *)
    inv_step H. exists (mkst (lis se) true (runner se) (reqs se) (resp se)).
    split; [simpl; rewrite C; reflexivity|].
    constructor; simpl; auto.
    + intros X. split; [apply K; exact X|reflexivity].
  - (* RunnerReturn VListenErr *)
    inv_step H. pose proof (lrel_LFailed_of _ _ Ll Heql) as Le.
    assert (Re : runner se = RSelect) by (destruct (runner se); simpl in Rr; tauto).
    exists (set_runner se RReturned). split; [simpl; rewrite Re, Le; reflexivity|].
    constructor; simpl; auto.
    + unfold lrel in *. simpl. rewrite Le in *. exact Ll.
    + intros X; congruence.
Qed.

Lemma accept_ids_cons_other r r0 t : In r (accept_ids (Accept r0 :: t)) -> r <> r0 -> In r (accept_ids t).
Proof. rewrite !accept_ids_In. simpl. intros [H|H] N; [inversion H; congruence|exact H]. Qed.
Lemma accept_ids_cons_incl r r0 t : In r (accept_ids t) -> In r (accept_ids (Accept r0 :: t)).
Proof. rewrite !accept_ids_In. simpl. auto. Qed.

Lemma Sim_accept sm se t' r0 sm' sf lm' tr :
  Inv sm tr -> Sim sm se (Accept r0 :: t') -> step sm (Accept r0) = Some sm' ->
  run sm' lm' = Some sf -> t' = filter observable lm' ->
  exists se', run se (pre_of se (Accept r0) (Accept r0 :: t') ++ [Accept r0]) = Some se' /\ Sim sm' se' t'.
Proof.
  intros I S H R Ht. pose proof (Inv_step _ _ _ _ I H) as I'.
  destruct S as [C Rp Rr Ll K Q1 I1 Q3].
  assert (FA : forall r, In r (accept_ids t') -> fresh_or_conn (getq r (reqs sm'))).
  { intros r Hin. eapply future_accept; [exact R|]. apply in_filter_lm. rewrite <- Ht. apply accept_ids_In. exact Hin. }
  assert (Gm : getq r0 (reqs sm) = Some QConn) by (inv_step H; reflexivity).
  assert (E' : sm' = set_req sm r0 QRun) by (inv_step H; reflexivity).
  assert (In0 : In r0 (accept_ids (Accept r0 :: t'))) by (apply accept_ids_In; left; reflexivity).
  assert (NotAgain : ~ In r0 (accept_ids t')).
  { intros Hin. specialize (FA _ Hin). subst sm'. simpl in FA. rewrite Nat.eqb_refl in FA. destruct FA; discriminate. }
  assert (LM : lis sm = LOpen \/ lis sm = LClosed).
  { destruct (lis sm) eqn:EL; auto; pose proof (iA _ _ I) as A; rewrite EL in A;
      [specialize (A (or_introl eq_refl) _ _ Gm)|specialize (A (or_intror eq_refl) _ _ Gm)]; discriminate. }
  subst sm'. unfold pre_of. destruct (lis se) eqn:Le.
  1: { (* first accept: listen, connect every request that will be accepted, start this one *)
    unfold lrel in Ll. rewrite Le in Ll. destruct Ll as [Lf Re].
    assert (Re' : runner se = RSelect).
    { destruct Re as [Re|Re]; [exact Re|]. exfalso. rewrite Re in Rr.
      destruct (runner sm) eqn:ER; simpl in Rr; try tauto.
      pose proof (iC _ _ I (or_introl ER) r0) as B. rewrite Gm in B. discriminate. }
    destruct (run_conns (accept_ids (Accept r0 :: t')) (set_lis se LOpen) (accept_ids_NoDup _) eq_refl)
      as (s1 & R1 & A1 & B1 & C1 & D1 & E1).
    { intros r Hin. simpl. rewrite (I1 _ Hin). reflexivity. }
    simpl in A1, B1, C1, D1, E1.
    assert (G0 : getq r0 (reqs s1) = Some QConn).
    { rewrite E1. apply memn_In in In0. rewrite In0. reflexivity. }
    exists (set_req s1 r0 QRun). split.
    { assert (S0 : step se ListenOk = Some (set_lis se LOpen)) by (simpl; rewrite Le, Re'; reflexivity).
      simpl app. cbn [run]. rewrite S0. rewrite run_app, R1. simpl. rewrite G0. reflexivity. }
    constructor; simpl; try congruence.
    + unfold lrel. simpl. rewrite A1. split; [congruence|exact LM].
    + exact K.
    + intros r Hs. destruct (nat_eqb_cases r r0) as [[X1 X2]|[X1 X2]]; rewrite X1 in *; auto.
      rewrite E1 in *. destruct (memn r (accept_ids (Accept r0 :: t'))) eqn:M.
      * destruct Hs as [Hs|[Hs|Hs]]; try discriminate.
        -- apply memn_In in M. pose proof (Q1 r (or_introl Hs)) as X. rewrite (I1 _ M) in X.
           destruct Hs as [Hs|Hs]; congruence.
      * apply Q1. exact Hs.
    + intros r Hin. rewrite A1. destruct (nat_eqb_cases r r0) as [[X1 X2]|[X1 X2]]; [subst; contradiction|rewrite X1].
      rewrite E1. pose proof (accept_ids_cons_incl r r0 t' Hin) as M. apply memn_In in M. rewrite M. reflexivity.
    + intros r Hq. destruct (nat_eqb_cases r r0) as [[X1 X2]|[X1 X2]]; rewrite X1 in Hq; [discriminate|].
      rewrite E1 in Hq. destruct (memn r (accept_ids (Accept r0 :: t'))) eqn:M.
      * apply memn_In in M. eapply accept_ids_cons_other; eauto.
      * eapply accept_ids_cons_other; eauto. }
  all: (rewrite (I1 _ In0); simpl; rewrite (I1 _ In0);
        exists (set_req se r0 QRun); split; [reflexivity|];
        constructor; simpl; auto;
        try solve [ unfold lrel in *; simpl; rewrite Le in *; exact Ll ];
        try solve [ intros r Hs; destruct (nat_eqb_cases r r0) as [[X1 X2]|[X1 X2]]; rewrite X1 in *; auto ];
        try solve [ intros r Hin; rewrite Le; destruct (nat_eqb_cases r r0) as [[X1 X2]|[X1 X2]]; [subst; contradiction|rewrite X1];
          rewrite (I1 _ (accept_ids_cons_incl r r0 t' Hin)); reflexivity ];
        try solve [ intros r Hq; destruct (nat_eqb_cases r r0) as [[X1 X2]|[X1 X2]]; rewrite X1 in Hq; [discriminate|];
          eapply accept_ids_cons_other; eauto ]).
Qed.

Lemma Sim_refused sm se t' sm' sf lm' tr :
  Inv sm tr -> Sim sm se (Refused :: t') -> step sm Refused = Some sm' ->
  run sm' lm' = Some sf -> t' = filter observable lm' ->
  exists se', run se (pre_of se Refused (Refused :: t') ++ [Refused]) = Some se' /\ Sim sm' se' t'.
Proof.
  intros I S H R Ht.
  destruct S as [C Rp Rr Ll K Q1 I1 Q3].
  rewrite accept_ids_skip in I1, Q3 by (intros r; discriminate).
  assert (E' : sm' = sm /\ lis sm <> LOpen) by (inv_step H; split; congruence).
  destruct E' as [-> Lm].
  unfold pre_of. destruct (lis se) eqn:Le.
  2: { (* explain still has the listener open: Shutdown has been called in the model *)
    unfold lrel in Ll. rewrite Le in Ll. destruct Ll as [Re [Lo|Lc]]; [contradiction|].
    destruct (K Lc) as [Rm Cm]. rewrite Re.
    exists (mkst LClosed (canc se) RShutdown (reqs se) (resp se)). split.
    { simpl. rewrite Re, C, Cm, Le. reflexivity. }
    constructor; simpl; auto.
    rewrite Re in Rr. destruct (runner sm); simpl in *; tauto. }
  all: (exists se; split; [simpl; rewrite Le; destruct (runner se); reflexivity|];
        constructor; auto; try solve [unfold lrel; rewrite Le; exact Ll]; try solve [rewrite Le; exact I1]).
Qed.

Lemma finish_shutdown s0 b : runner s0 = RShutdown ->
  (forall r, getq r (reqs s0) <> Some QRun) ->
  exists s', run s0 (map Drop (conn_ids (reqs s0)) ++ [ShutdownReturn b; RunnerReturn (if b then VOther else VNil)]) = Some s' /\
             lis s' = lis s0 /\ canc s' = canc s0 /\ runner s' = RReturned /\ resp s' = resp s0 /\
             forall r, getq r (reqs s') = if memn r (conn_ids (reqs s0)) then Some QGone else getq r (reqs s0).
Proof.
  intros HR NR.
  destruct (run_drops (conn_ids (reqs s0)) s0 (conn_ids_NoDup _)) as (s1 & R1 & A1 & B1 & C1 & D1 & E1).
  { intros r Hr. apply conn_ids_spec. exact Hr. }
  assert (Q : quiet (reqs s1) = true).
  { apply quiet_intro. intros r. rewrite E1. destruct (memn r (conn_ids (reqs s0))) eqn:M; [reflexivity|].
    destruct (getq r (reqs s0)) as [[| | |]|] eqn:G; try reflexivity.
    - assert (X : In r (conn_ids (reqs s0))) by (apply conn_ids_spec; exact G). apply memn_In in X. congruence.
    - exfalso. exact (NR r G). }
  exists (set_runner (set_runner s1 (RShutRet b)) RReturned). split.
  { rewrite run_app, R1. simpl. rewrite C1, HR, Q. destruct b; reflexivity. }
  simpl. repeat split; auto.
Qed.

Lemma Sim_return sm se t' v sm' sf lm' tr :
  Inv sm tr -> Sim sm se (RunnerReturn v :: t') -> step sm (RunnerReturn v) = Some sm' -> v <> VListenErr ->
  run sm' lm' = Some sf -> t' = filter observable lm' ->
  exists se', run se (pre_of se (RunnerReturn v) (RunnerReturn v :: t') ++ [RunnerReturn v]) = Some se' /\ Sim sm' se' t'.
Proof.
  intros I S H Hv R Ht. pose proof (Inv_step _ _ _ _ I H) as I'.
  destruct S as [C Rp Rr Ll K Q1 I1 Q3].
  rewrite accept_ids_skip in I1, Q3 by (intros r; discriminate).
  set (b := match v with VOther => true | _ => false end).
  assert (Ev : v = if b then VOther else VNil) by (destruct v; try reflexivity; congruence).
  assert (Rm : runner sm = RShutRet b) by (destruct v; inv_step H; try congruence; reflexivity).
  assert (E' : sm' = set_runner sm RReturned) by (destruct v; inv_step H; try congruence; reflexivity).
  assert (Cm : canc sm = true) by (apply (iD _ _ I); right; eexists; exact Rm).
  assert (Lm : lis sm <> LOpen) by (apply (iB _ _ I); congruence).
  assert (Bm : forall r, busy (getq r (reqs sm)) = false) by (apply (iC _ _ I); right; eexists; exact Rm).
  assert (NA : forall r, ~ In r (accept_ids t')).
  { intros r Hin. apply (proj1 (accept_ids_In _ _)) in Hin. rewrite Ht in Hin. apply (proj1 (in_filter_lm _ _)) in Hin.
    assert (HR' : runner sm' = RReturned) by (subst sm'; reflexivity).
    exact (returned_no_accept lm' sm' _ sf r I' HR' R Hin). }
  assert (NRe : forall r, getq r (reqs se) <> Some QRun).
  { intros r G. pose proof (Q1 r (or_intror (or_introl G))) as X. specialize (Bm r). rewrite <- X, G in Bm. discriminate. }
  assert (Main : forall s0, runner s0 = RShutdown -> reqs s0 = reqs se -> canc s0 = canc se -> resp s0 = resp se ->
            lis s0 = match lis se with LOpen => LClosed | l => l end ->
            exists se', run s0 (map Drop (conn_ids (reqs se)) ++ [ShutdownReturn b; RunnerReturn v]) = Some se' /\ Sim sm' se' t').
  { intros s0 R0 Q0 C0 P0 L0.
    destruct (finish_shutdown s0 b R0) as (s' & R1 & A1 & B1 & C1 & D1 & E1).
    { rewrite Q0. exact NRe. }
    rewrite Q0 in *. rewrite <- Ev in R1. exists s'. split; [exact R1|].
    subst sm'. constructor; simpl; try congruence.
    - rewrite C1. simpl. trivial.
    - unfold lrel in *. rewrite A1, L0. destruct (lis se) eqn:Le; simpl; auto.
      + split; [tauto|auto].
      + destruct Ll as [_ [X|X]]; congruence.
    - intros X. split; [congruence|exact Cm].
    - intros r Hs. rewrite E1 in *. destruct (memn r (conn_ids (reqs se))) eqn:M.
      + apply memn_In in M. apply conn_ids_spec in M. destruct Hs as [Hs|[Hs|Hs]]; try discriminate.
        pose proof (Q1 r (or_introl Hs)) as X. rewrite M in X. destruct Hs as [Hs|Hs]; congruence.
      + apply Q1. exact Hs.
    - intros r Hin. exfalso. exact (NA r Hin).
    - intros r Hq. rewrite E1 in Hq. destruct (memn r (conn_ids (reqs se))) eqn:M; [discriminate|].
      assert (X : In r (conn_ids (reqs se))) by (apply conn_ids_spec; exact Hq). apply memn_In in X. congruence. }
  assert (Rse : runner se = RSelect \/ runner se = RShutdown).
  { rewrite Rm in Rr. destruct (runner se); simpl in Rr; tauto. }
  assert (Pre : pre_of se (RunnerReturn v) (RunnerReturn v :: t') =
                match runner se with
                | RShutRet _ => []
                | RSelect => ShutdownCall :: map Drop (conn_ids (reqs se)) ++ [ShutdownReturn b]
                | _ => map Drop (conn_ids (reqs se)) ++ [ShutdownReturn b]
                end).
  { unfold pre_of, b. destruct v; try reflexivity. congruence. }
  rewrite Pre. destruct Rse as [Re|Re]; rewrite Re.
  - destruct (Main (mkst (match lis se with LOpen => LClosed | l => l end) (canc se) RShutdown (reqs se) (resp se)))
      as (se' & R1 & S1); try reflexivity.
    exists se'. split; [|exact S1].
    simpl app. cbn [run]. 
    assert (S0 : step se ShutdownCall = Some (mkst (match lis se with LOpen => LClosed | l => l end) (canc se) RShutdown (reqs se) (resp se))).
    { simpl. rewrite Re, C, Cm. reflexivity. }
    rewrite S0. rewrite <- app_assoc. simpl app. exact R1.
  - destruct (Main se Re eq_refl eq_refl eq_refl) as (se' & R1 & S1).
    { unfold lrel in Ll. destruct (lis se); auto. destruct Ll as [X _]. congruence. }
    exists se'. split; [|exact S1]. rewrite <- app_assoc. simpl app. exact R1.
Qed.

(* ---- completeness ---- *)
Lemma filter_map_hidden {A} (f : A -> event) l : (forall x, observable (f x) = false) ->
  filter observable (map f l) = [].
Proof. intros H. induction l as [|x t IH]; simpl; [reflexivity|]. rewrite H. exact IH. Qed.

Lemma pre_hidden s e t : filter observable (pre_of s e t) = [].
Proof.
  unfold pre_of. destruct e; try reflexivity.
  - destruct (lis s); simpl; try (destruct (getq r (reqs s)); reflexivity).
    apply filter_map_hidden. reflexivity.
  - destruct v; try reflexivity; destruct (runner s); try reflexivity; simpl;
      rewrite filter_app, filter_map_hidden by reflexivity; reflexivity.
  - destruct (lis s); try reflexivity. destruct (runner s); reflexivity.
Qed.

Lemma final_final_b s : final s -> final_b s = true.
Proof.
  intros [H1 H2]. unfold final_b. rewrite H1. simpl. apply forallb_forall. intros k _.
  destruct (getq k (reqs s)) as [[| | |]|] eqn:G; auto.
Qed.

Lemma list_eqb_event_refl l : list_eqb event_eqb l l = true.
Proof. apply (list_eqb_eq event_eqb event_eqb_eq). reflexivity. Qed.

Lemma complete_aux lm : forall sm se tr sf,
  run sm lm = Some sf -> final sf -> Inv sm tr -> Sim sm se (filter observable lm) ->
  exists se', run se (explain se (filter observable lm)) = Some se' /\ final se' /\
              filter observable (explain se (filter observable lm)) = filter observable lm.
Proof.
  induction lm as [|e lm' IH]; intros sm se tr sf R F I S.
  - simpl in *. inversion R; subst. exists se. split; [reflexivity|]. split; [|reflexivity].
    destruct S as [C Rp Rr Ll K Q1 I1 Q3]. destruct F as [F1 F2]. split.
    + rewrite F1 in Rr. destruct (runner se); simpl in Rr; tauto.
    + intros r G. rewrite Rp. apply F2. rewrite <- (Q1 r (or_intror (or_intror G))). exact G.
  - simpl in R. destruct (step sm e) as [sm1|] eqn:E; [|discriminate].
    pose proof (Inv_step _ _ _ _ I E) as I1.
    simpl filter in *. destruct (observable e) eqn:O.
    + assert (X : exists se1, run se (pre_of se e (e :: filter observable lm') ++ [e]) = Some se1 /\
                              Sim sm1 se1 (filter observable lm')).
      { destruct e; try discriminate O.
        - destruct (Sim_simple _ _ _ _ _ _ _ _ I S E R eq_refl Logic.I) as (se1 & A & B).
          exists se1. split; [cbn [pre_of app run]; rewrite A; reflexivity|exact B].
        - exact (Sim_accept _ _ _ _ _ _ _ _ I S E R eq_refl).
        - destruct (Sim_simple _ _ _ _ _ _ _ _ I S E R eq_refl Logic.I) as (se1 & A & B).
          exists se1. split; [cbn [pre_of app run]; rewrite A; reflexivity|exact B].
        - destruct (Sim_simple _ _ _ _ _ _ _ _ I S E R eq_refl Logic.I) as (se1 & A & B).
          exists se1. split; [cbn [pre_of app run]; rewrite A; reflexivity|exact B].
        - destruct (Sim_simple _ _ _ _ _ _ _ _ I S E R eq_refl Logic.I) as (se1 & A & B).
          exists se1. split; [cbn [pre_of app run]; rewrite A; reflexivity|exact B].
        - destruct v.
          + refine (Sim_return _ _ _ _ _ _ _ _ I S E _ R eq_refl). discriminate.
          + destruct (Sim_simple _ _ _ _ _ _ _ _ I S E R eq_refl Logic.I) as (se1 & A & B).
            exists se1. split; [cbn [pre_of app run]; rewrite A; reflexivity|exact B].
          + refine (Sim_return _ _ _ _ _ _ _ _ I S E _ R eq_refl). discriminate.
        - exact (Sim_refused _ _ _ _ _ _ _ I S E R eq_refl).
        - discriminate E. }
      destruct X as (se1 & R1 & S1).
      destruct (IH sm1 se1 _ sf R F I1 S1) as (se' & R2 & F2 & P2).
      exists se'. rewrite explain_cons, R1. split; [rewrite run_app, R1; exact R2|]. split; [exact F2|].
      rewrite !filter_app, pre_hidden, P2. simpl. rewrite O. reflexivity.
    + exact (IH sm1 se _ sf R F I1 (Sim_hidden _ _ _ _ _ _ I S E O)).
Qed.

Lemma accepts_complete ls s : run init ls = Some s -> final s -> accepts_b (filter observable ls) = true.
Proof.
  intros R F. destruct (complete_aux ls init init [] s R F Inv_init (Sim_init _)) as (se' & R2 & F2 & P2).
  unfold accepts_b. apply andb_true_iff. split.
  - apply forallb_forall. intros x Hx. apply filter_In in Hx. apply Hx.
  - rewrite R2, P2, (final_final_b _ F2), list_eqb_event_refl. reflexivity.
Qed.

Lemma accepts_exact t :
  accepts_b t = true <-> exists ls s, run init ls = Some s /\ final s /\ filter observable ls = t.
Proof.
  split; [exact (accepts_sound t)|].
  intros (ls & s & R & F & <-). exact (accepts_complete ls s R F).
Qed.
