(* C19 - proofs, part e: connections that take the h2c upgrade (hijacked, outside Shutdown).
   The finding as a refutation with its witness history; the property for every schedule without
   upgraded connections (in particular: every schedule when use_h2c is off); timeouts only close
   connections whose request has not started. *)
Require Import Verif.Common.Base.
Require Import Verif.Model.C19 Verif.Spec.C19 Verif.Proof.C19_a Verif.Proof.C19.

(* the base part of an extended run is a run of the base system, whatever the hijacked requests do *)
Lemma xstep_base h s e s' : xstep h s e = Some s' ->
  match e with
  | XB b => step (xb s) b = Some (xb s')
  | _ => xb s' = xb s
  end.
Proof.
  destruct e as [b|r|r|r f]; simpl; intros H.
  - destruct (introduces b) as [r|]; [destruct (geth r (xh s)); [discriminate|]|];
      destruct (step (xb s) b); simpl in H; inversion H; reflexivity.
  - destruct h; [|discriminate]. destruct (lis (xb s)), (getq r (reqs (xb s))), (geth r (xh s));
      try discriminate; inversion H; reflexivity.
  - destruct (geth r (xh s)) as [[|]|]; try discriminate; inversion H; reflexivity.
  - destruct f.
    + destruct (geth r (xh s)) as [[|]|]; try discriminate. destruct (memn r (xresp s)); inversion H; reflexivity.
    + destruct (geth r (xh s)); [|discriminate]. destruct (runner (xb s)); try discriminate.
      destruct (memn r (xresp s)); inversion H; reflexivity.
Qed.

Lemma xrun_base h xs : forall s s', xrun h s xs = Some s' -> run (xb s) (unbase xs) = Some (xb s').
Proof.
  induction xs as [|e r IH]; simpl; intros s s' H.
  - inversion H; reflexivity.
  - destruct (xstep h s e) as [s1|] eqn:E; [|discriminate].
    pose proof (xstep_base _ _ _ _ E) as B. specialize (IH _ _ H).
    destruct e as [b|x|x|x f]; simpl.
    + rewrite B. exact IH.
    + rewrite <- B. exact IH.
    + rewrite <- B. exact IH.
    + rewrite <- B. exact IH.
Qed.

Lemma xtrace_base xs : forallb is_base xs = true -> xtrace xs = filter observable (unbase xs).
Proof.
  induction xs as [|e r IH]; simpl; intros H; [reflexivity|].
  apply andb_true_iff in H. destruct H as [H1 H2]. destruct e; try discriminate H1.
  simpl. rewrite (IH H2). destruct (observable e); reflexivity.
Qed.

(* with use_h2c off nothing is ever hijacked: every enabled event is a base event *)
Lemma no_h2c_all_base xs : forall s s', xh s = [] -> xrun false s xs = Some s' ->
  forallb is_base xs = true.
Proof.
  induction xs as [|e r IH]; simpl; intros s s' Hh H; [reflexivity|].
  destruct (xstep false s e) as [s1|] eqn:E; [|discriminate].
  destruct e as [b|x|x|x f]; simpl in *.
  - apply (IH s1 s'); [|exact H].
    destruct (introduces b) as [k|]; [destruct (geth k (xh s)); [discriminate|]|];
      destruct (step (xb s) b); simpl in E; inversion E; simpl; exact Hh.
  - discriminate.
  - rewrite Hh in E. discriminate.
  - rewrite Hh in E. destruct f; discriminate.
Qed.

(* the property, for every schedule without upgraded connections *)
Lemma no_upgrade_graceful h xs s : xrun h xinit xs = Some s -> forallb is_base xs = true ->
  final (xb s) -> graceful (xtrace xs).
Proof.
  intros R B F. rewrite (xtrace_base _ B). apply graceful_filter.
  apply (model_graceful (unbase xs) (xb s)); [|exact F].
  exact (xrun_base h xs xinit s R).
Qed.

Lemma h2c_off_graceful xs s : xrun false xinit xs = Some s -> final (xb s) -> graceful (xtrace xs).
Proof.
  intros R F. apply (no_upgrade_graceful false xs s R); [|exact F].
  exact (no_h2c_all_base xs xinit s eq_refl R).
Qed.

(* the finding: use_h2c on, one request on an upgraded connection in flight at the cancellation *)
Definition h2c_witness : list xevent :=
  [XB ListenOk; XUpgrade 0; XB Cancel; XB ShutdownCall; XB (ShutdownReturn false);
   XB (RunnerReturn VNil); XUpDone 0; XUpGot 0 true; XB Refused].

Lemma h2c_upgrade_refuted :
  exists s, xrun true xinit h2c_witness = Some s /\ final (xb s) /\
            xtrace h2c_witness = [Accept 0; Cancel; RunnerReturn VNil; HandlerDone 0; ClientGot 0 true; Refused] /\
            ~ G1 (xtrace h2c_witness) /\ ~ graceful (xtrace h2c_witness).
Proof.
  destruct (xrun true xinit h2c_witness) as [s|] eqn:E; [|vm_compute in E; discriminate].
  exists s. split; [reflexivity|]. split.
  - apply final_b_final. vm_compute in E. inversion E. reflexivity.
  - split; [reflexivity|]. split.
    + intros G. apply g1_b_spec in G. vm_compute in G. discriminate.
    + intros G. apply graceful_b_spec in G. vm_compute in G. discriminate.
Qed.

(* ... while the same schedule with the offer ignored (use_h2c off) is not a schedule at all:
   the upgrade step is disabled *)
Lemma h2c_off_no_upgrade s r : xstep false s (XUpgrade r) = None.
Proof. reflexivity. Qed.

(* Timeouts (read, read-header, idle) close connections; in the model that is Drop, enabled only for a
   connection whose request has not started: no running or finished request is touched, nor the runner *)
Lemma drop_spares_started s r s' : step s (Drop r) = Some s' ->
  getq r (reqs s) = Some QConn /\ lis s' = lis s /\ canc s' = canc s /\ runner s' = runner s /\
  forall r', started (getq r' (reqs s)) -> getq r' (reqs s') = getq r' (reqs s).
Proof.
  intros H. inv_step H. simpl. repeat split; auto.
  intros r' S. destruct (nat_eqb_cases r' r) as [[E1 E2]|[E1 E2]]; rewrite E1; [|reflexivity].
  subst. destruct S as [S|S]; congruence.
Qed.

(* every non-upgraded request keeps the whole property, whatever the upgraded ones do: the base part
   of any extended run is a base run *)
Lemma base_part_safe h xs s : xrun h xinit xs = Some s -> safe (filter observable (unbase xs)).
Proof. intros R. apply safe_filter. exact (model_safe _ _ (xrun_base h xs xinit s R)). Qed.

Lemma base_part_graceful h xs s : xrun h xinit xs = Some s -> final (xb s) ->
  graceful (filter observable (unbase xs)).
Proof. intros R F. apply graceful_filter. exact (model_graceful _ _ (xrun_base h xs xinit s R) F). Qed.

(* the inclusion check for traces with upgraded requests is sound (validated guess) *)
Lemma xaccepts_sound ups t : xaccepts_b ups t = true ->
  exists xs s, xrun true xinit xs = Some s /\ final (xb s) /\ xtrace xs = t.
Proof.
  unfold xaccepts_b. intros H. apply andb_true_iff in H. destruct H as [_ H].
  destruct (xrun true xinit (xexplain ups t)) as [s|] eqn:E; [|discriminate].
  apply andb_true_iff in H. destruct H as [H1 H2].
  exists (xexplain ups t), s. split; [exact E|]. split; [apply final_b_final; exact H1|].
  apply list_eqb_event. exact H2.
Qed.

Lemma ext_model_meets_oracle h xs s : xrun h xinit xs = Some s -> forallb is_base xs = true ->
  final (xb s) -> graceful_b (xtrace xs) = true.
Proof. intros R B F. apply graceful_b_spec. eapply no_upgrade_graceful; eauto. Qed.
