(* C09 - proofs, part 1: capitalisation agreement, rejection of undeclared parameters,
   soundness of the Init oracle. *)
Require Import Verif.Common.Base Verif.Model.C09 Verif.Spec.C09.

(* ---- the two library casers agree on every one-byte string ---- *)
Lemma title_byte c : title_und (String c EmptyString) = String (to_upper c) EmptyString.
Proof.
  destruct c as [b0 b1 b2 b3 b4 b5 b6 b7];
  destruct b0, b1, b2, b3, b4, b5, b6, b7; vm_compute; reflexivity.
Qed.

Lemma mime_byte c : mime_canon (String c EmptyString) = String (to_upper c) EmptyString.
Proof.
  destruct c as [b0 b1 b2 b3 b4 b5 b6 b7];
  destruct b0, b1, b2, b3, b4, b5, b6, b7; vm_compute; reflexivity.
Qed.

Lemma config_cap_cons c r : config_cap (String c r) = String (to_upper c) r.
Proof. unfold config_cap. simpl first1. rewrite title_byte. reflexivity. Qed.

Lemma adapter_cap_cons a c r : adapter_cap a (String c r) = String (to_upper c) r.
Proof. destruct a; unfold adapter_cap; simpl first1; rewrite ?title_byte, ?mime_byte; reflexivity. Qed.

Lemma caps_agree_all a n : adapter_cap a n = config_cap n.
Proof.
  destruct n as [|c r].
  - destruct a; reflexivity.
  - rewrite adapter_cap_cons, config_cap_cons. reflexivity.
Qed.

Lemma caps_agree a n : grammar n -> adapter_cap a n = config_cap n.
Proof. intros _. apply caps_agree_all. Qed.

(* what the key is: the first character upper-cased, nothing else touched *)
Lemma cap_first_only n : config_cap n = match n with EmptyString => EmptyString | String c r => String (to_upper c) r end.
Proof. destruct n; [reflexivity|apply config_cap_cons]. Qed.

(* the defect repaired by 8883a27, on the model of the library: title-casing the whole key
   differs from what the configuration does *)
Lemma whole_title_differs : title_und "userId" <> config_cap "userId".
Proof. vm_compute. discriminate. Qed.

(* ---- sort / dedup keep membership ---- *)
Lemma in_insert_sorted x y l : In x (insert_sorted y l) <-> x = y \/ In x l.
Proof.
  induction l as [|z r IH]; simpl.
  - split; [intros [H|[]]; auto|intros [H|[]]; auto].
  - destruct (str_leb y z); simpl.
    + split; [intros [H|H]; auto|intros [H|H]; auto].
    + rewrite IH. split; [intros [H|[H|H]]; auto|intros [H|[H|H]]; auto].
Qed.

Lemma in_sort_str x l : In x (sort_str l) <-> In x l.
Proof.
  induction l as [|y r IH]; simpl; [tauto|].
  rewrite in_insert_sorted, IH. split; [intros [H|H]; auto|intros [H|H]; auto].
Qed.

Lemma in_dedup_adj x l : In x (dedup_adj l) <-> In x l.
Proof.
  induction l as [|y r IH]; [simpl; tauto|].
  destruct r as [|z r'].
  - simpl. tauto.
  - change (dedup_adj (y :: z :: r')) with (if str_eqb y z then dedup_adj (z :: r') else y :: dedup_adj (z :: r')).
    destruct (str_eqb y z) eqn:E.
    + apply str_eqb_eq in E. subst z. rewrite IH. simpl. tauto.
    + simpl In at 1. rewrite IH. simpl. tauto.
Qed.

Lemma str_mem_false x l : str_mem x l = false <-> ~ In x l.
Proof.
  split.
  - intros H Hin. apply str_mem_In in Hin. congruence.
  - intros H. destruct (str_mem x l) eqn:E; [apply str_mem_In in E; contradiction|reflexivity].
Qed.

(* ---- the loop rejects as soon as one distinct output is neither declared nor a reference ---- *)
Lemma loop_rejects ins n : seq_ref n = false -> ~ In n ins ->
  forall outs pat keys, In n outs -> exists why, rewrite_loop ins outs pat keys = Rejected why.
Proof.
  intros Hs Hn. induction outs as [|o r IH]; intros pat keys Hin; [destruct Hin|].
  simpl. destruct (negb (seq_ref o) && negb (str_mem o ins)) eqn:E; [eauto|].
  destruct Hin as [->|Hin]; [|apply IH; exact Hin].
  rewrite Hs in E. apply str_mem_false in Hn. rewrite Hn in E. discriminate.
Qed.

Lemma rejects_undeclared ep be n :
  In n (backend_outputs (clean_path be)) -> seq_ref n = false ->
  ~ In n (endpoint_params (clean_path ep)) ->
  exists why, init ep be = Rejected why.
Proof.
  intros Hin Hs Hn. unfold init.
  destruct (invalid_endpoint (clean_path ep)); [eauto|].
  destruct (ambiguous (endpoint_params (clean_path ep))); [eauto|].
  unfold unique_output.
  match goal with |- context [(?a <? ?b)%nat] => destruct (a <? b)%nat end; [eauto|].
  apply loop_rejects with (n := n); auto.
  apply in_dedup_adj, in_sort_str. exact Hin.
Qed.

(* token level: the same for tokenised inputs needs the scanners to read the tokens back;
   see Proof/C09_text.v *)

(* ---- the Init oracle says what the Prop says ---- *)
Lemma undeclared_b_iff declared used : undeclared_b declared used = true <-> Undeclared declared used.
Proof.
  unfold undeclared_b, Undeclared. rewrite existsb_exists. split.
  - intros [n [Hin H]]. apply andb_true_iff in H. destruct H as [H1 H2].
    apply negb_true_iff in H1. apply negb_true_iff in H2. apply str_mem_false in H2. eauto.
  - intros [n [Hin [H1 H2]]]. exists n. split; [exact Hin|].
    rewrite H1. apply str_mem_false in H2. rewrite H2. reflexivity.
Qed.

Lemma spec_init_sound declared used acc :
  spec_init_b declared used acc = true <-> (Undeclared declared used -> acc = false).
Proof.
  unfold spec_init_b. rewrite orb_true_iff, !negb_true_iff. split.
  - intros [H|H] Hu; [|exact H]. apply undeclared_b_iff in Hu. congruence.
  - intros H. destruct (undeclared_b declared used) eqn:E; [right; apply H, undeclared_b_iff, E|left; reflexivity].
Qed.

(* the model's Init satisfies the Init oracle on every raw input *)
Lemma init_meets_oracle ep be :
  spec_init_b (endpoint_params (clean_path ep)) (backend_outputs (clean_path be))
              (match init ep be with Accepted _ _ => true | Rejected _ => false end) = true.
Proof.
  apply spec_init_sound. intros [n [Hin [Hs Hn]]].
  destruct (rejects_undeclared ep be n Hin Hs Hn) as [w ->]. reflexivity.
Qed.

(* ---- configurations with several endpoints ---- *)
From Coq Require Import Permutation.

Lemma config_conjunction eps :
  init_config eps = true <->
  forall e, In e eps -> exists p k, init (fst e) (snd e) = Accepted p k.
Proof.
  unfold init_config. rewrite forallb_forall. split.
  - intros H e Hin. specialize (H e Hin). destruct (init (fst e) (snd e)); [eauto|discriminate].
  - intros H e Hin. destruct (H e Hin) as [p [k ->]]. reflexivity.
Qed.

Lemma config_order_independent eps eps' :
  Permutation eps eps' -> init_config eps = init_config eps'.
Proof.
  intros Hp. destruct (init_config eps) eqn:E.
  - symmetry. apply config_conjunction. intros e Hin.
    apply (proj1 (config_conjunction eps) E). eapply Permutation_in; [apply Permutation_sym, Hp|exact Hin].
  - destruct (init_config eps') eqn:E'; [|reflexivity].
    assert (init_config eps = true); [|congruence].
    apply config_conjunction. intros e Hin.
    apply (proj1 (config_conjunction eps') E'). eapply Permutation_in; [exact Hp|exact Hin].
Qed.

Lemma config_rejects_undeclared eps ep be n :
  In (ep, be) eps ->
  In n (backend_outputs (clean_path be)) -> seq_ref n = false ->
  ~ In n (endpoint_params (clean_path ep)) ->
  init_config eps = false.
Proof.
  intros Hin Hn Hs Hd. destruct (init_config eps) eqn:E; [|reflexivity].
  destruct (proj1 (config_conjunction eps) E (ep, be) Hin) as [p [k Hacc]]. cbn [fst snd] in Hacc.
  destruct (rejects_undeclared ep be n Hn Hs Hd) as [w Hw]. congruence.
Qed.
