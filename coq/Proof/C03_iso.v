(* C03 - value level: in the schedule-free semantics every pipeline that reaches the http
   proxy reads a log that depends only on its own backend's configuration and on the VALUES of
   the client's request - not on which objects hold them, not on the siblings.  Hence every
   attempt of every backend is handed exactly what it is handed as the only backend. *)
Require Import Verif.Common.Base Verif.Common.Heap Verif.Model.C03 Verif.Spec.C03.
Require Import Verif.Proof.C03 Verif.Proof.C03_rf.

Local Notation heap := (obj -> val).
Local Notation upd := (Heap.upd obj_eqb).
Local Notation exp_log := (Heap.exp_log obj_eqb).
Local Notation kids := (Heap.kids obj_eqb).
Local Notation thread_logs := (Heap.thread_logs obj_eqb).

(* ---------- straight-line semantics ---------- *)
Fixpoint after (l : list acc) (sh : heap) : heap :=
  match l with
  | [] => sh
  | Rd _ :: r => after r sh
  | Wr o v :: r => after r (upd sh o v)
  end.

Lemma exp_log_app (l1 l2 : list acc) (sh : heap) :
  exp_log (map Acc (l1 ++ l2)) sh = (exp_log (map Acc l1) sh ++ exp_log (map Acc l2) (after l1 sh))%list.
Proof.
  revert sh. induction l1 as [|[o|o v] r IH]; intros sh; cbn; auto. rewrite IH. reflexivity.
Qed.
Lemma after_app (l1 l2 : list acc) (sh : heap) : after (l1 ++ l2) sh = after l2 (after l1 sh).
Proof. revert sh. induction l1 as [|[o|o v] r IH]; intros sh; cbn; auto. Qed.
Lemma kids_acc (l : list acc) (p : prog) path (sh : heap) n : kids (map Acc l ++ p) path sh n = kids p path (after l sh) n.
Proof. revert sh. induction l as [|[o|o v] r IH]; intros sh; cbn; auto. Qed.
Lemma kids_acc_nil (l : list acc) path (sh : heap) n : kids (map Acc l) path sh n = [].
Proof. revert sh. induction l as [|[o|o v] r IH]; intros sh; cbn; auto. Qed.
Lemma kids_fork (q r : prog) path (sh : heap) n :
  kids (Fork q :: r) path sh n = (thread_logs (path ++ [n]) q sh 0 ++ kids r path sh (S n))%list.
Proof. cbn [Heap.kids]. rewrite (kid_logs_fork obj val obj_eqb). reflexivity. Qed.

(* ---------- agreement between a shadow heap and a pipeline's knowledge ---------- *)
Definition ag (sh : heap) (s : pst) : Prop := typed s /\ forall f, sh (pv s f) = px s f.

Lemma obj_eqb_refl' o : obj_eqb o o = true.
Proof. apply obj_eqb_spec. reflexivity. Qed.
Lemma obj_eqb_fld_neq a b : o_fld a <> o_fld b -> obj_eqb a b = false.
Proof.
  intros H. destruct (obj_eqb a b) eqn:E; [|reflexivity]. apply obj_eqb_spec in E. subst. congruence.
Qed.
Lemma field_eqb_refl f : field_eqb f f = true.
Proof. destruct f; reflexivity. Qed.

(* writing an object with the value the state already knows for that field keeps agreement *)
Lemma ag_frame sh s o v : ag sh s -> v = px s (o_fld o) -> ag (upd sh o v) s.
Proof.
  intros [Hty Hag] Hv. split; [exact Hty|]. intros f. unfold Heap.upd.
  destruct (obj_eqb (pv s f) o) eqn:E; [|apply Hag].
  apply obj_eqb_spec in E. subst o. rewrite Hty in Hv. exact Hv.
Qed.

(* ---------- middlewares as view-independent operation lists ---------- *)
Inductive op := ORd (f : field) | OWr (f : field) (v : val) | ONew (f : field) (st : site) (v : val).

Fixpoint interp (own : owner) (ops : list op) (s : pst) : list acc * pst :=
  match ops with
  | [] => ([], s)
  | ORd f :: r => (Rd (pv s f) :: fst (interp own r s), snd (interp own r s))
  | OWr f v :: r =>
      let s1 := {| pv := pv s; px := vset (px s) f v |} in
      (Wr (pv s f) v :: fst (interp own r s1), snd (interp own r s1))
  | ONew f st v :: r =>
      let s1 := {| pv := vset (pv s) f (Ob own st f); px := vset (px s) f v |} in
      (Wr (Ob own st f) v :: fst (interp own r s1), snd (interp own r s1))
  end.
(* what the operations read, and the values afterwards: functions of the values alone *)
Fixpoint oplog (ops : list op) (x : vals) : list val :=
  match ops with
  | [] => []
  | ORd f :: r => x f :: oplog r x
  | OWr f v :: r => oplog r (vset x f v)
  | ONew f _ v :: r => oplog r (vset x f v)
  end.
Fixpoint opvals (ops : list op) (x : vals) : vals :=
  match ops with
  | [] => x
  | ORd f :: r => opvals r x
  | OWr f v :: r => opvals r (vset x f v)
  | ONew f _ v :: r => opvals r (vset x f v)
  end.

Lemma interp_px own ops : forall s, px (snd (interp own ops s)) = opvals ops (px s).
Proof. induction ops as [|[f|f v|f st v] r IH]; intros s; cbn; auto; rewrite IH; reflexivity. Qed.

Lemma interp_app own o1 o2 s :
  interp own (o1 ++ o2) s =
  ((fst (interp own o1 s) ++ fst (interp own o2 (snd (interp own o1 s))))%list,
   snd (interp own o2 (snd (interp own o1 s)))).
Proof.
  revert s. induction o1 as [|[f|f v|f st v] r IH]; intros s; cbn [interp app fst snd].
  - destruct (interp own o2 s); reflexivity.
  - rewrite IH. reflexivity.
  - rewrite IH. reflexivity.
  - rewrite IH. reflexivity.
Qed.
Lemma oplog_app o1 o2 x : oplog (o1 ++ o2) x = (oplog o1 x ++ oplog o2 (opvals o1 x))%list.
Proof. revert x. induction o1 as [|[f|f v|f st v] r IH]; intros x; cbn; auto. rewrite IH. reflexivity. Qed.
Lemma opvals_app o1 o2 x : opvals (o1 ++ o2) x = opvals o2 (opvals o1 x).
Proof. revert x. induction o1 as [|[f|f v|f st v] r IH]; intros x; cbn; auto. Qed.

Lemma ag_wr sh s f v : ag sh s -> ag (upd sh (pv s f) v) {| pv := pv s; px := vset (px s) f v |}.
Proof.
  intros [Hty Hag]. split; [exact Hty|]. intros f'. cbn [pv px]. unfold Heap.upd, vset.
  destruct (field_eqb f' f) eqn:E.
  - apply field_eqb_spec in E. subst. rewrite obj_eqb_refl'. reflexivity.
  - rewrite obj_eqb_fld_neq; [apply Hag|]. rewrite !Hty. intros ->. rewrite field_eqb_refl in E. discriminate.
Qed.
Lemma ag_new sh s f o v :
  ag sh s -> o_fld o = f -> ag (upd sh o v) {| pv := vset (pv s) f o; px := vset (px s) f v |}.
Proof.
  intros [Hty Hag] Ho. split.
  - intros f'. cbn [pv]. unfold vset. destruct (field_eqb f' f) eqn:E; [apply field_eqb_spec in E; congruence|apply Hty].
  - intros f'. cbn [pv px]. unfold Heap.upd, vset. destruct (field_eqb f' f) eqn:E.
    + rewrite obj_eqb_refl'. reflexivity.
    + rewrite obj_eqb_fld_neq; [apply Hag|]. rewrite Hty, Ho. intros ->. rewrite field_eqb_refl in E. discriminate.
Qed.

Lemma interp_sem own ops : forall s sh, ag sh s ->
  exp_log (map Acc (fst (interp own ops s))) sh = oplog ops (px s) /\
  ag (after (fst (interp own ops s)) sh) (snd (interp own ops s)).
Proof.
  induction ops as [|[f|f v|f st v] r IH]; intros s sh H.
  - cbn. auto.
  - cbn [interp fst snd map Heap.exp_log oplog after]. destruct (IH s sh H) as [I1 I2].
    rewrite I1. destruct H as [Hty Hag]. rewrite Hag. auto.
  - cbn [interp fst snd map Heap.exp_log oplog after].
    destruct (IH _ _ (ag_wr sh s f v H)) as [I1 I2]. cbn [px] in I1. auto.
  - cbn [interp fst snd map Heap.exp_log oplog after].
    destruct (IH _ _ (ag_new sh s f (Ob own st f) v H eq_refl)) as [I1 I2]. cbn [px] in I1. auto.
Qed.

(* pointwise equal values give the same reads *)
Definition veq (x y : vals) : Prop := forall f, x f = y f.
Lemma vset_veq x y f v : veq x y -> veq (vset x f v) (vset y f v).
Proof. intros H f'. unfold vset. destruct (field_eqb f' f); auto. Qed.
Lemma oplog_veq ops : forall x y, veq x y -> oplog ops x = oplog ops y.
Proof.
  induction ops as [|[f|f v|f st v] r IH]; intros x y H; cbn; auto.
  - rewrite (H f). f_equal. auto.
  - apply IH. apply vset_veq. exact H.
  - apply IH. apply vset_veq. exact H.
Qed.
Lemma opvals_veq ops : forall x y, veq x y -> veq (opvals ops x) (opvals ops y).
Proof.
  induction ops as [|[f|f v|f st v] r IH]; intros x y H; cbn; auto; apply IH; apply vset_veq; exact H.
Qed.

(* ---------- the middlewares of Model/C03.v are such operation lists ---------- *)
Definition has_body_x (x : vals) : bool := match x FBody with VNil => false | _ => true end.
Definition hdr_x (x : vals) : mmap := match x FHdr with VMap m => m | _ => [] end.
Definition qry_x (x : vals) : mmap := match x FQry with VMap m => m | _ => [] end.

Definition filter_ops (st : site) (f : field) (allow : list string) (x : vals) : list op :=
  match allow with
  | [] => []
  | _ =>
    let m := match x f with VMap m => m | _ => [] end in
    if all_allowed allow m then [ORd FStruct; ORd f]
    else [ORd FStruct; ORd f; ONew f st (VMap (filter_map allow m)); ONew FStruct st (x FStruct)]
  end.

Definition gql_ops (g : gql) (x : vals) : list op :=
  (match g_kind g with
   | GQuery => [ORd FStruct; ORd FPar]
   | GMutation => ORd FStruct :: (if has_body_x x then [ORd FBody; OWr FBody VClosed] else [])
   end ++
   match g_out g with
   | None => []
   | Some (body, gq) =>
     if g_get g then
       [ONew FBody SGql (VBody ""); ORd FHdr;
        ONew FHdr SGql (VMap (set "Content-Type" ["application/json"] (set "Content-Length" ["0"] (hdr_x x))));
        ORd FQry; ONew FQry SGql (VMap (add_values (qry_x x) gq));
        OWr FStruct (set_method (x FStruct) "GET")]
     else
       [ONew FBody SGql (VBody body); ORd FHdr;
        ONew FHdr SGql (VMap (set "Content-Type" ["application/json"]
                                (set "Content-Length" [nat_dec (String.length body)] (hdr_x x))));
        OWr FStruct (set_method (x FStruct) "POST")]
   end)%list.
Definition gql_ok (g : gql) : bool := match g_out g with Some _ => true | None => false end.

Definition lb_ops (b : backend) (x : vals) : list op :=
  [ORd FStruct; ORd FQry;
   OWr FStruct (match x FStruct with
                | VStruct m p _ => VStruct m p (Some ((b_host b ++ p)%string, url_query (qry_x x)))
                | v => v end)].
Definition http_ops (x : vals) : list op :=
  ORd FVals :: ORd FStruct :: ORd FHdr :: (if has_body_x x then [ORd FBody; OWr FBody VClosed] else []).
Definition rb_ops (b : backend) (x : vals) : list op :=
  [ORd FStruct; ORd FPar;
   OWr FStruct (match x FStruct with
                | VStruct _ _ u => VStruct (b_method b) (b_path b) u
                | v => v end)].

Lemma filter_bridge own st f allow s :
  filter_stage own st f allow s = interp own (filter_ops st f allow (px s)) s.
Proof.
  unfold filter_stage, filter_ops. destruct allow as [|a0 al]; [reflexivity|].
  match goal with |- context [all_allowed ?a ?m] => destruct (all_allowed a m) end; reflexivity.
Qed.

Lemma gql_bridge own g s :
  gql_stage own g s =
  (fst (interp own (gql_ops g (px s)) s),
   if gql_ok g then Some (snd (interp own (gql_ops g (px s)) s)) else None).
Proof.
  unfold gql_stage, gql_ops, gql_ok. change (has_body s) with (has_body_x (px s)).
  destruct (g_kind g); [|destruct (has_body_x (px s))];
    (destruct (g_out g) as [[body gq]|]; [destruct (g_get g)|]); reflexivity.
Qed.

Lemma lb_bridge own b s : lb_stage b s = interp own (lb_ops b (px s)) s.
Proof. reflexivity. Qed.
Lemma http_bridge own s : http_stage s = fst (interp own (http_ops (px s)) s).
Proof.
  unfold http_stage, http_ops. change (has_body s) with (has_body_x (px s)).
  destruct (has_body_x (px s)); reflexivity.
Qed.
Lemma rb_bridge own b s : rb_stage b s = interp own (rb_ops b (px s)) s.
Proof. reflexivity. Qed.

(* everything below the concurrent middleware *)
Definition lbhttp_ops (b : backend) (x : vals) : list op :=
  (lb_ops b x ++ http_ops (opvals (lb_ops b x) x))%list.
Definition inner_ops (b : backend) (x : vals) : list op :=
  let o1 := filter_ops SQF FQry (b_qs b) x in
  let x1 := opvals o1 x in
  let o2 := filter_ops SHF FHdr (b_hdrs b) x1 in
  let x2 := opvals o2 x1 in
  match b_gql b with
  | None => (o1 ++ o2 ++ lbhttp_ops b x2)%list
  | Some g =>
      let o3 := gql_ops g x2 in
      if gql_ok g then (o1 ++ o2 ++ o3 ++ lbhttp_ops b (opvals o3 x2))%list else (o1 ++ o2 ++ o3)%list
  end.

Lemma inner_bridge own b s : inner_accs own b s = fst (interp own (inner_ops b (px s)) s).
Proof.
  unfold inner_accs, inner_ops, lbhttp_ops.
  rewrite filter_bridge.
  destruct (interp own (filter_ops SQF FQry (b_qs b) (px s)) s) as [a1 s1] eqn:E1.
  pose proof (interp_px own (filter_ops SQF FQry (b_qs b) (px s)) s) as P1. rewrite E1 in P1. cbn [snd] in P1.
  rewrite <- P1. rewrite filter_bridge.
  destruct (interp own (filter_ops SHF FHdr (b_hdrs b) (px s1)) s1) as [a2 s2] eqn:E2.
  pose proof (interp_px own (filter_ops SHF FHdr (b_hdrs b) (px s1)) s1) as P2. rewrite E2 in P2. cbn [snd] in P2.
  rewrite <- P2.
  destruct (b_gql b) as [g|].
  - rewrite (gql_bridge own g s2).
    destruct (interp own (gql_ops g (px s2)) s2) as [a3 s3] eqn:E3.
    pose proof (interp_px own (gql_ops g (px s2)) s2) as P3. rewrite E3 in P3. cbn [snd] in P3.
    cbn [fst snd]. destruct (gql_ok g).
    + rewrite <- P3. rewrite (lb_bridge own b s3).
      destruct (interp own (lb_ops b (px s3)) s3) as [a4 s4] eqn:E4.
      pose proof (interp_px own (lb_ops b (px s3)) s3) as P4. rewrite E4 in P4. cbn [snd] in P4.
      rewrite <- P4. rewrite (http_bridge own s4).
      rewrite !interp_app. cbn [fst snd]. rewrite E1. cbn [fst snd]. rewrite E2. cbn [fst snd].
      rewrite E3. cbn [fst snd]. rewrite E4. cbn [fst snd]. reflexivity.
    + rewrite !interp_app. cbn [fst snd]. rewrite E1. cbn [fst snd]. rewrite E2. cbn [fst snd].
      rewrite E3. reflexivity.
  - rewrite (lb_bridge own b s2).
    destruct (interp own (lb_ops b (px s2)) s2) as [a4 s4] eqn:E4.
    pose proof (interp_px own (lb_ops b (px s2)) s2) as P4. rewrite E4 in P4. cbn [snd] in P4.
    rewrite <- P4. rewrite (http_bridge own s4).
    rewrite !interp_app. cbn [fst snd]. rewrite E1. cbn [fst snd]. rewrite E2. cbn [fst snd].
    rewrite E4. cbn [fst snd]. reflexivity.
Qed.

(* what a pipeline below the concurrent middleware reads: a function of its backend's
   configuration and of the values of its request *)
Lemma inner_sem own b s sh :
  ag sh s -> exp_log (map Acc (inner_accs own b s)) sh = oplog (inner_ops b (px s)) (px s).
Proof. intros H. rewrite (inner_bridge own). apply (interp_sem own _ s sh H). Qed.

(* ... and it respects pointwise equality of the values *)
Lemma filter_ops_veq st f allow x y : veq x y -> filter_ops st f allow x = filter_ops st f allow y.
Proof. intros H. unfold filter_ops. rewrite (H f), (H FStruct). reflexivity. Qed.
Lemma gql_ops_veq g x y : veq x y -> gql_ops g x = gql_ops g y.
Proof.
  intros H. unfold gql_ops, has_body_x, hdr_x, qry_x.
  rewrite (H FBody), (H FHdr), (H FQry), (H FStruct). reflexivity.
Qed.
Lemma lb_ops_veq b x y : veq x y -> lb_ops b x = lb_ops b y.
Proof. intros H. unfold lb_ops, qry_x. rewrite (H FStruct), (H FQry). reflexivity. Qed.
Lemma http_ops_veq x y : veq x y -> http_ops x = http_ops y.
Proof. intros H. unfold http_ops, has_body_x. rewrite (H FBody). reflexivity. Qed.
Lemma rb_ops_veq b x y : veq x y -> rb_ops b x = rb_ops b y.
Proof. intros H. unfold rb_ops. rewrite (H FStruct). reflexivity. Qed.
Lemma lbhttp_ops_veq b x y : veq x y -> lbhttp_ops b x = lbhttp_ops b y.
Proof.
  intros H. unfold lbhttp_ops. rewrite (lb_ops_veq b x y H).
  rewrite (http_ops_veq _ _ (opvals_veq (lb_ops b y) x y H)). reflexivity.
Qed.
Lemma inner_ops_veq b x y : veq x y -> inner_ops b x = inner_ops b y.
Proof.
  intros H. unfold inner_ops.
  rewrite (filter_ops_veq SQF FQry (b_qs b) x y H).
  set (o1 := filter_ops SQF FQry (b_qs b) y).
  assert (H1 : veq (opvals o1 x) (opvals o1 y)) by (apply opvals_veq; exact H).
  rewrite (filter_ops_veq SHF FHdr (b_hdrs b) _ _ H1).
  set (o2 := filter_ops SHF FHdr (b_hdrs b) (opvals o1 y)).
  assert (H2 : veq (opvals o2 (opvals o1 x)) (opvals o2 (opvals o1 y))) by (apply opvals_veq; exact H1).
  destruct (b_gql b) as [g|].
  - rewrite (gql_ops_veq g _ _ H2).
    set (o3 := gql_ops g (opvals o2 (opvals o1 y))).
    assert (H3 : veq (opvals o3 (opvals o2 (opvals o1 x))) (opvals o3 (opvals o2 (opvals o1 y)))) by (apply opvals_veq; exact H2).
    rewrite (lbhttp_ops_veq b _ _ H3). reflexivity.
  - rewrite (lbhttp_ops_veq b _ _ H2). reflexivity.
Qed.

Definition inner_vlog (b : backend) (x : vals) : list val := oplog (inner_ops b x) x.
Lemma inner_vlog_veq b x y : veq x y -> inner_vlog b x = inner_vlog b y.
Proof. intros H. unfold inner_vlog. rewrite (inner_ops_veq b x y H). apply oplog_veq. exact H. Qed.

(* values after the request builder; the complete log of the goroutine that ends in the http
   proxy (the branch itself without concurrent calls, an attempt with them) *)
Definition xr (b : backend) (x : vals) : vals := opvals (rb_ops b x) x.
Definition leaf_vlog (b : backend) (x : vals) : list val :=
  match b_cc b with
  | 0 | 1 => (oplog (rb_ops b x) x ++ inner_vlog b (xr b x))%list
  | _ => inner_vlog b (xr b x)
  end.
Lemma xr_veq b x y : veq x y -> veq (xr b x) (xr b y).
Proof. intros H. unfold xr. rewrite (rb_ops_veq b x y H). apply opvals_veq. exact H. Qed.
Lemma leaf_vlog_veq b x y : veq x y -> leaf_vlog b x = leaf_vlog b y.
Proof.
  intros H. unfold leaf_vlog. rewrite (inner_vlog_veq b _ _ (xr_veq b x y H)).
  rewrite (rb_ops_veq b x y H), (oplog_veq _ x y H). reflexivity.
Qed.

(* ---------- CloneRequest and Request.Clone, value level ---------- *)
Ltac eqbs Hty :=
  repeat match goal with
  | |- context [obj_eqb ?a ?a] => rewrite (obj_eqb_refl' a)
  | |- context [obj_eqb ?a ?b] => rewrite (obj_eqb_fld_neq a b) by (cbn; rewrite ?Hty; discriminate)
  | |- context [obj_eqb ?a ?b] => destruct (obj_eqb a b) eqn:?
  end.

Lemma deep_clone_sem own st ss so s sh :
  ag sh s ->
  let sh' := after (fst (fst (deep_clone own st ss so s))) sh in
  let s' := snd (fst (deep_clone own st ss so s)) in
  let c := snd (deep_clone own st ss so s) in
  ag sh' s' /\ ag sh' c /\ veq (px s') (px s) /\ veq (px c) (px s).
Proof.
  intros [Hty Hag]. cbv zeta.
  pose proof (deep_clone_typed own st ss so s Hty) as Htc.
  pose proof (deep_clone_typed_src own st ss so s Hty) as Hts.
  split; [split; [exact Hts|]|split; [split; [exact Htc|]|]].
  - unfold deep_clone, alloc, wr, rd. destruct (has_body s) eqn:Hb; cbn; intros f; destruct f; cbn;
      unfold Heap.upd; eqbs Hty; auto.
  - unfold deep_clone, alloc, wr, rd. destruct (has_body s) eqn:Hb; cbn; intros f; destruct f; cbn;
      unfold Heap.upd; eqbs Hty; auto.
  - unfold deep_clone, alloc, wr, rd. destruct (has_body s) eqn:Hb; cbn; split; intros f; destruct f; reflexivity.
Qed.

(* ---------- looking a thread up in the schedule-free logs ---------- *)
Local Notation flog := (@find_log val).

Lemma flog_app t (l1 l2 : list (list nat * list val)) :
  flog t (l1 ++ l2) = match flog t l1 with Some x => Some x | None => flog t l2 end.
Proof.
  induction l1 as [|[p lg] r IH]; cbn; auto. destruct (list_eq_dec Nat.eq_dec t p); auto.
Qed.
Lemma flog_hit t lg (r : list (list nat * list val)) : flog t ((t, lg) :: r) = Some lg.
Proof. cbn. destruct (list_eq_dec Nat.eq_dec t t); [reflexivity|congruence]. Qed.
Lemma flog_miss t p lg (r : list (list nat * list val)) : t <> p -> flog t ((p, lg) :: r) = flog t r.
Proof. intros H. cbn. destruct (list_eq_dec Nat.eq_dec t p); [contradiction|reflexivity]. Qed.

Lemma app_one_neq (path : list nat) i j rest : i <> j -> (path ++ i :: rest)%list <> (path ++ [j])%list.
Proof. intros H E. apply app_inv_head in E. inversion E. contradiction. Qed.
Lemma app_cons_neq_self (path : list nat) i rest : (path ++ i :: rest)%list <> path.
Proof.
  intros E. assert (L : List.length (path ++ i :: rest) = List.length path) by (rewrite E; reflexivity).
  rewrite app_length in L. cbn in L. lia.
Qed.

(* ---------- the concurrent middleware's attempts ---------- *)
Lemma conc_sem k b so todo : forall a s sh path n0 x0,
  ag sh s -> veq (px s) x0 ->
  (forall i, i < todo ->
     flog (path ++ [n0 + i]) (kids (conc_loop false k b so todo a s) path sh n0) = Some (inner_vlog b x0)) /\
  (forall t, (forall i, t <> (path ++ [i])%list) ->
     flog t (kids (conc_loop false k b so todo a s) path sh n0) = None).
Proof.
  induction todo as [|n IH]; intros a s sh path n0 x0 H Hx.
  - cbn. split; [intros i Hi; lia|reflexivity].
  - cbn [conc_loop].
    pose proof (deep_clone_sem (WAt k a) SConc (SConcSrc a) so s sh H) as D. cbv zeta in D.
    destruct (deep_clone (WAt k a) SConc (SConcSrc a) so s) as [[ac s'] c] eqn:E. cbn [fst snd] in D.
    destruct D as (Hs' & Hc & Vs' & Vc).
    rewrite kids_acc, kids_fork.
    unfold Heap.thread_logs. rewrite !kids_acc_nil.
    assert (Vs0 : veq (px s') x0) by (intros f; rewrite Vs'; apply Hx).
    assert (Vc0 : veq (px c) x0) by (intros f; rewrite Vc; apply Hx).
    destruct (IH (S a) s' (after ac sh) path (S n0) x0 Hs' Vs0) as [I1 I2].
    split.
    + intros i Hi. destruct i as [|i].
      * rewrite Nat.add_0_r. cbn [app]. rewrite flog_hit. f_equal.
        rewrite (inner_sem (WAt k a) b c _ Hc). apply inner_vlog_veq. exact Vc0.
      * cbn [app]. assert (Hne : (path ++ [n0 + S i])%list <> (path ++ [n0])%list) by (apply app_one_neq; lia).
        rewrite (flog_miss _ _ _ _ Hne).
        replace (n0 + S i) with (S n0 + i) by lia. apply I1. lia.
    + intros t Ht. cbn [app]. rewrite flog_miss by apply Ht. apply I2. exact Ht.
Qed.

(* ---------- one backend's stack ---------- *)
Definition leaf_rel (b : backend) : list (list nat) :=
  match b_cc b with
  | 0 | 1 => [[]]
  | cc => map (fun a => [a]) (seq 0 cc)
  end.

Lemma branch_sem k so b s sh path x0 :
  ag sh s -> veq (px s) x0 ->
  (forall t, In t (leaf_rel b) ->
     flog (path ++ t) (thread_logs path (branch_prog false k so b s) sh 0) = Some (leaf_vlog b x0)) /\
  (forall t, (forall suf, t <> (path ++ suf)%list) ->
     flog t (thread_logs path (branch_prog false k so b s) sh 0) = None).
Proof.
  intros H Hx. unfold branch_prog. rewrite (rb_bridge (WAt k 0)).
  pose proof (interp_sem (WAt k 0) (rb_ops b (px s)) s sh H) as [R1 R2].
  pose proof (interp_px (WAt k 0) (rb_ops b (px s)) s) as RP.
  destruct (interp (WAt k 0) (rb_ops b (px s)) s) as [a s1] eqn:E. cbn [fst snd] in R1, R2, RP.
  assert (V1 : veq (px s1) (xr b x0)).
  { intros f. rewrite RP. unfold xr. rewrite (rb_ops_veq b _ _ Hx). apply opvals_veq. exact Hx. }
  assert (Hrb : exp_log (map Acc a) sh = oplog (rb_ops b x0) x0).
  { rewrite R1, (rb_ops_veq b _ _ Hx). apply oplog_veq. exact Hx. }
  unfold leaf_rel, leaf_vlog.
  assert (H01 : (forall t, In t [[]] ->
             flog (path ++ t) (thread_logs path (map Acc (a ++ inner_accs (WAt k 0) b s1)) sh 0) =
             Some (oplog (rb_ops b x0) x0 ++ inner_vlog b (xr b x0))%list) /\
          (forall t, (forall suf, t <> (path ++ suf)%list) ->
             flog t (thread_logs path (map Acc (a ++ inner_accs (WAt k 0) b s1)) sh 0) = None)).
  { unfold Heap.thread_logs. rewrite kids_acc_nil. split.
    - intros t [<-|[]]. rewrite app_nil_r, flog_hit. f_equal.
      rewrite exp_log_app, Hrb. f_equal.
      rewrite (inner_sem (WAt k 0) b s1 _ R2). apply inner_vlog_veq. exact V1.
    - intros t Ht. rewrite flog_miss; [reflexivity|]. specialize (Ht []). rewrite app_nil_r in Ht. exact Ht. }
  destruct (b_cc b) as [|[|n]]; [exact H01|exact H01|].
  destruct (conc_sem k b so (S (S n)) 0 s1 (after a sh) path 0 (xr b x0) R2 V1) as [C1 C2].
  unfold Heap.thread_logs. rewrite kids_acc. split.
  - intros t Ht. apply in_map_iff in Ht as [i [<- Hi]]. apply in_seq in Hi.
    rewrite flog_miss by apply app_cons_neq_self. apply (C1 i). lia.
  - intros t Ht. rewrite flog_miss; [|specialize (Ht []); rewrite app_nil_r in Ht; exact Ht].
    apply C2. intros i. apply Ht.
Qed.

(* ---------- parallelMerge's branches ---------- *)
Lemma shallow_bridge k s :
  shallow_clone (Ob (WBr k) SMerge FStruct) s = interp (WBr k) [ORd FStruct; ONew FStruct SMerge (px s FStruct)] s.
Proof. reflexivity. Qed.

Lemma merge_sem deep bs : forall k s sh n0 x0,
  ag sh s -> veq (px s) x0 ->
  forall j b, nth_error bs j = Some b -> forall t, In t (leaf_rel b) ->
    flog ([n0 + j] ++ t) (kids (merge_loop false deep bs k s) [] sh n0) = Some (leaf_vlog b x0).
Proof.
  induction bs as [|b0 r IH]; intros k s sh n0 x0 H Hx j b Hj t Ht; [destruct j; discriminate|].
  cbn [merge_loop]. destruct deep.
  - pose proof (deep_clone_sem (WBr k) SMerge (SMergeSrc k) WEnd s sh H) as D. cbv zeta in D.
    destruct (deep_clone (WBr k) SMerge (SMergeSrc k) WEnd s) as [[ac s'] c] eqn:E. cbn [fst snd] in D.
    destruct D as (Hs' & Hc & Vs' & Vc).
    assert (Vs0 : veq (px s') x0) by (intros f; rewrite Vs'; apply Hx).
    assert (Vc0 : veq (px c) x0) by (intros f; rewrite Vc; apply Hx).
    rewrite kids_acc, kids_fork, flog_app. cbn [app].
    destruct (branch_sem k (WBr k) b0 c (after ac sh) [n0] x0 Hc Vc0) as [B1 B2]. cbn [app] in B1.
    destruct j as [|j].
    + cbn in Hj. inversion Hj; subst b0. rewrite Nat.add_0_r. rewrite (B1 t Ht). reflexivity.
    + cbn in Hj. rewrite B2.
      * replace (n0 + S j) with (S n0 + j) by lia. apply (IH (S k) s' (after ac sh) (S n0) x0 Hs' Vs0 j b Hj t Ht).
      * intros suf E''. cbn in E''. inversion E''. lia.
  - rewrite shallow_bridge.
    pose proof (interp_sem (WBr k) [ORd FStruct; ONew FStruct SMerge (px s FStruct)] s sh H) as [_ Hc].
    pose proof (interp_px (WBr k) [ORd FStruct; ONew FStruct SMerge (px s FStruct)] s) as Pc.
    destruct (interp (WBr k) [ORd FStruct; ONew FStruct SMerge (px s FStruct)] s) as [ac c] eqn:E.
    cbn [fst snd] in Hc, Pc.
    assert (Eac : ac = [Rd (pv s FStruct); Wr (Ob (WBr k) SMerge FStruct) (px s FStruct)]) by (cbn in E; inversion E; reflexivity).
    assert (Hs' : ag (after ac sh) s).
    { rewrite Eac. cbn [after]. apply ag_frame; [exact H|reflexivity]. }
    assert (Vc0 : veq (px c) x0).
    { intros f. rewrite Pc. cbn. unfold vset. destruct (field_eqb f FStruct) eqn:Ef; [|apply Hx].
      apply field_eqb_spec in Ef. subst f. apply Hx. }
    rewrite kids_acc, kids_fork, flog_app. cbn [app].
    destruct (branch_sem k (WBr k) b0 c (after ac sh) [n0] x0 Hc Vc0) as [B1 B2]. cbn [app] in B1.
    destruct j as [|j].
    + cbn in Hj. inversion Hj; subst b0. rewrite Nat.add_0_r. rewrite (B1 t Ht). reflexivity.
    + cbn in Hj. rewrite B2.
      * replace (n0 + S j) with (S n0 + j) by lia. apply (IH (S k) s (after ac sh) (S n0) x0 Hs' Hx j b Hj t Ht).
      * intros suf E'. cbn in E'. inversion E'. lia.
Qed.

(* ---------- the whole endpoint ---------- *)
Lemma init_ag q : ag (init_heap q) (init_pst q).
Proof. split; [apply init_typed|intros f; reflexivity]. Qed.

Lemma leaf_tids_rel n k b t :
  In t (leaf_tids n k b) ->
  exists t', In t' (leaf_rel b) /\ t = ((match n with 1 => [] | _ => [k] end) ++ t')%list.
Proof.
  unfold leaf_tids, leaf_rel. set (pre := match n with 1 => [] | _ => [k] end).
  destruct (b_cc b) as [|[|c]].
  - intros [<-|[]]. exists []. split; [left; reflexivity|rewrite app_nil_r; reflexivity].
  - intros [<-|[]]. exists []. split; [left; reflexivity|rewrite app_nil_r; reflexivity].
  - intros Hin. apply in_map_iff in Hin as [a [<- Ha]]. exists [a]. split; [|reflexivity].
    apply in_map_iff. exists a. auto.
Qed.
Lemma leaf_tids_length n k b : List.length (leaf_tids n k b) = List.length (leaf_rel b).
Proof. unfold leaf_tids, leaf_rel. destruct (b_cc b) as [|[|c]]; [reflexivity|reflexivity|]. rewrite !map_length. reflexivity. Qed.

(* what backend b is handed for request q: a function of b and q only *)
Definition SV (b : backend) (q : request) : option sent := sent_of_log (leaf_vlog b (init_vals q)).

Lemma leaf_log cfg q k b t :
  nth_error cfg k = Some b -> In t (leaf_tids (List.length cfg) k b) ->
  flog t (seq_logs obj_eqb (endpoint_prog cfg q) (init_heap q)) = Some (leaf_vlog b (init_vals q)).
Proof.
  intros Hk Ht. apply leaf_tids_rel in Ht as [t' [Ht' ->]].
  unfold seq_logs, endpoint_prog, endpoint_prog_gen.
  assert (V : veq (px (init_pst q)) (init_vals q)) by (intros f; reflexivity).
  destruct cfg as [|b1 [|b2 r]]; [destruct k; discriminate| |].
  - destruct k as [|k]; [|destruct k; discriminate]. cbn in Hk. inversion Hk; subst b1. cbn [List.length].
    apply (branch_sem 0 WEnd b (init_pst q) (init_heap q) [] (init_vals q) (init_ag q) V). exact Ht'.
  - cbn [List.length]. unfold Heap.thread_logs. rewrite flog_miss by discriminate.
    apply (merge_sem (has_unsafe (b1 :: b2 :: r)) (b1 :: b2 :: r) 0 (init_pst q) (init_heap q) 0 (init_vals q) (init_ag q) V k b Hk t' Ht').
Qed.

Lemma sent_seq_all cfg q k b :
  nth_error cfg k = Some b -> Forall (fun s => s = SV b q) (sent_seq cfg q k).
Proof.
  intros Hk. unfold sent_seq. rewrite Hk. apply Forall_forall. intros s Hs.
  apply in_map_iff in Hs as [t [<- Ht]]. rewrite (leaf_log cfg q k b t Hk Ht). reflexivity.
Qed.
Lemma sent_seq_length cfg q k b :
  nth_error cfg k = Some b -> List.length (sent_seq cfg q k) = List.length (leaf_rel b).
Proof. intros Hk. unfold sent_seq. rewrite Hk, map_length. apply leaf_tids_length. Qed.

Lemma solo_nth cfg k b : nth_error cfg k = Some b -> solo cfg k = [b] /\ nth_error (solo cfg k) 0 = Some b.
Proof. intros H. unfold solo. rewrite H. auto. Qed.

(* reflexivity of the comparisons *)
Lemma mmap_eqb_refl m : mmap_eqb m m = true.
Proof.
  unfold mmap_eqb. apply forallb_forall. intros kv _. destruct (lookup (fst kv) m); [|reflexivity].
  cbn. apply vals_eqb_eq. reflexivity.
Qed.
Lemma sent_eqb_refl s : sent_eqb s s = true.
Proof. unfold sent_eqb. rewrite !str_eqb_refl, !mmap_eqb_refl. reflexivity. Qed.
Lemma opt_sent_eqb_refl s : opt_sent_eqb s s = true.
Proof. destruct s; [apply sent_eqb_refl|reflexivity]. Qed.

(* C03_isolated: in the schedule-free semantics every attempt of every backend is handed
   exactly what the backend is handed as the endpoint's only backend - every configuration,
   every request *)
Theorem isolated cfg q : model_isolated_b cfg q = true.
Proof.
  unfold model_isolated_b. apply forallb_forall. intros k Hk. apply in_seq in Hk.
  destruct (nth_error cfg k) as [b|] eqn:E; [|apply nth_error_None in E; lia].
  destruct (solo_nth cfg k b E) as [_ E0].
  pose proof (sent_seq_all cfg q k b E) as F1. pose proof (sent_seq_all (solo cfg k) q 0 b E0) as F2.
  rewrite Forall_forall in F1, F2.
  apply forallb_forall. intros s Hs. apply forallb_forall. intros s' Hs'.
  rewrite (F1 s Hs), (F2 s' Hs'). apply opt_sent_eqb_refl.
Qed.

(* and both do not depend on the siblings at all *)
Theorem sent_independent cfg q k b s :
  nth_error cfg k = Some b -> In s (sent_seq cfg q k) -> s = SV b q.
Proof. intros Hk Hs. pose proof (sent_seq_all cfg q k b Hk) as F. rewrite Forall_forall in F. auto. Qed.

(* C03_model_meets_oracle *)
Lemma present_all {A} (v : option A) l :
  Forall (fun s => s = v) l ->
  present l = match v with Some s => repeat s (List.length l) | None => [] end.
Proof.
  induction l as [|x r IH]; intros H; [destruct v; reflexivity|].
  inversion H; subst.
  change (present (v :: r)) with ((match v with Some x => [x] | None => [] end) ++ present r)%list.
  rewrite (IH H3). destruct v; reflexivity.
Qed.

Theorem model_meets_oracle cfg q : spec_b (model_obs cfg q) false = true.
Proof.
  unfold spec_b, model_obs. cbn [negb andb]. apply forallb_forall. intros o Ho.
  apply in_map_iff in Ho as [k [<- Hk]]. apply in_seq in Hk.
  destruct (nth_error cfg k) as [b|] eqn:E; [|apply nth_error_None in E; lia].
  destruct (solo_nth cfg k b E) as [_ E0].
  rewrite (present_all _ _ (sent_seq_all cfg q k b E)), (present_all _ _ (sent_seq_all (solo cfg k) q 0 b E0)).
  rewrite (sent_seq_length cfg q k b E), (sent_seq_length (solo cfg k) q 0 b E0).
  unfold isolated_b. cbn [fst snd]. destruct (SV b q) as [s|]; [|reflexivity].
  rewrite Nat.eqb_refl. cbn [andb]. apply forallb_forall. intros x Hx. apply forallb_forall. intros y Hy.
  apply repeat_spec in Hx, Hy. subst. apply sent_eqb_refl.
Qed.

(* ---------- the same, for EVERY entry of the schedule-free logs (not only the first one a
   lookup finds): needed to transfer to the interleaving semantics through H1 ---------- *)
Lemma conc_in k b so todo : forall a s sh path n0 x0 t l,
  ag sh s -> veq (px s) x0 ->
  In (t, l) (kids (conc_loop false k b so todo a s) path sh n0) ->
  (exists i, t = (path ++ [n0 + i])%list) /\ l = inner_vlog b x0.
Proof.
  induction todo as [|n IH]; intros a s sh path n0 x0 t l H Hx Hin; [destruct Hin|].
  cbn [conc_loop] in Hin.
  pose proof (deep_clone_sem (WAt k a) SConc (SConcSrc a) so s sh H) as D. cbv zeta in D.
  destruct (deep_clone (WAt k a) SConc (SConcSrc a) so s) as [[ac s'] c] eqn:E. cbn [fst snd] in D.
  destruct D as (Hs' & Hc & Vs' & Vc).
  rewrite kids_acc, kids_fork in Hin. unfold Heap.thread_logs in Hin. rewrite kids_acc_nil in Hin. cbn [app] in Hin.
  destruct Hin as [Hin|Hin].
  - inversion Hin; subst. split; [exists 0; rewrite Nat.add_0_r; reflexivity|].
    rewrite (inner_sem (WAt k a) b c _ Hc). apply inner_vlog_veq. intros f. rewrite Vc. apply Hx.
  - assert (Vs0 : veq (px s') x0) by (intros f; rewrite Vs'; apply Hx).
    destruct (IH (S a) s' (after ac sh) path (S n0) x0 t l Hs' Vs0 Hin) as [[i ->] ->].
    split; [exists (S i); f_equal; f_equal; lia|reflexivity].
Qed.

Lemma branch_in k so b s sh path x0 t l :
  ag sh s -> veq (px s) x0 ->
  In (t, l) (thread_logs path (branch_prog false k so b s) sh 0) ->
  (exists suf, t = (path ++ suf)%list) /\
  (forall t', In t' (leaf_rel b) -> t = (path ++ t')%list -> l = leaf_vlog b x0).
Proof.
  intros H Hx Hin. pose proof (branch_sem k so b s sh path x0 H Hx) as [B1 _].
  unfold branch_prog in Hin. rewrite (rb_bridge (WAt k 0)) in Hin.
  pose proof (interp_sem (WAt k 0) (rb_ops b (px s)) s sh H) as [R1 R2].
  pose proof (interp_px (WAt k 0) (rb_ops b (px s)) s) as RP.
  unfold branch_prog in B1. rewrite (rb_bridge (WAt k 0)) in B1.
  destruct (interp (WAt k 0) (rb_ops b (px s)) s) as [a s1] eqn:E. cbn [fst snd] in R1, R2, RP.
  assert (V1 : veq (px s1) (xr b x0)).
  { intros f. rewrite RP. unfold xr. rewrite (rb_ops_veq b _ _ Hx). apply opvals_veq. exact Hx. }
  unfold leaf_rel, leaf_vlog in *.
  destruct (b_cc b) as [|[|n]].
  - unfold Heap.thread_logs in Hin. rewrite kids_acc_nil in Hin. destruct Hin as [Hin|[]]. inversion Hin; subst.
    split; [exists []; rewrite app_nil_r; reflexivity|]. intros t' Ht' _.
    specialize (B1 [] (or_introl eq_refl)). unfold Heap.thread_logs in B1. rewrite kids_acc_nil, app_nil_r, flog_hit in B1.
    injection B1 as B1'. exact B1'.
  - unfold Heap.thread_logs in Hin. rewrite kids_acc_nil in Hin. destruct Hin as [Hin|[]]. inversion Hin; subst.
    split; [exists []; rewrite app_nil_r; reflexivity|]. intros t' Ht' _.
    specialize (B1 [] (or_introl eq_refl)). unfold Heap.thread_logs in B1. rewrite kids_acc_nil, app_nil_r, flog_hit in B1.
    injection B1 as B1'. exact B1'.
  - unfold Heap.thread_logs in Hin. rewrite kids_acc in Hin. destruct Hin as [Hin|Hin].
    + inversion Hin; subst. split; [exists []; rewrite app_nil_r; reflexivity|].
      intros t' Ht' Et. apply in_map_iff in Ht' as [i [<- _]]. exfalso. symmetry in Et. revert Et. apply app_cons_neq_self.
    + destruct (conc_in k b so (S (S n)) 0 s1 (after a sh) path 0 (xr b x0) t l R2 V1 Hin) as [[i ->] ->].
      split; [exists [0 + i]; reflexivity|]. intros; reflexivity.
Qed.

Lemma merge_in deep bs : forall k s sh n0 x0 t l,
  ag sh s -> veq (px s) x0 ->
  In (t, l) (kids (merge_loop false deep bs k s) [] sh n0) ->
  (exists j suf, t = (n0 + j) :: suf) /\
  (forall j b t', nth_error bs j = Some b -> In t' (leaf_rel b) -> t = ([n0 + j] ++ t')%list -> l = leaf_vlog b x0).
Proof.
  induction bs as [|b0 r IH]; intros k s sh n0 x0 t l H Hx Hin; [destruct Hin|].
  cbn [merge_loop] in Hin.
  assert (Step : forall ac c s',
            In (t, l) (kids (map Acc ac ++ Fork (branch_prog false k (WBr k) b0 c) :: merge_loop false deep r (S k) s') [] sh n0) ->
            ag (after ac sh) c -> veq (px c) x0 -> ag (after ac sh) s' -> veq (px s') x0 ->
            (exists j suf, t = (n0 + j) :: suf) /\
            (forall j b t', nth_error (b0 :: r) j = Some b -> In t' (leaf_rel b) -> t = ([n0 + j] ++ t')%list -> l = leaf_vlog b x0)).
  { intros ac c s' Hin' Hc Vc Hs' Vs'.
    rewrite kids_acc, kids_fork in Hin'. cbn [app] in Hin'. apply in_app_or in Hin' as [Hin'|Hin'].
    - destruct (branch_in k (WBr k) b0 c (after ac sh) [n0] x0 t l Hc Vc Hin') as [[suf ->] B].
      split; [exists 0, suf; rewrite Nat.add_0_r; reflexivity|].
      intros j b t' Hj Ht' Et. cbn [app] in Et. inversion Et. assert (j = 0) by lia. subst j.
      cbn in Hj. inversion Hj; subst b0. apply (B t' Ht'). cbn [app]. f_equal. assumption.
    - destruct (IH (S k) s' (after ac sh) (S n0) x0 t l Hs' Vs' Hin') as [[j [suf ->]] I].
      split; [exists (S j), suf; f_equal; lia|].
      intros j' b t' Hj Ht' Et. cbn [app] in Et. inversion Et. destruct j' as [|j']; [lia|].
      cbn in Hj. apply (I j' b t' Hj Ht'). cbn [app]. f_equal; [lia|assumption]. }
  destruct deep.
  - pose proof (deep_clone_sem (WBr k) SMerge (SMergeSrc k) WEnd s sh H) as D. cbv zeta in D.
    destruct (deep_clone (WBr k) SMerge (SMergeSrc k) WEnd s) as [[ac s'] c] eqn:E. cbn [fst snd] in D.
    destruct D as (Hs' & Hc & Vs' & Vc).
    apply (Step ac c s' Hin Hc); [intros f; rewrite Vc; apply Hx|exact Hs'|intros f; rewrite Vs'; apply Hx].
  - rewrite shallow_bridge in Hin.
    pose proof (interp_sem (WBr k) [ORd FStruct; ONew FStruct SMerge (px s FStruct)] s sh H) as [_ Hc].
    pose proof (interp_px (WBr k) [ORd FStruct; ONew FStruct SMerge (px s FStruct)] s) as Pc.
    destruct (interp (WBr k) [ORd FStruct; ONew FStruct SMerge (px s FStruct)] s) as [ac c] eqn:E.
    cbn [fst snd] in Hc, Pc.
    assert (Eac : ac = [Rd (pv s FStruct); Wr (Ob (WBr k) SMerge FStruct) (px s FStruct)]) by (cbn in E; inversion E; reflexivity).
    apply (Step ac c s Hin Hc).
    + intros f. rewrite Pc. cbn. unfold vset. destruct (field_eqb f FStruct) eqn:Ef; [|apply Hx].
      apply field_eqb_spec in Ef. subst f. apply Hx.
    + rewrite Eac. cbn [after]. apply ag_frame; [exact H|reflexivity].
    + exact Hx.
Qed.

Lemma leaf_log_in cfg q k b t l :
  nth_error cfg k = Some b -> In t (leaf_tids (List.length cfg) k b) ->
  In (t, l) (seq_logs obj_eqb (endpoint_prog cfg q) (init_heap q)) ->
  l = leaf_vlog b (init_vals q).
Proof.
  intros Hk Ht Hin. apply leaf_tids_rel in Ht as [t' [Ht' ->]].
  unfold seq_logs, endpoint_prog, endpoint_prog_gen in Hin.
  assert (V : veq (px (init_pst q)) (init_vals q)) by (intros f; reflexivity).
  destruct cfg as [|b1 [|b2 r]]; [destruct k; discriminate| |].
  - destruct k as [|k]; [|destruct k; discriminate]. cbn in Hk. inversion Hk; subst b1. cbn [List.length] in Hin.
    destruct (branch_in 0 WEnd b (init_pst q) (init_heap q) [] (init_vals q) _ l (init_ag q) V Hin) as [_ B].
    apply (B t' Ht'). reflexivity.
  - cbn [List.length] in Hin. unfold Heap.thread_logs in Hin. destruct Hin as [Hin|Hin]; [inversion Hin|].
    destruct (merge_in (has_unsafe (b1 :: b2 :: r)) (b1 :: b2 :: r) 0 (init_pst q) (init_heap q) 0 (init_vals q) _ l (init_ag q) V Hin) as [_ M].
    apply (M k b t' Hk Ht'). reflexivity.
Qed.

(* the full statement: for every configuration and request in scope, under EVERY
   interleaving, the goroutine of every attempt of every backend that has run to its end
   was handed exactly what the backend is handed as the endpoint's only backend *)
Theorem isolated_every_interleaving cfg q sched s t k b alone :
  race_free_b cfg q = true ->
  run obj_eqb (init (endpoint_prog cfg q) (init_heap q)) sched = Some s ->
  In t (pool s) -> rem t = [] ->
  nth_error cfg k = Some b -> In (tid t) (leaf_tids (List.length cfg) k b) ->
  In alone (sent_seq (solo cfg k) q 0) ->
  sent_of_log (log t) = alone.
Proof.
  intros Hrf Hrun Ht Hrem Hk Htid Hal.
  pose proof (finished_log cfg q sched s t Hrf Hrun Ht Hrem) as Hin.
  rewrite (leaf_log_in cfg q k b (tid t) (log t) Hk Htid Hin).
  destruct (solo_nth cfg k b Hk) as [_ E0]. symmetry. apply (sent_independent (solo cfg k) q 0 b alone E0 Hal).
Qed.
