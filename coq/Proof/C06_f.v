(* C06 - proofs, part f: the outcome of the filters does not depend on the order in which the
   objects of the document (at any depth outside arrays) or the configured lists are given. *)
Require Import Verif.Common.Base Verif.Common.Json Verif.Common.JsonFacts.
Require Import Verif.Model.C06 Verif.Spec.C06.
Require Import Verif.Proof.C06 Verif.Proof.C06_d Verif.Proof.C06_e.

Lemma agree_present a b p : agree a b -> present a p = present b p.
Proof.
  intros H. specialize (H p). unfold present, path_agree in *.
  destruct (get_path a p) as [x|]; destruct (get_path b p) as [y|]; try reflexivity.
  - destruct x; contradiction.
  - contradiction.
Qed.

Lemma covered_same L L' p : same_elements L L' -> covered L p = covered L' p.
Proof.
  intros H. unfold covered.
  destruct (existsb (fun l => prefix l p) L) eqn:E; symmetry.
  - apply existsb_exists in E as [l [Hin Hp]]. apply existsb_exists. exists l.
    split; [apply H; exact Hin|exact Hp].
  - destruct (existsb (fun l => prefix l p) L') eqn:E'; [|reflexivity].
    apply existsb_exists in E' as [l [Hin Hp]].
    assert (existsb (fun l => prefix l p) L = true)
      by (apply existsb_exists; exists l; split; [apply H; exact Hin|exact Hp]).
    congruence.
Qed.

Lemma path_agree_obj a b : (exists m, a = Some (JObj m)) -> (exists m, b = Some (JObj m)) -> path_agree a b.
Proof. intros [m ->] [m' ->]. exact I. Qed.

Theorem deny_order_independent : forall L L' d d',
  nonempty_paths L -> nonempty_paths L' -> same_elements L L' ->
  wfj (JObj d) = true -> wfj (JObj d') = true -> agree (JObj d) (JObj d') ->
  agree (JObj (deny_filter (build_deny L) d)) (JObj (deny_filter (build_deny L') d')).
Proof.
  intros L L' d d' Hne Hne' Hs Hw Hw' Ha p.
  destruct (deny_exact L d Hne Hw p) as [Hc Hu].
  destruct (deny_exact L' d' Hne' Hw' p) as [Hc' Hu'].
  rewrite <- (covered_same L L' p Hs) in Hc', Hu'.
  destruct (covered L p).
  - rewrite Hc, Hc' by reflexivity. exact I.
  - specialize (Hu eq_refl). specialize (Hu' eq_refl). specialize (Ha p).
    destruct (get_path (JObj d) p) as [x|]; destruct (get_path (JObj d') p) as [y|].
    + destruct x; destruct y; cbn in Ha; try contradiction;
        try (rewrite Hu, Hu'; exact Ha);
        try (destruct Ha as [Ha ?]; discriminate);
        try (destruct Ha as [? [Ha ?]]; discriminate).
      apply path_agree_obj; assumption.
    + destruct x; contradiction.
    + contradiction.
    + rewrite Hu, Hu'. exact I.
Qed.

Theorem allow_order_independent : forall L L' d d',
  nonempty_paths L -> nonempty_paths L' -> same_elements L L' -> prefix_free L ->
  wfj (JObj d) = true -> wfj (JObj d') = true -> agree (JObj d) (JObj d') ->
  agree (JObj (allow_filter (build_allow L) d)) (JObj (allow_filter (build_allow L') d')).
Proof.
  intros L L' d d' Hne Hne' Hs Hpf Hw Hw' Ha p.
  destruct p as [|k r]; [exact I|].
  assert (Hpf' : prefix_free L').
  { intros l1 l2 H1 H2. apply Hpf; apply Hs; assumption. }
  destruct (allow_exact L d Hne Hpf Hw (k :: r)) as [Hc Hu]; [discriminate|].
  destruct (allow_exact L' d' Hne' Hpf' Hw' (k :: r)) as [Hc' Hu']; [discriminate|].
  rewrite <- (covered_same L L' _ Hs) in Hc', Hu'.
  destruct (covered L (k :: r)).
  - rewrite Hc, Hc' by reflexivity. apply Ha.
  - destruct (Hu eq_refl) as [Hiff Hobj]. destruct (Hu' eq_refl) as [Hiff' Hobj'].
    assert (Hsame : present (JObj (allow_filter (build_allow L) d)) (k :: r) =
                    present (JObj (allow_filter (build_allow L') d')) (k :: r)).
    { destruct (present (JObj (allow_filter (build_allow L) d)) (k :: r)) eqn:E; symmetry.
      - apply Hiff'. destruct (proj1 Hiff eq_refl) as [l [Hin [Hsp Hpr]]].
        exists l. split; [apply Hs; exact Hin|]. split; [exact Hsp|].
        rewrite <- (agree_present _ _ l Ha). exact Hpr.
      - destruct (present (JObj (allow_filter (build_allow L') d')) (k :: r)) eqn:E'; [|reflexivity].
        destruct (proj1 Hiff' eq_refl) as [l [Hin [Hsp Hpr]]].
        assert (true = true -> False); [|tauto]. intros _.
        assert (Hx : false = true); [|discriminate]. apply Hiff.
        exists l. split; [apply Hs; exact Hin|]. split; [exact Hsp|].
        rewrite (agree_present _ _ l Ha). exact Hpr. }
    destruct (present (JObj (allow_filter (build_allow L) d)) (k :: r)) eqn:E.
    + apply path_agree_obj; [apply Hobj; reflexivity|apply Hobj'; symmetry; exact Hsame].
    + unfold present in E, Hsame.
      destruct (get_path (JObj (allow_filter (build_allow L) d)) (k :: r)); [discriminate|].
      destruct (get_path (JObj (allow_filter (build_allow L') d')) (k :: r)); [discriminate|]. exact I.
Qed.
