(* C01 - the boolean oracle spec_b is equivalent to the Prop merge_spec (soundness and
   completeness), and the model meets the oracle. *)
Require Import Verif.Common.Base Verif.Model.C01 Verif.Spec.C01 Verif.Proof.C01.
From Coq Require Import Permutation.

Lemma ekind_eqb_eq a b : ekind_eqb a b = true <-> a = b.
Proof.
  destruct a, b; simpl; try (split; [discriminate|discriminate]); try tauto;
    rewrite str_eqb_eq; split; intros H; [subst|inversion H|subst|inversion H]; auto.
Qed.

Lemma ekind_eqb_refl a : ekind_eqb a a = true.
Proof. apply ekind_eqb_eq. reflexivity. Qed.

Lemma remove_first_perm x : forall b b', remove_first x b = Some b' -> Permutation b (x :: b').
Proof.
  induction b as [|y b IH]; simpl; intros b' H; [discriminate|].
  destruct (ekind_eqb x y) eqn:E.
  - apply ekind_eqb_eq in E. subst y. inversion H; subst. apply Permutation_refl.
  - destruct (remove_first x b) as [r'|] eqn:E2; [|discriminate]. inversion H; subst.
    eapply Permutation_trans; [apply perm_skip; apply IH; reflexivity|]. apply perm_swap.
Qed.

Lemma remove_first_in x : forall b, In x b -> exists b', remove_first x b = Some b'.
Proof.
  induction b as [|y b IH]; simpl; intros H; [contradiction|].
  destruct (ekind_eqb x y) eqn:E; [eauto|].
  destruct H as [H|H]; [subst y; rewrite ekind_eqb_refl in E; discriminate|].
  destruct (IH H) as [b' ->]. eauto.
Qed.

Lemma perm_b_sound : forall a b, perm_b a b = true -> Permutation a b.
Proof.
  induction a as [|x a IH]; simpl; intros b H.
  - destruct b; [constructor|discriminate].
  - destruct (remove_first x b) as [b'|] eqn:E; [|discriminate].
    apply Permutation_sym. eapply Permutation_trans; [apply (remove_first_perm _ _ _ E)|].
    apply perm_skip. apply Permutation_sym. apply IH. exact H.
Qed.

Lemma perm_b_complete : forall a b, Permutation a b -> perm_b a b = true.
Proof.
  induction a as [|x a IH]; simpl; intros b H.
  - apply Permutation_nil in H. subst. reflexivity.
  - assert (Hin : In x b) by (apply (Permutation_in _ H); left; reflexivity).
    destruct (remove_first_in x b Hin) as [b' E]. rewrite E. apply IH.
    apply (Permutation_cons_inv (a := x)).
    eapply Permutation_trans; [exact H|]. apply (remove_first_perm _ _ _ E).
Qed.

Section Oracle.
  Variable V : Type.
  Variable R : V -> V -> Prop.
  Variable veqb : V -> V -> bool.

  Lemma fields_b_sound (pm : list (dmap V)) (x : dmap V) :
    (forall a b, veqb a b = true -> R a b) ->
    fields_b veqb pm x = true ->
    (forall k, In k (keys x) <-> exists d, In d pm /\ In k (keys d)) /\
    (forall k v, In (k, v) x -> exists d v', In d pm /\ In (k, v') d /\ R v v').
  Proof.
    intros HR H. unfold fields_b in H.
    apply andb_true_iff in H as [H H3]. apply andb_true_iff in H as [H1 H2].
    rewrite forallb_forall in H1, H2, H3. split.
    - intros k. split.
      + intros Hk. specialize (H1 k Hk). apply existsb_exists in H1 as [d [Hd Hm]].
        apply str_mem_In in Hm. eauto.
      + intros [d [Hd Hk]]. specialize (H2 d Hd). rewrite forallb_forall in H2.
        apply str_mem_In. apply H2. exact Hk.
    - intros k v Hkv. specialize (H3 (k, v) Hkv). unfold offered_b in H3.
      apply existsb_exists in H3 as [d [Hd He]]. apply existsb_exists in He as [[k' v'] [Hin Hq]].
      simpl in Hq. apply andb_true_iff in Hq as [Hk Hv]. apply str_eqb_eq in Hk. subst k'.
      exists d, v'. auto.
  Qed.

  Lemma fields_b_complete (pm : list (dmap V)) (x : dmap V) :
    (forall a b, R a b -> veqb a b = true) ->
    (forall k, In k (keys x) <-> exists d, In d pm /\ In k (keys d)) ->
    (forall k v, In (k, v) x -> exists d v', In d pm /\ In (k, v') d /\ R v v') ->
    fields_b veqb pm x = true.
  Proof.
    intros HR Hk Hv. unfold fields_b. rewrite !andb_true_iff. repeat split.
    - apply forallb_forall. intros k Hin. apply Hk in Hin as [d [Hd Hkd]].
      apply existsb_exists. exists d. split; auto. apply str_mem_In. exact Hkd.
    - apply forallb_forall. intros d Hd. apply forallb_forall. intros k Hkd.
      apply str_mem_In. apply Hk. eauto.
    - apply forallb_forall. intros [k v] Hin. destruct (Hv k v Hin) as [d [v' [Hd [Hi Hr]]]].
      unfold offered_b. apply existsb_exists. exists d. split; auto.
      apply existsb_exists. exists (k, v'). split; auto. simpl.
      rewrite str_eqb_refl. simpl. apply HR. exact Hr.
  Qed.

  Lemma errors_b_iff (e : option (list ekind)) (ex : list ekind) :
    errors_b e ex = true <-> Permutation (err_entries e) ex /\ (e = None <-> ex = []).
  Proof.
    unfold errors_b. rewrite andb_true_iff. split.
    - intros [H1 H2]. split; [apply perm_b_sound; exact H1|].
      apply eqb_prop in H2. destruct e, ex; simpl in H2; split; intros; auto; discriminate.
    - intros [H1 H2]. split; [apply perm_b_complete; exact H1|].
      destruct e as [l|], ex as [|y ex]; simpl; auto.
      + destruct H2 as [_ H2]. specialize (H2 eq_refl). discriminate.
      + destruct H2 as [H2 _]. specialize (H2 eq_refl). discriminate.
  Qed.

  Lemma complete_b_iff (c : bool) (outs : list (outcome V)) :
    Bool.eqb c (forallb good_outcome outs) = true <->
    (c = true <-> forall o, In o outs -> good_outcome o = true).
  Proof.
    rewrite <- forallb_forall. split.
    - intros H. apply eqb_prop in H. rewrite H. tauto.
    - intros H. destruct c, (forallb good_outcome outs); simpl; auto.
      + destruct H as [H _]. apply H. reflexivity.
      + destruct H as [_ H]. apply H. reflexivity.
  Qed.

  Lemma nil_b_iff (outs : list (outcome V)) :
    negb (existsb is_payload outs) = true <-> forall o, In o outs -> is_payload o = false.
  Proof.
    rewrite negb_true_iff. split.
    - intros H o Ho. destruct (is_payload o) eqn:E; auto.
      assert (existsb is_payload outs = true) by (apply existsb_exists; eauto). congruence.
    - intros H. destruct (existsb is_payload outs) eqn:E; auto.
      apply existsb_exists in E as [o [Ho E]]. rewrite (H o Ho) in E. discriminate.
  Qed.

  (* whatever the oracle accepts satisfies the property *)
  Theorem spec_b_sound (outs : list (outcome V)) (res : result V) :
    (forall a b, veqb a b = true -> R a b) ->
    spec_b veqb outs res = true -> merge_spec R outs res.
  Proof.
    intros HR H. unfold spec_b in H. apply andb_true_iff in H as [H He].
    apply errors_b_iff in He as [He1 He2].
    unfold merge_spec. destruct res as [[x|] e]; simpl in *.
    - apply andb_true_iff in H as [Hf Hc].
      destruct (fields_b_sound _ _ HR Hf) as [Hk Hv]. apply complete_b_iff in Hc.
      split; [discriminate|]. split; [|split; assumption].
      intros x' Hx. inversion Hx; subst x'. auto.
    - split; [intros _; apply nil_b_iff; exact H|].
      split; [discriminate|]. split; assumption.
  Qed.

  (* whatever satisfies the property is accepted by the oracle: no false alarm *)
  Theorem spec_b_complete (outs : list (outcome V)) (res : result V) :
    (forall a b, R a b -> veqb a b = true) ->
    merge_spec R outs res -> spec_b veqb outs res = true.
  Proof.
    intros HR (Hn & Hx & He1 & He2). unfold spec_b. apply andb_true_iff. split.
    - destruct res as [[x|] e]; simpl in *.
      + destruct (Hx x eq_refl) as (Hk & Hv & Hc). apply andb_true_iff. split.
        * apply fields_b_complete; auto.
        * apply complete_b_iff. exact Hc.
      + apply nil_b_iff. apply Hn. reflexivity.
    - apply errors_b_iff. split; assumption.
  Qed.

  (* the model meets the oracle for every input and every arrival order *)
  Theorem model_meets_oracle (outs : list (outcome V)) (arrivals : list (msg V)) :
    (forall d k v, In d (payload_maps outs) -> In (k, v) d -> veqb v v = true) ->
    Permutation arrivals (map (@msg_of V) outs) -> 2 <= List.length outs ->
    spec_b veqb outs (merge_run (List.length outs) arrivals) = true.
  Proof.
    intros Hrefl HP Hlen.
    pose proof (merge_spec_all_orders V outs arrivals HP Hlen) as (Hn & Hx & He1 & He2).
    unfold spec_b. apply andb_true_iff. split.
    - destruct (merge_run (List.length outs) arrivals) as [[x|] e]; simpl in *.
      + destruct (Hx x eq_refl) as (Hk & Hv & Hc). apply andb_true_iff. split.
        * unfold fields_b. rewrite !andb_true_iff. repeat split.
          -- apply forallb_forall. intros k Hin. apply Hk in Hin as [d [Hd Hkd]].
             apply existsb_exists. exists d. split; auto. apply str_mem_In. exact Hkd.
          -- apply forallb_forall. intros d Hd. apply forallb_forall. intros k Hkd.
             apply str_mem_In. apply Hk. eauto.
          -- apply forallb_forall. intros [k v] Hin. destruct (Hv k v Hin) as [d [v' [Hd [Hi Hr]]]].
             subst v'. unfold offered_b. apply existsb_exists. exists d. split; auto.
             apply existsb_exists. exists (k, v). split; auto. simpl.
             rewrite str_eqb_refl. simpl. apply (Hrefl d k v Hd Hi).
        * apply complete_b_iff. exact Hc.
      + apply nil_b_iff. apply Hn. reflexivity.
    - apply errors_b_iff. split; assumption.
  Qed.
End Oracle.

(* the model meets the oracle also when it is fed what the backends returned and how the
   select of each requestPart went (the case kind CRace of the correspondence run) *)
Theorem model_meets_oracle_from_returns (V : Type) (veqb : V -> V -> bool)
    (ocs : list (outcome V * option ekind)) (arrivals : list (msg V)) :
  let effs := map (fun oc => effective (fst oc) (snd oc)) ocs in
  (forall d k v, In d (payload_maps effs) -> In (k, v) d -> veqb v v = true) ->
  Permutation arrivals (map (fun oc => request_part (return_of (fst oc)) (snd oc)) ocs) ->
  2 <= List.length ocs ->
  spec_b veqb effs (merge_run (List.length ocs) arrivals) = true.
Proof.
  intros effs Hrefl HP Hl.
  replace (List.length ocs) with (List.length effs) by apply map_length.
  apply model_meets_oracle; auto; [|unfold effs; rewrite map_length; exact Hl].
  unfold effs. rewrite map_map. erewrite map_ext; [exact HP|].
  intros [o c]. simpl. symmetry. apply request_part_msg_of.
Qed.

(* the converse of "nil only when no backend answered" also holds of the model *)
Theorem nil_iff_none_answered (V : Type) (outs : list (outcome V)) (arrivals : list (msg V)) :
  Permutation arrivals (map (@msg_of V) outs) ->
  (fst (merge_run (List.length outs) arrivals) = None <-> forall o, In o outs -> is_payload o = false).
Proof.
  intros HP.
  pose proof (inv_run V (List.length outs) arrivals) as (_ & _ & Hc).
  unfold merge_run, acc_result.
  destruct (cur (fold_left acc_merge arrivals (acc_init (Z.of_nat (List.length outs))))) as [r|]; simpl.
  - split; [discriminate|]. intros H. exfalso. destruct Hc as (Hne & _).
    destruct (payloads_of V arrivals) as [|p ps] eqn:E; [congruence|].
    assert (Hin : In (MP p) arrivals) by (apply in_payloads; rewrite E; left; reflexivity).
    apply (Permutation_in _ HP) in Hin. apply in_map_iff in Hin as [o [Hm Ho]].
    specialize (H o Ho). destruct o; simpl in *; discriminate.
  - split; auto. intros _ o Ho. destruct o as [c d|e| |dl|e c0 d0]; auto.
    assert (Hin : In (MP {| data := d; complete := c |}) arrivals).
    { apply (Permutation_in _ (Permutation_sym HP)). apply in_map_iff. exists (OPayload c d). auto. }
    apply in_payloads in Hin. rewrite Hc in Hin. contradiction.
Qed.

(* the bound on the number of backends is needed: with a single backend the accumulator
   hands back a null-data payload still flagged complete (NewMergeDataMiddleware does not
   use parallelMerge for one backend) *)
Theorem single_backend_refuted :
  exists (outs : list (outcome nat)) (arrivals : list (msg nat)),
    List.length outs = 1%nat /\ Permutation arrivals (map (@msg_of nat) outs) /\
    ~ merge_spec eq outs (merge_run (List.length outs) arrivals).
Proof.
  exists [OPayload true None], [MP {| data := None; complete := true |}].
  split; [reflexivity|]. split; [apply Permutation_refl|].
  intros (_ & Hx & _). destruct (Hx _ eq_refl) as (_ & _ & [Hc _]).
  specialize (Hc eq_refl _ (or_introl eq_refl)). discriminate.
Qed.
