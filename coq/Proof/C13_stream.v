(* C13 - proofs, part 2: the no-op path.  Lifetime of the backend body reader against the
   cancellations of the handler / concurrent middleware, for every schedule of the handler
   goroutine, the closer goroutine (closeOnCancel) and the clock; status and headers. *)
Require Import Verif.Common.Base Verif.Common.Json Verif.Common.Ctx.
Require Import Verif.Model.C13 Verif.Spec.C13.
Close Scope Z_scope.
Open Scope string_scope.
Open Scope list_scope.

(* ---- bookkeeping ---- *)
Lemma run_cons c s l ls : run c s (l :: ls) = run c (step c s l) ls.
Proof. reflexivity. Qed.

Lemma run_app c s a b : run c s (a ++ b) = run c (run c s a) b.
Proof. unfold run. apply fold_left_app. Qed.

Lemma step_clock_mono c s l : (clock s <= clock (step c s l))%Z.
Proof.
  destruct l; simpl.
  - destruct (prog s) as [|[|t] p]; simpl; try lia.
    destruct (trunc s); simpl; try lia.
    destruct (rest s); simpl; try lia. destruct (rd s); simpl; lia.
  - destruct (done (cancelled s) (clock s) c); simpl; lia.
  - lia.
Qed.

Lemma run_clock_mono c sched : forall s, (clock s <= clock (run c s sched))%Z.
Proof.
  induction sched as [|l ls IH]; intros s; [simpl; lia|].
  rewrite run_cons. pose proof (step_clock_mono c s l). specialize (IH (step c s l)). lia.
Qed.

(* ---- only loss, never corruption: what was copied is always a prefix of the body ---- *)
Definition conserved (body : list chunk) (s : nst) : Prop := got s ++ rest s = body.

Lemma step_conserved c body s l : conserved body s -> conserved body (step c s l).
Proof.
  unfold conserved. intros H. destruct l; simpl.
  - destruct (prog s) as [|[|t] p]; simpl; try exact H.
    destruct (trunc s); simpl; try exact H.
    destruct (rest s) as [|ch r] eqn:E; simpl; [try rewrite E in H; exact H|].
    destruct (rd s); simpl; [|try rewrite E; exact H].
    rewrite <- app_assoc. exact H.
  - destruct (done (cancelled s) (clock s) c); simpl; exact H.
  - exact H.
Qed.

Lemma run_conserved c body sched : forall s, conserved body s -> conserved body (run c s sched).
Proof.
  induction sched as [|l ls IH]; intros s H; [exact H|].
  rewrite run_cons. apply IH. apply step_conserved. exact H.
Qed.

Lemma noop_prefix cc body now0 tmo sched :
  exists tl, got (run (reader_ctx cc now0 tmo) (init_st cc body now0) sched) ++ tl = body.
Proof.
  eexists. apply (run_conserved _ body sched). reflexivity.
Qed.

(* ---- one call (no concurrent middleware in the stack) ---- *)
Definition single_ctx (now0 tmo : Z) : ctx := with_timeout background 0 now0 tmo.

Lemma reader_ctx_single cc now0 tmo : cc <= 1 -> reader_ctx cc now0 tmo = single_ctx now0 tmo.
Proof. intros H. unfold reader_ctx. apply Nat.leb_le in H. rewrite H. reflexivity. Qed.

Lemma handler_prog_single cc body : cc <= 1 ->
  handler_prog cc body = repeat ARead (S (List.length body)) ++ [ACancel 0].
Proof. intros H. unfold handler_prog. apply Nat.leb_le in H. rewrite H. reflexivity. Qed.

Lemma single_not_done now0 tmo now : (now < now0 + tmo)%Z -> done [] now (single_ctx now0 tmo) = false.
Proof.
  intros H. unfold single_ctx, with_timeout, background, done. simpl.
  unfold tok_cancelled, expired. simpl. rewrite orb_false_r. apply Z.leb_gt. exact H.
Qed.

(* invariant of the single-call run: before the handler's own cancel nothing is cancelled, the
   reader is open, enough reads remain; afterwards the copy is complete *)
Definition inv1 (body : list chunk) (s : nst) : Prop :=
  conserved body s /\ trunc s = false /\
  ((cancelled s = [] /\ rd s = Open /\
    exists k, prog s = repeat ARead k ++ [ACancel 0] /\ List.length (rest s) <= k)
   \/ (prog s = [] /\ rest s = [])).

Lemma step_inv1 now0 tmo body s l :
  (clock s < now0 + tmo)%Z -> inv1 body s -> inv1 body (step (single_ctx now0 tmo) s l).
Proof.
  intros Hc (Hcons & Htr & Hph).
  split; [apply step_conserved; exact Hcons|].
  destruct l.
  - (* handler *)
    simpl. destruct Hph as [(Hcan & Hrd & k & Hp & Hk)|(Hp & Hr)].
    + rewrite Hp. destruct k as [|k]; simpl.
      * split; [exact Htr|]. right. split; [reflexivity|].
        destruct (rest s); [reflexivity|simpl in Hk; lia].
      * rewrite Htr. destruct (rest s) as [|ch r] eqn:E; simpl.
        -- split; [reflexivity|]. left. repeat split; auto. exists k. split; [reflexivity|simpl; lia].
        -- rewrite Hrd. simpl. split; [reflexivity|]. left. repeat split; auto.
           exists k. split; [reflexivity|simpl in Hk; lia].
    + rewrite Hp. split; [exact Htr|]. right. split; assumption.
  - (* closer *)
    unfold step. destruct Hph as [(Hcan & Hrd & k & Hp & Hk)|(Hp & Hr)].
    + rewrite Hcan. rewrite (single_not_done now0 tmo (clock s) Hc).
      split; [exact Htr|]. left. repeat split; auto. exists k. split; assumption.
    + destruct (done (cancelled s) (clock s) (single_ctx now0 tmo)); simpl;
        (split; [exact Htr|]; right; split; assumption).
  - (* clock *)
    simpl. split; [exact Htr|]. destruct Hph as [(Hcan & Hrd & k & Hp & Hk)|(Hp & Hr)].
    + left. repeat split; auto. exists k. split; assumption.
    + right. split; assumption.
Qed.

Lemma run_inv1 now0 tmo body sched : forall s,
  inv1 body s -> (clock (run (single_ctx now0 tmo) s sched) < now0 + tmo)%Z ->
  inv1 body (run (single_ctx now0 tmo) s sched).
Proof.
  induction sched as [|l ls IH]; intros s Hi Hc; [exact Hi|].
  rewrite run_cons in *. apply IH; [|exact Hc].
  apply step_inv1; [|exact Hi].
  pose proof (step_clock_mono (single_ctx now0 tmo) s l).
  pose proof (run_clock_mono (single_ctx now0 tmo) ls (step (single_ctx now0 tmo) s l)). lia.
Qed.

Lemma init_inv1 cc body now0 : cc <= 1 -> inv1 body (init_st cc body now0).
Proof.
  intros H. unfold inv1, init_st, conserved. simpl. repeat split.
  left. repeat split. exists (S (List.length body)). split; [apply handler_prog_single; exact H|lia].
Qed.

(* for every schedule: when the handler has finished and the endpoint timeout has not fired,
   every read found the reader open and the whole body was copied *)
Lemma noop_single cc body now0 tmo sched :
  cc <= 1 ->
  let fin := run (reader_ctx cc now0 tmo) (init_st cc body now0) sched in
  finished fin = true -> (clock fin < now0 + tmo)%Z ->
  got fin = body /\ trunc fin = false.
Proof.
  intros Hcc. rewrite (reader_ctx_single cc now0 tmo Hcc). intros fin Hfin Hclk.
  destruct (run_inv1 now0 tmo body sched _ (init_inv1 cc body now0 Hcc) Hclk) as (Hcons & Htr & Hph).
  fold fin in Hcons, Htr, Hph. split; [|exact Htr].
  destruct Hph as [(_ & _ & k & Hp & _)|(_ & Hr)].
  - unfold finished in Hfin. rewrite Hp in Hfin. destruct k; discriminate.
  - unfold conserved in Hcons. rewrite Hr, app_nil_r in Hcons. exact Hcons.
Qed.

(* the reader is open at every read: stated on the trace *)
Lemma noop_single_open_before_cancel cc body now0 tmo sched :
  cc <= 1 ->
  let fin := run (reader_ctx cc now0 tmo) (init_st cc body now0) sched in
  (clock fin < now0 + tmo)%Z -> finished fin = false -> rd fin = Open.
Proof.
  intros Hcc. rewrite (reader_ctx_single cc now0 tmo Hcc). intros fin Hclk Hfin.
  destruct (run_inv1 now0 tmo body sched _ (init_inv1 cc body now0 Hcc) Hclk) as (_ & _ & Hph).
  fold fin in Hph. destruct Hph as [(_ & Hrd & _)|(Hp & _)]; [exact Hrd|].
  unfold finished in Hfin. rewrite Hp in Hfin. discriminate.
Qed.

(* ---- concurrent calls: the reader's context is cancelled before the copy starts ---- *)
Lemma reader_ctx_conc cc now0 tmo : 2 <= cc ->
  reader_ctx cc now0 tmo =
  with_cancel (with_timeout (with_timeout background 0 now0 tmo) 1 now0 (75 * tmo / 100)%Z) 2.
Proof.
  intros H. unfold reader_ctx. destruct (Nat.leb cc 1) eqn:E; [apply Nat.leb_le in E; lia|reflexivity].
Qed.

Lemma handler_prog_conc cc body : 2 <= cc ->
  handler_prog cc body = ACancel 1 :: repeat ARead (S (List.length body)) ++ [ACancel 0].
Proof.
  intros H. unfold handler_prog. destruct (Nat.leb cc 1) eqn:E; [apply Nat.leb_le in E; lia|reflexivity].
Qed.

Lemma conc_done_after_cancel cc now0 tmo cs now : 2 <= cc -> In 1 cs ->
  done cs now (reader_ctx cc now0 tmo) = true.
Proof.
  intros H Hin. rewrite (reader_ctx_conc cc now0 tmo H).
  apply (done_cancelled cs now _ {| tok := 1; dl := Some (omin (deadline (with_timeout background 0 now0 tmo)) (now0 + 75 * tmo / 100)) |}).
  - simpl. right. left. reflexivity.
  - exact Hin.
Qed.

(* skipping reads once the copy has failed *)
Lemma run_truncated c k : forall s p,
  trunc s = true -> prog s = repeat ARead k ++ p ->
  prog (run c s (repeat LH k)) = p /\ got (run c s (repeat LH k)) = got s /\
  trunc (run c s (repeat LH k)) = true /\ clock (run c s (repeat LH k)) = clock s.
Proof.
  induction k as [|k IH]; intros s p Ht Hp.
  - simpl in *. auto.
  - change (repeat LH (S k)) with (LH :: repeat LH k). rewrite run_cons.
    assert (Hs : prog (step c s LH) = repeat ARead k ++ p /\ got (step c s LH) = got s /\
                 trunc (step c s LH) = true /\ clock (step c s LH) = clock s).
    { simpl. rewrite Hp. simpl. rewrite Ht. simpl. auto. }
    destruct Hs as (A & B & C & D).
    destruct (IH (step c s LH) p C A) as (A' & B' & C' & D').
    rewrite A', B', C', D'. auto.
Qed.

(* for every non-empty body there is a schedule - the closer runs right after the middleware's
   cancel - in which the client gets nothing of it, although no timeout fired *)
Lemma noop_concurrent_loses cc body now0 tmo :
  2 <= cc -> body <> [] -> (0 < tmo)%Z ->
  exists sched,
    let fin := run (reader_ctx cc now0 tmo) (init_st cc body now0) sched in
    finished fin = true /\ (clock fin < now0 + tmo)%Z /\ got fin = [] /\ trunc fin = true.
Proof.
  intros Hcc Hb Ht. destruct body as [|ch r]; [contradiction|].
  exists ([LH; LC; LH] ++ repeat LH (List.length (ch :: r)) ++ [LH]).
  set (c := reader_ctx cc now0 tmo).
  assert (Hd : forall now, done [1] now c = true).
  { intros now. apply conc_done_after_cancel; [exact Hcc|left; reflexivity]. }
  clearbody c.
  rewrite run_app.
  assert (E3 : run c (init_st cc (ch :: r) now0) [LH; LC; LH] =
               {| rd := Closed; rest := ch :: r; got := []; cancelled := [1];
                  prog := repeat ARead (List.length (ch :: r)) ++ [ACancel 0]; trunc := true; clock := now0 |}).
  { unfold run, init_st. rewrite (handler_prog_conc cc (ch :: r) Hcc).
    simpl. rewrite Hd. simpl. reflexivity. }
  rewrite E3. rewrite run_app.
  match goal with |- context [run c ?s (repeat LH ?k)] =>
    destruct (run_truncated c k s [ACancel 0] eq_refl eq_refl) as (Hp & Hg & Htr & Hck);
    set (s2 := run c s (repeat LH k)) in *
  end.
  unfold run at 1. simpl fold_left. unfold step. rewrite Hp. simpl.
  unfold finished. simpl. repeat split; try assumption. rewrite Hck. simpl. lia.
Qed.

(* ---- status and headers ---- *)
Lemma header_eqb_eq a b : header_eqb a b = true <-> a = b.
Proof.
  destruct a as [k v], b as [k' v']. unfold header_eqb. simpl.
  rewrite andb_true_iff, !str_eqb_eq. split; [intros [-> ->]; reflexivity|intros H; inversion H; auto].
Qed.

Lemma count_h_notin h l : ~ In h l -> count_h h l = 0.
Proof.
  induction l as [|x r IH]; simpl; intros Hn; [reflexivity|].
  destruct (header_eqb h x) eqn:E.
  - apply header_eqb_eq in E. subst. exfalso. apply Hn. left. reflexivity.
  - simpl. apply IH. intros Hin. apply Hn. right. exact Hin.
Qed.

Lemma in_dec_header (h : header) l : In h l \/ ~ In h l.
Proof.
  induction l as [|x r IH]; [right; intros []|].
  destruct (header_eqb h x) eqn:E.
  - apply header_eqb_eq in E. subst. left. left. reflexivity.
  - destruct IH as [IH|IH]; [left; right; exact IH|].
    right. intros [Hx|Hx]; [|contradiction]. subst.
    assert (header_eqb h h = true) by (apply header_eqb_eq; reflexivity). congruence.
Qed.

Lemma sub_mset_sound a b : sub_mset a b = true -> forall h, count_h h a <= count_h h b.
Proof.
  unfold sub_mset. rewrite forallb_forall. intros H h.
  destruct (in_dec_header h a) as [Hin|Hn].
  - apply Nat.leb_le. apply H. exact Hin.
  - rewrite (count_h_notin h a Hn). lia.
Qed.

Lemma count_h_app h a b : count_h h (a ++ b) = count_h h a + count_h h b.
Proof. induction a as [|x r IH]; simpl; [reflexivity|]. rewrite IH. lia. Qed.

Lemma sub_mset_app g hs : sub_mset hs (g ++ hs) = true.
Proof.
  unfold sub_mset. apply forallb_forall. intros h _. apply Nat.leb_le. rewrite count_h_app. lia.
Qed.

(* every backend header line reaches the client with its multiplicity, next to the gateway's *)
Lemma noop_headers_included r cc st hs body tmo sched h :
  count_h h hs <= count_h h (n_headers (noop_client_sched r cc st hs body tmo sched)).
Proof.
  change (n_headers (noop_client_sched r cc st hs body tmo sched)) with (gateway_headers ++ hs).
  rewrite count_h_app. lia.
Qed.

Lemma noop_status_kept r cc st hs body tmo sched :
  st <> 0%Z -> n_status (noop_client_sched r cc st hs body tmo sched) = st.
Proof.
  intros H. simpl. destruct r; simpl; [reflexivity|].
  destruct (st =? 0)%Z eqn:E; [apply Z.eqb_eq in E; contradiction|reflexivity].
Qed.

(* ---- oracle ---- *)
Lemma chunk_eqb_eq a b : chunk_eqb a b = true <-> a = b.
Proof.
  destruct a as [n s], b as [n' s']. unfold chunk_eqb. simpl.
  rewrite andb_true_iff, N.eqb_eq, str_eqb_eq. split; [intros [-> ->]; reflexivity|intros H; inversion H; auto].
Qed.

Lemma chunks_eqb_eq a b : chunks_eqb a b = true <-> a = b.
Proof. apply list_eqb_eq. apply chunk_eqb_eq. Qed.

Lemma spec_noop_sound st hs body o : spec_noop_b st hs body o = true -> Spec_noop st hs body o.
Proof.
  unfold spec_noop_b, Spec_noop. intros H.
  apply andb_true_iff in H as [H H4]. apply andb_true_iff in H as [H H3]. apply andb_true_iff in H as [H1 H2].
  repeat split.
  - apply Z.eqb_eq. exact H1.
  - apply chunks_eqb_eq. exact H2.
  - apply negb_true_iff. exact H3.
  - apply sub_mset_sound. exact H4.
Qed.

Lemma spec_noop_complete st hs body o : Spec_noop st hs body o -> spec_noop_b st hs body o = true.
Proof.
  unfold spec_noop_b, Spec_noop. intros (H1 & H2 & H3 & H4).
  rewrite H1, H2, H3, Z.eqb_refl. simpl.
  rewrite (proj2 (chunks_eqb_eq body body) eq_refl). simpl.
  unfold sub_mset. apply forallb_forall. intros h _. apply Nat.leb_le. apply H4.
Qed.

(* the eager schedule lets the handler finish *)
Lemma step_LC_prog c s : prog (step c s LC) = prog s.
Proof. simpl. destruct (done (cancelled s) (clock s) c); reflexivity. Qed.
Lemma step_LC_clock c s : clock (step c s LC) = clock s.
Proof. simpl. destruct (done (cancelled s) (clock s) c); reflexivity. Qed.
Lemma step_LH_prog c s : List.length (prog (step c s LH)) = pred (List.length (prog s)).
Proof.
  unfold step. destruct (prog s) as [|[|t] p] eqn:E; simpl; try (rewrite ?E; reflexivity).
  destruct (trunc s); simpl; try reflexivity.
  destruct (rest s); simpl; try reflexivity. destruct (rd s); reflexivity.
Qed.
Lemma step_LH_clock c s : clock (step c s LH) = clock s.
Proof.
  unfold step. destruct (prog s) as [|[|t] p] eqn:E; simpl; try (rewrite ?E; reflexivity).
  destruct (trunc s); simpl; try reflexivity.
  destruct (rest s); simpl; try reflexivity. destruct (rd s); reflexivity.
Qed.

Lemma eager_finishes c n : forall s, List.length (prog s) <= n ->
  finished (run c s (eager_sched n)) = true /\ clock (run c s (eager_sched n)) = clock s.
Proof.
  induction n as [|n IH]; intros s H.
  - simpl. unfold finished. destruct (prog s); [auto|simpl in H; lia].
  - simpl eager_sched. rewrite !run_cons.
    destruct (IH (step c (step c s LH) LC)) as [F C].
    + rewrite step_LC_prog, step_LH_prog. lia.
    + split; [exact F|]. rewrite C, step_LC_clock, step_LH_clock. reflexivity.
Qed.

Lemma noop_model_meets_oracle r cc st hs body :
  cc <= 1 -> st <> 0%Z -> spec_noop_b st hs body (noop_client r cc st hs body) = true.
Proof.
  intros Hcc Hst. apply spec_noop_complete. unfold noop_client.
  set (sched := eager_sched (List.length (handler_prog cc body))).
  destruct (eager_finishes (reader_ctx cc 0 1000) (List.length (handler_prog cc body)) (init_st cc body 0) (Nat.le_refl _)) as [F C].
  fold sched in F, C.
  destruct (noop_single cc body 0%Z 1000%Z sched Hcc F) as [G T].
  { rewrite C. simpl. lia. }
  unfold Spec_noop. repeat split.
  - apply noop_status_kept. exact Hst.
  - exact G.
  - exact T.
  - intros h. apply noop_headers_included.
Qed.

Lemma spec_noop_iff st hs body o : spec_noop_b st hs body o = true <-> Spec_noop st hs body o.
Proof. split; [apply spec_noop_sound|apply spec_noop_complete]. Qed.

Lemma noop_concurrent_refuted_witness :
  exists body sched,
    let fin := run (reader_ctx 2 0 1000) (init_st 2 body 0) sched in
    finished fin = true /\ (clock fin < 0 + 1000)%Z /\ got fin <> body.
Proof.
  exists [(5%N, "hello")], [LH; LC; LH; LH; LH]. vm_compute. repeat split; congruence.
Qed.

(* concurrent calls, EVERY schedule: as soon as the handler has made its first move (the
   middleware's cancel), i.e. before any read of the copy, the reader's context is done - the
   closer goroutine is enabled during the whole copy: the copy always races with Close *)
Definition started_inv (cc : nat) (body : list chunk) (s : nst) : Prop :=
  prog s = handler_prog cc body \/ In 1 (cancelled s).

Lemma step_started_inv c cc body s l : 2 <= cc -> started_inv cc body s -> started_inv cc body (step c s l).
Proof.
  intros Hcc [Hp|Hin].
  - destruct l.
    + right. simpl. rewrite Hp. rewrite (handler_prog_conc cc body Hcc). simpl. left. reflexivity.
    + left. rewrite step_LC_prog. exact Hp.
    + left. exact Hp.
  - right. destruct l; simpl.
    + destruct (prog s) as [|[|t] p]; simpl; auto.
      destruct (trunc s); simpl; auto. destruct (rest s); simpl; auto. destruct (rd s); simpl; auto.
    + destruct (done (cancelled s) (clock s) c); simpl; exact Hin.
    + exact Hin.
Qed.

Lemma noop_concurrent_always_racing cc body now0 tmo sched :
  2 <= cc ->
  let s := run (reader_ctx cc now0 tmo) (init_st cc body now0) sched in
  prog s = handler_prog cc body \/ done (cancelled s) (clock s) (reader_ctx cc now0 tmo) = true.
Proof.
  intros Hcc.
  assert (G : forall sched s0, started_inv cc body s0 ->
                started_inv cc body (run (reader_ctx cc now0 tmo) s0 sched)).
  { clear sched. induction sched as [|l ls IH]; intros s0 H0; [exact H0|].
    rewrite run_cons. apply IH. apply step_started_inv; assumption. }
  intros s. destruct (G sched (init_st cc body now0)) as [Hp|Hin]; [left; reflexivity|left; exact Hp|].
  right. apply conc_done_after_cancel; assumption.
Qed.

(* the http client's error-reporting flags never reach a no-op backend's status handling *)
Lemma noop_ignores_error_flags f : noop_backend_status_handler f = HNoOp.
Proof. reflexivity. Qed.

(* bytes: the client's body is the concatenation of what was copied.  Whatever way the backend
   cuts the same bytes into chunks (and however many there are), one call delivers the same bytes *)
Definition bytes_of (l : list chunk) : string := String.concat "" (map snd l).

Lemma noop_bytes_any_chunking cc body1 body2 now0 tmo sched1 sched2 :
  cc <= 1 -> bytes_of body1 = bytes_of body2 ->
  let fin1 := run (reader_ctx cc now0 tmo) (init_st cc body1 now0) sched1 in
  let fin2 := run (reader_ctx cc now0 tmo) (init_st cc body2 now0) sched2 in
  finished fin1 = true -> finished fin2 = true ->
  (clock fin1 < now0 + tmo)%Z -> (clock fin2 < now0 + tmo)%Z ->
  bytes_of (got fin1) = bytes_of body1 /\ bytes_of (got fin1) = bytes_of (got fin2).
Proof.
  intros Hcc Hb fin1 fin2 F1 F2 C1 C2.
  destruct (noop_single cc body1 now0 tmo sched1 Hcc F1 C1) as [G1 _].
  destruct (noop_single cc body2 now0 tmo sched2 Hcc F2 C2) as [G2 _].
  fold fin1 in G1. fold fin2 in G2. rewrite G1, G2. split; [reflexivity|exact Hb].
Qed.
