(* C13 - proofs, part 3: Response.Data is a Go map; the order in which a render (or the backend)
   writes the members of an object, at any depth, is irrelevant for semantic identity. *)
Require Import Verif.Common.Base Verif.Common.Json Verif.Common.JsonFacts.
Require Import Verif.Model.C13 Verif.Spec.C13 Verif.Proof.C13.
From Coq Require Import Permutation.
Open Scope string_scope.
Open Scope list_scope.

(* b is a with the members of objects rearranged, at every depth *)
Inductive reorder : json -> json -> Prop :=
| RNull : reorder JNull JNull
| RBool : forall b, reorder (JBool b) (JBool b)
| RNum : forall l, reorder (JNum l) (JNum l)
| RStr : forall s, reorder (JStr s) (JStr s)
| RArr : forall l l', Forall2 reorder l l' -> reorder (JArr l) (JArr l')
| RObj : forall m m' m'',
    Forall2 (fun a b => fst a = fst b /\ reorder (snd a) (snd b)) m m' ->
    Permutation m' m'' -> reorder (JObj m) (JObj m'').

Lemma reorder_arr_inv l b : reorder (JArr l) b -> exists l', b = JArr l' /\ Forall2 reorder l l'.
Proof. intros H. inversion H; subst. eauto. Qed.

Lemma reorder_obj_inv m b : reorder (JObj m) b ->
  exists m' m'', b = JObj m'' /\
    Forall2 (fun a b => fst a = fst b /\ reorder (snd a) (snd b)) m m' /\ Permutation m' m''.
Proof. intros H. inversion H; subst. eauto. Qed.

Lemma forall2_keys m m' :
  Forall2 (fun a b : string * json => fst a = fst b /\ reorder (snd a) (snd b)) m m' -> keys m = keys m'.
Proof.
  induction 1 as [|[k x] [k' y] r r' [E _] _ IH]; [reflexivity|]. simpl in *. subst. f_equal. exact IH.
Qed.

Lemma forall2_lookup m m' k :
  Forall2 (fun a b : string * json => fst a = fst b /\ reorder (snd a) (snd b)) m m' ->
  match lookup k m with
  | Some x => exists y, lookup k m' = Some y /\ reorder x y
  | None => lookup k m' = None
  end.
Proof.
  induction 1 as [|[k1 x] [k2 y] r r' [E R] _ IH]; simpl in *; [reflexivity|]. subst k2.
  destruct (str_eqb k k1); [eauto|exact IH].
Qed.

Lemma in_lookup_nodup {V} (m : list (string * V)) k :
  NoDup (keys m) -> forall x, lookup k m = Some x <-> In (k, x) m.
Proof.
  intros Hn x. split; [apply lookup_In|].
  apply nodup_lookup_in. unfold nodup_keys. apply nodup_str_NoDup. exact Hn.
Qed.

Lemma perm_lookup {V} (m m' : list (string * V)) k :
  NoDup (keys m) -> Permutation m m' -> lookup k m = lookup k m'.
Proof.
  intros Hn Hp.
  assert (Hn' : NoDup (keys m')).
  { unfold keys in *. eapply Permutation_NoDup; [apply Permutation_map; exact Hp|exact Hn]. }
  destruct (lookup k m) as [x|] eqn:E.
  - symmetry. apply (in_lookup_nodup m' k Hn'). eapply Permutation_in; [exact Hp|].
    apply (in_lookup_nodup m k Hn). exact E.
  - destruct (lookup k m') as [y|] eqn:E'; [|reflexivity].
    apply (in_lookup_nodup m' k Hn') in E'.
    apply (Permutation_in _ (Permutation_sym Hp)) in E'.
    apply (in_lookup_nodup m k Hn) in E'. congruence.
Qed.

Lemma reorder_same_doc a : forall b, wfj a = true -> reorder a b -> same_doc a b.
Proof.
  induction a using json_ind'; intros b' Hwf Hr.
  - inversion Hr; subst; constructor.
  - inversion Hr; subst; constructor.
  - inversion Hr; subst; constructor.
  - inversion Hr; subst; constructor.
  - apply reorder_arr_inv in Hr as (l' & -> & HF). apply wfj_arr_inv in Hwf. constructor.
    induction HF; [constructor|].
    inversion H; subst. inversion Hwf; subst.
    constructor; [apply H3; assumption|apply IHHF; assumption].
  - apply reorder_obj_inv in Hr as (m' & m'' & -> & HF & HP).
    apply wfj_obj_inv in Hwf as [Hnd Hall].
    assert (Hn' : NoDup (keys m')).
    { rewrite <- (forall2_keys m m' HF). apply nodup_keys_NoDup. exact Hnd. }
    constructor.
    + intros k. rewrite <- (perm_lookup m' m'' k Hn' HP).
      pose proof (forall2_lookup m m' k HF) as L.
      destruct (lookup k m) as [x|] eqn:E.
      * destruct L as (y & Hy & _). rewrite Hy. split; discriminate.
      * rewrite L. tauto.
    + intros k x y Hx Hy. rewrite <- (perm_lookup m' m'' k Hn' HP) in Hy.
      pose proof (forall2_lookup m m' k HF) as L. rewrite Hx in L.
      destruct L as (y' & Hy' & R). assert (y' = y) by congruence. subst y'.
      rewrite Forall_forall in H, Hall.
      apply (H (k, x)); [apply lookup_In; exact Hx| |exact R].
      apply (Hall (k, x)). apply lookup_In. exact Hx.
  - discriminate.
Qed.

(* with the model: whatever member order the render writes, the client's document is
   semantically identical to the backend's object *)
Lemma json_identity_any_order r cc m v' :
  wfj (JObj m) = true ->
  (forall t, c_body (client_body r EJson false OJson cc (BDoc (JObj m))) = BJson t -> reorder t v') ->
  same_doc (JObj m) v'.
Proof.
  intros Hwf H. apply reorder_same_doc; [exact Hwf|]. apply H. rewrite json_identity. reflexivity.
Qed.
