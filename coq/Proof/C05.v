(* C05 - proofs about the collection loop (all arrival lists), the oracle, CloneRequest. *)
Require Import Verif.Common.Base Verif.Model.C05 Verif.Spec.C05.
From Coq Require Import Permutation.

(* ---------------------------------------------------------------------------------- *)
(* equalities *)
Lemma err_eqb_eq a b : err_eqb a b = true <-> a = b.
Proof.
  destruct a, b; simpl; try (split; [discriminate|discriminate]); try tauto.
  - rewrite N.eqb_eq. split; [intros ->; reflexivity|intros H; inversion H; reflexivity].
  - rewrite str_eqb_eq. split; [intros ->; reflexivity|intros H; inversion H; reflexivity].
Qed.
Lemma resp_eqb_eq a b : resp_eqb a b = true <-> a = b.
Proof.
  destruct a as [i c], b as [j d]; unfold resp_eqb; simpl.
  rewrite andb_true_iff, N.eqb_eq, Bool.eqb_true_iff.
  split; [intros [-> ->]; reflexivity|intros H; inversion H; auto].
Qed.
Lemma res_in_In r prod : res_in r prod = true <-> In (Res r) prod.
Proof.
  unfold res_in. rewrite existsb_exists. split.
  - intros (e & Hin & He). destruct e as [x| |]; try discriminate.
    apply resp_eqb_eq in He. subst. exact Hin.
  - intros H. exists (Res r). split; [exact H|]. apply resp_eqb_eq. reflexivity.
Qed.
Lemma err_in_In x prod : err_in x prod = true <-> In (Fail x) prod.
Proof.
  unfold err_in. rewrite existsb_exists. split.
  - intros (e & Hin & He). destruct e as [|y|]; try discriminate.
    apply err_eqb_eq in He. subst. exact Hin.
  - intros H. exists (Fail x). split; [exact H|]. apply err_eqb_eq. reflexivity.
Qed.
Lemma any_complete_iff prod : any_complete prod = true <-> complete_in prod.
Proof.
  unfold any_complete, complete_in. rewrite existsb_exists. split.
  - intros (e & Hin & He). destruct e as [r| |]; try discriminate. exists r. auto.
  - intros (r & Hin & Hc). exists (Res r). auto.
Qed.
Lemma any_complete_false prod :
  any_complete prod = false <-> (forall r, In (Res r) prod -> r_complete r = false).
Proof.
  split.
  - intros H r Hin. destruct (r_complete r) eqn:E; [|reflexivity].
    assert (any_complete prod = true) by (apply any_complete_iff; exists r; auto). congruence.
  - intros H. destruct (any_complete prod) eqn:E; [|reflexivity].
    apply any_complete_iff in E. destruct E as (r & Hin & Hc). rewrite (H r Hin) in Hc. discriminate.
Qed.

(* ---------------------------------------------------------------------------------- *)
(* the oracle is the property *)
Lemma spec_b_iff prod o : spec_b prod o = true <-> Spec prod o.
Proof.
  unfold spec_b, Spec. destruct (any_complete prod) eqn:A.
  - assert (C : complete_in prod) by (apply any_complete_iff; exact A). split.
    + intros H. split; [|intros N; contradiction].
      intros _. destruct o as [[r|] [e|]]; try discriminate.
      apply andb_true_iff in H as [H1 H2]. exists r. rewrite res_in_In in H2. auto.
    + intros [H _]. destruct (H C) as (r & -> & Hc & Hin).
      rewrite Hc. simpl. apply res_in_In. exact Hin.
  - assert (NC : ~ complete_in prod) by (rewrite <- any_complete_iff, A; discriminate). split.
    + intros H. split; [intros C; contradiction|]. intros _.
      apply andb_true_iff in H as [H H3]. apply andb_true_iff in H as [H1 H2].
      destruct o as [resp err]; simpl in *. repeat split.
      * intros r ->. apply res_in_In. exact H1.
      * intros e ->. apply err_in_In. exact H2.
      * intros E. inversion E; subst. discriminate.
    + intros [_ H]. destruct (H NC) as (H1 & H2 & H3).
      destruct o as [[r|] [e|]]; simpl in *;
        rewrite ?andb_true_iff; repeat split;
        try (apply res_in_In; apply H1; reflexivity);
        try (apply err_in_In; apply H2; reflexivity).
      exfalso. apply H3. reflexivity.
Qed.

Lemma spec_parent_b_iff prod o : spec_parent_b prod o = true <-> SpecParent prod o.
Proof.
  unfold spec_parent_b, SpecParent. destruct o as [[r|] [e|]]; cbn [fst snd];
    rewrite ?andb_true_iff, ?res_in_In, ?err_in_In, ?negb_true_iff.
  - split.
    + intros [[H1 H2] H3]. repeat split.
      * intros ? E; inversion E; subst; auto.
      * intros ? E; inversion E; subst; auto.
      * intros ? E Hc; inversion E; subst. congruence.
    + intros (H1 & H2 & H3). repeat split; auto.
      destruct (r_complete r) eqn:E; [|reflexivity]. specialize (H3 r eq_refl E). discriminate.
  - split.
    + intros [[H1 _] _]. repeat split; try (intros ? E; inversion E; subst; auto); discriminate.
    + intros (H1 & _ & _). auto.
  - split.
    + intros [[_ H2] _]. repeat split; try (intros ? E; inversion E; subst; auto); discriminate.
    + intros (_ & H2 & _). auto.
  - split; [|auto]. intros _. repeat split; intros ? E; discriminate.
Qed.

(* the statement does not depend on the order in which the outcomes are listed *)
Lemma complete_in_perm prod prod' : Permutation prod prod' -> complete_in prod -> complete_in prod'.
Proof. intros P (r & Hin & Hc). exists r. split; [eapply Permutation_in; eauto|exact Hc]. Qed.

Lemma Spec_perm prod prod' o : Permutation prod prod' -> Spec prod o -> Spec prod' o.
Proof.
  intros P [H1 H2]. split.
  - intros C. apply (complete_in_perm _ _ (Permutation_sym P)) in C.
    destruct (H1 C) as (r & E & Hc & Hin). exists r. repeat split; auto.
    eapply Permutation_in; eauto.
  - intros NC. destruct H2 as (A & B & D).
    + intros C. apply NC. eapply complete_in_perm; eauto.
    + repeat split; auto.
      * intros r E. eapply Permutation_in; eauto.
      * intros e E. eapply Permutation_in; eauto.
Qed.

(* ---------------------------------------------------------------------------------- *)
(* the collection loop *)
Fixpoint last_resp (evs : list ev) (acc : option response) : option response :=
  match evs with
  | [] => acc
  | Res r :: rest => last_resp rest (Some r)
  | _ :: rest => last_resp rest acc
  end.
Fixpoint last_err (evs : list ev) (acc : option error) : option error :=
  match evs with
  | [] => acc
  | Fail e :: rest => last_err rest (Some e)
  | _ :: rest => last_err rest acc
  end.

Lemma collect_no_complete evs : forall fuel resp err,
  any_complete evs = false -> List.length evs <= fuel ->
  collect fuel evs resp err = (last_resp evs resp, last_err evs err).
Proof.
  induction evs as [|e rest IH]; intros fuel resp err Hc Hl.
  - destruct fuel; reflexivity.
  - simpl in Hl. destruct fuel as [|f]; [lia|].
    unfold any_complete in Hc. simpl in Hc. apply orb_false_iff in Hc as [Hc1 Hc2].
    destruct e as [r|x|]; simpl in *.
    + rewrite Hc1. apply IH; [exact Hc2|lia].
    + apply IH; [exact Hc2|lia].
    + apply IH; [exact Hc2|lia].
Qed.

Lemma collect_first_complete pre : forall r post fuel resp err,
  any_complete pre = false -> r_complete r = true -> List.length pre < fuel ->
  collect fuel (pre ++ Res r :: post) resp err = (Some r, None).
Proof.
  induction pre as [|e rest IH]; intros r post fuel resp err Hc Hr Hl.
  - destruct fuel as [|f]; [simpl in Hl; lia|]. simpl. rewrite Hr. reflexivity.
  - simpl in Hl. destruct fuel as [|f]; [lia|].
    unfold any_complete in Hc. simpl in Hc. apply orb_false_iff in Hc as [Hc1 Hc2].
    destruct e as [x|x|]; simpl in *.
    + rewrite Hc1. apply IH; auto; lia.
    + apply IH; auto; lia.
    + apply IH; auto; lia.
Qed.

Lemma first_such {A} (p : A -> bool) l :
  existsb p l = true ->
  exists pre x post, l = (pre ++ x :: post)%list /\ existsb p pre = false /\ p x = true.
Proof.
  induction l as [|y r IH]; simpl; [discriminate|].
  destruct (p y) eqn:E; simpl.
  - intros _. exists [], y, r. auto.
  - intros H. destruct (IH H) as (pre & x & post & -> & Hp & Hx).
    exists (y :: pre), x, post. simpl. rewrite E. auto.
Qed.

(* first complete answer wins: for every n, every list of at most n select outcomes
   (whatever else it contains, ParentDone iterations included) *)
Lemma first_complete n evs :
  List.length evs <= n -> complete_in evs ->
  exists pre r post,
    evs = (pre ++ Res r :: post)%list /\
    (forall x, In (Res x) pre -> r_complete x = false) /\
    r_complete r = true /\ In (Res r) evs /\
    middleware n evs = (Some r, None).
Proof.
  intros Hl C. apply any_complete_iff in C. unfold any_complete in C.
  destruct (first_such _ _ C) as (pre & x & post & -> & Hp & Hx).
  destruct x as [r| |]; try discriminate. simpl in Hx.
  exists pre, r, post. repeat split; auto.
  - apply any_complete_false. exact Hp.
  - apply in_or_app. right. left. reflexivity.
  - unfold middleware. apply collect_first_complete; auto.
    rewrite app_length in Hl. simpl in Hl. lia.
Qed.

Lemma last_resp_in evs : forall acc r,
  last_resp evs acc = Some r -> In (Res r) evs \/ (acc = Some r /\ forall x, ~ In (Res x) evs).
Proof.
  induction evs as [|e rest IH]; intros acc r H; simpl in *.
  - right. split; [exact H|intros x []].
  - destruct e as [x|x|]; destruct (IH _ _ H) as [Hin|[Ha Hn]]; auto.
    + inversion Ha; subst. auto.
    + right. split; [exact Ha|]. intros y [E|Hy]; [discriminate|]. apply (Hn y Hy).
    + right. split; [exact Ha|]. intros y [E|Hy]; [discriminate|]. apply (Hn y Hy).
Qed.
Lemma last_err_in evs : forall acc e,
  last_err evs acc = Some e -> In (Fail e) evs \/ (acc = Some e /\ forall x, ~ In (Fail x) evs).
Proof.
  induction evs as [|y rest IH]; intros acc e H; simpl in *.
  - right. split; [exact H|intros x []].
  - destruct y as [x|x|]; destruct (IH _ _ H) as [Hin|[Ha Hn]]; auto.
    + right. split; [exact Ha|]. intros z [E|Hz]; [discriminate|]. apply (Hn z Hz).
    + inversion Ha; subst. auto.
    + right. split; [exact Ha|]. intros z [E|Hz]; [discriminate|]. apply (Hn z Hz).
Qed.
Lemma last_resp_acc_some evs : forall r, exists r', last_resp evs (Some r) = Some r'.
Proof. induction evs as [|y t IH]; intros r; simpl; [eauto|]. destruct y; eauto. Qed.
Lemma last_err_acc_some evs : forall e, exists e', last_err evs (Some e) = Some e'.
Proof. induction evs as [|y t IH]; intros e; simpl; [eauto|]. destruct y; eauto. Qed.
Lemma last_resp_some evs : forall acc r, In (Res r) evs -> exists r', last_resp evs acc = Some r'.
Proof.
  induction evs as [|e rest IH]; intros acc r Hin; [destruct Hin|].
  destruct Hin as [E|Hin]; simpl.
  - subst. apply last_resp_acc_some.
  - destruct e; eapply IH; eauto.
Qed.
Lemma last_err_some evs : forall acc e, In (Fail e) evs -> exists e', last_err evs acc = Some e'.
Proof.
  induction evs as [|y rest IH]; intros acc e Hin; [destruct Hin|].
  destruct Hin as [E|Hin]; simpl.
  - subst. apply last_err_acc_some.
  - destruct y; eapply IH; eauto.
Qed.

(* no attempt completes: the last response and the last error dequeued, each of them one
   that was dequeued; an answer exists as soon as one message was dequeued *)
Lemma otherwise n evs :
  List.length evs <= n -> ~ complete_in evs ->
  middleware n evs = (last_resp evs None, last_err evs None) /\
  (forall r, last_resp evs None = Some r -> In (Res r) evs /\ r_complete r = false) /\
  (forall e, last_err evs None = Some e -> In (Fail e) evs) /\
  ((exists e, In e evs /\ e <> ParentDone) -> middleware n evs <> (None, None)).
Proof.
  intros Hl NC.
  assert (A : any_complete evs = false).
  { destruct (any_complete evs) eqn:E; [|reflexivity]. apply any_complete_iff in E. contradiction. }
  assert (M : middleware n evs = (last_resp evs None, last_err evs None))
    by (apply collect_no_complete; assumption).
  repeat split; auto.
  - destruct (last_resp_in _ _ _ H) as [Hin|[Ha _]]; [exact Hin|discriminate].
  - destruct (last_resp_in _ _ _ H) as [Hin|[Ha _]]; [|discriminate].
    apply (proj1 (any_complete_false evs) A r Hin).
  - intros e H. destruct (last_err_in _ _ _ H) as [Hin|[Ha _]]; [exact Hin|discriminate].
  - intros (e & Hin & Hne). rewrite M. intros E. inversion E as [[E1 E2]].
    destruct e as [r|x|]; [| |congruence].
    + destruct (last_resp_some evs None r Hin) as (r' & Hr). congruence.
    + destruct (last_err_some evs None x Hin) as (e' & He). congruence.
Qed.

(* every arrival order of every multiset of outcomes: the statement holds *)
Lemma all_orders n prod evs :
  Permutation prod evs -> List.length evs <= n -> ~ In ParentDone evs -> evs <> [] ->
  Spec prod (middleware n evs).
Proof.
  intros P Hl Hnp Hne. apply (Spec_perm evs prod); [apply Permutation_sym; exact P|].
  split.
  - intros C. destruct (first_complete n evs Hl C) as (pre & r & post & _ & _ & Hc & Hin & M).
    exists r. auto.
  - intros NC. destruct (otherwise n evs Hl NC) as (M & HR & HE & HN).
    rewrite M in *. simpl. repeat split.
    + intros r H. apply (HR r H).
    + intros e H. apply (HE e H).
    + apply HN. destruct evs as [|e rest]; [contradiction|].
      exists e. split; [left; reflexivity|]. intros ->. apply Hnp. left. reflexivity.
Qed.

(* parent context done at arbitrary iterations: nothing is fabricated *)
Lemma collect_members evs : forall fuel resp err r' e',
  collect fuel evs resp err = (r', e') ->
  (forall r, r' = Some r -> In (Res r) evs \/ resp = Some r) /\
  (forall e, e' = Some e -> In (Fail e) evs \/ err = Some e) /\
  (forall r, r' = Some r -> r_complete r = true -> e' = None \/ resp = Some r).
Proof.
  induction evs as [|x rest IH]; intros fuel resp err r' e' H.
  - assert (E : (resp, err) = (r', e')) by (destruct fuel; exact H).
    inversion E; subst. repeat split; auto.
  - destruct fuel as [|f].
    + simpl in H. inversion H; subst. repeat split; auto.
    + destruct x as [r0|x0|]; simpl in H.
      * destruct (r_complete r0) eqn:Ec.
        -- inversion H; subst. repeat split.
           ++ intros r E. inversion E; subst. left. left. reflexivity.
           ++ intros e E. discriminate.
           ++ auto.
        -- destruct (IH _ _ _ _ _ H) as (A & B & C). repeat split.
           ++ intros r E. destruct (A r E) as [Hin|Hs]; [left; right; exact Hin|].
              inversion Hs; subst. left. left. reflexivity.
           ++ intros e E. destruct (B e E) as [Hin|Hs]; [left; right; exact Hin|auto].
           ++ intros r E Hc. destruct (C r E Hc) as [N|Hs]; [auto|].
              inversion Hs; subst. congruence.
      * destruct (IH _ _ _ _ _ H) as (A & B & C). repeat split.
        -- intros r E. destruct (A r E) as [Hin|Hs]; [left; right; exact Hin|auto].
        -- intros e E. destruct (B e E) as [Hin|Hs]; [left; right; exact Hin|].
           inversion Hs; subst. left. left. reflexivity.
        -- exact C.
      * destruct (IH _ _ _ _ _ H) as (A & B & C). repeat split.
        -- intros r E. destruct (A r E) as [Hin|Hs]; [left; right; exact Hin|auto].
        -- intros e E. destruct (B e E) as [Hin|Hs]; [left; right; exact Hin|auto].
        -- exact C.
Qed.

Lemma parent_done_refines n evs : SpecParent evs (middleware n evs).
Proof.
  unfold middleware. destruct (collect n evs None None) as [r' e'] eqn:H.
  destruct (collect_members _ _ _ _ _ _ H) as (A & B & C). unfold SpecParent; simpl. repeat split.
  - intros r E. destruct (A r E) as [Hin|Hs]; [exact Hin|discriminate].
  - intros e E. destruct (B e E) as [Hin|Hs]; [exact Hin|discriminate].
  - intros r E Hc. destruct (C r E Hc) as [N|Hs]; [exact N|discriminate].
Qed.

(* ---------------------------------------------------------------------------------- *)
(* CloneRequest and the requests of the n attempts *)
Lemma clone_request_same r : clone_request r = (r, r).
Proof. destruct r as [m u p q pa h b]; destruct b as [s|]; reflexivity. Qed.

Lemma spawn_repeat n : forall r, spawn n r = repeat r n.
Proof.
  induction n as [|m IH]; intros r; [reflexivity|].
  cbn [spawn]. rewrite clone_request_same. cbn [repeat]. rewrite IH. reflexivity.
Qed.

Lemma bodies n r :
  List.length (spawn n r) = n /\
  forall k s, nth_error (spawn n r) k = Some s ->
    s = r /\ q_body s = q_body r /\ q_method s = q_method r /\ q_path s = q_path r /\
    q_params s = q_params r /\ q_headers s = q_headers r /\ q_query s = q_query r /\ q_url s = q_url r.
Proof.
  rewrite spawn_repeat. split; [apply repeat_length|].
  intros k s H. apply nth_error_In in H. apply repeat_spec in H. subst. repeat split; reflexivity.
Qed.

Lemma list_eqb_refl {A} (f : A -> A -> bool) l : (forall x, f x x = true) -> list_eqb f l l = true.
Proof. intros H. induction l as [|x r IH]; simpl; [reflexivity|]. rewrite H, IH. reflexivity. Qed.
Lemma opt_eqb_refl {A} (f : A -> A -> bool) o : (forall x, f x x = true) -> opt_eqb f o o = true.
Proof. intros H. destruct o; simpl; auto. Qed.
Lemma req_eqb_refl r : req_eqb r r = true.
Proof.
  unfold req_eqb, multi_eqb, params_eqb, strs_eqb.
  rewrite !str_eqb_refl, !opt_eqb_refl by apply str_eqb_refl. simpl.
  rewrite !list_eqb_refl; auto.
  - intros [k v]; simpl. rewrite str_eqb_refl, list_eqb_refl; auto. apply str_eqb_refl.
  - intros [k v]; simpl. rewrite !str_eqb_refl. reflexivity.
  - intros [k v]; simpl. rewrite str_eqb_refl, list_eqb_refl; auto. apply str_eqb_refl.
Qed.

Lemma requests_b_sound n req seen :
  requests_b n req seen = true ->
  List.length seen = n /\ forall s, In s seen -> req_eqb s req = true.
Proof.
  unfold requests_b. rewrite andb_true_iff, Nat.eqb_eq, forallb_forall. tauto.
Qed.

Lemma model_requests_meet_oracle n req : requests_b n req (spawn n req) = true.
Proof.
  unfold requests_b. rewrite spawn_repeat, repeat_length, Nat.eqb_refl. simpl.
  apply forallb_forall. intros s H. apply repeat_spec in H. subst. apply req_eqb_refl.
Qed.

(* ---------------------------------------------------------------------------------- *)
(* scenarios: imposed arrival orders of outcome vectors *)
Definition wf_scenario (n : nat) (kinds : list kind) (order : list nat) : Prop :=
  List.length kinds = n /\ 1 <= n /\ Permutation order (nonsilent_slots kinds).

Lemma in_nonsilent kinds i :
  In i (nonsilent_slots kinds) <-> exists k, nth_error kinds i = Some k /\ is_silent k = false.
Proof.
  unfold nonsilent_slots. rewrite filter_In, in_seq. split.
  - intros [_ H]. destruct (nth_error kinds i) as [k|]; [|discriminate].
    exists k. split; [reflexivity|]. destruct (is_silent k); [discriminate|reflexivity].
  - intros (k & Hk & Hs). split.
    + split; [lia|]. simpl. apply nth_error_Some. rewrite Hk. discriminate.
    + rewrite Hk, Hs. reflexivity.
Qed.

Lemma filter_map_length {A B} (f : A -> B) g l :
  List.length (filter g (map f l)) = List.length (filter (fun x => g (f x)) l).
Proof. induction l as [|x r IH]; simpl; [reflexivity|]. destruct (g (f x)); simpl; rewrite IH; reflexivity. Qed.

Lemma nonsilent_count kinds :
  List.length (nonsilent_slots kinds) + silent_count kinds = List.length kinds.
Proof.
  induction kinds as [|k ks IH]; [reflexivity|].
  unfold nonsilent_slots, silent_count in *. cbn [List.length seq filter nth_error].
  rewrite <- seq_shift.
  assert (E : List.length (filter (fun i => match nth_error (k :: ks) i with
                                            | Some k0 => negb (is_silent k0) | None => false end)
                                  (map S (seq 0 (List.length ks)))) =
              List.length (filter (fun i => match nth_error ks i with
                                            | Some k0 => negb (is_silent k0) | None => false end)
                                  (seq 0 (List.length ks)))).
  { rewrite filter_map_length. reflexivity. }
  destruct (is_silent k); cbn [negb List.length]; rewrite E; lia.
Qed.

Lemma slot_events_one kinds i k :
  nth_error kinds i = Some k -> is_silent k = false -> List.length (slot_events kinds i) = 1.
Proof. intros H Hs. unfold slot_events. rewrite H. destruct k; try reflexivity. discriminate. Qed.

Lemma arrivals_length kinds order :
  (forall i, In i order -> In i (nonsilent_slots kinds)) ->
  List.length (arrivals kinds order) = List.length order.
Proof.
  unfold arrivals. induction order as [|i r IH]; intros H; [reflexivity|].
  simpl. rewrite app_length, IH by (intros j Hj; apply H; right; exact Hj).
  destruct (proj1 (in_nonsilent kinds i) (H i (or_introl eq_refl))) as (k & Hk & Hs).
  rewrite (slot_events_one _ _ _ Hk Hs). reflexivity.
Qed.

Lemma events_length n kinds order :
  wf_scenario n kinds order -> List.length (events kinds order) = n.
Proof.
  intros (Hn & _ & P). unfold events. rewrite app_length, repeat_length, arrivals_length.
  - rewrite (Permutation_length P). rewrite nonsilent_count. exact Hn.
  - intros i Hi. eapply Permutation_in; eauto.
Qed.

Lemma arrivals_no_parent kinds order : ~ In ParentDone (arrivals kinds order).
Proof.
  unfold arrivals. rewrite in_flat_map. intros (i & _ & H). unfold slot_events in H.
  destruct (nth_error kinds i) as [[]|]; simpl in H; intuition discriminate.
Qed.

Lemma events_no_parent kinds order : ~ In ParentDone (events kinds order).
Proof.
  unfold events. rewrite in_app_iff. intros [H|H].
  - exact (arrivals_no_parent _ _ H).
  - apply repeat_spec in H. discriminate.
Qed.

Lemma slot_in_produced kinds i e :
  In e (slot_events kinds i) -> In e (produced kinds).
Proof.
  intros H. unfold produced. apply in_flat_map. exists i. split.
  - apply in_seq. split; [lia|]. simpl. apply nth_error_Some.
    unfold slot_events in H. destruct (nth_error kinds i); [discriminate|destruct H].
  - unfold slot_outcomes. unfold slot_events in *.
    destruct (nth_error kinds i) as [[]|]; auto; simpl in *; tauto.
Qed.

Lemma arrivals_in_produced kinds order e : In e (arrivals kinds order) -> In e (produced kinds).
Proof.
  unfold arrivals. rewrite in_flat_map. intros (i & _ & H). eapply slot_in_produced; eauto.
Qed.

Lemma silent_exists kinds : 0 < silent_count kinds -> exists i, nth_error kinds i = Some KSilent.
Proof.
  unfold silent_count. induction kinds as [|k ks IH]; simpl; [lia|].
  destruct k; simpl; try (intros H; destruct (IH H) as (i & Hi); exists (S i); exact Hi).
  intros _. exists 0. reflexivity.
Qed.

Lemma events_in_produced kinds order e : In e (events kinds order) -> In e (produced kinds).
Proof.
  unfold events. rewrite in_app_iff. intros [H|H]; [eapply arrivals_in_produced; eauto|].
  assert (Hc : 0 < silent_count kinds).
  { destruct (silent_count kinds); [destruct H|lia]. }
  apply repeat_spec in H. subst e.
  destruct (silent_exists kinds Hc) as (i & Hi).
  unfold produced. apply in_flat_map. exists i. split.
  - apply in_seq. split; [lia|]. simpl. apply nth_error_Some. rewrite Hi. discriminate.
  - unfold slot_outcomes. rewrite Hi. left. reflexivity.
Qed.

Lemma complete_produced_arrives kinds order :
  (forall i, In i (nonsilent_slots kinds) -> In i order) ->
  complete_in (produced kinds) -> complete_in (arrivals kinds order).
Proof.
  intros Hcov (r & Hin & Hc). unfold produced in Hin. apply in_flat_map in Hin.
  destruct Hin as (i & _ & Hi). unfold slot_outcomes, slot_events in Hi.
  destruct (nth_error kinds i) as [k|] eqn:E; [|destruct Hi].
  destruct k; simpl in Hi;
    repeat match goal with H : _ \/ _ |- _ => destruct H end; try discriminate; try contradiction;
    match goal with H : Res _ = Res _ |- _ => inversion H; subst r end.
  - exists (slot_resp i true). split; [|reflexivity].
    unfold arrivals. apply in_flat_map. exists i. split.
    + apply Hcov. apply in_nonsilent. exists KComplete. auto.
    + unfold slot_events. rewrite E. left. reflexivity.
  - discriminate.
  - discriminate.
Qed.

Lemma Spec_transfer evs prod o :
  (forall e, In e evs -> In e prod) -> (complete_in prod -> complete_in evs) ->
  Spec evs o -> Spec prod o.
Proof.
  intros Hincl Hcomp [H1 H2]. split.
  - intros C. destruct (H1 (Hcomp C)) as (r & E & Hc & Hin). exists r. auto.
  - intros NC. destruct H2 as (A & B & D).
    + intros C. apply NC. destruct C as (r & Hin & Hc). exists r. auto.
    + repeat split; auto.
Qed.

(* the model satisfies the oracle: for every N >= 1, every outcome vector and every arrival
   order of its non-silent attempts *)
Lemma model_meets_oracle n kinds order :
  wf_scenario n kinds order ->
  spec_b (produced kinds) (run_scenario n kinds order None) = true.
Proof.
  intros W. apply spec_b_iff. unfold run_scenario.
  pose proof (events_length n kinds order W) as L. destruct W as (Hn & H1 & P).
  apply (Spec_transfer (events kinds order)).
  - apply events_in_produced.
  - intros C. destruct (complete_produced_arrives kinds order) with (2 := C) as (r & Hin & Hc).
    + intros i Hi. eapply Permutation_in; [apply Permutation_sym; exact P|exact Hi].
    + exists r. split; [|exact Hc]. unfold events. apply in_or_app. left. exact Hin.
  - apply all_orders; [apply Permutation_refl|lia|apply events_no_parent|].
    intros E. rewrite E in L. simpl in L. lia.
Qed.

Lemma firstn_incl {A} (x : A) n l : In x (firstn n l) -> In x l.
Proof. intros H. rewrite <- (firstn_skipn n l). apply in_or_app. left. exact H. Qed.

Lemma model_meets_parent_oracle n kinds order k :
  spec_parent_b (produced kinds) (run_scenario n kinds order (Some k)) = true.
Proof.
  apply spec_parent_b_iff. unfold run_scenario.
  destruct (parent_done_refines n (events_parent n kinds order k)) as (A & B & C).
  repeat split; auto.
  - intros r E. specialize (A r E). unfold events_parent in A. apply in_app_iff in A.
    destruct A as [A|A]; [|apply repeat_spec in A; discriminate].
    apply (arrivals_in_produced kinds order). eapply firstn_incl; eauto.
  - intros e E. specialize (B e E). unfold events_parent in B. apply in_app_iff in B.
    destruct B as [B|B]; [|apply repeat_spec in B; discriminate].
    apply (arrivals_in_produced kinds order). eapply firstn_incl; eauto.
Qed.

(* with the parent context done the caller can be left with nothing at all *)
Lemma parent_done_nil_nil :
  run_scenario 2 [KIncomplete; KComplete] [0; 1] (Some 0) = (None, None).
Proof. reflexivity. Qed.

(* the request oracle decides equality *)
Lemma opt_eqb_eq {A} (f : A -> A -> bool) :
  (forall x y, f x y = true <-> x = y) -> forall a b, opt_eqb f a b = true <-> a = b.
Proof.
  intros Hf [x|] [y|]; simpl; try (split; [discriminate|discriminate]); [|tauto].
  rewrite Hf. split; [intros ->; reflexivity|intros H; inversion H; reflexivity].
Qed.
Lemma pair_eqb_eq {A B} (f : A -> A -> bool) (g : B -> B -> bool) :
  (forall x y, f x y = true <-> x = y) -> (forall x y, g x y = true <-> x = y) ->
  forall a b : A * B, f (fst a) (fst b) && g (snd a) (snd b) = true <-> a = b.
Proof.
  intros Hf Hg [a1 a2] [b1 b2]; simpl. rewrite andb_true_iff, Hf, Hg.
  split; [intros [-> ->]; reflexivity|intros H; inversion H; auto].
Qed.
Lemma req_eqb_eq a b : req_eqb a b = true <-> a = b.
Proof.
  assert (S1 : forall x y, strs_eqb x y = true <-> x = y) by (apply list_eqb_eq, str_eqb_eq).
  assert (M : forall x y, multi_eqb x y = true <-> x = y).
  { apply list_eqb_eq. apply pair_eqb_eq; [apply str_eqb_eq|exact S1]. }
  assert (P : forall x y, params_eqb x y = true <-> x = y).
  { apply list_eqb_eq. apply pair_eqb_eq; apply str_eqb_eq. }
  assert (O : forall x y, opt_eqb str_eqb x y = true <-> x = y) by (apply opt_eqb_eq, str_eqb_eq).
  destruct a as [m u p q pa h bd], b as [m' u' p' q' pa' h' bd']. unfold req_eqb; simpl.
  rewrite !andb_true_iff, !str_eqb_eq, !O, !M, P.
  split.
  - intros [[[[[[-> ->] ->] ->] ->] ->] ->]. reflexivity.
  - intros H. inversion H; subst. repeat split.
Qed.

Lemma requests_b_iff n req seen : requests_b n req seen = true <-> SameRequests n req seen.
Proof.
  unfold requests_b, SameRequests. rewrite andb_true_iff, Nat.eqb_eq, forallb_forall.
  split; intros [H1 H2]; (split; [exact H1|]); intros s Hs; apply req_eqb_eq; auto.
Qed.
