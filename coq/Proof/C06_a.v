(* C06 - proofs, part a: the allow list at tree level (one-level lookup lemma, path theorem
   prune_gp by induction on the path, emptiness lemma). *)
Require Import Verif.Common.Base Verif.Common.Json Verif.Common.JsonFacts.
Require Import Verif.Model.C06 Verif.Spec.C06.

(* ---------- generic facts ---------- *)
Lemma wfj_obj d : wfj (JObj d) = true ->
  nodup_keys d = true /\ forall k x, lookup k d = Some x -> wfj x = true.
Proof.
  intros H. apply wfj_obj_inv in H as [Hn Hall]. split; [exact Hn|].
  intros k x Hl. apply lookup_In in Hl. rewrite Forall_forall in Hall. exact (Hall (k, x) Hl).
Qed.

Lemma wfj_get_path p : forall v x, wfj v = true -> get_path v p = Some x -> wfj x = true.
Proof.
  induction p as [|k r IH]; intros v x Hw Hg; cbn [get_path] in Hg.
  - inversion Hg; subst; exact Hw.
  - destruct v; try discriminate. destruct (lookup k m) as [y|] eqn:E; [|discriminate].
    apply wfj_obj in Hw as [_ Hs]. eapply IH; [eapply Hs; exact E|exact Hg].
Qed.

Lemma get_path_app p : forall v q,
  get_path v (p ++ q) = match get_path v p with Some x => get_path x q | None => None end.
Proof.
  induction p as [|k r IH]; intros v q; [reflexivity|].
  cbn [app get_path]. destruct v; try reflexivity. destruct (lookup k m); [apply IH|reflexivity].
Qed.

Lemma get_path_nonobj v k r : is_obj v = false -> get_path v (k :: r) = None.
Proof. destruct v; try reflexivity. discriminate. Qed.

Lemma prefix_refl l : prefix l l = true.
Proof. induction l; simpl; [reflexivity|]. rewrite str_eqb_refl. exact IHl. Qed.

Lemma prefix_nil_r l : prefix l [] = true -> l = [].
Proof. destruct l; [reflexivity|discriminate]. Qed.

Lemma prefix_cons k r k' r' : prefix (k :: r) (k' :: r') = true <-> k = k' /\ prefix r r' = true.
Proof. cbn [prefix]. rewrite andb_true_iff, str_eqb_eq. tauto. Qed.

Lemma prefix_app p : forall l, prefix p l = true -> exists q, l = (p ++ q)%list.
Proof.
  induction p as [|k r IH]; intros l H; [exists l; reflexivity|].
  destruct l as [|k' l']; [discriminate|]. apply prefix_cons in H as [-> H].
  destruct (IH _ H) as [q ->]. exists q. reflexivity.
Qed.

Lemma prefix_app_r p q : prefix p (p ++ q) = true.
Proof. induction p; simpl; [reflexivity|]. rewrite str_eqb_refl. exact IHp. Qed.

Lemma strict_prefix_cons k r k' r' :
  strict_prefix (k :: r) (k' :: r') = true <-> k = k' /\ strict_prefix r r' = true.
Proof.
  unfold strict_prefix. cbn [prefix List.length Nat.eqb].
  rewrite !andb_true_iff, str_eqb_eq. tauto.
Qed.

Lemma strict_prefix_nil_r p : strict_prefix p [] = false.
Proof. destruct p; reflexivity. Qed.

Lemma strict_prefix_nil_l l : strict_prefix [] l = true <-> l <> [].
Proof. destruct l; unfold strict_prefix; simpl; split; congruence. Qed.

Lemma is_nil_true {A} (l : list A) : is_nil l = true <-> l = [].
Proof. destruct l; simpl; split; congruence. Qed.

Lemma present_prefix p : forall v l, prefix p l = true -> present v l = true -> present v p = true.
Proof.
  unfold present. induction p as [|k r IH]; intros v l Hp Hl; [reflexivity|].
  destruct l as [|k' l']; [discriminate|]. apply prefix_cons in Hp as [<- Hp].
  cbn [get_path] in *. destruct v; try discriminate. destruct (lookup k m); [|discriminate].
  eapply IH; eassumption.
Qed.

(* ---------- allow: members, one-level lemma ---------- *)
Fixpoint prune_members (w : wtree) (d : obj) : obj :=
  match d with
  | [] => []
  | (k, x) :: r =>
      match lookup k w with
      | None => prune_members w r
      | Some WLeaf => (k, x) :: prune_members w r
      | Some (WNode sw) =>
          match x with
          | JObj _ => match prune_json sw x with
                      | JObj [] => prune_members w r
                      | x' => (k, x') :: prune_members w r
                      end
          | _ => prune_members w r
          end
      end
  end.

Lemma allow_filter_members w d : allow_filter w d = prune_members w d.
Proof.
  unfold allow_filter. cbn [prune_json unobj].
  induction d as [|[k x] r IH]; [reflexivity|].
  cbn [prune_members]. rewrite <- IH. reflexivity.
Qed.

Lemma prune_obj_shape w d : prune_json w (JObj d) = JObj (allow_filter w d).
Proof. reflexivity. Qed.

Lemma prune_nonobj w v : is_obj v = false -> prune_json w v = v.
Proof. destruct v; try reflexivity. discriminate. Qed.

Lemma lookup_prune w d k : nodup_keys d = true ->
  lookup k (prune_members w d) =
  match lookup k d with
  | None => None
  | Some x => match lookup k w with
              | None => None
              | Some WLeaf => Some x
              | Some (WNode sw) =>
                  match x with
                  | JObj _ => match prune_json sw x with JObj [] => None | x' => Some x' end
                  | _ => None
                  end
              end
  end.
Proof.
  induction d as [|[k' x] r IH]; intros Hnd; [reflexivity|].
  apply nodup_keys_cons in Hnd as [Hnone Hr]. specialize (IH Hr).
  cbn [prune_members lookup].
  destruct (str_eqb k k') eqn:E.
  - apply str_eqb_eq in E. subst k'.
    assert (Hrest : lookup k (prune_members w r) = None) by (rewrite IH, Hnone; reflexivity).
    destruct (lookup k w) as [[|sw]|] eqn:Ew.
    + cbn [lookup]. rewrite str_eqb_refl. reflexivity.
    + destruct x; try exact Hrest.
      destruct (prune_json sw (JObj m)) as [| | | | |[|e l]|] eqn:Ep;
        try (cbn [lookup]; rewrite str_eqb_refl; reflexivity).
      exact Hrest.
    + exact Hrest.
  - destruct (lookup k' w) as [[|sw]|] eqn:Ew.
    + cbn [lookup]. rewrite E. exact IH.
    + destruct x; try exact IH.
      destruct (prune_json sw (JObj m)) as [| | | | |[|e l]|] eqn:Ep;
        try (cbn [lookup]; rewrite E; exact IH).
      exact IH.
    + exact IH.
Qed.

Lemma lookup_allow_filter w d k : nodup_keys d = true ->
  lookup k (allow_filter w d) =
  match lookup k d with
  | None => None
  | Some x => match lookup k w with
              | None => None
              | Some WLeaf => Some x
              | Some (WNode sw) =>
                  match x with
                  | JObj dx => match allow_filter sw dx with [] => None | m => Some (JObj m) end
                  | _ => None
                  end
              end
  end.
Proof.
  intros Hnd. rewrite allow_filter_members, (lookup_prune w d k Hnd).
  destruct (lookup k d) as [x|]; [|reflexivity].
  destruct (lookup k w) as [[|sw]|]; try reflexivity.
  destruct x; reflexivity.
Qed.

(* ---------- walking the allow dictionary ---------- *)
Inductive status := Covered | Inner (s : wtree) | Off.

Fixpoint status_of (w : wtree) (p : list string) : status :=
  match p with
  | [] => Inner w
  | k :: r => match lookup k w with
              | None => Off
              | Some WLeaf => Covered
              | Some (WNode s) => status_of s r
              end
  end.

(* l is exactly a leaf of the dictionary *)
Fixpoint leaf_of (w : wtree) (l : list string) : bool :=
  match l with
  | [] => false
  | k :: r => match lookup k w with
              | Some WLeaf => is_nil r
              | Some (WNode s) => leaf_of s r
              | None => false
              end
  end.

(* the path theorem at tree level *)
Definition tspec (w : wtree) (v : json) (p : list string) : option json :=
  match status_of w p with
  | Covered => get_path v p
  | Off => None
  | Inner s =>
      match get_path v p with
      | Some (JObj d) => match allow_filter s d with
                         | [] => match p with [] => Some (JObj []) | _ => None end
                         | m => Some (JObj m)
                         end
      | Some x => match p with [] => Some x | _ => None end
      | None => None
      end
  end.

Theorem prune_gp : forall p w v, wfj v = true -> get_path (prune_json w v) p = tspec w v p.
Proof.
  induction p as [|k r IH]; intros w v Hwf.
  - unfold tspec. cbn [status_of get_path].
    destruct v; try reflexivity.
    rewrite prune_obj_shape. destruct (allow_filter w m); reflexivity.
  - destruct v as [| | | | |d|];
      try (unfold tspec; cbn [prune_json get_path]; destruct (status_of w (k :: r)); reflexivity).
    rewrite prune_obj_shape. cbn [get_path].
    destruct (wfj_obj d Hwf) as [Hnd Hsub].
    rewrite (lookup_allow_filter w d k Hnd).
    unfold tspec. cbn [status_of get_path].
    destruct (lookup k d) as [x|] eqn:Ed.
    2:{ destruct (lookup k w) as [[|sw]|]; try reflexivity. destruct (status_of sw r); reflexivity. }
    specialize (Hsub k x Ed).
    destruct (lookup k w) as [[|sw]|] eqn:Ew; [reflexivity| |reflexivity].
    destruct x as [| | | | |dx|].
    1-5,7: (destruct r as [|k2 r2]; [reflexivity|]; cbn [get_path];
            destruct (status_of sw (k2 :: r2)); reflexivity).
    specialize (IH sw (JObj dx) Hsub). rewrite prune_obj_shape in IH. unfold tspec in IH.
    destruct r as [|k2 r2].
    + cbn [status_of get_path]. clear IH. destruct (allow_filter sw dx) as [|e l]; reflexivity.
    + cbn [status_of] in *.
      destruct (allow_filter sw dx) as [|e l] eqn:Ep; rewrite <- IH; reflexivity.
Qed.

(* ---------- emptiness ---------- *)
Lemma leaf_present_nonempty : forall l w d, wfj (JObj d) = true ->
  leaf_of w l = true -> present (JObj d) l = true -> allow_filter w d <> [].
Proof.
  induction l as [|k r IH]; intros w d Hwf Hl Hp; [discriminate|].
  destruct (wfj_obj d Hwf) as [Hnd Hsub].
  unfold present in Hp. cbn [get_path] in Hp. cbn [leaf_of] in Hl.
  destruct (lookup k d) as [x|] eqn:Ed; [|discriminate].
  assert (Hk : lookup k (allow_filter w d) <> None).
  { rewrite (lookup_allow_filter w d k Hnd), Ed.
    destruct (lookup k w) as [[|sw]|]; [discriminate| |discriminate].
    destruct r as [|k2 r2]; [discriminate|].
    destruct x; try discriminate.
    assert (Hne : allow_filter sw m <> []).
    { apply (IH sw m); [eapply Hsub; exact Ed|exact Hl|exact Hp]. }
    destruct (allow_filter sw m); [congruence|discriminate]. }
  intros E. rewrite E in Hk. apply Hk. reflexivity.
Qed.

Lemma nonempty_leaf_present : forall v, wfj v = true -> forall w d, v = JObj d ->
  allow_filter w d <> [] -> exists l, leaf_of w l = true /\ present (JObj d) l = true.
Proof.
  induction v using json_ind'; intros Hwf w d Hv Hne; try discriminate.
  inversion Hv; subst d. clear Hv.
  destruct (wfj_obj m Hwf) as [Hnd Hsub].
  destruct (allow_filter w m) as [|[k y] rest] eqn:Ef; [congruence|].
  assert (Hk : lookup k (allow_filter w m) = Some y) by (rewrite Ef; cbn [lookup]; rewrite str_eqb_refl; reflexivity).
  rewrite (lookup_allow_filter w m k Hnd) in Hk.
  destruct (lookup k m) as [x|] eqn:Ed; [|discriminate].
  destruct (lookup k w) as [[|sw]|] eqn:Ew; [| |discriminate].
  - exists [k]. split; [cbn [leaf_of]; rewrite Ew; reflexivity|].
    unfold present. cbn [get_path]. rewrite Ed. reflexivity.
  - destruct x as [| | | | |dx|]; try discriminate.
    assert (Hin : In (k, JObj dx) m) by (apply lookup_In; exact Ed).
    rewrite Forall_forall in H. specialize (H (k, JObj dx) Hin). cbn [snd] in H.
    destruct (H (Hsub k _ Ed) sw dx eq_refl) as [l' [Hl' Hp']].
    { intros E. rewrite E in Hk. discriminate. }
    exists (k :: l'). split; [cbn [leaf_of]; rewrite Ew; exact Hl'|].
    unfold present in *. cbn [get_path]. rewrite Ed. exact Hp'.
Qed.

Lemma allow_filter_nonempty_iff w d : wfj (JObj d) = true ->
  (allow_filter w d <> [] <-> exists l, leaf_of w l = true /\ present (JObj d) l = true).
Proof.
  intros Hwf. split.
  - intros H. eapply nonempty_leaf_present; [exact Hwf|reflexivity|exact H].
  - intros [l [Hl Hp]]. eapply leaf_present_nonempty; eassumption.
Qed.
