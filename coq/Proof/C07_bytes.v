(* C07 - byte strings: what is valid UTF-8 reaches the backend unchanged; anything else is
   changed (each offending byte becomes U+FFFD). *)
Require Import Verif.Common.Base Verif.Common.Json.
Require Import Verif.Model.C07.

Local Arguments seq_len : simpl never.

Lemma sanitize_from_valid l : forall k, valid_from l k = true -> sanitize_from l k = l.
Proof.
  induction l as [|b r IH]; intros k H; [reflexivity|].
  destruct k as [|k'].
  - simpl in *. destruct (seq_len (b :: r)) as [|n]; [discriminate|]. f_equal. apply IH. exact H.
  - simpl in *. f_equal. apply IH. exact H.
Qed.

Lemma sanitize_from_length l : forall k, List.length l <= List.length (sanitize_from l k).
Proof.
  induction l as [|b r IH]; intros k; [simpl; lia|].
  destruct k as [|k'].
  - simpl. destruct (seq_len (b :: r)) as [|n]; simpl.
    + specialize (IH 0). lia.
    + specialize (IH n). lia.
  - simpl. specialize (IH k'). lia.
Qed.

Lemma sanitize_from_fixed l : forall k, sanitize_from l k = l -> valid_from l k = true.
Proof.
  induction l as [|b r IH]; intros k H; [reflexivity|].
  destruct k as [|k'].
  - simpl in *. destruct (seq_len (b :: r)) as [|n].
    + exfalso. apply (f_equal (@List.length N)) in H. simpl in H.
      pose proof (sanitize_from_length r 0). lia.
    + inversion H. rewrite H1. apply IH. exact H1.
  - simpl in *. inversion H. rewrite H1. apply IH. exact H1.
Qed.

Lemma bs_bytes_of s : bs (bytes_of s) = s.
Proof.
  unfold bs, bytes_of. rewrite map_map.
  rewrite (map_ext _ (fun a => a)) by (intros a; apply ascii_N_embedding).
  rewrite map_id. apply string_of_list_ascii_of_string.
Qed.

Lemma bytes_lt l : Forall (fun n => (n < 256)%N) l -> map N_of_ascii (map ascii_of_N l) = l.
Proof.
  induction 1; simpl; [reflexivity|]. rewrite IHForall. f_equal. apply N_ascii_embedding. exact H.
Qed.

Lemma bytes_of_lt s : Forall (fun n => (n < 256)%N) (bytes_of s).
Proof.
  unfold bytes_of. apply Forall_forall. intros n Hin. apply in_map_iff in Hin as [a [<- _]].
  apply N_ascii_bounded.
Qed.

Lemma seq_len_pos_lt l n : seq_len l = S n -> True.
Proof. trivial. Qed.

Lemma sanitize_from_lt l : forall k, Forall (fun n => (n < 256)%N) l ->
  Forall (fun n => (n < 256)%N) (sanitize_from l k).
Proof.
  induction l as [|b r IH]; intros k H; [constructor|].
  inversion H; subst. destruct k as [|k']; simpl.
  - destruct (seq_len (b :: r)); repeat constructor; try lia; try assumption; apply IH; assumption.
  - constructor; [assumption|apply IH; assumption].
Qed.

Lemma bytes_of_bs l : Forall (fun n => (n < 256)%N) l -> bytes_of (bs l) = l.
Proof.
  intros H. unfold bs, bytes_of. rewrite list_ascii_of_string_of_list_ascii. apply bytes_lt. exact H.
Qed.

(* a string reaches the backend unchanged exactly when it is valid UTF-8 *)
Lemma sanitize_exact_iff s : sanitize s = s <-> valid_utf8 s = true.
Proof.
  unfold sanitize, valid_utf8. split.
  - intros H. apply sanitize_from_fixed.
    apply (f_equal bytes_of) in H. rewrite bytes_of_bs in H by (apply sanitize_from_lt; apply bytes_of_lt).
    exact H.
  - intros H. rewrite (sanitize_from_valid _ 0 H). apply bs_bytes_of.
Qed.

(* every ASCII string (quotes, backslashes, control characters, percent signs...) is valid *)
Lemma ascii_valid l : forall k, Forall (fun n => (n < 128)%N) l -> k = 0 -> valid_from l k = true.
Proof.
  induction l as [|b r IH]; intros k H ->; [reflexivity|].
  inversion H; subst. simpl. unfold seq_len. apply N.ltb_lt in H2. rewrite H2. apply IH; auto.
Qed.

Lemma ascii_valid0 l : Forall (fun n => (n < 128)%N) l -> valid_from l 0 = true.
Proof. intros H. apply ascii_valid; [exact H|reflexivity]. Qed.
