(* C13 - proofs, part 1: decoders / pipeline / renders on trees, the oracle and the Prop. *)
Require Import Verif.Common.Base Verif.Common.Json Verif.Common.JsonFacts.
Require Import Verif.Model.C13 Verif.Spec.C13.
Open Scope string_scope.
Open Scope list_scope.

(* ---- the unconfigured pipeline is the identity ---- *)
Lemma pipeline_id d : pipeline_no_manipulation d = d.
Proof.
  unfold pipeline_no_manipulation, format_with. simpl.
  destruct d as [|m]; [reflexivity|].
  destruct (Nat.ltb 0 (List.length m)); reflexivity.
Qed.

Lemma render_routers_agree o d : render_gin o d = render_mux o d.
Proof.
  destruct o, d as [|m]; simpl; reflexivity.
Qed.

Lemma render_any r o d : render r o d = render_gin o d.
Proof. destruct r; simpl; [reflexivity|symmetry; apply render_routers_agree]. Qed.

(* ---- the model delivers exactly what the statement promises: tree equality ---- *)
Lemma model_expected r e coll o cc b x :
  expected e coll o b = Some x ->
  client_body r e coll o cc b = {| c_status := 200; c_body := x |}.
Proof.
  unfold client_body. intros H.
  destruct e, b as [v|s|]; simpl in H; try discriminate.
  - (* json *)
    destruct v; try discriminate.
    + destruct coll; [|discriminate]. simpl. rewrite pipeline_id, render_any.
      destruct o; inversion H; subst; reflexivity.
    + destruct coll; [discriminate|]. simpl. rewrite pipeline_id, render_any.
      destruct o; inversion H; subst; reflexivity.
  - (* safejson *)
    destruct v; try discriminate; simpl; rewrite pipeline_id, render_any;
      destruct o; inversion H; subst; reflexivity.
  - (* string *)
    simpl. rewrite pipeline_id, render_any. destruct o; inversion H; subst; reflexivity.
Qed.

Lemma json_identity r cc m :
  client_body r EJson false OJson cc (BDoc (JObj m)) = {| c_status := 200; c_body := BJson (JObj m) |}.
Proof. apply model_expected. reflexivity. Qed.

Lemma collection_wrapped r cc l :
  client_body r EJson true OJson cc (BDoc (JArr l)) =
  {| c_status := 200; c_body := BJson (JObj [("collection", JArr l)]) |}.
Proof. apply model_expected. reflexivity. Qed.

Lemma collection_unwrapped r e cc l :
  e = EJson \/ e = ESafe ->
  client_body r e true OJsonCollection cc (BDoc (JArr l)) = {| c_status := 200; c_body := BJson (JArr l) |}.
Proof. intros [->| ->]; apply model_expected; reflexivity. Qed.

Definition is_scalar (v : json) : bool :=
  match v with JNull | JBool _ | JNum _ | JStr _ => true | _ => false end.

Lemma safejson_cases r coll cc v :
  client_body r ESafe coll OJson cc (BDoc v) =
  {| c_status := 200;
     c_body := BJson (match v with
                      | JObj m => JObj m
                      | JArr l => JObj [("collection", JArr l)]
                      | _ => JObj [("content", v)] end) |}.
Proof.
  unfold client_body. destruct v; simpl; rewrite pipeline_id, render_any; reflexivity.
Qed.

Lemma string_identity r coll cc s :
  client_body r EString coll OString cc (BText s) = {| c_status := 200; c_body := BRaw s |}.
Proof. apply model_expected. reflexivity. Qed.

(* ---- json_eqb decides semantic identity (soundness) ---- *)
Lemma nodup_lookup_in {V} k (x : V) m : nodup_keys m = true -> In (k, x) m -> lookup k m = Some x.
Proof.
  induction m as [|[k' v'] r IH]; simpl; intros Hn Hin; [contradiction|].
  apply nodup_keys_cons in Hn as [Hnone Hn'].
  destruct Hin as [E|Hin].
  - inversion E; subst. rewrite str_eqb_refl. reflexivity.
  - destruct (str_eqb k k') eqn:E.
    + apply str_eqb_eq in E. subst k'. exfalso.
      apply lookup_None_notin in Hnone. apply Hnone. unfold keys. apply in_map_iff. exists (k, x). auto.
    + apply IH; assumption.
Qed.

Lemma members_in_spec f m m' :
  members_in f m m' = true ->
  forall k x, In (k, x) m -> exists y, lookup k m' = Some y /\ f x y = true.
Proof.
  unfold members_in. rewrite forallb_forall. intros H k x Hin.
  specialize (H (k, x) Hin). simpl in H. destruct (lookup k m'); [eauto|discriminate].
Qed.

Lemma keys_length {V} (m : list (string * V)) : List.length (keys m) = List.length m.
Proof. unfold keys. apply map_length. Qed.

Lemma nodup_keys_NoDup {V} (m : list (string * V)) : nodup_keys m = true -> NoDup (keys m).
Proof. unfold nodup_keys. apply nodup_str_NoDup. Qed.

Lemma json_eqb_sound a : forall b, wfj a = true -> json_eqb a b = true -> same_doc a b.
Proof.
  induction a using json_ind'; intros b' Hwf Heq; destruct b'; try discriminate.
  - constructor.
  - simpl in Heq. apply Bool.eqb_prop in Heq. subst. constructor.
  - simpl in Heq. apply str_eqb_eq in Heq. subst. constructor.
  - simpl in Heq. apply str_eqb_eq in Heq. subst. constructor.
  - rewrite json_eqb_arr in Heq. apply wfj_arr_inv in Hwf. constructor.
    revert l0 Heq. induction l as [|x r IH]; intros [|y s] Heq; simpl in Heq; try discriminate; [constructor|].
    apply andb_true_iff in Heq as [E1 E2]. inversion H; subst. inversion Hwf; subst.
    constructor; [apply H2; assumption|apply IH; assumption].
  - rewrite json_eqb_obj in Heq. apply andb_true_iff in Heq as [Hlen Hmem].
    apply Nat.eqb_eq in Hlen. apply wfj_obj_inv in Hwf as [Hnd Hall].
    pose proof (members_in_spec _ _ _ Hmem) as Hsp.
    assert (Hfwd : forall k x, lookup k m = Some x -> exists y, lookup k m0 = Some y /\ json_eqb x y = true).
    { intros k x Hl. apply Hsp. apply lookup_In. exact Hl. }
    constructor.
    + intros k. split; intros Hk.
      * (* keys m0 included in keys m: pigeonhole *)
        destruct (lookup k m0) eqn:E; [|reflexivity]. exfalso.
        assert (Hincl : incl (keys m) (keys m0)).
        { intros k' Hin. apply in_keys_lookup in Hin as [x Hx].
          destruct (Hfwd _ _ Hx) as (y & Hy & _). eapply lookup_Some_in. exact Hy. }
        assert (Hback : incl (keys m0) (keys m)).
        { apply NoDup_length_incl; [apply nodup_keys_NoDup; exact Hnd| |exact Hincl].
          rewrite !keys_length. rewrite Hlen. apply Nat.le_refl. }
        apply lookup_None_notin in Hk. apply Hk. apply Hback. eapply lookup_Some_in. exact E.
      * destruct (lookup k m) eqn:E; [|reflexivity]. exfalso.
        destruct (Hfwd _ _ E) as (y & Hy & _). congruence.
    + intros k x y Hx Hy. destruct (Hfwd _ _ Hx) as (y' & Hy' & E).
      assert (y' = y) by congruence. subst y'.
      rewrite Forall_forall in H, Hall.
      apply (H (k, x)); [apply lookup_In; exact Hx| |exact E].
      apply (Hall (k, x)). apply lookup_In. exact Hx.
Qed.

Lemma same_doc_refl v : wfj v = true -> same_doc v v.
Proof. intros H. apply json_eqb_sound; [exact H|apply json_eqb_refl; exact H]. Qed.

Lemma same_doc_obj_inv m b : same_doc (JObj m) b ->
  exists m', b = JObj m' /\ (forall k, lookup k m = None <-> lookup k m' = None) /\
             (forall k x y, lookup k m = Some x -> lookup k m' = Some y -> same_doc x y).
Proof. intros H. inversion H; subst. eauto. Qed.

Lemma same_doc_arr_inv l b : same_doc (JArr l) b -> exists l', b = JArr l' /\ Forall2 same_doc l l'.
Proof. intros H. inversion H; subst. eauto. Qed.

(* identical documents have, at every position, identical sub-documents; in particular every
   number literal is found with the same text at the same position *)
Lemma same_doc_at_path p : forall a b x,
  same_doc a b -> at_path a p = Some x -> exists y, at_path b p = Some y /\ same_doc x y.
Proof.
  induction p as [|s p IH]; intros a b x Hs Hp; simpl in *.
  - inversion Hp; subst. eauto.
  - destruct s as [k|i].
    + destruct a; try discriminate.
      apply same_doc_obj_inv in Hs as (m' & -> & Hk & Hv).
      destruct (lookup k m) as [x0|] eqn:E; [|discriminate].
      destruct (lookup k m') as [y0|] eqn:E'.
      * apply (IH x0 y0 x); [eapply Hv; eassumption|exact Hp].
      * apply Hk in E'. congruence.
    + destruct a; try discriminate.
      apply same_doc_arr_inv in Hs as (l' & -> & HF).
      destruct (nth_error l i) as [x0|] eqn:E; [|discriminate].
      assert (G : exists y0, nth_error l' i = Some y0 /\ same_doc x0 y0).
      { clear - HF E. revert i E. induction HF; intros [|i] E; simpl in *; try discriminate.
        - inversion E; subst. eauto.
        - apply IHHF. exact E. }
      destruct G as (y0 & E' & Hs'). rewrite E'. apply (IH x0 y0 x); assumption.
Qed.

Lemma same_doc_numbers a b p lit :
  same_doc a b -> at_path a p = Some (JNum lit) -> at_path b p = Some (JNum lit).
Proof.
  intros Hs Hp. destruct (same_doc_at_path p a b _ Hs Hp) as (y & Hy & Hsy).
  inversion Hsy; subst. exact Hy.
Qed.

Lemma same_doc_strings a b p s :
  same_doc a b -> at_path a p = Some (JStr s) -> at_path b p = Some (JStr s).
Proof.
  intros Hs Hp. destruct (same_doc_at_path p a b _ Hs Hp) as (y & Hy & Hsy).
  inversion Hsy; subst. exact Hy.
Qed.

(* same fields: a position exists on one side iff it exists on the other *)
Lemma same_doc_sym a : forall b, same_doc a b -> same_doc b a.
Proof.
  induction a using json_ind'; intros b' Hs.
  - inversion Hs; subst; constructor.
  - inversion Hs; subst; constructor.
  - inversion Hs; subst; constructor.
  - inversion Hs; subst; constructor.
  - apply same_doc_arr_inv in Hs as (l' & -> & HF). constructor.
    induction HF; [constructor|].
    inversion H; subst. constructor; [apply H3; assumption|apply IHHF; assumption].
  - apply same_doc_obj_inv in Hs as (m' & -> & Hk & Hv). constructor.
    + intros k. symmetry. apply Hk.
    + intros k x y Hx Hy. rewrite Forall_forall in H.
      apply (H (k, y)); [apply lookup_In; exact Hy|]. eapply Hv; eassumption.
  - inversion Hs.
Qed.

Lemma same_doc_positions a b p :
  same_doc a b -> (at_path a p = None <-> at_path b p = None).
Proof.
  intros Hs. split; intros Hn.
  - destruct (at_path b p) eqn:E; [|reflexivity].
    destruct (same_doc_at_path p b a _ (same_doc_sym _ _ Hs) E) as (y & Hy & _). congruence.
  - destruct (at_path a p) eqn:E; [|reflexivity].
    destruct (same_doc_at_path p a b _ Hs E) as (y & Hy & _). congruence.
Qed.

(* ---- the oracle is sound for the Prop, and the model meets the oracle ---- *)
Lemma wfj_single k v : wfj v = true -> wfj (JObj [(k, v)]) = true.
Proof. intros H. simpl. unfold nodup_keys. simpl. rewrite H. reflexivity. Qed.

Lemma expected_wf e coll o b x :
  wf_bbody b = true -> expected e coll o b = Some (BJson x) -> wfj x = true.
Proof.
  intros Hwf H. destruct e, b as [v|s|]; simpl in H; try discriminate.
  - destruct v; try discriminate; destruct coll; try discriminate; destruct o; inversion H; subst;
      try exact Hwf; apply wfj_single; exact Hwf.
  - destruct v; try discriminate; destruct o; inversion H; subst;
      try exact Hwf; apply wfj_single; exact Hwf.
  - destruct o; inversion H; subst. reflexivity.
Qed.

Lemma cbody_eqb_sound x y :
  match x with BJson v => wfj v = true | BRaw _ => True end ->
  cbody_eqb x y = true -> same_body x y.
Proof.
  destruct x, y; simpl; intros Hw H; try discriminate.
  - apply json_eqb_sound; assumption.
  - apply str_eqb_eq. exact H.
Qed.

Lemma spec_body_sound e coll o b obs :
  wf_bbody b = true -> spec_body_b e coll o b obs = true -> Spec_body e coll o b obs.
Proof.
  unfold spec_body_b, Spec_body. intros Hwf H x Hx. rewrite Hx in H.
  apply andb_true_iff in H as [H1 H2]. split; [apply Z.eqb_eq; exact H1|].
  apply cbody_eqb_sound; [|exact H2].
  destruct x; [|exact I]. eapply expected_wf; eassumption.
Qed.

Lemma body_model_meets_oracle r e coll o cc b :
  wf_bbody b = true -> spec_body_b e coll o b (client_body r e coll o cc b) = true.
Proof.
  intros Hwf. unfold spec_body_b. destruct (expected e coll o b) as [x|] eqn:E; [|reflexivity].
  rewrite (model_expected r e coll o cc b x E). simpl.
  destruct x as [v|s]; simpl; [|apply str_eqb_refl].
  apply json_eqb_refl. eapply expected_wf; eassumption.
Qed.

(* the model satisfies the Prop *)
Lemma body_model_spec r e coll o cc b :
  wf_bbody b = true -> Spec_body e coll o b (client_body r e coll o cc b).
Proof. intros H. apply spec_body_sound; [exact H|apply body_model_meets_oracle; exact H]. Qed.

Lemma string_both r coll cc s :
  client_body r EString coll OString cc (BText s) = {| c_status := 200; c_body := BRaw s |} /\
  client_body r EString coll OJson cc (BText s) =
  {| c_status := 200; c_body := BJson (JObj [("content", JStr s)]) |}.
Proof. split; apply model_expected; reflexivity. Qed.

(* ---- glue: explicitly empty lists and pass-through modifier plugins change nothing ---- *)
Lemma wrap_unwrap_id r : wrap_unwrap r = r.
Proof. destruct r; reflexivity. Qed.

Lemma through_plugins_id p r : through_plugins p r = r.
Proof. destruct p; unfold through_plugins; simpl; rewrite ?wrap_unwrap_id; reflexivity. Qed.

Lemma format_full_empty d : format_full [] [] [] "" d = d.
Proof. unfold format_full. simpl. apply pipeline_id. Qed.

Lemma client_body_x_eq r e coll o cc x b : client_body_x r e coll o cc x b = client_body r e coll o cc b.
Proof.
  unfold client_body_x, client_body. destruct (decode e coll b); [|reflexivity].
  rewrite through_plugins_id, format_full_empty, pipeline_id. reflexivity.
Qed.

Lemma noop_client_x_eq r cc x st hs body : noop_client_x r cc x st hs body = noop_client r cc st hs body.
Proof. unfold noop_client_x. rewrite through_plugins_id. reflexivity. Qed.

(* a non-empty allow list IS manipulation: witness (outside the property) *)
Lemma allow_list_manipulates :
  format_full ["a"] [] [] "" (DMap [("a", JNull); ("b", JNull)]) = DMap [("a", JNull)].
Proof. reflexivity. Qed.
