(* C05 - the schedule layer: every interleaving of the attempts, the two channels and the
   collector (Common/Fanout.v instantiated in Model/C05.v) yields the stated outcome. *)
Require Import Verif.Common.Base Verif.Common.Fanout.
Require Import Verif.Model.C05 Verif.Spec.C05 Verif.Proof.C05.
From Coq Require Import Permutation.

Lemma any_complete_map got : any_complete (map ev_of got) = can_finish got.
Proof.
  unfold any_complete, can_finish. induction got as [|m r IH]; simpl; [reflexivity|].
  rewrite IH. destruct m; reflexivity.
Qed.

Lemma ev_of_not_parent got : ~ In ParentDone (map ev_of got).
Proof. rewrite in_map_iff. intros (m & E & _). destruct m; discriminate. Qed.

Section Sched.
  Variable n : nat.
  Variable cerr : error.
  Variable idle : bool.

  Notation stt := (st msg).
  Notation STEP := (step msg n route (MFail cerr) can_finish idle).
  Notation RUN := (run msg n route (MFail cerr) can_finish idle).

  (* only the last dequeued message can be a complete response; the collector returns only
     after n iterations or with a complete response *)
  Definition J (s : stt) : Prop :=
    (forall pre m, got msg s = (pre ++ [m])%list -> can_finish pre = false) /\
    (fin msg s = true -> iters msg s = List.length (ws msg s) \/ can_finish (got msg s) = true).

  Lemma step_J s l s' : J s -> STEP s l = Some s' -> J s'.
  Proof.
    unfold J. intros [J1 J2] H. destruct l as [i m|i|i|c| | |]; simpl in H.
    - destruct (nth_error (ws msg s) i) as [[| |]|]; try discriminate.
      inversion H; subst; unfold set_ws; simpl. split; [exact J1|]. rewrite upd_length. exact J2.
    - destruct (nth_error (ws msg s) i) as [[|m|]|]; try discriminate.
      destruct (route m).
      + destruct (Nat.ltb (List.length (qp msg s)) n); try discriminate. inversion H; subst; simpl.
        split; [exact J1|]. rewrite upd_length. exact J2.
      + destruct (Nat.ltb (List.length (qf msg s)) n); try discriminate. inversion H; subst; simpl.
        split; [exact J1|]. rewrite upd_length. exact J2.
    - destruct (nth_error (ws msg s) i) as [[|m|]|]; try discriminate.
      destruct (route m); try discriminate.
      destruct (cancelled msg s && (Nat.ltb (List.length (qf msg s)) n)); try discriminate.
      inversion H; subst; simpl. split; [exact J1|]. rewrite upd_length. exact J2.
    - destruct (collecting msg can_finish s) eqn:C; try discriminate.
      unfold collecting in C. apply andb_true_iff in C as [C C3]. apply andb_true_iff in C as [C1 C2].
      apply negb_true_iff in C1. apply negb_true_iff in C3.
      destruct c.
      + destruct (qp msg s) as [|m r]; try discriminate. inversion H; subst; simpl. split.
        * intros pre m' E. apply app_inj_tail in E. destruct E as [<- _]. exact C3.
        * rewrite C1. discriminate.
      + destruct (qf msg s) as [|m r]; try discriminate. inversion H; subst; simpl. split.
        * intros pre m' E. apply app_inj_tail in E. destruct E as [<- _]. exact C3.
        * rewrite C1. discriminate.
    - destruct idle; simpl in H; try discriminate.
      destruct (collecting msg can_finish s) eqn:C; try discriminate.
      unfold collecting in C. apply andb_true_iff in C as [C C3]. apply andb_true_iff in C as [C1 C2].
      apply negb_true_iff in C1.
      inversion H; subst; simpl. split; [exact J1|]. rewrite C1. discriminate.
    - destruct (cancelled msg s); try discriminate. inversion H; subst; simpl. split; assumption.
    - destruct (negb (fin msg s) && ((Nat.eqb (iters msg s) (List.length (ws msg s))) || can_finish (got msg s))) eqn:C;
        try discriminate.
      inversion H; subst; simpl. split; [exact J1|]. intros _.
      apply andb_true_iff in C as [_ C]. apply orb_true_iff in C as [C|C]; [left; apply Nat.eqb_eq; exact C|right; exact C].
  Qed.

  Lemma run_J ls : forall s s', J s -> RUN s ls = Some s' -> J s'.
  Proof.
    induction ls as [|l r IH]; simpl; intros s s' Hj H.
    - inversion H; subst; exact Hj.
    - destruct (STEP s l) as [s0|] eqn:E; try discriminate.
      apply (IH s0 s'); [|exact H]. apply (step_J s l s0 Hj E).
  Qed.

  Lemma init_J : J (init msg n).
  Proof.
    split; simpl.
    - intros pre m E. destruct pre; discriminate.
    - discriminate.
  Qed.

  Lemma got_in_delivered ls s m :
    RUN (init msg n) ls = Some s -> In m (got msg s) -> In m (delivered msg (ws msg s)).
  Proof.
    intros Hr Hin. destruct (reachable_inv _ _ _ _ _ _ _ _ _ Hr) as (_ & Hp & _).
    eapply Permutation_in; [apply Permutation_sym; exact Hp|]. apply in_or_app. left. exact Hin.
  Qed.

  (* a complete response was dequeued: it is the last message, and it is the outcome *)
  Lemma outcome_complete s :
    J s -> can_finish (got msg s) = true ->
    exists r, In (MRes r) (got msg s) /\ r_complete r = true /\ outcome (got msg s) = (Some r, None).
  Proof.
    intros [J1 _] CF.
    destruct (got msg s) as [|m0 g0] eqn:G; [discriminate|].
    assert (Hne : m0 :: g0 <> []) by discriminate.
    destruct (exists_last Hne) as (pre & m & E). rewrite E in *.
    specialize (J1 pre m eq_refl).
    unfold can_finish in CF. rewrite existsb_app in CF. fold (can_finish pre) in CF.
    rewrite J1 in CF. simpl in CF. rewrite orb_false_r in CF.
    destruct m as [r|e]; [|discriminate]. simpl in CF.
    exists r. split; [apply in_or_app; right; left; reflexivity|]. split; [exact CF|].
    unfold outcome, middleware. rewrite map_app. simpl.
    apply collect_first_complete.
    - rewrite any_complete_map. exact J1.
    - exact CF.
    - rewrite map_length, app_length. simpl. lia.
  Qed.
End Sched.

(* Parent context alive (no idle iteration), n >= 1 attempts, ANY schedule after which the
   collector has returned: the statement of the property holds between the messages the
   attempts delivered and what the collector returns. *)
Lemma every_schedule n cerr ls s :
  1 <= n ->
  sys_run n cerr false (init msg n) ls = Some s -> fin msg s = true ->
  Spec (map ev_of (delivered msg (ws msg s))) (outcome (got msg s)).
Proof.
  unfold sys_run. intros Hn Hr Hf.
  pose proof (run_J n cerr false ls _ _ (init_J n) Hr) as Hj.
  destruct (reachable_inv _ _ _ _ _ _ _ _ _ Hr) as (Hl & Hp & Hw & Hg & Hi & Hid).
  destruct (can_finish (got msg s)) eqn:CF.
  - destruct (outcome_complete s Hj CF) as (r & Hin & Hc & Ho).
    assert (Hd : In (Res r) (map ev_of (delivered msg (ws msg s)))).
    { apply in_map_iff. exists (MRes r). split; [reflexivity|].
      eapply got_in_delivered; eauto. }
    rewrite Ho. split.
    + intros _. exists r. auto.
    + intros NC. exfalso. apply NC. exists r. auto.
  - destruct Hj as [_ J2]. destruct (J2 Hf) as [Hit|Hcf]; [|congruence].
    assert (Hgn : List.length (got msg s) = n) by (rewrite (Hid eq_refl); lia).
    destruct (full_collection _ _ _ _ _ _ _ _ _ Hr Hgn) as (Pg & _).
    unfold outcome. rewrite Hgn.
    apply all_orders.
    + apply Permutation_map. apply Permutation_sym. exact Pg.
    + rewrite map_length. lia.
    + apply ev_of_not_parent.
    + intros E. apply (f_equal (@List.length ev)) in E. rewrite map_length in E. simpl in E. lia.
Qed.

(* Whatever the parent context does (idle iterations allowed), at any moment of any
   schedule: the collector's variables hold only messages that attempts delivered. *)
Lemma every_schedule_parent n cerr idle ls s :
  sys_run n cerr idle (init msg n) ls = Some s ->
  SpecParent (map ev_of (delivered msg (ws msg s))) (outcome (got msg s)).
Proof.
  unfold sys_run. intros Hr.
  destruct (parent_done_refines (List.length (got msg s)) (map ev_of (got msg s))) as (A & B & C).
  assert (Hsub : forall e, In e (map ev_of (got msg s)) -> In e (map ev_of (delivered msg (ws msg s)))).
  { intros e He. apply in_map_iff in He. destruct He as (m & <- & Hm).
    apply in_map. eapply got_in_delivered; eauto. }
  unfold outcome. repeat split; auto.
Qed.

(* every delivered message is the attempt's own result, or - only in place of a response -
   the error of the budget context *)
Lemma attempt_messages n cerr idle ls s i r d :
  sys_run n cerr idle (init msg n) ls = Some s ->
  nth_error (ws msg s) i = Some (Sent r d) ->
  d = r \/ (d = MFail cerr /\ exists x, r = MRes x).
Proof.
  unfold sys_run. intros Hr Hi.
  destruct (reachable_inv _ _ _ _ _ _ _ _ _ Hr) as (_ & _ & Hw & _).
  rewrite Forall_forall in Hw. specialize (Hw _ (nth_error_In _ _ Hi)). simpl in Hw.
  destruct Hw as [E|[E R]]; [left; exact E|right]. split; [exact E|].
  destruct r as [x|e]; [eauto|discriminate].
Qed.

(* the channels have capacity n: an attempt holding its result can always deliver it *)
Lemma no_blocked_attempt n cerr idle ls s i m :
  sys_run n cerr idle (init msg n) ls = Some s ->
  nth_error (ws msg s) i = Some (Ret m) ->
  sys_step n cerr idle s (LSend i) <> None.
Proof. unfold sys_run, sys_step. intros Hr Hi. eapply no_blocked_sender; eauto. Qed.

(* after the collector has returned: at most 2n further steps exist, and as long as an
   attempt has not delivered its message some step is enabled (a running backend call can
   return - the environment assumption that it returns once its context is done) *)
Lemma attempts_terminate n cerr idle ls s :
  sys_run n cerr idle (init msg n) ls = Some s -> fin msg s = true ->
  cancelled msg s = true /\
  (forall ls' s', sys_run n cerr idle s ls' = Some s' ->
     List.length ls' + remaining msg (ws msg s') <= remaining msg (ws msg s) /\
     remaining msg (ws msg s) <= 2 * n) /\
  (forall i, i < n -> (forall r d, nth_error (ws msg s) i <> Some (Sent r d)) ->
     exists l, sys_step n cerr idle s l <> None).
Proof.
  unfold sys_run, sys_step. intros Hr Hf.
  destruct (reachable_inv _ _ _ _ _ _ _ _ _ Hr) as (Hl & _).
  assert (Hc : cancelled msg s = true).
  { clear Hl.
    assert (G : forall ls s0, (fin msg s0 = true -> cancelled msg s0 = true) ->
                run msg n route (MFail cerr) can_finish idle s0 ls = Some s ->
                fin msg s = true -> cancelled msg s = true).
    { clear. induction ls as [|l r IH]; simpl; intros s0 H0 H Hf.
      - inversion H; subst; auto.
      - destruct (step msg n route (MFail cerr) can_finish idle s0 l) as [s1|] eqn:E; try discriminate.
        apply (IH s1); auto. clear IH H Hf.
        destruct l as [i m|i|i|c| | |]; simpl in E.
        + destruct (nth_error (ws msg s0) i) as [[| |]|]; try discriminate. inversion E; subst; unfold set_ws; simpl; auto.
        + destruct (nth_error (ws msg s0) i) as [[|m|]|]; try discriminate.
          destruct (route m).
          * destruct (Nat.ltb (List.length (qp msg s0)) n); try discriminate. inversion E; subst; simpl; auto.
          * destruct (Nat.ltb (List.length (qf msg s0)) n); try discriminate. inversion E; subst; simpl; auto.
        + destruct (nth_error (ws msg s0) i) as [[|m|]|]; try discriminate.
          destruct (route m); try discriminate.
          destruct (cancelled msg s0 && (Nat.ltb (List.length (qf msg s0)) n)); try discriminate.
          inversion E; subst; simpl; auto.
        + destruct (collecting msg can_finish s0); try discriminate.
          destruct c.
          * destruct (qp msg s0); try discriminate. inversion E; subst; simpl; auto.
          * destruct (qf msg s0); try discriminate. inversion E; subst; simpl; auto.
        + destruct (idle && collecting msg can_finish s0); try discriminate. inversion E; subst; simpl; auto.
        + destruct (cancelled msg s0); try discriminate. inversion E; subst; simpl; auto.
        + destruct (negb (fin msg s0) && ((Nat.eqb (iters msg s0) (List.length (ws msg s0))) || can_finish (got msg s0)));
            try discriminate.
          inversion E; subst; simpl; auto. }
    apply (G ls (init msg n)); auto; simpl; discriminate. }
  split; [exact Hc|]. split.
  - intros ls' s' Hr'. split.
    + eapply bounded_after_fin; eauto.
    + pose proof (remaining_le msg (ws msg s)). lia.
  - intros i Hi Hns.
    apply (progress_after_fin msg n route (MFail cerr) can_finish idle n ls s i (MFail cerr));
      [lia|exact Hr|rewrite Hl; exact Hi|exact Hns].
Qed.
