(* C15 - proofs, part 5: the result does not depend on how sort.Slice sorts.  Any list that is
   a rearrangement of the answer with no later element less than an earlier one (sort_post) yields
   the same lowest-priority tier, a list that satisfies the property, and the same multiset of
   hosts as the model's insertion sort. *)
Require Import Verif.Common.Base Verif.Model.C15 Verif.Spec.C15 Verif.Proof.C15.
From Coq Require Import Permutation Sorted Znumtheory.
Open Scope Z_scope.

Lemma sort_post_ple input srt : sort_post input srt -> StronglySorted ple srt.
Proof.
  intros [_ H]. induction H as [|a l Hl IH Hall]; constructor; [exact IH|].
  eapply Forall_impl; [|exact Hall]. intros b Hb. apply ltb_false_prio. exact Hb.
Qed.

(* the model's own sort meets the postcondition of sort.Slice *)
Lemma ltb_irrefl a : srv_ltb a a = false.
Proof.
  unfold srv_ltb. rewrite !Z.eqb_refl, str_eqb_refl. apply Z.ltb_irrefl.
Qed.

(* the tier selected after ANY prio-sorted rearrangement is the set of lowest-priority records *)
Lemma low_group_perm_any rs srt : Permutation srt rs -> StronglySorted ple srt ->
  Permutation (low_group srt) (low rs).
Proof.
  intros Hp Hs. unfold low. destruct srt as [|s0 r].
  - apply Permutation_nil in Hp. subst rs. simpl. constructor.
  - unfold low_group. rewrite (take_while_sorted (prio s0) (s0 :: r) Hs).
    assert (Hmin : prio s0 = min_prio rs).
    { assert (Hin0 : In s0 rs) by (apply (Permutation_in _ Hp); left; reflexivity).
      pose proof (min_prio_le rs s0 Hin0).
      destruct (min_prio_in rs) as [a [Ha Hpa]]; [intros ->; contradiction|].
      apply (Permutation_in _ (Permutation_sym Hp)) in Ha.
      inversion Hs as [|? ? _ Hall]; subst. destruct Ha as [<-|Ha]; [lia|].
      rewrite Forall_forall in Hall. specialize (Hall a Ha). unfold ple in Hall. lia. }
    rewrite (perm_filter _ _ _ Hp).
    rewrite (filter_ext_in (fun a => negb (prio s0 <? prio a)) (fun a => prio a =? min_prio rs)); [reflexivity|].
    intros a Ha. pose proof (min_prio_le rs a Ha). rewrite Hmin.
    destruct (prio a =? min_prio rs) eqn:E1.
    + apply Z.eqb_eq in E1. apply negb_true_iff. apply Z.ltb_ge. lia.
    + apply Z.eqb_neq in E1. apply negb_false_iff. apply Z.ltb_lt. lia.
Qed.

(* ---- gcd of a list does not depend on the order ---- *)
Lemma fold_gcd_greatest c r : forall a, (c | a) -> (forall x, In x r -> (c | x)) -> (c | fold_left Z.gcd r a).
Proof.
  induction r as [|y r IH]; intros a Ha Hr; simpl; [exact Ha|].
  apply IH.
  - apply Z.gcd_greatest; [exact Ha|apply Hr; left; reflexivity].
  - intros x Hx. apply Hr. right; exact Hx.
Qed.

Lemma gcdl_greatest c ws : ws <> [] -> (forall x, In x ws -> (c | x)) -> (c | gcdl ws).
Proof.
  destruct ws as [|w r]; [congruence|]. intros _ H. simpl.
  apply fold_gcd_greatest; [apply H; left; reflexivity|intros x Hx; apply H; right; exact Hx].
Qed.

Lemma fold_gcd_nonneg r : forall a, 0 <= a -> 0 <= fold_left Z.gcd r a.
Proof.
  induction r as [|y r IH]; intros a Ha; simpl; [exact Ha|]. apply IH. apply Z.gcd_nonneg.
Qed.

Lemma gcdl_nonneg ws : Forall (fun w => 0 <= w) ws -> 0 <= gcdl ws.
Proof.
  destruct ws as [|w r]; simpl; [lia|]. intros H. inversion H; subst. apply fold_gcd_nonneg. assumption.
Qed.

Lemma gcdl_perm a b : Forall (fun w => 0 <= w) a -> Permutation a b -> gcdl a = gcdl b.
Proof.
  intros Ha Hp.
  assert (Hb : Forall (fun w => 0 <= w) b).
  { rewrite Forall_forall in *. intros x Hx. apply Ha. apply (Permutation_in _ (Permutation_sym Hp)). exact Hx. }
  destruct a as [|x a'].
  - apply Permutation_nil in Hp. subst. reflexivity.
  - assert (Hbn : b <> []) by (intros ->; apply Permutation_sym, Permutation_nil in Hp; discriminate).
    apply Z.divide_antisym_nonneg; try (apply gcdl_nonneg; assumption).
    + apply gcdl_greatest; [exact Hbn|]. intros y Hy. apply gcdl_divides.
      apply (Permutation_in _ (Permutation_sym Hp)). exact Hy.
    + apply gcdl_greatest; [discriminate|]. intros y Hy. apply gcdl_divides.
      apply (Permutation_in _ Hp). exact Hy.
Qed.

Lemma compact_div_perm a b : wf_ws a -> Permutation a b -> compact_div a = compact_div b.
Proof.
  intros Hwf Hp. unfold compact_div. f_equal.
  rewrite (map_ext (quota b) (quota a)) by (intros w; symmetry; apply quota_perm; exact Hp).
  apply gcdl_perm.
  - rewrite Forall_forall. intros q Hq. apply in_map_iff in Hq. destruct Hq as [w [<- Hw]].
    apply (quota_range a w Hwf Hw).
  - apply Permutation_map. exact Hp.
Qed.

(* ---- any tier list that is a rearrangement of the lowest-priority records ---- *)
Definition from_group (scheme : string) (g : list srv) : list string :=
  expand (map (host_of scheme) g) (compact (map weight g)).

Lemma wf_group rs g : wf_rs rs -> Permutation g (low rs) -> wf_ws (map weight g).
Proof.
  intros Hw Hp. unfold wf_ws. rewrite Forall_forall. intros w Hin. apply in_map_iff in Hin.
  destruct Hin as [a [<- Ha]]. apply (Permutation_in _ Hp) in Ha. apply low_incl in Ha.
  unfold wf_rs in Hw. rewrite Forall_forall in Hw. apply Hw. apply Ha.
Qed.

Lemma from_group_flat scheme g : wf_ws (map weight g) ->
  from_group scheme g =
  flat_map (fun a => repeat (host_of scheme a)
                       (Z.to_nat (quota (map weight g) (weight a) / compact_div (map weight g)))) g.
Proof.
  intros Hwf. unfold from_group. rewrite (proj1 (compact_div_spec _ Hwf)).
  apply (expand_map (host_of scheme) (fun w => quota (map weight g) w / compact_div (map weight g))).
Qed.

(* two rearrangements of the same tier give the same multiset of hosts *)
Lemma from_group_perm scheme g1 g2 : wf_ws (map weight g1) -> Permutation g1 g2 ->
  Permutation (from_group scheme g1) (from_group scheme g2).
Proof.
  intros Hwf Hp.
  assert (Hpw : Permutation (map weight g1) (map weight g2)) by (apply Permutation_map; exact Hp).
  assert (Hwf2 : wf_ws (map weight g2)).
  { unfold wf_ws in *. rewrite Forall_forall in *. intros w Hw. apply Hwf.
    apply (Permutation_in _ (Permutation_sym Hpw)). exact Hw. }
  rewrite (from_group_flat scheme g1 Hwf), (from_group_flat scheme g2 Hwf2).
  rewrite (flat_map_ext _ (fun a => repeat (host_of scheme a)
     (Z.to_nat (quota (map weight g2) (weight a) / compact_div (map weight g2))))).
  - apply Permutation_flat_map. exact Hp.
  - intros a. rewrite (quota_perm _ _ _ Hpw), (compact_div_perm _ _ Hwf Hpw). reflexivity.
Qed.

Lemma resolve_from_group scheme srt : resolve_from scheme srt = from_group scheme (low_group srt).
Proof. reflexivity. Qed.
Lemma resolve_is_from scheme rs : resolve scheme rs = resolve_from scheme (sort_srv rs).
Proof. reflexivity. Qed.

(* whatever sort.Slice does within its contract: same multiset as the model *)
Lemma any_sort_same_multiset scheme rs srt : wf_rs rs -> sort_post rs srt ->
  Permutation (resolve_from scheme srt) (resolve scheme rs).
Proof.
  intros Hwf Hpost. rewrite resolve_is_from, !resolve_from_group.
  pose proof (low_group_perm_any rs srt (proj1 Hpost) (sort_post_ple _ _ Hpost)) as H1.
  pose proof (low_group_perm rs) as H2.
  apply from_group_perm.
  - eapply wf_group; eassumption.
  - etransitivity; [exact H1|symmetry; exact H2].
Qed.

(* Spec only speaks of multisets *)
Lemma Spec_perm scheme rs o1 o2 : Permutation o1 o2 -> Spec scheme rs o1 -> Spec scheme rs o2.
Proof.
  intros Hp [d [Hd [H1 [H2 [H3 H4]]]]]. exists d. repeat split; try assumption.
  - etransitivity; [symmetry; exact Hp|exact H2].
  - rewrite <- (Permutation_length Hp). exact H4.
Qed.

Lemma any_sort_meets_spec scheme rs srt : wf_rs rs -> sort_post rs srt ->
  Permutation (low_group srt) (low rs) /\ Spec scheme rs (resolve_from scheme srt).
Proof.
  intros Hwf Hpost. split.
  - apply low_group_perm_any; [apply Hpost|eapply sort_post_ple; exact Hpost].
  - eapply Spec_perm; [symmetry; apply any_sort_same_multiset; eassumption|].
    apply resolve_meets_spec; exact Hwf.
Qed.

