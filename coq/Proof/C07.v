(* C07 - proofs. *)
Require Import Verif.Common.Base Verif.Common.Json Verif.Common.JsonFacts.
Require Import Verif.Model.C07 Verif.Spec.C07.

(* ---------- strings: last byte / all but the last byte ---------- *)

Definition snoc (s : string) (c : ascii) : string := (s ++ String c "")%string.

Lemma last_byte_snoc s c : last_byte (snoc s c) = Some c.
Proof.
  unfold snoc. induction s as [|a s IH]; simpl; [reflexivity|].
  rewrite IH. destruct (s ++ String c "")%string eqn:E; [|reflexivity].
  destruct s; discriminate.
Qed.

Lemma drop_last_snoc s c : drop_last (snoc s c) = s.
Proof.
  unfold snoc. induction s as [|a s IH]; simpl; [reflexivity|].
  rewrite IH. destruct (s ++ String c "")%string eqn:E; [destruct s; discriminate|reflexivity].
Qed.

Lemma snoc_drop_last r l : last_byte r = Some l -> r = snoc (drop_last r) l.
Proof.
  unfold snoc. induction r as [|a r IH]; simpl; [discriminate|].
  destruct r as [|b r']; intros H.
  - inversion H; reflexivity.
  - simpl. f_equal. apply IH. exact H.
Qed.

Lemma length_snoc s c : String.length (snoc s c) = S (String.length s).
Proof. unfold snoc. induction s; simpl; auto. Qed.

Lemma snoc_not_empty s c : snoc s c <> ""%string.
Proof. unfold snoc. destruct s; discriminate. Qed.

(* ---------- "{name}" ---------- *)

Lemma unwrap_iff v n : unwrap v = Some n <-> param_ref v n.
Proof.
  unfold unwrap, param_ref. split.
  - destruct v as [|c r]; [discriminate|].
    destruct (Ascii.eqb c lbrace) eqn:Ec; [|discriminate].
    destruct (last_byte r) as [l|] eqn:El; [|discriminate].
    destruct (Ascii.eqb l rbrace) eqn:Er; simpl; [|discriminate].
    destruct (str_eqb (drop_last r) "") eqn:Ee; simpl; [discriminate|].
    intros H; inversion H; subst n. split.
    + apply str_eqb_neq. exact Ee.
    + apply Ascii.eqb_eq in Ec, Er. subst c l. f_equal.
      apply (snoc_drop_last r rbrace El).
  - intros [Hn ->]. rewrite Ascii.eqb_refl.
    change (n ++ String rbrace "")%string with (snoc n rbrace).
    rewrite last_byte_snoc, drop_last_snoc, Ascii.eqb_refl. simpl.
    destruct (str_eqb n "") eqn:E; [apply str_eqb_eq in E; contradiction|reflexivity].
Qed.

Lemma placeholder_unwrap v :
  placeholder v = match unwrap v with Some n => Some (config_cap n) | None => None end.
Proof.
  unfold placeholder, unwrap. destruct v as [|c r]; [reflexivity|].
  destruct (Ascii.eqb c lbrace); simpl; [|reflexivity].
  destruct (last_byte r) as [l|] eqn:El; [|rewrite andb_false_r; reflexivity].
  destruct (Ascii.eqb l rbrace); simpl; [|rewrite andb_false_r; reflexivity].
  rewrite andb_true_r.
  rewrite (snoc_drop_last r l El) at 1. rewrite length_snoc.
  destruct (drop_last r) as [|a d]; simpl; reflexivity.
Qed.

Lemma placeholder_iff v k :
  placeholder v = Some k <-> exists n, param_ref v n /\ k = config_cap n.
Proof.
  rewrite placeholder_unwrap. split.
  - destruct (unwrap v) as [n|] eqn:E; [|discriminate].
    intros H; inversion H. exists n. split; [apply unwrap_iff; exact E|reflexivity].
  - intros [n [Hr ->]]. apply unwrap_iff in Hr. rewrite Hr. reflexivity.
Qed.

Lemma key_matches_config n :
  n <> ""%string -> placeholder (String lbrace (n ++ String rbrace "")) = Some (config_cap n).
Proof.
  intros Hn. apply placeholder_iff. exists n. split; [split; [exact Hn|reflexivity]|reflexivity].
Qed.

Lemma param_ref_fun v n n' : param_ref v n -> param_ref v n' -> n = n'.
Proof.
  intros H1 H2. apply unwrap_iff in H1, H2. congruence.
Qed.

Lemma placeholder_none v : (forall n, ~ param_ref v n) <-> placeholder v = None.
Proof.
  rewrite placeholder_unwrap. split.
  - intros H. destruct (unwrap v) as [n|] eqn:E; [|reflexivity].
    exfalso. apply (H n). apply unwrap_iff. exact E.
  - destruct (unwrap v) as [n|] eqn:E; [discriminate|].
    intros _ n Hr. apply unwrap_iff in Hr. congruence.
Qed.

(* short strings are plain values: the inputs that used to panic *)
Lemma short_values_plain :
  placeholder "" = None /\ placeholder "{}" = None /\ placeholder "{" = None /\ placeholder "}" = None.
Proof. repeat split; reflexivity. Qed.

(* capitalisation touches the first byte only and is idempotent *)
Lemma upper_byte_idem c : upper_byte (upper_byte c) = upper_byte c.
Proof.
  destruct c as [[] [] [] [] [] [] [] []]; reflexivity.
Qed.

Lemma config_cap_idem n : config_cap (config_cap n) = config_cap n.
Proof. destruct n; simpl; [reflexivity|]. rewrite upper_byte_idem. reflexivity. Qed.

Lemma config_cap_tail c r : exists c', config_cap (String c r) = String c' r.
Proof. eexists. reflexivity. Qed.

(* ---------- variable binding: queries ---------- *)

Lemma lookup_map_values {A B} (f : A -> B) k (m : list (string * A)) :
  lookup k (map (fun kv => (fst kv, f (snd kv))) m) =
  match lookup k m with Some v => Some (f v) | None => None end.
Proof.
  induction m as [|[k' v] r IH]; simpl; [reflexivity|].
  destruct (str_eqb k k'); [reflexivity|exact IH].
Qed.

Lemma keys_map_values {A B} (f : A -> B) (m : list (string * A)) :
  keys (map (fun kv => (fst kv, f (snd kv))) m) = keys m.
Proof. unfold keys. rewrite map_map. reflexivity. Qed.

(* the value bound for one default, in the property's terms *)
Definition bound_as (ps : params) (d v : json) : Prop :=
  (forall s n, d = JStr s -> param_ref s n -> v = JStr (param ps (config_cap n))) /\
  ((forall s n, d = JStr s -> ~ param_ref s n) -> v = d).

Lemma bind_value_bound ps d : bound_as ps d (bind_value ps d).
Proof.
  split.
  - intros s n -> Hr. simpl.
    assert (H : placeholder s = Some (config_cap n)) by (apply placeholder_iff; eauto).
    rewrite H. reflexivity.
  - intros H. destruct d; try reflexivity. simpl.
    assert (Hn : placeholder s = None).
    { apply placeholder_none. intros n. apply (H s n). reflexivity. }
    rewrite Hn. reflexivity.
Qed.

Lemma query_binding o ps b :
  o_type o = TQuery ->
  exists g, gql_request o ps b = Some g /\
    g_query g = o_query o /\ g_name g = o_name o /\
    keys (g_vars g) = keys (o_vars o) /\
    forall k d, lookup k (o_vars o) = Some d ->
      exists v, lookup k (g_vars g) = Some v /\ bound_as ps d v.
Proof.
  intros Ht. unfold gql_request. rewrite Ht. eexists. split; [reflexivity|]. simpl.
  repeat split.
  - apply keys_map_values.
  - intros k d Hk. exists (bind_value ps d). split; [|apply bind_value_bound].
    unfold bind_vars. rewrite lookup_map_values, Hk. reflexivity.
Qed.

(* the binding does not depend on the iteration order of the variables map *)
Lemma bind_vars_lookup ps vars k :
  lookup k (bind_vars ps vars) =
  match lookup k vars with Some d => Some (bind_value ps d) | None => None end.
Proof. apply lookup_map_values. Qed.

(* ---------- variable binding: mutations ---------- *)

Lemma lookup_app {V} k (a b : list (string * V)) :
  lookup k (a ++ b) = match lookup k a with Some v => Some v | None => lookup k b end.
Proof.
  induction a as [|[k' v] r IH]; simpl; [reflexivity|].
  destruct (str_eqb k k'); [reflexivity|exact IH].
Qed.

Lemma lookup_filter_keys {V} (p : string -> bool) k (m : list (string * V)) :
  lookup k (filter (fun kv => p (fst kv)) m) = if p k then lookup k m else None.
Proof.
  induction m as [|[k' v] r IH]; simpl; [destruct (p k); reflexivity|].
  destruct (str_eqb k k') eqn:E.
  - apply str_eqb_eq in E. subst k'. destruct (p k) eqn:Ep; simpl.
    + rewrite str_eqb_refl. reflexivity.
    + rewrite IH; try rewrite Ep; reflexivity.
  - destruct (p k'); simpl; [rewrite E|]; exact IH.
Qed.

Lemma complete_lookup body defaults k :
  lookup k (complete body defaults) =
  match lookup k body with Some v => Some v | None => lookup k defaults end.
Proof.
  unfold complete. rewrite lookup_app.
  destruct (lookup k body) eqn:E; [reflexivity|].
  rewrite (lookup_filter_keys (fun k => negb (mem k body))).
  unfold mem. rewrite E. reflexivity.
Qed.

Lemma mutation_binding o ps m :
  o_type o = TMutation ->
  exists g, gql_request o ps (BObject m) = Some g /\
    g_query g = o_query o /\ g_name g = o_name o /\
    forall k, lookup k (g_vars g) =
              match lookup k m with Some v => Some v | None => lookup k (o_vars o) end.
Proof.
  intros Ht. unfold gql_request. rewrite Ht. eexists. split; [reflexivity|]. simpl.
  repeat split. intros k. apply complete_lookup.
Qed.

Lemma in_keys_filter {V} (p : string -> bool) k (m : list (string * V)) :
  In k (keys (filter (fun kv => p (fst kv)) m)) -> p k = true /\ In k (keys m).
Proof.
  unfold keys. rewrite in_map_iff. intros [[k' v] [<- Hin]]. apply filter_In in Hin as [Hin Hp].
  simpl in *. split; [exact Hp|]. apply in_map_iff. exists (k', v). auto.
Qed.

Lemma NoDup_keys_filter {V} (p : string * V -> bool) (m : list (string * V)) :
  NoDup (keys m) -> NoDup (keys (filter p m)).
Proof.
  unfold keys. induction m as [|[k v] r IH]; simpl; [auto|].
  intros H. inversion H; subst. destruct (p (k, v)); simpl; [|auto].
  constructor; [|auto]. intros Hin. apply H2.
  apply in_map_iff in Hin as [[k' v'] [Hk Hin]]. apply filter_In in Hin as [Hin _].
  apply in_map_iff. exists (k', v'). auto.
Qed.

Lemma NoDup_app_disjoint {A} (a b : list A) :
  NoDup a -> NoDup b -> (forall x, In x a -> In x b -> False) -> NoDup (a ++ b).
Proof.
  induction a as [|y a IH]; simpl; intros Ha Hb Hd; [exact Hb|].
  inversion Ha; subst. constructor.
  - intros Hin. apply in_app_or in Hin as [H|H]; [contradiction|].
    apply (Hd y); [left; reflexivity|exact H].
  - apply IH; auto. intros x H3 H4. apply (Hd x); [right; exact H3|exact H4].
Qed.

Lemma complete_nodup body defaults :
  nodup_keys body = true -> nodup_keys defaults = true -> nodup_keys (complete body defaults) = true.
Proof.
  unfold nodup_keys. rewrite !nodup_str_NoDup. intros Hb Hd.
  unfold complete, keys. rewrite map_app. apply NoDup_app_disjoint.
  - exact Hb.
  - apply (NoDup_keys_filter _ defaults Hd).
  - intros k Hin1 Hin2.
    apply (in_keys_filter (fun k => negb (mem k body))) in Hin2 as [Hp _].
    apply negb_true_iff in Hp. unfold mem in Hp.
    apply in_keys_lookup in Hin1 as [v Hv]. rewrite Hv in Hp. discriminate.
Qed.

(* ---------- the stack ---------- *)

Lemma stack_names :
  map stage_name (rev (exec_stack true)) =
  ["pf.backendFactory"; "NewBackendPluginMiddleware"; "NewLoadBalancedMiddlewareWithSubscriberAndLogger";
   "NewGraphQLMiddleware"; "NewFilterHeadersMiddleware"; "NewFilterQueryStringsMiddleware";
   "NewConcurrentMiddlewareWithLogger"; "NewRequestBuilderMiddlewareWithLogger"]%string.
Proof. reflexivity. Qed.

Lemma non_object_fails i len :
  o_type (opts_of i) = TMutation -> (forall m, i_body i <> BObject m) -> model i len = Failed.
Proof.
  intros Ht Hb. unfold model, model_on, opts_of in *.
  assert (G : gql_request (b_opts (i_backend i)) (i_params i) (i_body i) = None).
  { unfold gql_request. rewrite Ht. destruct (i_body i); try reflexivity. exfalso. apply (Hb o). reflexivity. }
  destruct (i_concurrent i); simpl; rewrite G; reflexivity.
Qed.

(* a query never fails in the GraphQL stage, a mutation with an object body neither *)
Definition operation (i : input) : option gql :=
  gql_request (opts_of i) (i_params i) (i_body i).

Lemma post_transport i len g :
  operation i = Some g -> o_method (opts_of i) = TPost ->
  exists s, model i len = Sent s /\
    s_method s = "POST"%string /\ s_body s = Some (body_json g) /\
    s_body_len s = len /\ s_clen s = len /\ s_clen_hdr s = [dec_Z len] /\
    s_ctype s = ["application/json"%string] /\
    s_q s = qtexts (lookup "query" (restrict (b_qs_allow (i_backend i)) (p_query (initial i)))).
Proof.
  unfold operation, opts_of. intros Hg Hm. unfold model, model_on.
  destruct (i_concurrent i); simpl; rewrite Hg, Hm; simpl;
    (eexists; split; [reflexivity|]); unfold sent_of; simpl;
    rewrite ?lookup_set; simpl; repeat split; reflexivity.
Qed.

Lemma qset_params_query g m :
  lookup "query" (operation_query g m)
  = Some [QText (g_query g)].
Proof.
  unfold operation_query, get_params, without_operation, qset.
  destruct (str_eqb (g_name g) ""); destruct (g_vars g); simpl; rewrite ?lookup_set; simpl; reflexivity.
Qed.

Lemma qset_params_name g m :
  lookup "operationName" (operation_query g m)
  = if str_eqb (g_name g) "" then None else Some [QText (g_name g)].
Proof.
  unfold operation_query, get_params, without_operation, qset.
  destruct (str_eqb (g_name g) ""); destruct (g_vars g); simpl; rewrite ?lookup_set; simpl;
    try reflexivity;
    (repeat (rewrite lookup_remove_neq by discriminate); apply lookup_remove_eq).
Qed.

Lemma qset_params_vars g m :
  lookup "variables" (operation_query g m)
  = match g_vars g with [] => None | _ => Some [QJson (JObj (g_vars g))] end.
Proof.
  unfold operation_query, get_params, without_operation, qset.
  destruct (str_eqb (g_name g) ""); destruct (g_vars g); simpl; rewrite ?lookup_set; simpl;
    try reflexivity;
    (repeat (rewrite lookup_remove_neq by discriminate); apply lookup_remove_eq).
Qed.

Arguments operation_query : simpl never.

Lemma get_transport i len g :
  operation i = Some g -> o_method (opts_of i) = TGet ->
  exists s, model i len = Sent s /\
    s_method s = "GET"%string /\
    s_q s = [g_query g] /\
    s_name s = (if str_eqb (g_name g) "" then [] else [g_name g]) /\
    s_vars s = (match g_vars g with [] => [] | _ => [JObj (g_vars g)] end).
Proof.
  unfold operation, opts_of. intros Hg Hm. unfold model, model_on.
  destruct (i_concurrent i); simpl; rewrite Hg, Hm; simpl;
    (eexists; split; [reflexivity|]); unfold sent_of; simpl;
    rewrite qset_params_query, qset_params_name, qset_params_vars;
    (repeat split; simpl; try reflexivity;
     [destruct (str_eqb (g_name g) ""); reflexivity | destruct (g_vars g); reflexivity]).
Qed.

(* with the URL rendered before the GraphQL stage the GET transport loses the operation *)
Definition witness_get : input :=
  {| i_backend := {| b_method := "GET"; b_hdr_allow := []; b_qs_allow := [];
                     b_opts := {| o_query := "{ q }"; o_name := "Op"; o_vars := [("id", JStr "{id}")];
                                  o_type := TQuery; o_method := TGet |} |};
     i_concurrent := false; i_params := [("Id", "42")]; i_body := BInvalid; i_method := "GET";
     i_query := []; i_hdrs := [] |}.

Lemma url_first_loses_operation :
  exists i len s, model_on exec_stack_url_first i len = Sent s /\ s_q s = [] /\ s_vars s = [] /\
                  spec_b i (model_on exec_stack_url_first i len) = false /\
                  spec_b i (model i len) = true.
Proof.
  exists witness_get, 0%Z. eexists. split; [reflexivity|]. repeat split; vm_compute; reflexivity.
Qed.
