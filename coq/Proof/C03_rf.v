(* C03 - the default stack is race free for every configuration and request in scope:
   footprint lemmas for the middlewares, then the two spawning loops. *)
Require Import Verif.Common.Base Verif.Common.Heap Verif.Model.C03 Verif.Spec.C03 Verif.Proof.C03.

Notation aobj := (@Heap.aobj obj val).
Notation is_wr := (@Heap.is_wr obj val).

(* footprint of a pipeline that started in state s and allocates under the name [own]: an
   object it allocated itself, or one its request pointed to at the start - written only
   if it is the struct or the body *)
Definition foot (own : owner) (s : pst) (x : acc) : Prop :=
  o_own (aobj x) = own \/
  exists f, aobj x = pv s f /\ (is_wr x = true -> f = FStruct \/ f = FBody) /\ (f = FBody -> has_body s = true).
Definition vrel (own : owner) (s s' : pst) : Prop :=
  forall f, o_own (pv s' f) = own \/ (pv s' f = pv s f /\ (f = FBody -> has_body s' = true -> has_body s = true)).

Lemma vrel_refl own s : vrel own s s.
Proof. intros f. right. auto. Qed.

Lemma vrel_same own s s1 s2 :
  pv s2 = pv s1 -> (has_body s2 = true -> has_body s1 = true) -> vrel own s s1 -> vrel own s s2.
Proof.
  intros Hp Hb H f. rewrite Hp. destruct (H f) as [H1|[H1 H2]]; [left; auto|right; split; auto].
Qed.

Lemma rd_foot own s si f :
  vrel own s si -> (f = FBody -> has_body si = true) -> Forall (foot own s) (rd si f).
Proof.
  intros H Hb. unfold rd. constructor; [|constructor]. unfold foot. cbn.
  destruct (H f) as [H1|[H1 H2]]; [left; auto|right]. exists f.
  split; [exact H1|]. split; [discriminate|]. intros E. auto.
Qed.

Lemma wr_foot own s si f v :
  vrel own s si -> (f = FStruct \/ (f = FBody /\ has_body si = true)) -> foot own s (Wr (pv si f) v).
Proof.
  intros H Hf. unfold foot. cbn. destruct (H f) as [H1|[H1 H2]]; [left; auto|right]. exists f.
  split; [exact H1|]. split.
  - intros _. destruct Hf as [Hf|[Hf _]]; auto.
  - intros E. destruct Hf as [Hf|[_ Hf]]; [congruence|auto].
Qed.

Lemma has_body_vset_other s f v : f <> FBody -> has_body {| pv := pv s; px := vset (px s) f v |} = has_body s.
Proof. intros Hf. unfold has_body, vset. cbn. destruct f; try congruence; reflexivity. Qed.

Lemma wr_struct_rel own s si v :
  vrel own s si ->
  Forall (foot own s) (fst (wr si FStruct v)) /\ vrel own s (snd (wr si FStruct v)).
Proof.
  intros H. unfold wr. cbn [fst snd]. split.
  - constructor; [|constructor]. apply wr_foot; auto.
  - apply (vrel_same own s si); [reflexivity| |exact H]. rewrite has_body_vset_other by discriminate. auto.
Qed.

Lemma alloc_rel own s si f st f0 v :
  vrel own s si ->
  Forall (foot own s) (fst (alloc si f (Ob own st f0) v)) /\ vrel own s (snd (alloc si f (Ob own st f0) v)).
Proof.
  intros H. unfold alloc. cbn [fst snd]. split.
  - constructor; [|constructor]. left. reflexivity.
  - intros f'. cbn [pv]. unfold vset at 1 2. destruct (field_eqb f' f) eqn:E; [left; reflexivity|].
    destruct (H f') as [H1|[H1 H2]]; [left; auto|right]. split; [exact H1|].
    intros Ef Hb. apply H2; auto. subst f'. unfold has_body in *. cbn [px] in Hb. unfold vset in Hb. rewrite E in Hb. exact Hb.
Qed.

Lemma drain_rel own s si :
  vrel own s si -> has_body si = true ->
  Forall (foot own s) (rd si FBody ++ [Wr (pv si FBody) VClosed]) /\
  vrel own s {| pv := pv si; px := vset (px si) FBody VClosed |}.
Proof.
  intros H Hb. split.
  - apply Forall_app. split; [apply rd_foot; auto|]. constructor; [|constructor]. apply wr_foot; auto.
  - apply (vrel_same own s si); [reflexivity|auto|exact H].
Qed.

Ltac fapp := repeat (apply Forall_app; split).

Lemma filter_rel own s si st f allow :
  f <> FBody -> vrel own s si ->
  Forall (foot own s) (fst (filter_stage own st f allow si)) /\ vrel own s (snd (filter_stage own st f allow si)).
Proof.
  intros Hf H. unfold filter_stage. destruct allow as [|a0 al]; [split; [constructor|exact H]|].
  set (m := match px si f with VMap m => m | _ => [] end).
  assert (Hr : Forall (foot own s) (rd si FStruct ++ rd si f)).
  { fapp; apply rd_foot; auto; intros; congruence. }
  pose proof Hr as Hr'. apply Forall_app in Hr' as [Hr1 Hr2].
  destruct (all_allowed (a0 :: al) m); [split; auto|].
  destruct (alloc si f (Ob own st f) (VMap (filter_map (a0 :: al) m))) as [a1 s1] eqn:E1.
  pose proof (alloc_rel own s si f st f (VMap (filter_map (a0 :: al) m)) H) as [Ha1 Hs1]. rewrite E1 in Ha1, Hs1. cbn [fst snd] in Ha1, Hs1.
  destruct (alloc s1 FStruct (Ob own st FStruct) (px si FStruct)) as [a2 s2] eqn:E2.
  pose proof (alloc_rel own s s1 FStruct st FStruct (px si FStruct) Hs1) as [Ha2 Hs2]. rewrite E2 in Ha2, Hs2. cbn [fst snd] in Ha2, Hs2.
  cbn [fst snd]. split; [fapp; auto|exact Hs2].
Qed.

Lemma gql_rel own s si g :
  vrel own s si ->
  Forall (foot own s) (fst (gql_stage own g si)) /\
  match snd (gql_stage own g si) with Some sj => vrel own s sj | None => True end.
Proof.
  intros H. unfold gql_stage.
  set (src := match g_kind g with
              | GQuery => (rd si FStruct ++ rd si FPar)%list
              | GMutation => (rd si FStruct ++ (if has_body si then rd si FBody ++ [Wr (pv si FBody) VClosed] else []))%list end).
  set (s0 := match g_kind g with
             | GMutation => if has_body si then {| pv := pv si; px := vset (px si) FBody VClosed |} else si
             | GQuery => si end).
  assert (Hsrc : Forall (foot own s) src /\ vrel own s s0).
  { subst src s0. destruct (g_kind g).
    - split; [fapp; apply rd_foot; auto; intros; congruence|exact H].
    - destruct (has_body si) eqn:Hb.
      + destruct (drain_rel own s si H Hb) as [D1 D2]. split; [apply Forall_app; split; [apply rd_foot; auto; intros; congruence|exact D1]|exact D2].
      + split; [fapp; [apply rd_foot; auto; intros; congruence|constructor]|exact H]. }
  destruct Hsrc as [Hsrc Hs0].
  destruct (g_out g) as [[body gq]|]; [|cbn [fst snd]; split; auto].
  destruct (g_get g).
  - destruct (alloc s0 FBody (Ob own SGql FBody) (VBody "")) as [a1 s1] eqn:E1.
    pose proof (alloc_rel own s s0 FBody SGql FBody (VBody "") Hs0) as [Ha1 Hs1]. rewrite E1 in Ha1, Hs1. cbn [fst snd] in Ha1, Hs1.
    match goal with |- context [alloc s1 FHdr ?o ?v] => destruct (alloc s1 FHdr o v) as [a2 s2] eqn:E2;
      pose proof (alloc_rel own s s1 FHdr SGql FHdr v Hs1) as [Ha2 Hs2]; rewrite E2 in Ha2, Hs2; cbn [fst snd] in Ha2, Hs2 end.
    match goal with |- context [alloc s2 FQry ?o ?v] => destruct (alloc s2 FQry o v) as [a3 s3] eqn:E3;
      pose proof (alloc_rel own s s2 FQry SGql FQry v Hs2) as [Ha3 Hs3]; rewrite E3 in Ha3, Hs3; cbn [fst snd] in Ha3, Hs3 end.
    match goal with |- context [wr s3 FStruct ?v] => destruct (wr s3 FStruct v) as [a4 s4] eqn:E4;
      pose proof (wr_struct_rel own s s3 v Hs3) as [Ha4 Hs4]; rewrite E4 in Ha4, Hs4; cbn [fst snd] in Ha4, Hs4 end.
    cbn [fst snd]. split; [|exact Hs4].
    fapp; auto; apply rd_foot; auto; intros; congruence.
  - match goal with |- context [alloc s0 FBody ?o ?v] => destruct (alloc s0 FBody o v) as [a1 s1] eqn:E1;
      pose proof (alloc_rel own s s0 FBody SGql FBody v Hs0) as [Ha1 Hs1]; rewrite E1 in Ha1, Hs1; cbn [fst snd] in Ha1, Hs1 end.
    match goal with |- context [alloc s1 FHdr ?o ?v] => destruct (alloc s1 FHdr o v) as [a2 s2] eqn:E2;
      pose proof (alloc_rel own s s1 FHdr SGql FHdr v Hs1) as [Ha2 Hs2]; rewrite E2 in Ha2, Hs2; cbn [fst snd] in Ha2, Hs2 end.
    match goal with |- context [wr s2 FStruct ?v] => destruct (wr s2 FStruct v) as [a4 s4] eqn:E4;
      pose proof (wr_struct_rel own s s2 v Hs2) as [Ha4 Hs4]; rewrite E4 in Ha4, Hs4; cbn [fst snd] in Ha4, Hs4 end.
    cbn [fst snd]. split; [|exact Hs4].
    fapp; auto; apply rd_foot; auto; intros; congruence.
Qed.

Lemma lb_rel own s si b :
  vrel own s si -> Forall (foot own s) (fst (lb_stage b si)) /\ vrel own s (snd (lb_stage b si)).
Proof.
  intros H. unfold lb_stage.
  match goal with |- context [wr si FStruct ?v] => destruct (wr si FStruct v) as [a s1] eqn:E;
    pose proof (wr_struct_rel own s si v H) as [Ha Hs]; rewrite E in Ha, Hs; cbn [fst snd] in Ha, Hs end.
  cbn [fst snd]. split; [|exact Hs]. fapp; auto; apply rd_foot; auto; intros; congruence.
Qed.

Lemma http_foot own s si : vrel own s si -> Forall (foot own s) (http_stage si).
Proof.
  intros H. unfold http_stage. fapp; try (apply rd_foot; auto; intros; congruence).
  destruct (has_body si) eqn:Hb; [|constructor]. apply (drain_rel own s si H Hb).
Qed.

Lemma rb_rel own s si b :
  vrel own s si -> Forall (foot own s) (fst (rb_stage b si)) /\ vrel own s (snd (rb_stage b si)).
Proof.
  intros H. unfold rb_stage.
  match goal with |- context [wr si FStruct ?v] => destruct (wr si FStruct v) as [a s1] eqn:E;
    pose proof (wr_struct_rel own s si v H) as [Ha Hs]; rewrite E in Ha, Hs; cbn [fst snd] in Ha, Hs end.
  cbn [fst snd]. split; [|exact Hs]. fapp; auto; apply rd_foot; auto; intros; congruence.
Qed.

(* everything below the concurrent middleware *)
Lemma inner_foot own s si b : vrel own s si -> Forall (foot own s) (inner_accs own b si).
Proof.
  intros H. unfold inner_accs.
  destruct (filter_stage own SQF FQry (b_qs b) si) as [a1 s1] eqn:E1.
  pose proof (filter_rel own s si SQF FQry (b_qs b) ltac:(discriminate) H) as [Ha1 Hs1]. rewrite E1 in Ha1, Hs1. cbn [fst snd] in Ha1, Hs1.
  destruct (filter_stage own SHF FHdr (b_hdrs b) s1) as [a2 s2] eqn:E2.
  pose proof (filter_rel own s s1 SHF FHdr (b_hdrs b) ltac:(discriminate) Hs1) as [Ha2 Hs2]. rewrite E2 in Ha2, Hs2. cbn [fst snd] in Ha2, Hs2.
  destruct (b_gql b) as [g|].
  - destruct (gql_stage own g s2) as [a3 os3] eqn:E3.
    pose proof (gql_rel own s s2 g Hs2) as [Ha3 Hs3]. rewrite E3 in Ha3, Hs3. cbn [fst snd] in Ha3, Hs3.
    destruct os3 as [s3|]; [|fapp; auto].
    destruct (lb_stage b s3) as [a4 s4] eqn:E4.
    pose proof (lb_rel own s s3 b Hs3) as [Ha4 Hs4]. rewrite E4 in Ha4, Hs4. cbn [fst snd] in Ha4, Hs4.
    pose proof (http_foot own s s4 Hs4) as Hh. remember (http_stage s4) as hs. fapp; auto.
  - destruct (lb_stage b s2) as [a4 s4] eqn:E4.
    pose proof (lb_rel own s s2 b Hs2) as [Ha4 Hs4]. rewrite E4 in Ha4, Hs4. cbn [fst snd] in Ha4, Hs4.
    pose proof (http_foot own s s4 Hs4) as Hh. remember (http_stage s4) as hs. fapp; auto; constructor.
Qed.

(* ---------- CloneRequest ---------- *)
Definition typed (s : pst) : Prop := forall f, o_fld (pv s f) = f.

Ltac inl Hx := repeat (destruct Hx as [<-|Hx]); try contradiction.

Lemma deep_clone_accs own st ss so s x :
  In x (fst (fst (deep_clone own st ss so s))) ->
  o_own (aobj x) = own \/ (o_own (aobj x) = so /\ o_fld (aobj x) = FBody) \/
  exists f, aobj x = pv s f /\ f <> FQry /\ (is_wr x = true -> f = FStruct \/ f = FBody) /\ (f = FBody -> has_body s = true).
Proof.
  unfold deep_clone, alloc, wr, rd. destruct (has_body s) eqn:Hb; cbn; intros Hx; inl Hx; cbn; auto;
    try (right; right; eexists; split; [reflexivity|]; repeat split; try discriminate; auto; fail).
Qed.

Lemma deep_clone_src own st ss so s :
  let s' := snd (fst (deep_clone own st ss so s)) in
  has_body s' = has_body s /\
  (forall f, f <> FBody -> pv s' f = pv s f) /\
  (pv s' FBody = pv s FBody \/ pv s' FBody = Ob so ss FBody).
Proof.
  unfold deep_clone, alloc, wr, rd. destruct (has_body s) eqn:Hb; cbn.
  - split; [unfold has_body in *; cbn; destruct (px s FBody); auto; discriminate|].
    split; [intros f Hf; destruct f; try congruence; reflexivity|right; reflexivity].
  - auto.
Qed.

Lemma deep_clone_clone own st ss so s :
  let c := snd (deep_clone own st ss so s) in
  has_body c = has_body s /\ pv c FQry = pv s FQry /\
  (forall f, f <> FQry -> (f = FBody -> has_body s = true) -> pv c f = Ob own st f).
Proof.
  unfold deep_clone, alloc, wr, rd. destruct (has_body s) eqn:Hb; cbn.
  - split; [unfold has_body in *; cbn; destruct (px s FBody); auto|].
    split; [reflexivity|]. intros f Hf _. destruct f; try congruence; reflexivity.
  - split; [unfold has_body in *; cbn; exact Hb|].
    split; [reflexivity|]. intros f Hf Hb'. destruct f; try congruence; try reflexivity. specialize (Hb' eq_refl). discriminate.
Qed.

(* ---------- the concurrent middleware's spawning loop ---------- *)
Definition lfoot (k : nat) (so : owner) (a : nat) (s : pst) (x : acc) : Prop :=
  (exists a', a <= a' /\ o_own (aobj x) = WAt k a') \/
  (o_own (aobj x) = so /\ o_fld (aobj x) = FBody) \/
  (exists f, aobj x = pv s f /\ (is_wr x = true -> f = FStruct \/ f = FBody) /\ (f = FBody -> has_body s = true)).

Definition own_at (k a : nat) (o : obj) : bool := owner_eqb (o_own o) (WAt k a).

Lemma own_at_true k a o : own_at k a o = true <-> o_own o = WAt k a.
Proof. unfold own_at. apply owner_eqb_spec. Qed.

Lemma child_class k a b so st ss s x :
  let c := snd (deep_clone (WAt k a) st ss so s) in
  In x (inner_accs (WAt k a) b c) ->
  o_own (aobj x) = WAt k a \/ (aobj x = pv s FQry /\ is_wr x = false).
Proof.
  intros c Hx. pose proof (inner_foot (WAt k a) c c b (vrel_refl _ _)) as Hf.
  rewrite Forall_forall in Hf. destruct (Hf x Hx) as [H|[f (H1 & H2 & H3)]]; [left; exact H|].
  destruct (deep_clone_clone (WAt k a) st ss so s) as (Hb & Hq & Hn). fold c in Hb, Hq, Hn.
  destruct (field_eqb f FQry) eqn:E.
  - apply field_eqb_spec in E. subst f. right. split; [rewrite H1; exact Hq|].
    destruct (is_wr x); [destruct (H2 eq_refl); discriminate|reflexivity].
  - left. rewrite H1, Hn; [reflexivity| |].
    + intros ->. discriminate.
    + intros ->. rewrite <- Hb. auto.
Qed.

Lemma conc_loop_ok ls k b so todo : forall a s,
  typed s -> (forall f a', o_own (pv s f) <> WAt k a') -> (forall a', so <> WAt k a') ->
  race_free obj_eqb (conc_loop ls k b so todo a s) = true /\
  forall x, In x (accs (conc_loop ls k b so todo a s)) -> lfoot k so a s x.
Proof.
  induction todo as [|n IH]; intros a s Hty Hna Hso.
  - cbn [conc_loop]. destruct ls; [|split; [reflexivity|intros x []]]. split.
    + rewrite race_free_cons_fork, race_free_map_Acc. cbn. apply no_conflict_nil_r.
    + intros x Hx. rewrite accs_cons_fork, accs_map_Acc, app_nil_r in Hx.
      pose proof (inner_foot (WAt k a) s s b (vrel_refl _ _)) as Hf. rewrite Forall_forall in Hf.
      destruct (Hf x Hx) as [H|H]; [left; exists a; auto|right; right; exact H].
  - cbn [conc_loop].
    destruct (deep_clone (WAt k a) SConc (SConcSrc a) so s) as [[ac s'] c] eqn:E.
    pose proof (deep_clone_accs (WAt k a) SConc (SConcSrc a) so s) as Hac.
    pose proof (deep_clone_src (WAt k a) SConc (SConcSrc a) so s) as (Hb' & Hpv' & Hbody').
    pose proof (child_class k a b so SConc (SConcSrc a) s) as Hch.
    rewrite E in Hac, Hb', Hpv', Hbody', Hch. cbn [fst snd] in Hac, Hb', Hpv', Hbody', Hch.
    assert (Hty' : typed s').
    { intros f. destruct (field_eqb f FBody) eqn:Ef.
      - apply field_eqb_spec in Ef. subst f. destruct Hbody' as [->| ->]; [apply Hty|reflexivity].
      - rewrite Hpv'; [apply Hty|]. intros ->. discriminate. }
    assert (Hna' : forall f a', o_own (pv s' f) <> WAt k a').
    { intros f a'. destruct (field_eqb f FBody) eqn:Ef.
      - apply field_eqb_spec in Ef. subst f. destruct Hbody' as [->| ->]; [apply Hna|cbn; apply Hso].
      - rewrite Hpv'; [apply Hna|]. intros ->. discriminate. }
    destruct (IH (S a) s' Hty' Hna' Hso) as [IH1 IH2].
    (* footprint of the rest, expressed over s *)
    assert (Hrest : forall x, In x (accs (conc_loop ls k b so n (S a) s')) ->
              (exists a', S a <= a' /\ o_own (aobj x) = WAt k a') \/
              (o_own (aobj x) = so /\ o_fld (aobj x) = FBody) \/
              (exists f, aobj x = pv s f /\ (is_wr x = true -> f = FStruct \/ f = FBody) /\ (f = FBody -> has_body s = true))).
    { intros x Hx. destruct (IH2 x Hx) as [H|[H|[f (H1 & H2 & H3)]]]; auto.
      destruct (field_eqb f FBody) eqn:Ef.
      - apply field_eqb_spec in Ef. subst f. destruct Hbody' as [Hq|Hq].
        + right; right. exists FBody. rewrite H1, Hq. repeat split; auto. intros _. rewrite <- Hb'. auto.
        + right; left. rewrite H1, Hq. cbn. auto.
      - right; right. exists f. rewrite H1, Hpv'; [|intros ->; discriminate]. repeat split; auto.
        intros ->. discriminate. }
    split.
    + rewrite race_free_app_acc, race_free_cons_fork, race_free_map_Acc, IH1, accs_map_Acc. cbn [andb].
      apply (no_conflict_classes obj val obj_eqb obj_eqb_spec (own_at k a)
               (fun o => negb (own_at k a o) && negb (obj_eqb o (pv s FQry)))).
      * intros x Hx. destruct (Hch x Hx) as [H|[H1 H2]].
        -- left. apply own_at_true. exact H.
        -- right. split; [exact H2|]. rewrite H1.
           replace (obj_eqb (pv s FQry) (pv s FQry)) with true by (symmetry; apply obj_eqb_spec; reflexivity).
           apply andb_false_r.
      * intros x Hx.
        assert (Hnot : own_at k a (aobj x) = false).
        { destruct (own_at k a (aobj x)) eqn:Eo; [|reflexivity]. apply own_at_true in Eo.
          destruct (Hrest x Hx) as [[a' [Hle H]]|[[H _]|[f (H1 & _)]]].
          - rewrite Eo in H. inversion H. lia.
          - exfalso. apply (Hso a). congruence.
          - exfalso. apply (Hna f a). rewrite <- H1. exact Eo. }
        rewrite Hnot. cbn [negb andb].
        destruct (obj_eqb (aobj x) (pv s FQry)) eqn:Eq; [|left; reflexivity].
        right. split; [|reflexivity]. apply obj_eqb_spec in Eq.
        destruct (Hrest x Hx) as [[a' [Hle H]]|[[_ H]|[f (H1 & H2 & _)]]].
        -- exfalso. apply (Hna FQry a'). rewrite <- Eq. exact H.
        -- rewrite Eq, Hty in H. discriminate.
        -- destruct (is_wr x); [|reflexivity]. exfalso.
           assert (Hf : f = FQry) by (rewrite <- (Hty f), <- H1, Eq; apply Hty).
           destruct (H2 eq_refl); congruence.
      * intros o H1 H2. rewrite H1 in H2. discriminate.
    + intros x Hx. rewrite accs_app, accs_map_Acc, accs_cons_fork, accs_map_Acc in Hx.
      apply in_app_or in Hx as [Hx|Hx]; [|apply in_app_or in Hx as [Hx|Hx]].
      * destruct (Hac x Hx) as [H|[H|[f (H1 & _ & H2 & H3)]]].
        -- left. exists a. auto.
        -- right; left. exact H.
        -- right; right. exists f. auto.
      * destruct (Hch x Hx) as [H|[H1 H2]].
        -- left. exists a. auto.
        -- right; right. exists FQry. rewrite H2. repeat split; auto; discriminate.
      * unfold lfoot. destruct (Hrest x Hx) as [[a' [Hle H]]|[H|H]]; [left; exists a'; split; [lia|exact H]|right; left; exact H|right; right; exact H].
Qed.

(* ---------- one backend's stack ---------- *)
Definition bfoot (k : nat) (so : owner) (s : pst) (x : acc) : Prop :=
  (exists a', o_own (aobj x) = WAt k a') \/
  (o_own (aobj x) = so /\ o_fld (aobj x) = FBody) \/
  (exists f, aobj x = pv s f /\ (is_wr x = true -> f = FStruct \/ f = FBody) /\ (f = FBody -> has_body s = true)).

Lemma rb_state b s : pv (snd (rb_stage b s)) = pv s /\ has_body (snd (rb_stage b s)) = has_body s.
Proof. unfold rb_stage, wr. cbn. split; [reflexivity|]. apply has_body_vset_other. discriminate. Qed.

Lemma foot_bfoot k a so s x : foot (WAt k a) s x -> bfoot k so s x.
Proof. intros [H|H]; [left; exists a; exact H|right; right; exact H]. Qed.

Lemma branch_ok ls k so b s :
  typed s -> (forall f a', o_own (pv s f) <> WAt k a') -> (forall a', so <> WAt k a') ->
  race_free obj_eqb (branch_prog ls k so b s) = true /\
  forall x, In x (accs (branch_prog ls k so b s)) -> bfoot k so s x.
Proof.
  intros Hty Hna Hso. unfold branch_prog.
  pose proof (rb_rel (WAt k 0) s s b (vrel_refl _ _)) as [Ha Hs1].
  pose proof (rb_state b s) as [Hpv Hhb].
  destruct (rb_stage b s) as [a s1] eqn:E. cbn [fst snd] in *.
  rewrite Forall_forall in Ha.
  pose proof (inner_foot (WAt k 0) s s1 b Hs1) as Hin. rewrite Forall_forall in Hin.
  assert (H01 : race_free obj_eqb (map Acc (a ++ inner_accs (WAt k 0) b s1)) = true /\
                forall x, In x (accs (map Acc (a ++ inner_accs (WAt k 0) b s1))) -> bfoot k so s x).
  { split; [apply race_free_map_Acc|]. intros x Hx. rewrite accs_map_Acc in Hx.
    apply in_app_or in Hx as [Hx|Hx]; eapply foot_bfoot; eauto. }
  destruct (b_cc b) as [|[|n]]; [exact H01|exact H01|].
  assert (Hty1 : typed s1) by (intros f; rewrite Hpv; apply Hty).
  assert (Hna1 : forall f a', o_own (pv s1 f) <> WAt k a') by (intros f a'; rewrite Hpv; apply Hna).
  destruct (conc_loop_ok ls k b so (if ls then S n else S (S n)) 0 s1 Hty1 Hna1 Hso) as [L1 L2].
  split.
  - rewrite race_free_app_acc. exact L1.
  - intros x Hx. rewrite accs_app, accs_map_Acc in Hx. apply in_app_or in Hx as [Hx|Hx].
    + eapply foot_bfoot; eauto.
    + destruct (L2 x Hx) as [[a' [_ H]]|[H|[f (H1 & H2 & H3)]]].
      * left. exists a'. exact H.
      * right; left. exact H.
      * right; right. exists f. rewrite H1, Hpv, <- Hhb. auto.
Qed.

(* ---------- parallelMerge's spawning loop ---------- *)
Definition own_br (k : nat) (o : obj) : bool :=
  match o_own o with WBr k' => Nat.eqb k' k | WAt k' _ => Nat.eqb k' k | WEnd => false end.
Definition wend_map (o : obj) : bool :=
  owner_eqb (o_own o) WEnd && match o_fld o with FHdr | FQry | FPar | FVals => true | _ => false end.
Definition endp (s : pst) : Prop := forall f, o_own (pv s f) = WEnd.
Definition mfoot (k : nat) (x : acc) : Prop :=
  (exists k', k <= k' /\ own_br k' (aobj x) = true) \/
  (o_own (aobj x) = WEnd /\ (is_wr x = true -> o_fld (aobj x) = FStruct \/ o_fld (aobj x) = FBody)).

Lemma deep_clone_typed own st ss so s : typed s -> typed (snd (deep_clone own st ss so s)).
Proof.
  intros Hty. unfold deep_clone, alloc, wr, rd. destruct (has_body s); cbn; intros f; destruct f; cbn; auto; apply Hty.
Qed.
Lemma deep_clone_typed_src own st ss so s : typed s -> typed (snd (fst (deep_clone own st ss so s))).
Proof.
  intros Hty. unfold deep_clone, alloc, wr, rd. destruct (has_body s); cbn; intros f; destruct f; cbn; auto; apply Hty.
Qed.
Lemma deep_clone_own own st ss so s f :
  let c := snd (deep_clone own st ss so s) in o_own (pv c f) = own \/ pv c f = pv s f.
Proof. unfold deep_clone, alloc, wr, rd. destruct (has_body s); cbn; destruct f; cbn; auto. Qed.

Lemma own_br_unique k k' o : own_br k o = true -> own_br k' o = true -> k = k'.
Proof.
  unfold own_br. destruct (o_own o); try discriminate; intros H1 H2;
    apply Nat.eqb_eq in H1, H2; congruence.
Qed.

(* what a branch started on the state c touches, seen from the endpoint: its own objects, or
   reads of endpoint-owned maps *)
Definition bclass (k : nat) (x : acc) : Prop :=
  own_br k (aobj x) = true \/ (is_wr x = false /\ wend_map (aobj x) = true).

Lemma rest_class k x :
  mfoot (S k) x ->
  (negb (own_br k (aobj x)) && negb (wend_map (aobj x))) = true \/
  (is_wr x = false /\ own_br k (aobj x) = false).
Proof.
  intros [[k' [Hle H]]|[H1 H2]].
  - assert (Hk : own_br k (aobj x) = false).
    { destruct (own_br k (aobj x)) eqn:E; [|reflexivity]. pose proof (own_br_unique _ _ _ E H). lia. }
    left. rewrite Hk. cbn. unfold wend_map. unfold own_br in H. destruct (o_own (aobj x)); try discriminate; reflexivity.
  - assert (Hk : own_br k (aobj x) = false) by (unfold own_br; rewrite H1; reflexivity).
    rewrite Hk. cbn. destruct (wend_map (aobj x)) eqn:E; [right|left; reflexivity].
    split; [|reflexivity]. destruct (is_wr x); [|reflexivity]. exfalso.
    unfold wend_map in E. apply andb_true_iff in E as [_ E]. destruct (H2 eq_refl) as [H|H]; rewrite H in E; discriminate.
Qed.

Lemma merge_step_conflict k child rest :
  (forall x, In x child -> bclass k x) -> (forall x, In x rest -> mfoot (S k) x) ->
  no_conflict obj_eqb child rest = true.
Proof.
  intros Hc Hr.
  apply (no_conflict_classes obj val obj_eqb obj_eqb_spec (own_br k) (fun o => negb (own_br k o) && negb (wend_map o))).
  - intros x Hx. destruct (Hc x Hx) as [H|[H1 H2]]; [left; exact H|right]. split; [exact H1|]. rewrite H2. apply andb_false_r.
  - intros x Hx. apply rest_class. auto.
  - intros o H1 H2. rewrite H1 in H2. discriminate.
Qed.

Lemma bclass_mfoot k x : bclass k x -> mfoot k x.
Proof.
  intros [H|[H1 H2]]; [left; exists k; auto|right].
  unfold wend_map in H2. apply andb_true_iff in H2 as [H2 _]. apply owner_eqb_spec in H2.
  split; [exact H2|]. rewrite H1. discriminate.
Qed.

Lemma merge_ok ls deep bs : forall k s,
  typed s -> endp s -> (deep = false -> has_body s = false) ->
  race_free obj_eqb (merge_loop ls deep bs k s) = true /\
  forall x, In x (accs (merge_loop ls deep bs k s)) -> mfoot k x.
Proof.
  induction bs as [|b r IH]; intros k s Hty Hend Hsc; [split; [reflexivity|intros x []]|].
  assert (Hwat : forall f a', o_own (pv s f) <> WAt k a') by (intros f a'; rewrite Hend; discriminate).
  assert (Hso : forall a', WBr k <> WAt k a') by (intros; discriminate).
  cbn [merge_loop]. destruct deep.
  - destruct (deep_clone (WBr k) SMerge (SMergeSrc k) WEnd s) as [[ac s'] c] eqn:E.
    pose proof (deep_clone_accs (WBr k) SMerge (SMergeSrc k) WEnd s) as Hac.
    pose proof (deep_clone_src (WBr k) SMerge (SMergeSrc k) WEnd s) as (Hb' & Hpv' & Hbody').
    pose proof (deep_clone_clone (WBr k) SMerge (SMergeSrc k) WEnd s) as (Hcb & Hcq & Hcn).
    pose proof (deep_clone_typed (WBr k) SMerge (SMergeSrc k) WEnd s Hty) as Htc.
    pose proof (deep_clone_typed_src (WBr k) SMerge (SMergeSrc k) WEnd s Hty) as Hts.
    pose proof (deep_clone_own (WBr k) SMerge (SMergeSrc k) WEnd s) as Hco.
    rewrite E in *. cbn [fst snd] in *.
    assert (Hend' : endp s').
    { intros f. destruct (field_eqb f FBody) eqn:Ef.
      - apply field_eqb_spec in Ef. subst f. destruct Hbody' as [->| ->]; [apply Hend|reflexivity].
      - rewrite Hpv'; [apply Hend|]. intros ->. discriminate. }
    destruct (IH (S k) s' Hts Hend' ltac:(discriminate)) as [IH1 IH2].
    assert (Hnac : forall f a', o_own (pv c f) <> WAt k a').
    { intros f a'. destruct (Hco f) as [->| ->]; [discriminate|apply Hwat]. }
    destruct (branch_ok ls k (WBr k) b c Htc Hnac Hso) as [B1 B2].
    assert (Hchild : forall x, In x (accs (branch_prog ls k (WBr k) b c)) -> bclass k x).
    { intros x Hx. destruct (B2 x Hx) as [[a' H]|[[H _]|[f (H1 & H2 & H3)]]].
      - left. unfold own_br. rewrite H. apply Nat.eqb_refl.
      - left. unfold own_br. rewrite H. apply Nat.eqb_refl.
      - destruct (field_eqb f FQry) eqn:Ef.
        + apply field_eqb_spec in Ef. subst f. right.
          split; [destruct (is_wr x); [destruct (H2 eq_refl); discriminate|reflexivity]|].
          rewrite H1, Hcq. unfold wend_map. rewrite Hend, Hty. reflexivity.
        + left. rewrite H1, Hcn; [unfold own_br; cbn; apply Nat.eqb_refl| |].
          * intros ->. discriminate.
          * intros ->. rewrite <- Hcb. auto. }
    split.
    + rewrite race_free_app_acc, race_free_cons_fork, B1, IH1. cbn [andb].
      apply (merge_step_conflict k); auto.
    + intros x Hx. rewrite accs_app, accs_map_Acc, accs_cons_fork in Hx.
      apply in_app_or in Hx as [Hx|Hx]; [|apply in_app_or in Hx as [Hx|Hx]].
      * destruct (Hac x Hx) as [H|[[H1 H2]|[f (H1 & _ & H2 & H3)]]].
        -- left. exists k. split; [lia|]. unfold own_br. rewrite H. apply Nat.eqb_refl.
        -- right. split; [exact H1|]. intros _. right. exact H2.
        -- right. rewrite H1, Hend, Hty. split; [reflexivity|exact H2].
      * apply bclass_mfoot. auto.
      * destruct (IH2 x Hx) as [[k' [Hle H]]|H]; [left; exists k'; split; [lia|exact H]|right; exact H].
  - specialize (Hsc eq_refl).
    destruct (IH (S k) s Hty Hend ltac:(auto)) as [IH1 IH2].
    unfold shallow_clone, alloc, rd. cbn [fst snd].
    set (c := {| pv := vset (pv s) FStruct (Ob (WBr k) SMerge FStruct); px := vset (px s) FStruct (px s FStruct) |}).
    assert (Hcb : has_body c = has_body s) by (apply has_body_vset_other; discriminate).
    assert (Htc : typed c) by (intros f; destruct f; cbn; auto; apply Hty).
    assert (Hnac : forall f a', o_own (pv c f) <> WAt k a').
    { intros f a'. destruct f; cbn; try discriminate; apply Hwat. }
    destruct (branch_ok ls k (WBr k) b c Htc Hnac Hso) as [B1 B2].
    assert (Hchild : forall x, In x (accs (branch_prog ls k (WBr k) b c)) -> bclass k x).
    { intros x Hx. destruct (B2 x Hx) as [[a' H]|[[H _]|[f (H1 & H2 & H3)]]].
      - left. unfold own_br. rewrite H. apply Nat.eqb_refl.
      - left. unfold own_br. rewrite H. apply Nat.eqb_refl.
      - destruct f.
        + left. rewrite H1. cbn. unfold own_br. cbn. apply Nat.eqb_refl.
        + right. split; [destruct (is_wr x); [destruct (H2 eq_refl); discriminate|reflexivity]|].
          rewrite H1. cbn. unfold wend_map. rewrite Hend, Hty. reflexivity.
        + right. split; [destruct (is_wr x); [destruct (H2 eq_refl); discriminate|reflexivity]|].
          rewrite H1. cbn. unfold wend_map. rewrite Hend, Hty. reflexivity.
        + right. split; [destruct (is_wr x); [destruct (H2 eq_refl); discriminate|reflexivity]|].
          rewrite H1. cbn. unfold wend_map. rewrite Hend, Hty. reflexivity.
        + specialize (H3 eq_refl). rewrite Hcb, Hsc in H3. discriminate.
        + right. split; [destruct (is_wr x); [destruct (H2 eq_refl); discriminate|reflexivity]|].
          rewrite H1. cbn. unfold wend_map. rewrite Hend, Hty. reflexivity. }
    split.
    + change (map Acc ([Rd (pv s FStruct)] ++ [Wr (Ob (WBr k) SMerge FStruct) (px s FStruct)]) ++
              Fork (branch_prog ls k (WBr k) b c) :: merge_loop ls false r (S k) s)
        with (map Acc [Rd (pv s FStruct); Wr (Ob (WBr k) SMerge FStruct) (px s FStruct)] ++
              Fork (branch_prog ls k (WBr k) b c) :: merge_loop ls false r (S k) s).
      rewrite race_free_app_acc, race_free_cons_fork, B1, IH1. cbn [andb].
      apply (merge_step_conflict k); auto.
    + intros x Hx. rewrite accs_app, accs_map_Acc, accs_cons_fork in Hx.
      apply in_app_or in Hx as [Hx|Hx]; [|apply in_app_or in Hx as [Hx|Hx]].
      * cbn in Hx. destruct Hx as [<-|[<-|[]]].
        -- right. cbn. split; [apply Hend|discriminate].
        -- left. exists k. split; [lia|]. cbn. unfold own_br. cbn. apply Nat.eqb_refl.
      * apply bclass_mfoot. auto.
      * destruct (IH2 x Hx) as [[k' [Hle H]]|H]; [left; exists k'; split; [lia|exact H]|right; exact H].
Qed.

(* ---------- every configuration, every request in scope ---------- *)
Lemma init_typed q : typed (init_pst q).
Proof. intros f. reflexivity. Qed.

Theorem all_configs_gen ls cfg q :
  in_scope_basic cfg q = true -> race_free obj_eqb (endpoint_prog_gen ls cfg q) = true.
Proof.
  intros Hsc. unfold endpoint_prog_gen.
  destruct cfg as [|b [|b' r]]; [reflexivity| |].
  - apply (branch_ok ls 0 WEnd b (init_pst q)); [apply init_typed|intros; discriminate|intros; discriminate].
  - apply (merge_ok ls (has_unsafe (b :: b' :: r)) (b :: b' :: r) 0 (init_pst q)); [apply init_typed|intros f; reflexivity|].
    intros Hd. unfold in_scope_basic in Hsc. unfold has_body. cbn. destruct (q_body q); [congruence|reflexivity].
Qed.

Theorem all_configs_basic cfg q : in_scope_basic cfg q = true -> race_free_b cfg q = true.
Proof. apply all_configs_gen. Qed.
