(* C06 - proofs, part d: mapping (rename, independent of the order in which the Go map is
   ranged over), the refuted collision example, soundness of the boolean forms. *)
Require Import Verif.Common.Base Verif.Common.Json Verif.Common.JsonFacts.
Require Import Verif.Model.C06 Verif.Spec.C06 Verif.Proof.C06_a.
Require Import Coq.Sorting.Permutation.

Lemma lookup_map_one (f : obj) s t k :
  lookup k (map_one f (s, t)) =
  match lookup s f with
  | Some v0 => if str_eqb k s then None else if str_eqb k t then Some v0 else lookup k f
  | None => lookup k f
  end.
Proof.
  unfold map_one. cbn [fst snd]. destruct (lookup s f) as [v0|]; [|reflexivity].
  destruct (str_eqb k s) eqn:E.
  - apply str_eqb_eq in E. subst k. apply lookup_remove_eq.
  - apply str_eqb_neq in E. rewrite lookup_remove_neq by exact E. apply lookup_set.
Qed.

Lemma names_distinct_cons s t mp :
  names_distinct ((s, t) :: mp) ->
  names_distinct mp /\ ~ In s (map fst mp) /\ ~ In t (map snd mp) /\ s <> t /\
  ~ In s (map snd mp) /\ ~ In t (map fst mp).
Proof.
  intros [Hs [Hd Hx]]. cbn [map fst snd] in *.
  inversion Hs; subst. inversion Hd; subst.
  repeat split; try assumption.
  - intros x Hin. specialize (Hx x (or_intror Hin)). intros Hin'. apply Hx. right. exact Hin'.
  - intros E. apply (Hx s (or_introl eq_refl)). left. symmetry. exact E.
  - intros Hin. apply (Hx s (or_introl eq_refl)). right. exact Hin.
  - intros Hin. apply (Hx t (or_intror Hin)). left. reflexivity.
Qed.

Lemma in_fst {A B} (a : A) (b : B) l : In (a, b) l -> In a (map fst l).
Proof. intros H. apply in_map_iff. exists (a, b). auto. Qed.
Lemma in_snd {A B} (a : A) (b : B) l : In (a, b) l -> In b (map snd l).
Proof. intros H. apply in_map_iff. exists (a, b). auto. Qed.

Theorem mapping_renames : forall mp f, names_distinct mp ->
  forall k', renamed_at mp f (apply_mapping mp f) k'.
Proof.
  induction mp as [|[s t] mp IH]; intros f Hnd k' v.
  - cbn. split.
    + intros H. right. split; [intros ? []|]. split; [intros []|exact H].
    + intros [[? [[] _]]|[_ [_ H]]]. exact H.
  - apply names_distinct_cons in Hnd as [Hnd' [Hs1 [Ht1 [Hst [Hs2 Ht2]]]]].
    unfold apply_mapping. cbn [fold_left]. fold (apply_mapping mp (map_one f (s, t))).
    rewrite (IH (map_one f (s, t)) Hnd' k' v).
    (* sources of the rest are looked up unchanged *)
    assert (Hsame : forall s0 d0, In (s0, d0) mp -> lookup s0 (map_one f (s, t)) = lookup s0 f).
    { intros s0 d0 Hin. rewrite lookup_map_one.
      assert (s0 <> s) by (intros ->; apply Hs1; eapply in_fst; exact Hin).
      assert (s0 <> t) by (intros ->; apply Ht2; eapply in_fst; exact Hin).
      destruct (lookup s f); [|reflexivity].
      destruct (str_eqb s0 s) eqn:E1; [apply str_eqb_eq in E1; contradiction|].
      destruct (str_eqb s0 t) eqn:E2; [apply str_eqb_eq in E2; contradiction|]. reflexivity. }
    rewrite (lookup_map_one f s t k').
    destruct (str_eqb k' t) eqn:Ekt.
    + (* k' is the destination of the first entry *)
      apply str_eqb_eq in Ekt. subst k'.
      assert (Ets : str_eqb t s = false) by (apply str_eqb_neq; congruence).
      rewrite Ets.
      assert (Hno : forall s0, ~ In (s0, t) mp) by (intros s0 Hin; apply Ht1; eapply in_snd; exact Hin).
      split.
      * intros [[s0 [Hin _]]|[_ [_ Hl]]]; [exfalso; eapply Hno; exact Hin|].
        destruct (lookup s f) as [v0|] eqn:Es.
        -- left. exists s. split; [left; reflexivity|]. rewrite Es. exact Hl.
        -- right. split; [|split].
           ++ intros s0 [E|Hin]; [inversion E; subst; exact Es|exfalso; eapply Hno; exact Hin].
           ++ cbn [map fst]. intros [E|Hin]; [congruence|contradiction].
           ++ exact Hl.
      * intros [[s0 [[E|Hin] Hl]]|[Hall [Hni Hl]]].
        -- inversion E; subst s0. right. split; [intros s1 Hin; exfalso; eapply Hno; exact Hin|].
           split; [exact Ht2|]. rewrite Hl. reflexivity.
        -- exfalso. eapply Hno. exact Hin.
        -- right. split; [intros s1 Hin; exfalso; eapply Hno; exact Hin|].
           split; [exact Ht2|]. rewrite (Hall s (or_introl eq_refl)). exact Hl.
    + assert (Hkt : k' <> t) by (apply str_eqb_neq; exact Ekt).
      destruct (str_eqb k' s) eqn:Eks.
      * (* k' is the source of the first entry: it is gone *)
        apply str_eqb_eq in Eks. subst k'.
        assert (Hno : forall s0, ~ In (s0, s) mp) by (intros s0 Hin; apply Hs2; eapply in_snd; exact Hin).
        split.
        -- intros [[s0 [Hin _]]|[_ [_ Hl]]]; [exfalso; eapply Hno; exact Hin|].
           destruct (lookup s f); discriminate.
        -- intros [[s0 [[E|Hin] _]]|[_ [Hni _]]].
           ++ inversion E; congruence.
           ++ exfalso. eapply Hno. exact Hin.
           ++ exfalso. apply Hni. left. reflexivity.
      * assert (Hks : k' <> s) by (apply str_eqb_neq; exact Eks).
        assert (Hl1 : match lookup s f with Some _ => lookup k' f | None => lookup k' f end = lookup k' f)
          by (destruct (lookup s f); reflexivity).
        split.
        -- intros [[s0 [Hin Hl]]|[Hall [Hni Hl]]].
           ++ left. exists s0. split; [right; exact Hin|]. rewrite <- (Hsame s0 k' Hin). exact Hl.
           ++ right. split; [|split].
              ** intros s0 [E|Hin]; [inversion E; congruence|].
                 rewrite <- (Hsame s0 k' Hin). apply Hall. exact Hin.
              ** cbn [map fst]. intros [E|Hin]; [congruence|contradiction].
              ** destruct (lookup s f); exact Hl.
        -- intros [[s0 [[E|Hin] Hl]]|[Hall [Hni Hl]]].
           ++ inversion E; congruence.
           ++ left. exists s0. split; [exact Hin|]. rewrite (Hsame s0 k' Hin). exact Hl.
           ++ right. split; [|split].
              ** intros s0 Hin. rewrite (Hsame s0 k' Hin). apply Hall. right. exact Hin.
              ** intros Hin. apply Hni. right. exact Hin.
              ** destruct (lookup s f); exact Hl.
Qed.

(* the order in which the mapping is ranged over does not matter *)
Lemma names_distinct_perm mp mp' : Permutation mp mp' -> names_distinct mp -> names_distinct mp'.
Proof.
  intros HP [H1 [H2 H3]].
  assert (P1 : Permutation (map fst mp) (map fst mp')) by (apply Permutation_map; exact HP).
  assert (P2 : Permutation (map snd mp) (map snd mp')) by (apply Permutation_map; exact HP).
  split; [eapply Permutation_NoDup; eassumption|].
  split; [eapply Permutation_NoDup; eassumption|].
  intros s Hs Hd. apply (H3 s).
  - eapply Permutation_in; [apply Permutation_sym; exact P1|exact Hs].
  - eapply Permutation_in; [apply Permutation_sym; exact P2|exact Hd].
Qed.

Theorem mapping_order_independent : forall mp mp' f,
  Permutation mp mp' -> names_distinct mp ->
  forall k', lookup k' (apply_mapping mp f) = lookup k' (apply_mapping mp' f).
Proof.
  intros mp mp' f HP Hnd k'.
  pose proof (mapping_renames mp f Hnd k') as R1.
  pose proof (mapping_renames mp' f (names_distinct_perm _ _ HP Hnd) k') as R2.
  unfold renamed_at in *.
  assert (Hin : forall x, In x mp <-> In x mp').
  { intros x. split; intros H; [eapply Permutation_in; [exact HP|exact H]|].
    eapply Permutation_in; [apply Permutation_sym; exact HP|exact H]. }
  assert (Hin1 : In k' (map fst mp) <-> In k' (map fst mp')).
  { split; intros H; (eapply Permutation_in; [|exact H]); apply Permutation_map;
      [exact HP|apply Permutation_sym; exact HP]. }
  assert (E : forall v, lookup k' (apply_mapping mp f) = Some v <->
                        lookup k' (apply_mapping mp' f) = Some v).
  { intros v. rewrite R1, R2. split.
    - intros [[s [Hi Hl]]|[Hall [Hni Hl]]].
      + left. exists s. split; [apply Hin; exact Hi|exact Hl].
      + right. split; [intros s Hi; apply Hall; apply Hin; exact Hi|].
        split; [intros Hi; apply Hni; apply Hin1; exact Hi|exact Hl].
    - intros [[s [Hi Hl]]|[Hall [Hni Hl]]].
      + left. exists s. split; [apply Hin; exact Hi|exact Hl].
      + right. split; [intros s Hi; apply Hall; apply Hin; exact Hi|].
        split; [intros Hi; apply Hni; apply Hin1; exact Hi|exact Hl]. }
  destruct (lookup k' (apply_mapping mp f)) as [v|] eqn:E1.
  - symmetry. apply E. reflexivity.
  - destruct (lookup k' (apply_mapping mp' f)) as [v'|] eqn:E2; [|reflexivity].
    pose proof (proj2 (E v') eq_refl). discriminate.
Qed.

(* two sources renamed to one destination: the outcome depends on the order in which the
   map is ranged over (outside the quantifier of C06: the names overlap) *)
Lemma mapping_collision_refuted :
  exists mp mp' f, Permutation mp mp' /\ ~ names_distinct mp /\
    lookup "c" (apply_mapping mp f) <> lookup "c" (apply_mapping mp' f).
Proof.
  exists [("a", "c"); ("b", "c")], [("b", "c"); ("a", "c")], [("a", JNum "1"); ("b", JNum "2")].
  split; [apply perm_swap|]. split.
  - intros [_ [H _]]. cbn in H. inversion H as [|? ? Hn _]. apply Hn. left. reflexivity.
  - vm_compute. discriminate.
Qed.

(* ---------- boolean forms ---------- *)
Lemma path_eqb_eq a b : path_eqb a b = true <-> a = b.
Proof. apply list_eqb_eq. intros x y. apply str_eqb_eq. Qed.

Lemma prefix_free_b_sound L : prefix_free_b L = true -> prefix_free L.
Proof.
  unfold prefix_free_b, prefix_free. intros H l1 l2 H1 H2 Hp.
  rewrite forallb_forall in H. specialize (H l1 H1). rewrite forallb_forall in H.
  specialize (H l2 H2). rewrite Hp in H. cbn in H. apply path_eqb_eq. exact H.
Qed.

Lemma prefix_free_b_complete L : prefix_free L -> prefix_free_b L = true.
Proof.
  unfold prefix_free_b, prefix_free. intros H.
  apply forallb_forall. intros l1 H1. apply forallb_forall. intros l2 H2.
  destruct (prefix l1 l2) eqn:Hp; [|reflexivity]. cbn.
  apply path_eqb_eq. apply H; assumption.
Qed.

Lemma names_distinct_b_sound mp : names_distinct_b mp = true -> names_distinct mp.
Proof.
  unfold names_distinct_b, names_distinct. intros H.
  apply andb_true_iff in H as [H H3]. apply andb_true_iff in H as [H1 H2].
  split; [apply nodup_str_NoDup; exact H1|]. split; [apply nodup_str_NoDup; exact H2|].
  intros s Hs Hd. rewrite forallb_forall in H3. specialize (H3 s Hs).
  apply negb_true_iff in H3. apply str_mem_In in Hd. congruence.
Qed.

Lemma names_distinct_b_complete mp : names_distinct mp -> names_distinct_b mp = true.
Proof.
  unfold names_distinct_b, names_distinct. intros [H1 [H2 H3]].
  apply andb_true_iff. split; [apply andb_true_iff; split; apply nodup_str_NoDup; assumption|].
  apply forallb_forall. intros s Hs. apply negb_true_iff.
  destruct (str_mem s (map snd mp)) eqn:E; [|reflexivity].
  apply str_mem_In in E. exfalso. exact (H3 s Hs E).
Qed.
