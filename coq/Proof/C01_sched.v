(* C01 - the goroutine/channel layer of parallelMerge: Common/Fanout.v instantiated with
   the messages of the merge (payloads on `parts`, errors on `failed`, both of capacity n,
   exactly n receives, no early return, no idle iteration).  Every complete schedule
   hands the accumulator a permutation of one message per backend, so the property holds
   for every schedule. *)
Require Import Verif.Common.Base Verif.Common.Fanout Verif.Model.C01 Verif.Spec.C01 Verif.Proof.C01.
From Coq Require Import Permutation.

Section Sched.
  Variable V : Type.
  (* the error a cancelled context reports (context.Canceled or DeadlineExceeded) *)
  Variable ce : ekind.

  Definition route (m : msg V) : chan := match m with MP _ => ChP | MF _ => ChF end.
  Definition never_early (_ : list (msg V)) : bool := false.

  (* parallelMerge for n backends: channels of capacity n *)
  Definition pm_step (n : nat) := step (msg V) n route (MF ce) never_early false.
  Definition pm_run (n : nat) := run (msg V) n route (MF ce) never_early false.
  (* what the proxy returns once the collector has finished *)
  Definition pm_result (s : st (msg V)) : result V :=
    merge_run (List.length (ws _ s)) (got _ s).

  Definition outcome_of_msg (m : msg V) : outcome V :=
    match m with MP r => OPayload (complete r) (data r) | MF e => OErr e end.

  Lemma msg_of_outcome_of_msg m : msg_of (outcome_of_msg m) = m.
  Proof. destruct m as [[d c]|e]; reflexivity. Qed.

  Definition fin_ok (s : st (msg V)) : Prop :=
    fin _ s = true -> iters _ s = List.length (ws _ s).

  Lemma step_fin_ok n s l s' : fin_ok s -> pm_step n s l = Some s' -> fin_ok s'.
  Proof.
    unfold fin_ok, pm_step. intros Hs H.
    destruct l as [i m|i|i|c| | |]; simpl in H.
    - destruct (nth_error (ws _ s) i) as [[| |]|]; try discriminate.
      inversion H; subst; simpl. rewrite upd_length. exact Hs.
    - destruct (nth_error (ws _ s) i) as [[|m|]|]; try discriminate.
      destruct (route m).
      + destruct (Nat.ltb (List.length (qp _ s)) n); try discriminate. inversion H; subst; simpl.
        rewrite upd_length. exact Hs.
      + destruct (Nat.ltb (List.length (qf _ s)) n); try discriminate. inversion H; subst; simpl.
        rewrite upd_length. exact Hs.
    - destruct (nth_error (ws _ s) i) as [[|m|]|]; try discriminate.
      destruct (route m); try discriminate.
      destruct (cancelled _ s && (Nat.ltb (List.length (qf _ s)) n)); try discriminate.
      inversion H; subst; simpl. rewrite upd_length. exact Hs.
    - destruct (collecting _ never_early s) eqn:C; try discriminate.
      unfold collecting in C. apply andb_true_iff in C as [C _]. apply andb_true_iff in C as [C _].
      apply negb_true_iff in C.
      destruct c.
      + destruct (qp _ s); try discriminate. inversion H; subst; simpl. congruence.
      + destruct (qf _ s); try discriminate. inversion H; subst; simpl. congruence.
    - discriminate.
    - destruct (cancelled _ s); try discriminate. inversion H; subst; simpl. exact Hs.
    - destruct (negb (fin _ s) && ((Nat.eqb (iters _ s) (List.length (ws _ s))) || never_early (got _ s))) eqn:C;
        try discriminate.
      inversion H; subst; simpl. intros _.
      apply andb_true_iff in C as [_ C]. unfold never_early in C. rewrite orb_false_r in C.
      apply Nat.eqb_eq in C. exact C.
  Qed.

  Lemma run_fin_ok n ls : forall s s', fin_ok s -> pm_run n s ls = Some s' -> fin_ok s'.
  Proof.
    unfold pm_run. induction ls as [|l ls IH]; simpl; intros s s' Hs H.
    - inversion H; subst; exact Hs.
    - destruct (step (msg V) n route (MF ce) never_early false s l) as [s0|] eqn:E; try discriminate.
      apply (IH s0 s'); auto. eapply step_fin_ok; eauto.
  Qed.

  Lemma all_sent_outs (P : msg V -> msg V -> Prop) (w : list (wst (msg V))) :
    Forall (fun x => exists r d, x = Sent r d /\ P r d) w ->
    Forall2 (fun x o => exists r, x = Sent r (msg_of o) /\ P r (msg_of o))
            w (map outcome_of_msg (delivered _ w)).
  Proof.
    induction 1 as [|x w Hx Hw IH]; simpl; [constructor|].
    destruct Hx as (r & d & -> & HP). unfold delivered in *. simpl.
    constructor; [|exact IH]. exists r. rewrite msg_of_outcome_of_msg. auto.
  Qed.

  (* every schedule of the goroutines that lets parallelMerge return *)
  Theorem every_schedule n sched s :
    2 <= n -> pm_run n (init _ n) sched = Some s -> fin _ s = true ->
    exists outs : list (outcome V),
      List.length outs = n /\
      (* backend i returned r_i; its goroutine delivered exactly one message: r_i itself,
         or the context error instead of a payload once the context was cancelled *)
      Forall2 (fun w o => exists r, w = Sent r (msg_of o) /\
                 (msg_of o = r \/ (msg_of o = MF ce /\ route r = ChP))) (ws _ s) outs /\
      (* the collector dequeued those n messages, in some order *)
      Permutation (got _ s) (map msg_of outs) /\
      (* and what the proxy returns satisfies the property for these outcomes *)
      merge_spec eq outs (pm_result s).
  Proof.
    intros Hn Hr Hf.
    assert (Hfo : fin_ok s).
    { apply (run_fin_ok n sched (init _ n) s); auto. unfold fin_ok. simpl. discriminate. }
    pose proof (reachable_inv _ _ _ _ _ _ n sched s Hr) as (Hlen & _ & _ & _ & _ & Hid).
    assert (Hg : List.length (got _ s) = n) by (rewrite (Hid eq_refl), (Hfo Hf); exact Hlen).
    destruct (full_collection _ _ _ _ _ _ n sched s Hr Hg) as (Hperm & _ & _ & Hall).
    set (outs := map outcome_of_msg (delivered _ (ws _ s))).
    assert (Hmm : map msg_of outs = delivered _ (ws _ s)).
    { unfold outs. rewrite map_map. rewrite <- (map_id (delivered _ (ws _ s))) at 2.
      apply map_ext. intros m. apply msg_of_outcome_of_msg. }
    assert (Hlo : List.length outs = n).
    { unfold outs. rewrite map_length. rewrite <- (Permutation_length Hperm). exact Hg. }
    exists outs. split; [exact Hlo|]. split; [|split].
    - apply (all_sent_outs (fun r d => d = r \/ (d = MF ce /\ route r = ChP))). exact Hall.
    - rewrite Hmm. exact Hperm.
    - unfold pm_result. rewrite Hlen, <- Hlo. apply merge_spec_all_orders.
      + rewrite Hmm. exact Hperm.
      + lia.
  Qed.

  (* F1 for parallelMerge: channels of capacity n never block a sender *)
  Theorem no_blocked_sender_pm n sched s i m :
    pm_run n (init _ n) sched = Some s -> nth_error (ws _ s) i = Some (Ret m) ->
    pm_step n s (LSend i) <> None.
  Proof. intros Hr Hi. apply (no_blocked_sender _ _ _ _ _ _ n sched s i m (le_n n) Hr Hi). Qed.

  (* with a smaller capacity a sender can block: the reachable state after two backends
     returned failures and one of them has been sent, capacity 1 *)
  Lemma blocked_with_smaller_cap (e1 e2 : ekind) :
    exists sched s,
      run (msg V) 1 route (MF ce) never_early false (init _ 2) sched = Some s /\
      nth_error (ws _ s) 1 = Some (Ret (MF e2)) /\
      step (msg V) 1 route (MF ce) never_early false s (LSend 1) = None.
  Proof.
    exists [LReturn 0 (MF e1); LReturn 1 (MF e2); LSend 0]. eexists. split; [reflexivity|].
    split; reflexivity.
  Qed.
  (* ---- a timeout / cancellation that fires once every goroutine has delivered ---- *)
  Definition is_sent (w : wst (msg V)) : bool := match w with Sent _ _ => true | _ => false end.
  Definition all_sent (s : st (msg V)) : Prop := forallb is_sent (ws _ s) = true.
  Definition not_timeout (l : label (msg V)) : bool := match l with LTimeout => false | _ => true end.

  (* equal up to the `cancelled` flag *)
  Definition sim (a b : st (msg V)) : Prop :=
    ws _ a = ws _ b /\ qp _ a = qp _ b /\ qf _ a = qf _ b /\ got _ a = got _ b /\
    iters _ a = iters _ b /\ fin _ a = fin _ b.

  Lemma sent_nth w i x : forallb is_sent w = true -> nth_error w i = Some x -> is_sent x = true.
  Proof.
    intros H E. rewrite forallb_forall in H. apply H. eapply nth_error_In; eauto.
  Qed.

  (* once every goroutine has sent, a step other than the timeout does not look at the
     cancellation flag, and the timeout changes nothing but that flag *)
  Lemma step_sim n a b l a' :
    all_sent a -> sim a b -> pm_step n a l = Some a' ->
    all_sent a' /\
    if not_timeout l then exists b', pm_step n b l = Some b' /\ sim a' b' else sim a' b.
  Proof.
    unfold all_sent, sim, pm_step. intros Hs Hsim H.
    destruct a as [wa qpa qfa ga ia fa ca], b as [wb qpb qfb gb ib fb cb]. simpl in *.
    destruct Hsim as (E1 & E2 & E3 & E4 & E5 & E6). subst wb qpb qfb gb ib fb.
    destruct l as [i m|i|i|c| | |]; simpl in H |- *.
    - destruct (nth_error wa i) as [w|] eqn:E; [|discriminate].
      pose proof (sent_nth _ _ _ Hs E) as Hw. destruct w; simpl in Hw; discriminate.
    - destruct (nth_error wa i) as [w|] eqn:E; [|discriminate].
      pose proof (sent_nth _ _ _ Hs E) as Hw. destruct w; simpl in Hw; discriminate.
    - destruct (nth_error wa i) as [w|] eqn:E; [|discriminate].
      pose proof (sent_nth _ _ _ Hs E) as Hw. destruct w; simpl in Hw; discriminate.
    - unfold collecting in *. simpl in *.
      match type of H with (if ?cnd then _ else _) = _ => destruct cnd end; [|discriminate].
      destruct c.
      + destruct qpa as [|m r]; [discriminate|]. inversion H; subst; simpl.
        split; [exact Hs|]. eexists. split; [reflexivity|]. simpl. repeat split; reflexivity.
      + destruct qfa as [|m r]; [discriminate|]. inversion H; subst; simpl.
        split; [exact Hs|]. eexists. split; [reflexivity|]. simpl. repeat split; reflexivity.
    - discriminate.
    - destruct ca; [discriminate|]. inversion H; subst; simpl.
      split; [exact Hs|]. repeat split; reflexivity.
    - match type of H with (if ?cnd then _ else _) = _ => destruct cnd end; [|discriminate].
      inversion H; subst; simpl.
      split; [exact Hs|]. eexists. split; [reflexivity|]. simpl. repeat split; reflexivity.
  Qed.

  Lemma run_sim n ls : forall a b a',
    all_sent a -> sim a b -> pm_run n a ls = Some a' ->
    exists b', pm_run n b (filter not_timeout ls) = Some b' /\ sim a' b'.
  Proof.
    unfold pm_run. induction ls as [|l ls IH]; simpl; intros a b a' Hs Hsim H.
    - inversion H; subst. exists b. auto.
    - destruct (step (msg V) n route (MF ce) never_early false a l) as [a0|] eqn:E; [|discriminate].
      destruct (step_sim n a b l a0 Hs Hsim E) as [Hs0 Hl].
      destruct (not_timeout l).
      + destruct Hl as [b0 [Eb Hsim0]]. simpl. unfold pm_step in Eb. rewrite Eb.
        apply (IH a0 b0 a' Hs0 Hsim0 H).
      + apply (IH a0 b a' Hs0 Hl H).
  Qed.

  Lemma sim_refl a : sim a a.
  Proof. unfold sim. repeat split; reflexivity. Qed.

  (* From a state in which every goroutine has delivered its message, what parallelMerge
     returns does not depend on whether, where or how often the context is cancelled / its
     deadline fires in the rest of the schedule: the schedule with those events removed
     runs too, receives the same messages in the same order and returns the same result. *)
  Theorem timeout_after_sends_irrelevant n s ls s' :
    all_sent s -> pm_run n s ls = Some s' ->
    exists s'', pm_run n s (filter not_timeout ls) = Some s'' /\
      got _ s'' = got _ s' /\ ws _ s'' = ws _ s' /\ fin _ s'' = fin _ s' /\
      pm_result s'' = pm_result s'.
  Proof.
    intros Hs H. destruct (run_sim n ls s s s' Hs (sim_refl s) H) as [b [Hb (E1 & E2 & E3 & E4 & E5 & E6)]].
    exists b. split; [exact Hb|]. unfold pm_result. rewrite <- E1, <- E4, <- E6. repeat split; reflexivity.
  Qed.
  (* requestPart is the worker of the Fanout model: the message it delivers is the one of
     LSend (its own result) or, for a payload once the context is done, the one of LSendC *)
  Lemma request_part_worker (ret : backend_return V) (choice : option ekind) :
    let own := request_part ret None in
    request_part ret choice = own \/
    (choice = Some ce -> request_part ret choice = MF ce /\ route own = ChP).
  Proof.
    destruct ret as [[r|] [e|]], choice as [c|]; simpl; auto.
    right. intros H. inversion H; subst. auto.
  Qed.
End Sched.
