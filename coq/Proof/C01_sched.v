(* C01 - the goroutine/channel layer of parallelMerge: Common/Fanout.v instantiated with
   the messages of the merge (payloads on `parts`, errors on `failed`, both of capacity n,
   exactly n receives, no early return, no idle iteration).  Every complete schedule
   hands the accumulator a permutation of one message per backend, so the property holds
   for every schedule. *)
Require Import Verif.Common.Base Verif.Common.Fanout Verif.Model.C01 Verif.Spec.C01 Verif.Proof.C01.
From Coq Require Import Permutation.

Section Sched.
  Variable V : Type.
  (* the error a cancelled context reports (context.Canceled or DeadlineExceeded) *)
  Variable ce : ekind.

  Definition route (m : msg V) : chan := match m with MP _ => ChP | MF _ => ChF end.
  Definition never_early (_ : list (msg V)) : bool := false.

  (* parallelMerge for n backends: channels of capacity n *)
  Definition pm_step (n : nat) := step (msg V) n route (MF ce) never_early false.
  Definition pm_run (n : nat) := run (msg V) n route (MF ce) never_early false.
  (* what the proxy returns once the collector has finished *)
  Definition pm_result (s : st (msg V)) : result V :=
    merge_run (List.length (ws _ s)) (got _ s).

  Definition outcome_of_msg (m : msg V) : outcome V :=
    match m with MP r => OPayload (complete r) (data r) | MF e => OErr e end.

  Lemma msg_of_outcome_of_msg m : msg_of (outcome_of_msg m) = m.
  Proof. destruct m as [[d c]|e]; reflexivity. Qed.

  Definition fin_ok (s : st (msg V)) : Prop :=
    fin _ s = true -> iters _ s = List.length (ws _ s).

  Lemma step_fin_ok n s l s' : fin_ok s -> pm_step n s l = Some s' -> fin_ok s'.
  Proof.
    unfold fin_ok, pm_step. intros Hs H.
    destruct l as [i m|i|i|c| | |]; simpl in H.
    - destruct (nth_error (ws _ s) i) as [[| |]|]; try discriminate.
      inversion H; subst; simpl. rewrite upd_length. exact Hs.
    - destruct (nth_error (ws _ s) i) as [[|m|]|]; try discriminate.
      destruct (route m).
      + destruct (Nat.ltb (List.length (qp _ s)) n); try discriminate. inversion H; subst; simpl.
        rewrite upd_length. exact Hs.
      + destruct (Nat.ltb (List.length (qf _ s)) n); try discriminate. inversion H; subst; simpl.
        rewrite upd_length. exact Hs.
    - destruct (nth_error (ws _ s) i) as [[|m|]|]; try discriminate.
      destruct (route m); try discriminate.
      destruct (cancelled _ s && (Nat.ltb (List.length (qf _ s)) n)); try discriminate.
      inversion H; subst; simpl. rewrite upd_length. exact Hs.
    - destruct (collecting _ never_early s) eqn:C; try discriminate.
      unfold collecting in C. apply andb_true_iff in C as [C _]. apply andb_true_iff in C as [C _].
      apply negb_true_iff in C.
      destruct c.
      + destruct (qp _ s); try discriminate. inversion H; subst; simpl. congruence.
      + destruct (qf _ s); try discriminate. inversion H; subst; simpl. congruence.
    - discriminate.
    - destruct (cancelled _ s); try discriminate. inversion H; subst; simpl. exact Hs.
    - destruct (negb (fin _ s) && ((Nat.eqb (iters _ s) (List.length (ws _ s))) || never_early (got _ s))) eqn:C;
        try discriminate.
      inversion H; subst; simpl. intros _.
      apply andb_true_iff in C as [_ C]. unfold never_early in C. rewrite orb_false_r in C.
      apply Nat.eqb_eq in C. exact C.
  Qed.

  Lemma run_fin_ok n ls : forall s s', fin_ok s -> pm_run n s ls = Some s' -> fin_ok s'.
  Proof.
    unfold pm_run. induction ls as [|l ls IH]; simpl; intros s s' Hs H.
    - inversion H; subst; exact Hs.
    - destruct (step (msg V) n route (MF ce) never_early false s l) as [s0|] eqn:E; try discriminate.
      apply (IH s0 s'); auto. eapply step_fin_ok; eauto.
  Qed.

  Lemma all_sent_outs (P : msg V -> msg V -> Prop) (w : list (wst (msg V))) :
    Forall (fun x => exists r d, x = Sent r d /\ P r d) w ->
    Forall2 (fun x o => exists r, x = Sent r (msg_of o) /\ P r (msg_of o))
            w (map outcome_of_msg (delivered _ w)).
  Proof.
    induction 1 as [|x w Hx Hw IH]; simpl; [constructor|].
    destruct Hx as (r & d & -> & HP). unfold delivered in *. simpl.
    constructor; [|exact IH]. exists r. rewrite msg_of_outcome_of_msg. auto.
  Qed.

  (* every schedule of the goroutines that lets parallelMerge return *)
  Theorem every_schedule n sched s :
    2 <= n -> pm_run n (init _ n) sched = Some s -> fin _ s = true ->
    exists outs : list (outcome V),
      List.length outs = n /\
      (* backend i returned r_i; its goroutine delivered exactly one message: r_i itself,
         or the context error instead of a payload once the context was cancelled *)
      Forall2 (fun w o => exists r, w = Sent r (msg_of o) /\
                 (msg_of o = r \/ (msg_of o = MF ce /\ route r = ChP))) (ws _ s) outs /\
      (* the collector dequeued those n messages, in some order *)
      Permutation (got _ s) (map msg_of outs) /\
      (* and what the proxy returns satisfies the property for these outcomes *)
      merge_spec eq outs (pm_result s).
  Proof.
    intros Hn Hr Hf.
    assert (Hfo : fin_ok s).
    { apply (run_fin_ok n sched (init _ n) s); auto. unfold fin_ok. simpl. discriminate. }
    pose proof (reachable_inv _ _ _ _ _ _ n sched s Hr) as (Hlen & _ & _ & _ & _ & Hid).
    assert (Hg : List.length (got _ s) = n) by (rewrite (Hid eq_refl), (Hfo Hf); exact Hlen).
    destruct (full_collection _ _ _ _ _ _ n sched s Hr Hg) as (Hperm & _ & _ & Hall).
    set (outs := map outcome_of_msg (delivered _ (ws _ s))).
    assert (Hmm : map msg_of outs = delivered _ (ws _ s)).
    { unfold outs. rewrite map_map. rewrite <- (map_id (delivered _ (ws _ s))) at 2.
      apply map_ext. intros m. apply msg_of_outcome_of_msg. }
    assert (Hlo : List.length outs = n).
    { unfold outs. rewrite map_length. rewrite <- (Permutation_length Hperm). exact Hg. }
    exists outs. split; [exact Hlo|]. split; [|split].
    - apply (all_sent_outs (fun r d => d = r \/ (d = MF ce /\ route r = ChP))). exact Hall.
    - rewrite Hmm. exact Hperm.
    - unfold pm_result. rewrite Hlen, <- Hlo. apply merge_spec_all_orders.
      + rewrite Hmm. exact Hperm.
      + lia.
  Qed.

  (* F1 for parallelMerge: channels of capacity n never block a sender *)
  Theorem no_blocked_sender_pm n sched s i m :
    pm_run n (init _ n) sched = Some s -> nth_error (ws _ s) i = Some (Ret m) ->
    pm_step n s (LSend i) <> None.
  Proof. intros Hr Hi. apply (no_blocked_sender _ _ _ _ _ _ n sched s i m (le_n n) Hr Hi). Qed.

  (* with a smaller capacity a sender can block: the reachable state after two backends
     returned failures and one of them has been sent, capacity 1 *)
  Lemma blocked_with_smaller_cap (e1 e2 : ekind) :
    exists sched s,
      run (msg V) 1 route (MF ce) never_early false (init _ 2) sched = Some s /\
      nth_error (ws _ s) 1 = Some (Ret (MF e2)) /\
      step (msg V) 1 route (MF ce) never_early false s (LSend 1) = None.
  Proof.
    exists [LReturn 0 (MF e1); LReturn 1 (MF e2); LSend 0]. eexists. split; [reflexivity|].
    split; reflexivity.
  Qed.
End Sched.
