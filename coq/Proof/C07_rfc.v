(* C07 - the escaper against a declarative reading of JSON strings (RFC 8259, section 7):
   [denotes t s] says that the text t between the quotes of a JSON string stands for the byte
   string s.  What the escaper writes denotes the (sanitized) string. *)
Require Import Verif.Common.Base.
Require Import Verif.Model.C07 Verif.Spec.C07 Verif.Proof.C07_bytes Verif.Proof.C07_codec.

Local Open Scope N_scope.

Definition hexstep (a : option N) (c : N) : option N :=
  match a, hexval c with Some x, Some d => Some (x * 16 + d) | _, _ => None end.
Definition hexacc (ds : list N) : option N := fold_left hexstep ds (Some 0).

Definition pending (st : dstate) (t o : list N) : Prop :=
  match st with
  | DNormal => denotes t o
  | DEsc => denotes (92 :: t) o
  | DHex n acc => (n <= 3)%nat -> forall ds, List.length ds = n -> hexacc ds = Some acc ->
                  denotes (92 :: 117 :: ds ++ t)%list o
  end.

Lemma hexacc_snoc ds c acc d :
  hexacc ds = Some acc -> hexval c = Some d -> hexacc (ds ++ [c]) = Some (acc * 16 + d).
Proof.
  unfold hexacc. intros H Hc. rewrite fold_left_app, H. simpl. unfold hexstep. rewrite Hc. reflexivity.
Qed.

Lemma hexacc3 h1 h2 h3 acc c d :
  hexacc [h1; h2; h3] = Some acc -> hexval c = Some d -> hex4 h1 h2 h3 c = Some (acc * 16 + d).
Proof.
  unfold hexacc, hex4, hexstep. simpl.
  destruct (hexval h1) as [a|]; destruct (hexval h2) as [b|]; destruct (hexval h3) as [e|];
    intros H Hc; try discriminate.
  inversion H; subst. rewrite Hc. reflexivity.
Qed.

Lemma drun_sound : forall t st o, drun st t = Some (DNormal, o) -> pending st t o.
Proof.
  induction t as [|c r IH]; intros st o H.
  - simpl in H. inversion H; subst. constructor.
  - simpl in H.
    destruct (dstep st c) as [[st' o1]|] eqn:Es; [|discriminate].
    destruct (drun st' r) as [[st'' o2]|] eqn:Er; [|discriminate].
    inversion H; subst st'' o. clear H.
    specialize (IH st' o2 Er).
    destruct st as [| |n acc]; simpl in Es.
    + (* normal *)
      destruct (N.eqb_spec c 92) as [->|Hn92].
      * inversion Es; subst. simpl in *. exact IH.
      * destruct (N.eqb_spec c 34) as [->|Hn34]; [discriminate|].
        destruct (N.ltb_spec c 32); [discriminate|]. simpl in Es.
        inversion Es; subst. simpl in *. apply D_char; assumption.
    + (* after a backslash *)
      destruct (N.eqb_spec c 117) as [->|Hnu].
      * inversion Es; subst. simpl in *.
        apply (IH (le_S _ _ (le_S _ _ (le_S _ _ (le_n 0)))) [] eq_refl eq_refl).
      * destruct (simple_esc c) as [b|] eqn:Eb; [|discriminate].
        inversion Es; subst. simpl in *. apply D_simple; assumption.
    + (* inside \uXXXX *)
      destruct (hexval c) as [d|] eqn:Ec; [|discriminate].
      intros Hn ds Hlen Hacc.
      destruct (Nat.eqb n 3) eqn:E3.
      * apply Nat.eqb_eq in E3. subst n.
        destruct (utf8_enc (acc * 16 + d)) as [u|] eqn:Eu; [|discriminate].
        inversion Es; subst. simpl in IH.
        destruct ds as [|h1 [|h2 [|h3 [|]]]]; try discriminate.
        simpl. apply (D_u h1 h2 h3 c (acc * 16 + d)); [apply hexacc3; assumption|assumption|assumption].
      * apply Nat.eqb_neq in E3. inversion Es; subst st' o1. simpl in *.
        assert (Hn' : (S n <= 3)%nat) by lia.
        specialize (IH Hn' (ds ++ [c])%list).
        rewrite app_length in IH. simpl in IH.
        rewrite <- app_assoc in IH. simpl in IH.
        apply IH; [lia|apply hexacc_snoc; assumption].
Qed.

Lemma unescape_sound t s : unescape_bytes t = Some s -> denotes t s.
Proof.
  unfold unescape_bytes. destruct (drun DNormal t) as [[[| |] o]|] eqn:E; try discriminate.
  intros H; inversion H; subst. apply (drun_sound t DNormal s E).
Qed.

(* what the escaper writes for ANY byte string stands for the sanitized string *)
Lemma escape_denotes l : denotes (escape_bytes l) (sanitize_from l 0).
Proof. apply unescape_sound. apply codec_roundtrip. Qed.

(* ... hence for the string itself whenever it is valid UTF-8 *)
Lemma escape_denotes_valid l : valid_from l 0 = true -> denotes (escape_bytes l) l.
Proof. intros H. apply unescape_sound. apply codec_roundtrip_valid. exact H. Qed.

(* the reading is unambiguous: a text stands for at most one string *)
Lemma denotes_fun t : forall s1 s2, denotes t s1 -> denotes t s2 -> s1 = s2.
Proof.
  assert (G : forall n t, (List.length t <= n)%nat -> forall s1 s2, denotes t s1 -> denotes t s2 -> s1 = s2).
  { induction n as [|n IH]; intros t0 Hl s1 s2 H1 H2.
    - destruct t0; [|simpl in Hl; lia]. inversion H1; inversion H2; reflexivity.
    - inversion H1; subst.
      + inversion H2; reflexivity.
      + inversion H2; subst; try congruence. f_equal. apply (IH t1); [simpl in Hl; lia|assumption|assumption].
      + inversion H2; subst; try congruence.
        * assert (b = b0) by congruence. subst. f_equal. apply (IH t1); [simpl in Hl; lia|assumption|assumption].
        * simpl in H. discriminate.
      + inversion H2; subst; try congruence.
        * simpl in H8. discriminate.
        * assert (cp = cp0) by congruence. subst. assert (o = o0) by congruence. subst.
          f_equal. apply (IH t1); [simpl in Hl; lia|assumption|assumption]. }
  intros s1 s2. apply (G (List.length t) t (le_n _)).
Qed.
